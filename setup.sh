#!/bin/bash
# Offline build of the whole Coq development: regenerate coq/Gen/* from /repo's working tree,
# then a full .vo build (never -vos/-vok).
set -e
cd "$(dirname "$0")"
export PYTHONPATH=/verif/harness PYTHONHASHSEED=0 TZ=UTC
/venv/bin/python -W ignore harness/setup.py 2> >(grep -v condarc >&2)
