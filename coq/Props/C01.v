(* C01 -- Every dataset view denotes the same interactions under a stable ID-number map.
   Property theorems only; each is closed by `exact <lemma>` and followed by Print Assumptions.

   Reading the model (Model/C01_dataset.v): `final s ar ops` is the DatasetBuilder state after the
   operation list `ops` (add_entities / add_interactions with the insert, filter, error policies /
   filter_interactions / clear_relationships; failing operations are kept in the list, with whatever
   they had already changed); `build` is DatasetBuilder.build() + MatrixRelationshipSet.__init__ (sort by
   (user number, item number), value_counts -> row sizes shifted by one -> cumulative sum).  Identifiers
   are integers (order-isomorphic image of the real identifiers); an attribute value is `Some z` or `None`
   (missing: Arrow null / NaN / NaT), a batch names the attribute columns it carries, time bounds are
   rationals.  `s_run` is the same operation list
   read on identifiers only -- no numbers anywhere -- and `k_recs` of it are the surviving input records.
   `dec_with d g r` = (user id, item id, g r) of the stored record r under the built vocabularies.

   Property text -> theorem:
   * "identifiers correspond one-to-one with the contiguous numbers 0..n-1"       -> vocab_bijection
   * "ascending identifier order for a one-shot build"                              -> one_shot_ascending
   * "numbers already assigned never change when more entities or records are added" -> numbers_stable
   * row pointers (state anchor)                                                    -> row_ptrs_correct
   * "every view ... denotes exactly the same set of (user, item, attribute values) as the input; no
      record is lost, duplicated, or attached to a different user or item"          -> views_denote_input,
                                                                                       no_repeated_pair_built
   * "identifiers unknown to the dataset are reported as unknown"                   -> unknown_reported,
                                                                                       outcomes_match_reading
   * "entities without interactions appear as empty rows or columns with zero counts" -> inactive_empty
   * "repeats are rejected when the dataset is built"                               -> repeats_rejected
   * Arrow's sort is a contract; the model's sort is proved                         -> sort_contract
   * "no record is lost": a batch contributes exactly its rows with known identifiers, whatever their
     attribute values (missing or not)                                              -> batch_keeps_known_rows
   * filter_interactions(min_time <= t < max_time), rational bounds, missing times   -> time_window_exact
   * "per-user/per-item statistics": record count and rating count by presence       -> stats_counts
   * "(user, item, attribute values)": every attribute COLUMN of the input is carried by the stored table,
     by the table with original ids and by a table restricted to it, whatever the column is called
     (over Gen/C01_columns.v, regenerated from builder.py / relationships.py / schema.py) -> views_carry_every_attribute
   Not theorems (correspondence only): the SciPy/PyTorch constructors, the group_by statistics other
   than the counts (mean, first/last time), Arrow's join/unique/value_counts kernels themselves. *)
From Coq Require Import ZArith QArith Qround List Bool Arith Sorting.Sorted Sorting.Permutation.
From LK Require Import Model.C01_dataset Proofs.C01_vocab Proofs.C01_sort Proofs.C01_rowptr Proofs.C01_refine1
  Proofs.C01_refine2 Proofs.C01_views Proofs.C01_main Proofs.C01_attrs Gen.C01_columns Proofs.C01_columns.
Import ListNotations.
Open Scope Z_scope.

(* after ANY operation list both vocabularies are duplicate-free, hence id <-> number is a bijection
   between the known identifiers and 0..n-1, and anything else resolves to None *)
Theorem vocab_bijection : forall s ar ops,
  let st := final s ar ops in
  NoDup (U st) /\ NoDup (I st) /\
  forall v, (v = U st \/ v = I st) ->
    (forall x, In x v -> exists n, index_of x v = Some n /\ (n < length v)%nat /\ term v n = x) /\
    (forall n, (n < length v)%nat -> In (term v n) v /\ index_of (term v n) v = Some n) /\
    (forall x, ~ In x v -> index_of x v = None).
Proof. exact vocab_bijection_main. Qed.
Print Assumptions vocab_bijection.

(* a class populated by one call -- add_entities, or the insert policy of add_interactions (which is
   what from_interactions_df does) -- is numbered in strictly ascending identifier order; more
   generally every later increment is itself ascending (add_entities_ok) *)
Theorem one_shot_ascending :
  (forall new pol v, add_entities None new pol = Ok (Some v) -> StronglySorted Z.lt v) /\
  (forall ids v nums, link_class None ids MInsert = Ok (Some v, nums) -> StronglySorted Z.lt v).
Proof. exact (conj one_shot_ascending_l link_one_shot). Qed.
Print Assumptions one_shot_ascending.

Theorem numbers_stable : forall s ar ops1 ops2,
  prefix (U (final s ar ops1)) (U (final s ar (ops1 ++ ops2))) /\
  prefix (I (final s ar ops1)) (I (final s ar (ops1 ++ ops2))) /\
  (forall a b x n, prefix a b -> index_of x a = Some n -> index_of x b = Some n).
Proof. exact numbers_stable_main. Qed.
Print Assumptions numbers_stable.

Theorem row_ptrs_correct : forall n tbl,
  StronglySorted (by_key r_u) tbl -> (forall r, In r tbl -> (r_u r < n)%nat) ->
  let p := row_ptrs n tbl in
  length p = S n /\ nth 0 p 0%nat = 0%nat /\ nth n p 0%nat = length tbl /\
  (forall r, (r < n)%nat -> (nth r p 0 <= nth (S r) p 0)%nat) /\
  (forall r, (r < n)%nat -> slice tbl (nth r p 0%nat) (nth (S r) p 0%nat) = filter (fun x => Nat.eqb (r_u x) r) tbl).
Proof. exact row_ptrs_correct_l. Qed.
Print Assumptions row_ptrs_correct.

(* the record table by numbers and by ids, the per-user rows, CSR and COO with any value field, and
   the CSR walk over all attributes all decode to ONE list, which is a permutation of the surviving input *)
Theorem views_denote_input : forall s ar ops d,
  build (final s ar ops) = Ok d ->
  let spec := k_recs (s_run s (s_init ar) ops) in
  Permutation spec (map (dec_with d r_a) (d_tbl d)) /\
  view_table_ids d = map (dec_with d r_a) (d_tbl d) /\
  den_table d (view_table d) = map (dec_with d r_a) (d_tbl d) /\
  den_user_rows d = map (dec_with d r_a) (d_tbl d) /\
  (forall f, let '(p, c, x) := view_csr d f in den_csr d p c x = map (dec_with d (value_of f)) (d_tbl d)) /\
  (forall f, let '(r, c, x) := view_coo d f in den_coo d r c x = map (dec_with d (value_of f)) (d_tbl d)) /\
  den_csr d (d_ptrs d) (map r_i (d_tbl d)) (map r_a (d_tbl d)) = map (dec_with d r_a) (d_tbl d) /\
  view_nnz d = length spec.
Proof. exact views_denote_input_l. Qed.
Print Assumptions views_denote_input.

(* the built table holds no (user, item) pair twice *)
Theorem no_repeated_pair_built : forall s ar ops d,
  build (final s ar ops) = Ok d -> NoDup (map fst (d_tbl d)).
Proof. exact no_repeated_pair_built_l. Qed.
Print Assumptions no_repeated_pair_built.

(* every operation raises exactly when its identifier-level reading says so (unknown ids under "error",
   duplicates, forbidden re-inserts, repeated pairs, missing tables), for every operation list *)
Theorem outcomes_match_reading : forall s ar ops,
  map fst (snd (run s (init_state ar) ops)) = s_errs s (s_init ar) ops.
Proof. exact outcomes_match_reading_l. Qed.
Print Assumptions outcomes_match_reading.

Theorem unknown_reported :
  (forall v x, resolve v x = None <-> ~ In x v) /\
  (forall d u, view_user_row d u = None <-> ~ In u (d_users d)) /\
  (forall t ids, (exists e, link_class (Some t) ids MError = Err e) <-> exists x, In x ids /\ ~ In x t) /\
  (forall t ids v nums, link_class (Some t) ids MFilter = Ok (v, nums) -> v = Some t /\ nums = map (resolve t) ids).
Proof. exact unknown_reported_l. Qed.
Print Assumptions unknown_reported.

Theorem inactive_empty : forall s ar ops d,
  build (final s ar ops) = Ok d ->
  (forall u, In u (d_users d) -> (forall r, In r (k_recs (s_run s (s_init ar) ops)) -> uid_of r <> u) ->
     view_user_row d u = Some [] /\
     exists n, index_of u (d_users d) = Some n /\ st_records (stats_of s User d n) = 0%nat /\
               st_other (stats_of s User d n) = 0%nat /\ nth n (d_ptrs d) 0%nat = nth (S n) (d_ptrs d) 0%nat) /\
  (forall i, In i (d_items d) -> (forall r, In r (k_recs (s_run s (s_init ar) ops)) -> iid_of r <> i) ->
     exists n, index_of i (d_items d) = Some n /\ st_records (stats_of s Item d n) = 0%nat /\
               st_other (stats_of s Item d n) = 0%nat /\ ~ In n (map r_i (d_tbl d))).
Proof. exact inactive_empty_l. Qed.
Print Assumptions inactive_empty.

Theorem repeats_rejected :
  (forall s st rows cols p us unums is_ inums,
     b_repeats st = RForbidden ->
     link_class (b_users st) (map uid_of rows) p = Ok (us, unums) ->
     link_class (b_items st) (map iid_of rows) p = Ok (is_, inums) ->
     ~ NoDup (map fst (b_table st ++ zip_recs unums inums rows)) ->
     snd (step s st (AddInteractions rows cols p)) = Some EData /\
     b_table (fst (step s st (AddInteractions rows cols p))) = b_table st) /\
  (forall st, b_repeats st = RPresent -> build st = Err ENotImpl).
Proof. exact repeats_rejected_l. Qed.
Print Assumptions repeats_rejected.

Theorem sort_contract : forall l, StronglySorted rle (sort_recs l) /\ Permutation l (sort_recs l).
Proof. exact sort_contract_l. Qed.
Print Assumptions sort_contract.

(* the records a batch contributes (under any policy that lets it through) are exactly its rows whose user
   and item identifiers are known, in order, attribute lists untouched -- whatever the attribute values
   are, missing ones included: the only mask is the validity of the two resolved numbers *)
Theorem batch_keeps_known_rows : forall users items rows,
  map (dec users items) (zip_recs (map (resolve users) (map uid_of rows)) (map (resolve items) (map iid_of rows)) rows)
  = filter (fun r => known users (uid_of r) && known items (iid_of r)) rows.
Proof. exact (fun u i rows => proj1 (zip_recs_dec u i rows)). Qed.
Print Assumptions batch_keeps_known_rows.

(* the time window of filter_interactions on an integer timestamp with rational bounds: kept iff
   min_time <= t < max_time in Q; equivalently the bounds are rounded UP to integers (truncating a bound
   keeps / loses the records at its floor: second part); a record without timestamp is outside every
   window, and without bounds everything is kept *)
Theorem time_window_exact :
  (forall lo hi z, in_window lo hi (Some z) = true <->
     (forall l, lo = Some l -> (l <= inject_Z z)%Q) /\ (forall h, hi = Some h -> (inject_Z z < h)%Q)) /\
  (forall lo hi z, in_window lo hi (Some z) =
     match lo with Some l => Qceiling l <=? z | None => true end && match hi with Some h => z <? Qceiling h | None => true end) /\
  (forall lo hi, (lo <> None \/ hi <> None) -> in_window lo hi None = false) /\
  (forall t, in_window None None t = true).
Proof. exact (conj in_window_spec_l (conj in_window_ceiling_l (conj in_window_null_l in_window_open_l))). Qed.
Print Assumptions time_window_exact.
(* the records at the floor of a fractional bound are where rounding the bound down goes wrong *)
Example truncated_bound_differs :
  in_window (Some (21 # 2)%Q) None (Some 10) = false /\ in_window (Some (inject_Z (Qfloor (21 # 2)))) None (Some 10) = true /\
  in_window None (Some (21 # 2)%Q) (Some 10) = true /\ in_window None (Some (inject_Z (Qfloor (21 # 2)))) (Some 10) = false.
Proof. exact truncation_differs_l. Qed.

(* statistics of a built dataset, per user and per item number n: record_count is the number of surviving
   input records of that entity and rating_count the number of those that carry a rating (never more) *)
Theorem stats_counts : forall s ar ops d c,
  build (final s ar ops) = Ok d ->
  let spec := k_recs (s_run s (s_init ar) ops) in
  forall n, (n < length (cls_vocab c d))%nat ->
    let e := term (cls_vocab c d) n in
    st_records (stats_of s c d n) = length (filter (fun r => Z.eqb (key_id c r) e) spec) /\
    st_ratings (stats_of s c d n) = length (filter (fun r => Z.eqb (key_id c r) e && has_value (rating2_of (snd r))) spec) /\
    (st_ratings (stats_of s c d n) <= st_records (stats_of s c d n))%nat.
Proof. exact stats_counts_l. Qed.
Print Assumptions stats_counts.

(* Column names.  A frame with the columns `frame_cols` is added to a relationship over `entities`; its attribute columns
   (`frame_attrs`: the columns other than the entities' id columns) may be called anything except the relationship's own link
   columns `<entity>_num`.  Then, for EVERY such naming -- a name ending in `_num` or `_id`, a name used by the statistics, an
   empty name -- the table with original ids (RelationshipSet.arrow(ids=True): interaction_table / interaction_matrix with
   original_ids=True) has exactly the id columns followed by all attribute columns, the stored table (all number-based views)
   has the link columns followed by all attribute columns, attribute_names lists exactly the attribute columns, and restricting
   either table to one attribute column (fields=[a] / field=a) succeeds and gives the two entity columns and that column. *)
Theorem views_carry_every_attribute : forall entities frame_cols : list String.string,
  (forall a, In a (frame_attrs entities frame_cols) -> ~ In a (link_cols entities)) ->
  ids_view_cols entities (stored_cols entities frame_cols) = map id_col_name entities ++ frame_attrs entities frame_cols /\
  stored_cols entities frame_cols = link_cols entities ++ frame_attrs entities frame_cols /\
  attribute_names entities (stored_cols entities frame_cols) = frame_attrs entities frame_cols /\
  forall a, In a (frame_attrs entities frame_cols) ->
    select_cols (link_cols entities) [a] (stored_cols entities frame_cols) = Some (link_cols entities ++ [a]) /\
    select_cols (map id_col_name entities) [a] (ids_view_cols entities (stored_cols entities frame_cols))
      = Some (map id_col_name entities ++ [a]).
Proof. exact views_carry_every_attribute_l. Qed.
Print Assumptions views_carry_every_attribute.

(* non-vacuity of the naming hypothesis on names that resemble the link columns *)
Section ColumnNameExample.
Import String.
Example attribute_named_like_a_number_column :
  let entities := ["user"; "item"]%string in
  let frame := ["user_id"; "item_id"; "rating"; "disc_num"; "user_num_num"; "session_id"; ""]%string in
  (forall a, In a (frame_attrs entities frame) -> ~ In a (link_cols entities)) /\
  ids_view_cols entities (stored_cols entities frame) = ["user_id"; "item_id"; "rating"; "disc_num"; "user_num_num"; "session_id"; ""]%string /\
  stored_cols entities frame = ["user_num"; "item_num"; "rating"; "disc_num"; "user_num_num"; "session_id"; ""]%string.
Proof.
  cbv zeta. split; [|split; vm_compute; reflexivity].
  intros a Ha Hl. vm_compute in Ha, Hl.
  repeat (destruct Ha as [Ha|Ha]; [subst a; repeat (destruct Hl as [Hl|Hl]; [discriminate Hl|]); exact Hl|]). exact Ha.
Qed.
End ColumnNameExample.

(* non-vacuity: identifiers not in ascending order of arrival (ranks 4, 1, 3 then 0, 2), a late-added
   user, an unknown user filtered out of a batch, a pair removed by a filter, a record with a missing
   rating under the filter policy, a later batch without rating column, a time window with fractional
   bounds and records at the floor of each bound, an inactive user and item *)
Example c01_nonvacuous :
  let s := {| s_rating := true; s_ts := true; s_extra := false |} in
  let ops := [AddEntities User [4; 1; 3] DupError; AddEntities Item [7; 5] DupError;
              AddInteractions [(3, 5, [Some 6; Some 10]); (1, 7, [Some 2; Some 11]); (9, 5, [Some 8; Some 12]); (1, 5, [None; Some 12])]
                              [true; true] MFilter;
              AddEntities User [0; 2; 4] DupUpdate;
              FilterInteractions None None (Some (RemPairs [(1, 7)]));
              AddInteractions [(0, 7, [None; Some 13]); (2, 5, [None; Some 9]); (4, 7, [None; None])] [false; true] MError;
              FilterInteractions (Some (19 # 2)%Q) (Some (27 # 2)%Q) None] in
  exists d, build (final s false ops) = Ok d /\
    d_users d = [1; 3; 4; 0; 2] /\ d_items d = [5; 7] /\
    d_ptrs d = [0; 1; 2; 2; 3; 3]%nat /\
    k_recs (s_run s (s_init false) ops) = [(3, 5, [Some 6; Some 10]); (1, 5, [None; Some 12]); (0, 7, [None; Some 13])] /\
    view_table_ids d = [(1, 5, [None; Some 12]); (3, 5, [Some 6; Some 10]); (0, 7, [None; Some 13])] /\
    st_records (stats_of s Item d 0) = 2%nat /\ st_ratings (stats_of s Item d 0) = 1%nat.
Proof. cbv zeta. eexists. split; [vm_compute; reflexivity|]. vm_compute. repeat split; reflexivity. Qed.
