(* C01 -- stub while the correspondence is being brought up *)
From Coq Require Import ZArith List Bool.
From LK Require Import Model.C01_dataset.
Theorem stub_c01 : forall v, opt_vocab (Some v) = v.
Proof. reflexivity. Qed.
Print Assumptions stub_c01.
