(* C14 -- Built pipelines and datasets are immutable; derived objects never alter them.
   Property theorems only; each is closed by `exact <lemma>` and followed by Print Assumptions.
   The alias table (how Pipeline.modify / builder.build / clone / DatasetBuilder(ds) / build_container obtain the
   mutable dictionaries of their source) is the GENERATED one (Gen/C14_alias.v): the model branches on it
   and the proofs pin every entry to `Copy`, so these statements are re-checked against the source on
   every run.

   Model: an explicit heap of mutable dictionaries (a component's wiring, a schema's entities and relationships
   with everything below them), a second heap of component instances, objects hold references.  Builder
   operations are arbitrary in-place edits through the builder's own references (PBWire / DBEnts / DBRels take
   any function), replacement of immutable parts, or allocation.

   Property text -> theorem:
   * "Once built, a pipeline or dataset never changes: for every subsequent sequence of operations - obtaining
     a modifying builder from it and rewiring, replacing, adding or aliasing components; cloning it and
     training or running the clone; creating a dataset builder from it and adding or filtering records,
     entities or attributes; splitting it; or continuing to use the builder that produced it - its
     configuration, hash, wiring, schema, identifier numbering, data views, saved form and run results
     remain exactly what they were"
        -> ownership_invariant (no dictionary reachable from a built object is writable through any builder,
           after any history; connect() resolving node names, node objects and ALIASES alike: connect_by_alias_is_connect_by_name,
           modify_then_connect_by_any_name_frozen; no function handed a built object writes through it:
           derivations_do_not_write_their_source; no method of a built object writes through its own description:
           built_objects_do_not_write_their_description; a builder or pipeline made from the pipeline's own configuration:
           from_config_of_own_configuration_frozen), built_dataset_frozen, built_pipeline_frozen (every observation constant along
           every continuation in which that pipeline itself is not trained and trained pipelines own their
           trainable instances), built_pipeline_config_frozen (configuration part: unconditionally)
   * "Components likewise leave the item lists they are given unchanged"
        -> run_and_train_leave_data_alone_partial (in the model running writes nothing and training writes
           component instances only) and components_do_not_write_itemlists (a syntactic scan of every component
           __call__, regenerated from the source); that the shipped components really leave their ItemList
           arguments unchanged is checked by the oracle on every component call, not proved) *)
From Coq Require Import String List Bool.
From LK Require Import Lib.StrDict Gen.C14_alias Model.C14_heap Proofs.C14_heap Proofs.C14_frozen Proofs.C14_main.
Import ListNotations.
Open Scope string_scope.

Theorem ownership_invariant : forall ops s, inv s -> inv (run s ops).
Proof. exact ownership_l. Qed.
Print Assumptions ownership_invariant.

Theorem built_dataset_frozen : forall ops1 ops2 j d,
  nth_error (st_dsets (run init ops1)) j = Some d ->
  nth_error (st_dsets (run (run init ops1) ops2)) j = Some d /\
  obs_d (run (run init ops1) ops2) d = obs_d (run init ops1) d.
Proof. exact dataset_frozen_from_init_l. Qed.
Print Assumptions built_dataset_frozen.

Theorem built_pipeline_frozen : forall ops1 ops2 j p,
  nth_error (st_pipes (run init ops1)) j = Some p ->
  hist_ok (run init ops1) ops2 -> never_trains j ops2 ->
  nth_error (st_pipes (run (run init ops1) ops2)) j = Some p /\
  obs_p (run (run init ops1) ops2) p = obs_p (run init ops1) p.
Proof. exact pipeline_frozen_from_init_l. Qed.
Print Assumptions built_pipeline_frozen.

Theorem built_pipeline_config_frozen : forall ops1 ops2 j p,
  nth_error (st_pipes (run init ops1)) j = Some p ->
  let s1 := run init ops1 in let s2 := run s1 ops2 in
  nth_error (st_pipes s2) j = Some p /\
  po_edges (obs_p s2 p) = po_edges (obs_p s1 p) /\ po_name (obs_p s2 p) = po_name (obs_p s1 p) /\
  po_aliases (obs_p s2 p) = po_aliases (obs_p s1 p) /\ po_default (obs_p s2 p) = po_default (obs_p s1 p).
Proof. exact pipeline_config_frozen_from_init_l. Qed.
Print Assumptions built_pipeline_config_frozen.

Theorem run_and_train_leave_data_alone_partial : forall s j label codes,
  step s (PRun j) = s /\
  st_heap (step s (PTrain j label codes)) = st_heap s /\ st_dsets (step s (PTrain j label codes)) = st_dsets s /\
  st_pipes (step s (PTrain j label codes)) = st_pipes s.
Proof. exact run_train_readonly_l. Qed.
Print Assumptions run_and_train_leave_data_alone_partial.

(* the alias table as extracted from the current source: every derivation copies, every build constructs by-class components anew *)
Theorem alias_table_as_required : from_pipeline_edges = Copy /\ build_wiring = Copy /\ dsb_init_schema = Copy /\ build_container_schema = Copy /\
  build_instances_fresh = true /\ connect_creates_fresh = true /\ clear_inputs_fresh = true /\ clone_via_config = true /\
  connect_resolves_alias = true.
Proof. exact alias_table_l. Qed.
Print Assumptions alias_table_as_required.

(* "rewiring ... components" however the component is named: connect() accepts a node name, a node object or an ALIAS; the model
   resolves the name through the builder's alias table (as PipelineBuilder.node does) and edits the dictionary of the resolved node.
   Naming a component by an alias is the same operation as naming it by its node name ... *)
Theorem connect_by_alias_is_connect_by_name : forall s i b a t f,
  nth_error (st_pblds s) i = Some b -> dget a (p_aliases b) = Some t -> dget t (p_aliases b) = None ->
  step s (PBWire i a f) = step s (PBWire i t f).
Proof. exact connect_alias_l. Qed.
Print Assumptions connect_by_alias_is_connect_by_name.

(* ... and on the builder obtained from modify() it leaves the pipeline's wiring and aliases what they were, whatever name
   or alias `a` and whatever edit `f` *)
Theorem modify_then_connect_by_any_name_frozen : forall s j p a f, inv s -> nth_error (st_pipes s) j = Some p ->
  let s1 := step s (PModify j) in
  let s2 := step s1 (PBWire (length (st_pblds s)) a f) in
  nth_error (st_pipes s2) j = Some p /\
  po_edges (obs_p s2 p) = po_edges (obs_p s p) /\ po_aliases (obs_p s2 p) = po_aliases (obs_p s p).
Proof. exact connect_alias_frozen_l. Qed.
Print Assumptions modify_then_connect_by_any_name_frozen.

(* "creating a dataset builder from it ...; splitting it": regenerated scan of the source -- no function of lenskit that is handed a
   built Dataset / DataContainer / Pipeline assigns through it, through a local bound to something reached from it without a
   copying call (the frames cached inside a dataset -- user_stats(), item_stats() -- are such things), or calls an in-place
   method / inplace=True on either *)
Theorem derivations_do_not_write_their_source : source_param_writes = [].
Proof. exact no_source_writes_l. Qed.
Print Assumptions derivations_do_not_write_their_source.

(* "its configuration, hash, wiring, schema ... saved form ... remain exactly what they were" under READ-ONLY use by the object itself:
   regenerated scan -- no method of a built Dataset / DataContainer / Pipeline (constructors aside) writes through the parts that describe it
   (schema, tables, configuration, wiring, node and alias tables), through a local bound to something reached from one, or calls an in-place
   method on either; what an accessor wants to remember goes into a cache attribute of its own, not into the description *)
Theorem built_objects_do_not_write_their_description : self_description_writes = [].
Proof. exact no_self_description_writes_l. Qed.
Print Assumptions built_objects_do_not_write_their_description.

(* "cloning it" / handing the pipeline's OWN configuration back to lenskit (clone(), Pipeline.from_config(p.config), PipelineBuilder.from_config(p.config)):
   the builder made from the configuration document the pipeline shows -- every node of it, every literal whether referenced or not, wiring,
   aliases, default -- by the builder's own calls leaves the pipeline exactly as it was (no side condition: nothing is trained) *)
Theorem from_config_of_own_configuration_frozen : forall ops1 j p i,
  nth_error (st_pipes (run init ops1)) j = Some p ->
  let s1 := run init ops1 in let s2 := run s1 (from_config_ops i (obs_p s1 p)) in
  nth_error (st_pipes s2) j = Some p /\ obs_p s2 p = obs_p s1 p.
Proof. exact from_config_frozen_l. Qed.
Print Assumptions from_config_of_own_configuration_frozen.

(* "replacing ... components": modify(), then replace_component with ANY kind of replacement `ns` (another instance of the class the node
   already runs, another class, class + settings, a function), any rewiring, build, and the original and the derivative run: the
   original shows the nodes, instances, trained state, wiring, aliases, default and name it showed before *)
Theorem modify_then_replace_by_any_component_frozen : forall ops1 j p name ns f,
  nth_error (st_pipes (run init ops1)) j = Some p ->
  let s1 := run init ops1 in let i := length (st_pblds s1) in
  let s2 := run s1 [PModify j; PBNode i name ns; PBWire i name f; PBuild i; PRun j; PRun (length (st_pipes s1))] in
  nth_error (st_pipes s2) j = Some p /\ obs_p s2 p = obs_p s1 p.
Proof. exact modify_replace_frozen_l. Qed.
Print Assumptions modify_then_replace_by_any_component_frozen.

(* ... and in the code: the fourth regenerated scan -- no method of PipelineBuilder assigns or deletes below a NODE object it reached from its
   node table (self._nodes[..] / .get / .values / .items / .pop, self.node(..), self.nodes()) or below a local bound to one, nor calls
   setattr / an in-place method on it; rebinding the table's own entry is what replace_component is specified to do *)
Theorem builders_do_not_write_shared_nodes : shared_node_writes = [].
Proof. exact no_shared_node_writes_l. Qed.
Print Assumptions builders_do_not_write_shared_nodes.

(* regenerated scan of the source: no component __call__ assigns through an ItemList parameter, through a local bound
   to its contents without a copy, or calls an in-place method on either *)
Theorem components_do_not_write_itemlists : itemlist_param_writes = [].
Proof. exact no_itemlist_writes_l. Qed.
Print Assumptions components_do_not_write_itemlists.

(* non-vacuity: a dataset and a pipeline are built; then the pipeline is modified and rewired (the component named by its ALIAS "rec"), cloned and the clone
   trained, the producing builders keep being used, a builder derived from the dataset adds a class -- the history
   is admissible and both originals are observed unchanged *)
Example c14_nonvacuous :
  let ops1 := [DNew [("name", "=d0")] [("item", "{}")]; DBEnts 0 (fun _ => [("item", "{int}"); ("user", "{int}")]);
               DBRels 0 (fun _ => [("rating", "{user,item}")]); DBTables 0 (fun _ => [("item", "t1"); ("user", "t2"); ("rating", "t3")]);
               DBuild 0;
               PNew (Some "p"); PBNode 0 "a" NSIn; PBNode 0 "b" NSIn; PBNode 0 "n" (NSCtor "vcomp:Learner");
               PBWire 0 "n" (fun w => dset "x" "a" w); PBAlias 0 (fun a => dset "rec" "n" a); PBuild 0] in
  let ops2 := [PModify 0; PBWire 1 "rec" (fun w => dset "x" "b" w); PBWire 0 "n" (fun w => dset "x" "b" w);
               PClone 0; PTrain 1 "d0" ["vcomp:Learner"]; PBuild 1; PRun 2;
               DFrom 0; DBEnts 1 (fun e => dset "tag" "{}" e); DBEnts 0 (fun e => dset "genre" "{}" e); DBuild 1; DBuild 0] in
  let s1 := run init ops1 in let s2 := run s1 ops2 in
  hist_ok s1 ops2 /\ never_trains 0 ops2 /\
  exists p d, nth_error (st_pipes s1) 0 = Some p /\ nth_error (st_dsets s1) 0 = Some d /\
    po_edges (obs_p s1 p) = [("n", Some [("x", "a")])] /\ obs_p s2 p = obs_p s1 p /\ obs_d s2 d = obs_d s1 d /\
    length (st_pipes s2) = 3 /\ length (st_dsets s2) = 3 /\
    (exists q, nth_error (st_pipes s2) 2 = Some q /\ po_edges (obs_p s2 q) = [("n", Some [("x", "b")])]).
Proof.
  cbv zeta. split.
  - cbn. repeat split; try exact I. intros p E k q Hk Eq r Hr Hq.
    vm_compute in E. injection E as <-. vm_compute in Hr. destruct Hr as [<-|[]].
    destruct k as [|[|k]].
    + vm_compute in Eq. injection Eq as <-. vm_compute in Hq. destruct Hq as [Hq|[]]. discriminate.
    + congruence.
    + vm_compute in Eq. destruct k; discriminate.
  - split; [repeat constructor; cbn; congruence|].
    eexists. eexists. split; [vm_compute; reflexivity|]. split; [vm_compute; reflexivity|].
    repeat split; try (vm_compute; reflexivity). eexists. split; vm_compute; reflexivity.
Qed.

(* non-vacuity of from_config_of_own_configuration_frozen: a pipeline with a literal node nothing refers to ("k1") and an alias; the builder
   made from the document it shows is built: the new pipeline shows the same document (the unreferenced literal included), the original is as it was *)
Example c14_from_config_nonvacuous :
  let ops1 := [PNew (Some "p"); PBNode 0 "a" NSIn; PBNode 0 "k1" (NSLit "5"); PBNode 0 "n" (NSCtor "vcomp:Learner");
               PBWire 0 "n" (fun w => dset "x" "a" w); PBAlias 0 (fun a => dset "rec" "n" a); PBDefault 0 (Some "n"); PBuild 0] in
  let s1 := run init ops1 in
  exists p, nth_error (st_pipes s1) 0 = Some p /\
    let s2 := run s1 (from_config_ops 1 (obs_p s1 p) ++ [PBuild 1]) in
    exists q, nth_error (st_pipes s2) 1 = Some q /\ obs_p s2 q = obs_p s1 p /\ obs_p s2 p = obs_p s1 p /\
      In ("k1", ("@literal", Some [("value", "5")])) (po_nodes (obs_p s2 q)) /\ inst_refs q <> inst_refs p.
Proof.
  cbv zeta. eexists. split; [vm_compute; reflexivity|]. eexists. split; [vm_compute; reflexivity|].
  repeat split; try (vm_compute; reflexivity).
  - vm_compute. tauto.
  - vm_compute. discriminate.
Qed.

(* non-vacuity of modify_then_replace_by_any_component_frozen: a trained pipeline holding a caller's instance ("n") and a by-class learner ("m");
   in one derivative "n" is replaced by another instance of the SAME class, in another "m" by a new (untrained) instance of its class: the
   derivatives hold other instances, the second shows other node states with the same wiring, and the original is as it was after both *)
Example c14_replace_nonvacuous :
  let ops1 := [PNew (Some "p"); PBNode 0 "a" NSIn; PBNode 0 "n" (NSInst "vcomp:Scale"); PBNode 0 "m" (NSCtor "vcomp:Learner");
               PBWire 0 "n" (fun w => dset "x" "a" w); PBWire 0 "m" (fun w => dset "x" "n" w); PBuild 0; PTrain 0 "d0" ["vcomp:Learner"]] in
  let s1 := run init ops1 in
  exists p, nth_error (st_pipes s1) 0 = Some p /\
    let s2 := run s1 [PModify 0; PBNode 1 "n" (NSInst "vcomp:Scale"); PBWire 1 "n" (fun w => w); PBuild 1; PRun 0; PRun 1] in
    let s3 := run s2 [PModify 0; PBNode 2 "m" (NSInst "vcomp:Learner"); PBWire 2 "m" (fun w => w); PBuild 2; PRun 0; PRun 2] in
    exists q r, nth_error (st_pipes s2) 1 = Some q /\ nth_error (st_pipes s3) 2 = Some r /\
      obs_p s3 p = obs_p s1 p /\ inst_refs q <> inst_refs p /\ inst_refs r <> inst_refs p /\
      po_edges (obs_p s3 r) = po_edges (obs_p s1 p) /\ po_nodes (obs_p s3 r) <> po_nodes (obs_p s1 p).
Proof.
  cbv zeta. eexists. split; [vm_compute; reflexivity|]. eexists. eexists.
  split; [vm_compute; reflexivity|]. split; [vm_compute; reflexivity|].
  repeat split; try (vm_compute; reflexivity); vm_compute; discriminate.
Qed.
