(* C14 -- placeholder while the correspondence is brought up; theorems follow. *)
From LK Require Import Lib.StrDict Gen.C14_alias Model.C14_heap.
