(* C06 -- Ranking metrics equal their definitions for every list, truth set and cutoff.
   Property theorems only; each is closed by `exact <lemma>` and followed by Print Assumptions.

   Every `*_measure_list`, `truncate`, `array_dcg` and `fixed_dcg` below is the GENERATED function
   (Gen/C06_metrics.v: the Python bodies of metrics/ranking/*.py translated statement by statement
   on every run), so these statements are re-checked against the current source text.
   The right-hand sides (`*_model`, Model/C06_ranking.v part 2) are the documented definitions:
     hit        1 if L<=k meets the test items, else 0; undefined (NaN) for empty test data
     precision  |L<=k n T| / |L<=k|;   recall  |L<=k n T| / min(|T|, k)
     recip      1 / (rank of the first relevant item of L<=k), 0 if none
     rbp        (1 - g) * sum_r rel(L_r) g^(r-1)  or, normalised, that sum / sum_{r<=min(|T|,|L<=k|)} g^(r-1)
     dcg        sum_r gain(L_r) / max(d(r), 1);  ndcg = dcg / dcg of the k largest gains in order
     pop        mean over L<=k of q_i, q_i = average rank of i's count among positive counts / their number
   with L<=k = the first k recommendations (`topk`), NaN/inf = RNone, a cutoff on an unordered
   list = Raise EValue, a missing gain field = Raise EKey.

   Property text -> theorem:
   * "each ranking metric ... returns the value given by its documented definition applied to the
     first k recommendations"       -> truncate_first_k, first_k_is_positional, tail_irrelevant(_shared_prefix), hit/precision/recall/recip/rbp/dcg/ndcg/
                                       pop_eq_definition, hit_count_is_intersection_size,
                                       ideal_dcg_is_maximum (the nDCG normaliser is the optimum)
   * "the normalised metrics lie in [0, 1]"                       -> normalised_in_unit_interval
   * "an ideal ranking of the test items scores 1 for nDCG, recall and normalised RBP"
                                                                  -> ideal_scores_one
   * "exchanging an irrelevant item with a relevant item ranked below it never lowers a
     rank-sensitive metric"                                       -> swap_up_monotone
   * the hypothesis `disc_mono` (clamped discount never decreases) holds for every non-decreasing
     discount and for the shipped np.log2 as NumPy evaluates it   -> discount_hypothesis_holds
   Quantifiers: all k (None, 0, positive -- the consequences exclude k = 0, which the property does
   too), all lists, all test lists (empty, disjoint, overlapping, containing), all patience values
   (consequences: 0 <= g <= 1), all discount functions (consequences: clamped discount monotone;
   for other discounts only the definitional equalities are claimed). *)
From Coq Require Import ZArith QArith Qabs List Bool.
From LK Require Import Lib.QLib Lib.RankLib Model.C06_ranking Gen.C06_metrics
  Proofs.C06_model Proofs.C06_bounds Proofs.C06_ideal Proofs.C06_swap Proofs.C06_main Proofs.C06_tail.
Import ListNotations.
Open Scope Q_scope.

Theorem truncate_first_k : forall k recs,
  truncate k recs = if trunc_ok k recs then Ret (trunc_il k recs) else Raise EValue.
Proof. exact truncate_first_k_l. Qed.
Print Assumptions truncate_first_k.

Theorem hit_eq_definition : forall k recs t,
  hit_measure_list k recs t = hit_model k recs t /\
  forall L, existsb (rel t) L = true <-> exists i, In i L /\ In i (tl_ids t).
Proof. exact hit_eq_definition_l. Qed.
Print Assumptions hit_eq_definition.

Theorem precision_eq_definition : forall k recs t,
  precision_measure_list k recs t = precision_model k recs t.
Proof. exact precision_eq_definition_l. Qed.
Print Assumptions precision_eq_definition.

Theorem recall_eq_definition : forall k recs t,
  recall_measure_list k recs t = recall_model k recs t.
Proof. exact recall_eq_definition_l. Qed.
Print Assumptions recall_eq_definition.

(* the count used by precision and recall is the size of the set  L n T  *)
Theorem hit_count_is_intersection_size : forall t L, NoDup L ->
  (ngood t L <= length L)%nat /\ (ngood t L <= tl_len t)%nat /\
  forall X, NoDup X -> (forall i, In i X <-> In i L /\ In i (tl_ids t)) -> length X = ngood t L.
Proof. exact hit_count_is_intersection_size_l. Qed.
Print Assumptions hit_count_is_intersection_size.

Theorem recip_eq_definition : forall k recs t,
  exc_eq (recip_measure_list k recs t) (recip_model k recs t) /\
  (forall L p, (p < length L)%nat -> rel t (nth p L 0%Z) = true ->
     (forall j, (j < p)%nat -> rel t (nth j L 0%Z) = false) -> rr_from 1 t L = 1 / Qofnat (1 + p)) /\
  (forall L, (forall i, In i L -> rel t i = false) -> rr_from 1 t L = 0).
Proof. exact recip_eq_definition_l. Qed.
Print Assumptions recip_eq_definition.

Theorem rbp_eq_definition : forall k g nrm recs t,
  exc_eq (rbp_measure_list k g nrm recs t) (rbp_model g nrm k recs t).
Proof. exact rbp_eq_definition_l. Qed.
Print Assumptions rbp_eq_definition.

Theorem dcg_eq_definition : forall k disc graded recs t,
  exc_eq (dcg_measure_list k disc graded recs t) (dcg_model disc graded k recs t).
Proof. exact dcg_eq_definition_l. Qed.
Print Assumptions dcg_eq_definition.

Theorem ndcg_eq_definition : forall k disc graded recs t,
  exc_eq (ndcg_measure_list k disc graded recs t) (ndcg_model disc graded k recs t).
Proof. exact ndcg_eq_definition_l. Qed.
Print Assumptions ndcg_eq_definition.

Theorem ideal_dcg_is_maximum : forall disc k t L,
  disc_mono disc -> nonneg_gains t -> NoDup L -> valid_k k ->
  (match k with Some n => length L <= n | None => True end)%nat ->
  dcg_of disc (scores_graded t L) <= dcg_of disc (ideal_gains k (map snd (tl_items t))).
Proof. exact ideal_dcg_is_maximum_l. Qed.
Print Assumptions ideal_dcg_is_maximum.

Theorem pop_eq_definition : forall counts k recs t,
  pop_measure_list k (pop_item_ranks counts) recs t = pop_model counts k recs t /\
  (forall i, 0 <= item_quantile counts i <= 1) /\
  (forall i, ~ In i (map fst counts) -> item_quantile counts i = 0) /\
  (forall i, count_of counts i = 0%nat -> item_quantile counts i = 0) /\
  (forall i j, (count_of counts i <= count_of counts j)%nat -> item_quantile counts i <= item_quantile counts j) /\
  (forall c, In c (pos_counts counts) -> 0 < quantile counts c) /\
  (forall c, In c (pos_counts counts) -> (forall x, In x (pos_counts counts) -> (x <= c)%nat) ->
             count_eq (pos_counts counts) c = 1%nat -> quantile counts c == 1).
Proof. exact pop_eq_definition_l. Qed.
Print Assumptions pop_eq_definition.

Theorem normalised_in_unit_interval : forall k recs t,
  trunc_ok k recs = true -> NoDup (il_ids recs) -> tl_len t <> 0%nat -> valid_k k ->
  exc_in 0 1 (recall_measure_list k recs t) /\
  (forall disc, disc_mono disc -> exc_in 0 1 (ndcg_measure_list k disc false recs t)) /\
  (forall disc, disc_mono disc -> tl_has_gain t = true -> nonneg_gains t ->
     (exists e, In e (tl_items t) /\ 0 < snd e) -> exc_in 0 1 (ndcg_measure_list k disc true recs t)) /\
  (forall g, 0 <= g -> g <= 1 -> topk k (il_ids recs) <> [] -> exc_in 0 1 (rbp_measure_list k g true recs t)).
Proof. exact normalised_in_unit_interval_l. Qed.
Print Assumptions normalised_in_unit_interval.

Theorem ideal_scores_one : forall k recs t,
  trunc_ok k recs = true -> NoDup (tl_ids t) -> tl_len t <> 0%nat -> valid_k k ->
  (ideal_ranking_bin t (il_ids recs) ->
     exc_eq (recall_measure_list k recs t) (Ret (RVal 1)) /\
     (forall disc, exc_eq (ndcg_measure_list k disc false recs t) (Ret (RVal 1))) /\
     (forall g, 0 <= g -> exc_eq (rbp_measure_list k g true recs t) (Ret (RVal 1)))) /\
  (ideal_ranking t (il_ids recs) -> tl_has_gain t = true -> nonneg_gains t ->
     (exists e, In e (tl_items t) /\ 0 < snd e) ->
     forall disc, exc_eq (ndcg_measure_list k disc true recs t) (Ret (RVal 1))).
Proof. exact ideal_scores_one_l. Qed.
Print Assumptions ideal_scores_one.

Theorem swap_up_monotone : forall k recs t ids' x y,
  swapped (il_ids recs) ids' x y ->
  let recs' := recs_with recs ids' in
  (rel t x = false -> rel t y = true ->
     exc_le (hit_measure_list k recs t) (hit_measure_list k recs' t) /\
     exc_le (precision_measure_list k recs t) (precision_measure_list k recs' t) /\
     exc_le (recall_measure_list k recs t) (recall_measure_list k recs' t) /\
     exc_le (recip_measure_list k recs t) (recip_measure_list k recs' t) /\
     (forall g nrm, 0 <= g -> g <= 1 ->
        exc_le (rbp_measure_list k g nrm recs t) (rbp_measure_list k g nrm recs' t)) /\
     (forall disc, disc_mono disc ->
        exc_le (dcg_measure_list k disc false recs t) (dcg_measure_list k disc false recs' t) /\
        exc_le (ndcg_measure_list k disc false recs t) (ndcg_measure_list k disc false recs' t))) /\
  (nonneg_gains t -> gain_of (tl_items t) x 0 <= gain_of (tl_items t) y 0 ->
     forall disc, disc_mono disc ->
       exc_le (dcg_measure_list k disc true recs t) (dcg_measure_list k disc true recs' t) /\
       exc_le (ndcg_measure_list k disc true recs t) (ndcg_measure_list k disc true recs' t)).
Proof. exact swap_up_monotone_l. Qed.
Print Assumptions swap_up_monotone.

(* the cutoff is POSITIONAL: for a list that carries an explicit rank column ((rank, id) entries) the first k
   recommendations are the ids of the first k entries whatever ranks they carry; cutting by the stored rank
   (keep rank <= k) is the same for the implicit ranks 1..n and differs for a column with gaps *)
Theorem first_k_is_positional :
  (forall k l, topk k (rl_ids l) = rl_ids (rl_first k l)) /\
  (forall n ids, rank_cut n (implicit_from 1 ids) = topk (Some n) ids) /\
  (let l := [(1, 11); (2, 12); (5, 13); (7, 14); (9, 15)]%Z in
   rank_cut 4 l = [11; 12]%Z /\ topk (Some 4%nat) (rl_ids l) = [11; 12; 13; 14]%Z).
Proof. exact first_k_is_positional_l. Qed.
Print Assumptions first_k_is_positional.

(* "applied to the first k recommendations" also says what must NOT matter: two lists with the same
   ordered flag and the same first k entries get the same value from every metric, whatever follows
   position k and however long the lists go on; lists sharing a prefix of at least k entries qualify *)
Theorem tail_irrelevant : forall k recs recs' t,
  il_ordered recs = il_ordered recs' -> topk k (il_ids recs) = topk k (il_ids recs') ->
  hit_measure_list k recs t = hit_measure_list k recs' t /\
  precision_measure_list k recs t = precision_measure_list k recs' t /\
  recall_measure_list k recs t = recall_measure_list k recs' t /\
  exc_eq (recip_measure_list k recs t) (recip_measure_list k recs' t) /\
  (forall g nrm, exc_eq (rbp_measure_list k g nrm recs t) (rbp_measure_list k g nrm recs' t)) /\
  (forall disc graded,
     exc_eq (dcg_measure_list k disc graded recs t) (dcg_measure_list k disc graded recs' t)) /\
  (forall disc graded,
     exc_eq (ndcg_measure_list k disc graded recs t) (ndcg_measure_list k disc graded recs' t)) /\
  (forall counts, pop_measure_list k (pop_item_ranks counts) recs t =
                  pop_measure_list k (pop_item_ranks counts) recs' t).
Proof. exact tail_irrelevant_l. Qed.
Print Assumptions tail_irrelevant.

Theorem tail_irrelevant_shared_prefix : forall n p a b,
  (n <= length p)%nat ->
  let recs := {| il_ordered := true; il_ids := p ++ a |} in
  let recs' := {| il_ordered := true; il_ids := p ++ b |} in
  il_ordered recs = il_ordered recs' /\ topk (Some n) (il_ids recs) = topk (Some n) (il_ids recs').
Proof. exact tail_irrelevant_shared_prefix_l. Qed.
Print Assumptions tail_irrelevant_shared_prefix.

(* the hypothesis on the discount: any non-decreasing discount; the shipped np.log2 as evaluated by
   NumPy at ranks 1..256 (continued by its last value); an item outside the test data has gain 0 *)
Theorem discount_hypothesis_holds :
  (forall disc, (forall r, disc r <= disc (S r)) -> disc_mono disc) /\
  disc_mono (tbl_disc_ext log2_table) /\
  (forall t x, ~ In x (tl_ids t) -> gain_of (tl_items t) x 0 = 0).
Proof. exact discount_hypothesis_holds_l. Qed.
Print Assumptions discount_hypothesis_holds.

(* non-vacuity: graded test data, cutoff between the two lengths, a relevant item beyond the cutoff,
   the shipped discount; every hypothesis of the three consequence theorems is satisfiable and the
   generated functions compute the expected values *)
Example c06_nonvacuous :
  let recs := {| il_ordered := true; il_ids := [1; 2; 3; 4; 5]%Z |} in
  let t := {| tl_items := [(2%Z, 2); (9%Z, 5); (5%Z, 1)]; tl_has_gain := true |} in
  let ideal := {| il_ordered := true; il_ids := [9; 2; 5; 7]%Z |} in
  let k := Some 4%nat in
  let disc := tbl_disc_ext log2_table in
  trunc_ok k recs = true /\ NoDup (il_ids recs) /\ NoDup (tl_ids t) /\ tl_len t <> 0%nat /\ valid_k k /\
  nonneg_gains t /\ disc_mono disc /\ (exists e, In e (tl_items t) /\ 0 < snd e) /\
  ideal_ranking t (il_ids ideal) /\ ideal_ranking_bin t (il_ids ideal) /\
  swapped (il_ids recs) [2; 1; 3; 4; 5]%Z 1%Z 2%Z /\ rel t 1%Z = false /\ rel t 2%Z = true /\
  exc_eq (recall_measure_list k recs t) (Ret (RVal (1 # 3))) /\
  exc_eq (recall_measure_list k ideal t) (Ret (RVal 1)) /\
  exc_eq (rbp_measure_list k (1 # 2) true recs t) (Ret (RVal (2 # 7))) /\
  exc_in 0 1 (ndcg_measure_list k disc true recs t) /\
  exc_eq (ndcg_measure_list k disc true ideal t) (Ret (RVal 1)).
Proof. exact c06_nonvacuous_l. Qed.
