(* C11 -- Seeded operations are reproducible and independent of threads and request order.
   Property theorems only; each is closed by `exact <lemma>` and followed by Print Assumptions.
   The seed-forwarding graph, the shapes of random_generator / DerivingRNG.__call__ / the rankers and
   of the three fork-join loops are GENERATED from the source (Gen/C11_rng.v); forwarding_closed,
   seeded_entry_points_function_of_seed, explicit_seed_ignores_global and derived_rankers_order_free
   are re-checked against what the code says now.

   Property text -> theorem:
   * "Every stochastic operation that accepts a seed ... produces identical results when repeated with
      the same seed, inputs and call sequence" ("including the fallback paths taken for oversized
      requests", "the per-component seeds derived when a whole pipeline is trained")
        -> forwarding_closed                       every function that takes randomness hands every callee a
                                                   generator derived from its own, and uses no global one
        -> closed_implies_function_of_seed         such a program's draws are a function of (seed, call
                                                   sequence): independent of any ambient entropy
        -> seeded_entry_points_function_of_seed    instantiated with the generated graph (any dispatch)
        -> explicit_seed_ignores_global            a given seed never consults the global generator
        -> unforwarded_seed_can_differ             the obligation is needed (shape of F-C11-1)
        -> ambient_conditional_use_can_differ      a use of the generator that is conditional on ambient state (logging
                                                   level, environment, thread count) is never closed, and it is needed:
                                                   the same seed gives different draws under two ambient states
        -> reused_options_equal_fresh              ONE TrainingOptions object serving any sequence of trainings: every
                                                   training gets the generator a fresh, equal options object would give
                                                   (generated: no method of TrainingOptions keeps state on the object);
                                                   a memoising random_generator() does not
   * "trained models do not depend on the number of worker or backend threads or on the similarity
      block size"
        -> chunking_irrelevant                     for every chunk/block size the joined result of the three
                                                   fork-join loops is the row-wise result
        -> sequential_fill_blocking_irrelevant     rows drawn in order from ONE generator are the same whatever the
                                                   blocking; one child generator per block (thread) is not
           PARTIAL: that each row's arithmetic (BLAS / torch kernels) gives the same bits under different
           thread counts is a runtime fact; it is exercised in separate processes, not proved
   * "Rankers configured with user-derived seeds return the same list for a given user no matter which
      other requests were served before, or in what order"
        -> derived_rankers_order_free, permuted_request_orders; fixed_generator_is_order_dependent *)
From Coq Require Import ZArith List Bool Lia Permutation.
From Coq Require String.
Import String.StringSyntax.
From LK Require Import Model.C11_seeds Gen.C11_rng Proofs.C11_proofs Proofs.C11_main Proofs.C11_gen Proofs.C11_options.
Import ListNotations.
Local Open Scope string_scope.

Theorem forwarding_closed :
  graph_closed rng_graph = true /\
  forallb has_fn ["sample_users"; "sample_records"; "crossfold_users"; "crossfold_records"; "SampleN.__init__";
                  "SampleN.__call__"; "SampleFrac.__init__"; "SampleFrac.__call__";
                  "MatrixRelationshipSet.sample_negatives"; "RandomSelector.__call__"; "SoftmaxRanker.__call__";
                  "StochasticTopNRanker.__call__"; "ALSBase.training_loop"; "FunkSVDScorer.train";
                  "FlexMFScorerBase.prepare_context"; "FlexMFModel.__init__"; "BiasedSVDScorer.train"; "Pipeline.train"] = true /\
  random_generator_shape_ok = true /\ deriving_shape_ok = true /\
  stateless_rankers = ["RandomSelector"; "SoftmaxRanker"; "StochasticTopNRanker"] /\
  fanout_loops = [("_train_update_fanout", JScatter); ("_train_implicit_cholesky_fanout", JScatter); ("_sim_blocks", JConcat)].
Proof. exact forwarding_closed_l. Qed.
Print Assumptions forwarding_closed.

Theorem closed_implies_function_of_seed :
  forall (G E : Type) (draw : G -> Z * G) (opaque : String.string -> G -> list Z * G)
         (fresh : E -> G * E) (ambient : E -> Z * E) (resolve : String.string -> option fn),
    (forall c f, resolve c = Some f -> body_closed (fn_body f) = true) ->
    forall fuel,
      (forall body g e1 e2, body_closed body = true ->
         fst (run draw opaque fresh ambient resolve fuel body g e1) = fst (run draw opaque fresh ambient resolve fuel body g e2)) /\
      (forall calls g e1 e2, Forall (fun b => body_closed b = true) calls ->
         fst (run_seq draw opaque fresh ambient resolve fuel calls g e1) = fst (run_seq draw opaque fresh ambient resolve fuel calls g e2)).
Proof. exact closed_implies_function_of_seed_l. Qed.
Print Assumptions closed_implies_function_of_seed.

Theorem seeded_entry_points_function_of_seed :
  forall (G E : Type) (draw : G -> Z * G) (opaque : String.string -> G -> list Z * G)
         (fresh : E -> G * E) (ambient : E -> Z * E) (disp : String.string -> nat) fuel f,
    In f rng_graph -> fn_primitive f = false ->
    forall g e1 e2,
      fst (run draw opaque fresh ambient (resolve_in rng_graph families disp) fuel (fn_body f) g e1)
      = fst (run draw opaque fresh ambient (resolve_in rng_graph families disp) fuel (fn_body f) g e2).
Proof. exact generated_function_of_seed_l. Qed.
Print Assumptions seeded_entry_points_function_of_seed.

Theorem explicit_seed_ignores_global :
  (forall global_set, random_generator_plan true global_set = FromArgument) /\
  random_generator_plan false true = UseGlobal /\ random_generator_plan false false = FromArgument.
Proof. exact explicit_seed_ignores_global_l. Qed.
Print Assumptions explicit_seed_ignores_global.

Theorem unforwarded_seed_can_differ :
  demo_run [SCall "crossfold" AOmitted] 42 0 <> demo_run [SCall "crossfold" AOmitted] 42 1 /\
  demo_run [SCall "crossfold" ASeeded] 42 0 = demo_run [SCall "crossfold" ASeeded] 42 1.
Proof. exact unclosed_can_differ. Qed.
Print Assumptions unforwarded_seed_can_differ.

Theorem ambient_conditional_use_can_differ :
  demo_run [SCond "logging-level" SDraw; SDraw] 42 0 <> demo_run [SCond "logging-level" SDraw; SDraw] 42 1 /\
  demo_run [SDraw; SDraw] 42 0 = demo_run [SDraw; SDraw] 42 1 /\
  forall w s, stmt_closed (SCond w s) = false.
Proof. exact ambient_conditional_can_differ. Qed.
Print Assumptions ambient_conditional_use_can_differ.

(* "training of every LensKit-native model through the training options' seed": the options object may be shared by
   any number of trainings (parameter sweep, re-training); slot = whatever an earlier use left on the object *)
Theorem reused_options_equal_fresh :
  training_options_plan = FreshPerCall /\
  (forall (S G M : Type) (mk : S -> G) (seed : S) (slot : option G) (ts : list (G -> M * G)),
     train_all mk training_options_plan seed slot ts = train_fresh mk seed ts) /\
  train_all demo_mk Memoised 42%Z None [demo_training; demo_training]
  <> train_fresh demo_mk 42%Z [demo_training; demo_training].
Proof. exact reused_options_equal_fresh_l. Qed.
Print Assumptions reused_options_equal_fresh.

Theorem derived_rankers_order_free :
  forall (Gn P A : Type) (derive : Z -> Gn) (spawn : nat -> Gn) (out : Gn -> P -> A)
         st1 st2 rs1 rs2 i j r u,
    nth_error rs1 i = Some r -> nth_error rs2 j = Some r -> r_user r = Some u ->
    nth_error (serve_all deriving_plan derive spawn out st1 rs1) i
    = nth_error (serve_all deriving_plan derive spawn out st2 rs2) j.
Proof. exact (fun Gn P A => order_free deriving_plan deriving_plan_user). Qed.
Print Assumptions derived_rankers_order_free.

Theorem permuted_request_orders :
  forall (Gn P A : Type) (derive : Z -> Gn) (spawn : nat -> Gn) (out : Gn -> P -> A) st1 st2 rs1 rs2,
    Forall (fun r => r_user r <> None) rs1 -> Permutation rs1 rs2 ->
    Permutation (combine rs1 (serve_all deriving_plan derive spawn out st1 rs1))
                (combine rs2 (serve_all deriving_plan derive spawn out st2 rs2)).
Proof. exact (fun Gn P A => permuted_requests deriving_plan deriving_plan_user). Qed.
Print Assumptions permuted_request_orders.

Theorem fixed_generator_is_order_dependent :
  let outg := fun (g : Z) (p : Z) => ((g + p)%Z, (g + 1)%Z) in
  let a := mkReq (Some 1%Z) 10%Z in
  let b := mkReq (Some 2%Z) 20%Z in
  nth_error (serve_fixed outg 0%Z [a; b]) 0 <> nth_error (serve_fixed outg 0%Z [b; a]) 1.
Proof. exact fixed_ranker_order_dependent. Qed.
Print Assumptions fixed_generator_is_order_dependent.

(* joined_concat: per-block lists concatenated (similarity row counts); joined_scatter: blocks written
   over ctx.left[start:end] in index order (ALS half-steps); joined_rows: per-row neighbour lists
   concatenated block by block (similarity columns and values) *)
Theorem chunking_irrelevant_partial : forall (A B : Type) (f : A -> B) (h : A -> A) (r : A -> list B) c rows,
  0 < c ->
  joined_concat f c rows = map f rows /\
  joined_scatter h c rows = map h rows /\
  joined_rows r c rows = List.concat (map r rows).
Proof. exact chunking_irrelevant_l. Qed.
Print Assumptions chunking_irrelevant_partial.

(* the initial embedding matrices: rows filled in order from the training generator *)
Theorem sequential_fill_blocking_irrelevant :
  (forall (G A : Type) (draw : G -> A * G) (sizes : list nat) (g : G),
     fill_blocks draw sizes g = fill draw (list_sum sizes) g) /\
  fill_children demo_draw demo_child 0 [4] 7%Z <> fill_children demo_draw demo_child 0 [2; 2] 7%Z.
Proof. exact (conj (@fill_blocks_seq) (proj1 children_depend_on_block_count)). Qed.
Print Assumptions sequential_fill_blocking_irrelevant.

(* non-vacuity: a closed generated function with draws and calls; concrete rankers and chunks *)
Example c11_nonvacuous :
  (exists f, In f rng_graph /\ fn_primitive f = false /\ fn_name f = "sample_users" /\
             existsb (fun s => match s with SCall _ ASeeded => true | _ => false end) (fn_body f) = true /\
             existsb (fun s => match s with SDraw => true | _ => false end) (fn_body f) = true) /\
  serve_all deriving_plan (fun u => u) (fun k => Z.of_nat k) (fun g p => (g * 100 + p)%Z) 0
            [mkReq (Some 7%Z) 1%Z; mkReq None 2%Z; mkReq (Some 7%Z) 1%Z] = [701; 2; 701]%Z /\
  chunks 2 [1; 2; 3; 4; 5]%Z = [[1; 2]; [3; 4]; [5]]%Z /\
  joined_scatter (fun x => (x * 10)%Z) 2 [1; 2; 3; 4; 5]%Z = [10; 20; 30; 40; 50]%Z.
Proof.
  split; [|repeat split; vm_compute; reflexivity].
  destruct (find_fn rng_graph "sample_users") as [f|] eqn:E; [|vm_compute in E; discriminate].
  exists f. pose proof (find_fn_in _ _ _ E) as Hin. split; [exact Hin|].
  revert E. vm_compute. intro E. inversion E. subst. repeat split; reflexivity.
Qed.
