(* C04 -- Scorers keep items aligned, tolerate unknowns, and score each item independently.
   Property theorems only; each is closed by `exact <lemma>` (or a finite vm_compute check over the
   GENERATED sites table) and followed by Print Assumptions.

   Property text -> theorem
   * "the result lists exactly the input items in the input order with all their other fields
     preserved and one score per item"
        -> scatter_aligned (the pointwise mechanism and the mask/scatter mechanism of the code,
           for ANY kernel, even one returning the wrong number of scores)
           sites_return_copy (generated: every scorer entry point returns ItemList(<items>, scores=...))
   * "users or items the model cannot score receive a missing score instead of raising"
        -> unknown_is_missing; sites_tolerant (generated: every look-up of candidate or history items
           uses the negative-marker policy, every user look-up the None policy)
   * "an item's score depends only on the query and that item, not on which other candidates
     accompany it or in what order"
        -> mask_scatter_pointwise (a pointwise kernel scattered through the mask IS the pointwise
           scatter), scatter_pointwise (score = score1 model item; sub-lists, concatenation,
           permutation), mult_first_equiv (the implicit bridge's dot-then-select = select-then-dot)
   * "... the input items ... one score per item" for a list in ANY representation: identifiers, item numbers
     against its own vocabulary (the scorer's or another: a full catalogue, a filtered subset), both, with or
     without filled caches, after pickle / data-frame / Arrow round trips and copies (which keep identifiers and
     numbers but not the vocabulary)
        -> any_representation_resolves_ids (the numbers a scorer obtains through
           `items.numbers(vocabulary=self.items)` are the numbers of the list's IDENTIFIERS in the scorer's
           vocabulary, for the rule of the foreign-vocabulary branch REGENERATED from data/items.py),
           scorer_numbers_are_entry_numbers (... which is where mask_scatter starts), resolves_ok_spec (the
           check of the correspondence runs is sound and complete), bare_numbers_rule_misaligns (the theorem is
           false for the other rule: handing out stored numbers of a list without vocabulary)
   * the metamorphic checks evaluated on every observed call
        -> checks_inhabited (scatter output passes them), checks_sound (answers passing the exact
           checks are explained by one score function of the item identifier)
   * "not on which other candidates accompany it": every candidate scored ALONE with the same query object
        -> singletons_inhabited (one-item scatters pass `singles_ok` against the full scatter), singletons_sound (answers
           passing the exact check are [(item, the base call's score of that item)])
   * scorers that bound their working set evaluate the kernel in blocks (batch / block sizes of the configuration)
        -> blocked_kernel_pointwise (for EVERY block size: the blocks laid end to end are the known numbers, each block is
           at most b long, and a pointwise kernel evaluated block by block then scattered through the mask is the pointwise
           scatter), positional_blocks_misalign (writing block answers by position among the known items is not),
           int_fields_explored (generated: every integer field of a scorer configuration class is one the generator
           sets to small values, so block paths run on the small datasets of the correspondence runs)
   PARTIAL: that each numeric kernel (BLAS/torch products, neighbourhood selection, embedding
   look-ups) is pointwise is established by the metamorphic runs (all shipped scorers except HPF,
   which is not installed), not by a theorem; "repeating a call returns identical scores, so
   scoring never alters the trained model" is likewise observed (exact equality of a repeated call
   and of one more call after the permuted and split calls), not proved.  The same holds for the
   caller's inputs: one query object is handed to all six calls and read back after each; the
   history's (item, rating) pairs are compared with the supplied ones inside Coq
   (Model/C04_scatter.v `kept_ok`, part of the correspondence term `call_kept_ok`), the remaining
   fields, storage types, raw buffers and the candidate list by the harness (one flag per call). *)
From Coq Require Import ZArith QArith List Bool Permutation.
From LK Require Import Lib.QLib Model.C04_scatter Model.C04_repr Gen.C04_sites Gen.C04_numbers Proofs.C04_proofs Proofs.C04_repr
  Proofs.C04_blocks.
Import ListNotations.
Open Scope Q_scope.

Theorem scatter_aligned : forall (F : Type) vocab f kernel (items : list (entry F)),
  (map (strip F) (scatter vocab f items) = items /\ length (scatter vocab f items) = length items) /\
  (map (strip F) (mask_scatter vocab kernel items) = items /\ length (mask_scatter vocab kernel items) = length items).
Proof. intros. split; [apply scatter_aligned_l|apply mask_scatter_aligned_l]. Qed.
Print Assumptions scatter_aligned.

Theorem mask_scatter_pointwise : forall (F : Type) vocab kernel g (items : list (entry F)),
  (forall ks, kernel ks = map g ks) -> mask_scatter vocab kernel items = scatter vocab g items.
Proof. exact mask_scatter_pointwise_l. Qed.
Print Assumptions mask_scatter_pointwise.

Theorem scatter_pointwise : forall (F : Type) vocab f (a b : list (entry F)),
  (forall s, In s (scatter vocab f a) -> sscore s = score1 vocab f (sid s) /\ In (strip F s) a) /\
  (forall it, In it a -> In it b ->
     In (fst it, snd it, score1 vocab f (fst it)) (scatter vocab f a) /\
     In (fst it, snd it, score1 vocab f (fst it)) (scatter vocab f b)) /\
  scatter vocab f (a ++ b) = scatter vocab f a ++ scatter vocab f b /\
  (Permutation a b -> Permutation (scatter vocab f a) (scatter vocab f b)).
Proof.
  intros. split; [intros s; apply scatter_In|]. split; [intros it; apply scatter_sublist|].
  split; [apply scatter_app|apply scatter_perm].
Qed.
Print Assumptions scatter_pointwise.

Theorem unknown_is_missing : forall (F : Type) vocab f kernel (items : list (entry F)) s,
  number vocab (sid s) = None ->
  (In s (scatter vocab f items) -> sscore s = None) /\
  (In s (mask_scatter vocab kernel items) -> sscore s = None).
Proof.
  intros F vocab f kernel items s N. split; intro H;
    [eapply unknown_is_missing_scatter; eassumption|eapply mask_scatter_unknown; eassumption].
Qed.
Print Assumptions unknown_is_missing.

Theorem mult_first_equiv : forall emb uf good, dot_then_select emb uf good = select_then_dot emb uf good.
Proof. exact mult_first_equiv_l. Qed.
Print Assumptions mult_first_equiv.

(* finite checks over the table regenerated from the current source *)
Theorem sites_tolerant : forallb site_ok sites = true.
Proof. vm_compute. reflexivity. Qed.
Print Assumptions sites_tolerant.

Definition returns_copy_for (ep : String.string * String.string) (s : site) : bool :=
  match s with
  | ReturnCopy file func true => String.eqb file (fst ep) && String.eqb func (snd ep)
  | _ => false
  end.
Theorem sites_return_copy :
  forallb (fun ep => existsb (returns_copy_for ep) sites) entry_points = true /\
  (12 <= length entry_points)%nat.
Proof. split; [vm_compute; reflexivity|vm_compute; repeat constructor]. Qed.
Print Assumptions sites_return_copy.

Theorem checks_inhabited : forall (F : Type) vocab f (items items' : list (entry F)),
  incl (map fst items') (map fst items) ->
  aligned_b (map fst items) (obs_of (scatter vocab f items)) = true /\
  aligned_b (map fst items') (obs_of (scatter vocab f items')) = true /\
  unknown_ok UMissing vocab (obs_of (scatter vocab f items)) = true /\
  same_b (obs_of (scatter vocab f items)) (obs_of (scatter vocab f items)) = true /\
  consistent_b 0 (obs_of (scatter vocab f items)) (obs_of (scatter vocab f items')) = true.
Proof. intros F. exact (@scatter_passes_checks_l F). Qed.
Print Assumptions checks_inhabited.

Theorem checks_sound : forall (base other : obs) (cands' : list Z),
  aligned_b cands' other = true -> consistent_b 0 base other = true ->
  Forall2 (fun i s => opt_eq s (score_fun base i)) cands' (map snd other).
Proof. exact checks_sound_l. Qed.
Print Assumptions checks_sound.

(* any representation, any journey: the rule in force is the generated constant `foreign_rule_in_source` *)
Theorem any_representation_resolves_ids : forall v il ids steps,
  wf il -> tags_name_objects v il -> ids_of il = Some ids ->
  numbers_in foreign_rule_in_source v (travelled steps il) = Some (map (number (v_keys v)) ids) /\
  ids_of (travelled steps il) = Some ids.
Proof. exact any_representation_resolves_ids_l. Qed.
Print Assumptions any_representation_resolves_ids.

Theorem scorer_numbers_are_entry_numbers : forall (F : Type) v il steps (items : list (entry F)),
  wf il -> tags_name_objects v il -> ids_of il = Some (map fst items) ->
  numbers_in foreign_rule_in_source v (travelled steps il) = Some (numbers (v_keys v) items).
Proof. intros F. exact (@scorer_numbers_are_entry_numbers_l F). Qed.
Print Assumptions scorer_numbers_are_entry_numbers.

Theorem resolves_ok_spec : forall v il ids steps observed,
  wf il -> tags_name_objects v il -> ids_of il = Some ids ->
  (resolves_ok foreign_rule_in_source v il steps observed = true <-> observed = map (number (v_keys v)) ids).
Proof. exact resolves_ok_spec_l. Qed.
Print Assumptions resolves_ok_spec.

(* sensitivity + non-vacuity: a list built by identifier against a catalogue, numbers cached, pickled, scored by a
   model that numbers the items differently -- resolved correctly by the rule in force, misresolved by the other *)
Example bare_numbers_rule_misaligns :
  let catalogue := {| v_tag := 1; v_keys := [10; 11; 12; 13] |}%Z in
  let model := {| v_tag := 2; v_keys := [11; 13] |}%Z in
  let il := {| il_ids := Some [13; 10; 11]%Z; il_nums := None; il_vocab := Some catalogue |} in
  let journey := [SWarm WarmNumbers; STransport TPickle] in
  wf il /\ tags_name_objects model il /\
  numbers_in foreign_rule_in_source model (travelled journey il) = Some [Some 1%nat; None; Some 0%nat] /\
  numbers_in BareNumbersAsGiven model (travelled journey il) = Some [Some 3%nat; Some 0%nat; Some 1%nat].
Proof.
  cbv zeta. split; [|split; [|split; vm_compute; reflexivity]].
  - cbn. split; [|exact I]. repeat constructor; cbn; intuition discriminate.
  - intros w E. injection E as <-. cbn. discriminate.
Qed.

(* non-vacuity: a list with an unknown item and extra fields, scored through the mask *)
Example c04_nonvacuous :
  let vocab := [10; 11; 12]%Z in
  let items : list (entry nat) := [(12, 7%nat); (99, 8%nat); (10, 9%nat)]%Z in
  let kernel := fun ks : list nat => map (fun k => Some (inject_Z (Z.of_nat k) + 1)) ks in
  mask_scatter vocab kernel items = [((12%Z, 7%nat), Some 3); ((99%Z, 8%nat), None); ((10%Z, 9%nat), Some 1)] /\
  mask_scatter vocab kernel items = scatter vocab (fun k => Some (inject_Z (Z.of_nat k) + 1)) items /\
  (* a kernel that is NOT pointwise (reverses its answers) breaks the consistency check *)
  consistent_b 0 (obs_of (mask_scatter vocab (fun ks => rev (kernel ks)) items))
                 (obs_of (mask_scatter vocab (fun ks => rev (kernel ks)) [(10, 9%nat)]%Z)) = false.
Proof. cbv zeta. split; [vm_compute; reflexivity|]. split; vm_compute; reflexivity. Qed.

(* ---- every candidate scored alone ---- *)
Theorem singletons_inhabited : forall (F : Type) vocab f (items picked : list (entry F)),
  incl (map fst picked) (map fst items) ->
  singles_ok 0 (obs_of (scatter vocab f items)) (map fst picked)
             (map (fun it => obs_of (scatter vocab f [it])) picked) = true.
Proof. intros F. exact (@singles_inhabited_l F). Qed.
Print Assumptions singletons_inhabited.

Theorem singletons_sound : forall (base : obs) (picks : list Z) (singles : list obs),
  singles_ok 0 base picks singles = true ->
  Forall2 (fun i o => exists s, o = [(i, s)] /\ opt_eq s (score_fun base i)) picks singles.
Proof. exact singles_sound_l. Qed.
Print Assumptions singletons_sound.

(* ---- kernels evaluated in blocks, any block size ---- *)
Theorem blocked_kernel_pointwise : forall (F : Type) vocab b g (items : list (entry F)) ks,
  concat (chunks b ks) = ks /\
  ((0 < b)%nat -> Forall (fun c => (length c <= b)%nat) (chunks b ks)) /\
  blocked b (map g) ks = map g ks /\
  mask_scatter vocab (blocked b (map g)) items = scatter vocab g items.
Proof.
  intros F vocab b g items ks. split; [apply concat_chunks_fuel|].
  split; [intro B; apply chunks_fuel_bounded; [apply le_n|exact B]|].
  split; [apply blocked_pointwise_l|apply blocked_mask_scatter_l].
Qed.
Print Assumptions blocked_kernel_pointwise.

(* sensitivity: the same blocks written by position among the KNOWN items (scores[start:end] = block) give an unknown
   item another item's score and leave the tail unscored *)
Example positional_blocks_misalign :
  let vocab := [10; 11; 12]%Z in
  let items : list (entry nat) := [(12, 7%nat); (99, 8%nat); (10, 9%nat)]%Z in
  let g := fun k : nat => Some (inject_Z (Z.of_nat k) + 1) in
  mask_scatter vocab (blocked 1 (map g)) items = [((12%Z, 7%nat), Some 3); ((99%Z, 8%nat), None); ((10%Z, 9%nat), Some 1)] /\
  positional_scatter vocab (blocked 1 (map g)) items = [((12%Z, 7%nat), Some 3); ((99%Z, 8%nat), Some 1); ((10%Z, 9%nat), None)] /\
  unknown_ok UMissing vocab (obs_of (positional_scatter vocab (blocked 1 (map g)) items)) = false /\
  singles_ok 0 (obs_of (positional_scatter vocab (blocked 1 (map g)) items)) [10]%Z
             [obs_of (positional_scatter vocab (blocked 1 (map g)) [(10, 9%nat)]%Z)] = false.
Proof. cbv zeta. repeat split; vm_compute; reflexivity. Qed.

(* finite check over the table regenerated from the current source *)
Theorem int_fields_explored : forallb int_field_explored config_int_fields = true /\ (12 <= length config_int_fields)%nat.
Proof. split; [vm_compute; reflexivity|vm_compute; repeat constructor]. Qed.
Print Assumptions int_fields_explored.
