(* C12 -- Batch and parallel execution is transparent: same results for any worker count.
   Property theorems only; each is closed by `exact <lemma>` and followed by Print Assumptions.
   The shapes of the loops (InProcessOpInvoker.map, ProcessPoolOpInvoker.map, worker.worker, _run_pipeline,
   BatchPipelineRunner.run, BatchResults.add_result, SHMPickler._buffer_cb, shm_deserialize, shutdown) are
   the GENERATED constants of Gen/C12_shape.v (the extractor fails closed on any other statement).

   Property text -> theorem:
   * "the generic parallel map likewise returns f(model, x) for every task x in task order for any worker
     count"
        -> scheduler_order (abstract pool: tasks claimed by arbitrary idle workers, finished in arbitrary
           order, handed over by task number; for EVERY interleaving that completes the caller receives
           map f xs), handed_over_is_prefix / never_misattributed / never_duplicated (at every moment of
           every interleaving), invoker_map_order (both invokers, by generated shape).
           PARTIAL: the real scheduler is Python's concurrent.futures; the theorem is about the abstract pool
           and the bookkeeping around it; the real pool is exercised with n_jobs in {2,3,5,16,...}.
        -> worker_environment ("for any worker count" also means: evaluated in the same environment.  What f
           returns depends on its arguments and on the process-wide numeric environment E -- floating-point
           control word, default dtype, error state.  A worker is spawned with the default environment e0 and runs
           the initialiser, whose steps are GENERATED (worker_init_steps; the extractor refuses any statement of
           worker.initalize, LensKitProcess.run or worker.py's top level it does not recognise); the steps leave
           the environment alone and install the rebuilt context, so the pool returns map (f e0 c) xs: f in the
           environment the caller has with n_jobs = 1.)
   * "batch recommendation, scoring and prediction return exactly one result per input key, in input order,
     equal to invoking the corresponding single-query operation for each key in turn"
        -> batch_is_sequential (under the library contract mapper g xs = map g xs), batch_over_pool (the
           contract discharged for the abstract pool under any complete schedule)
   * "A failure while processing some task surfaces as an error to the caller rather than as a silently
     missing, duplicated or misattributed result"
        -> failure_surfaces (map: the caller receives exactly the results of the tasks before the first
           failing one, then its error; batch: the run is that error, no collection is returned)
   * "models containing NumPy arrays and dense or sparse tensors arriving in the workers unchanged"
        -> shm_roundtrip: for every tree whose arrays are well formed (one element per index, a fixed item
           size, an axis permutation and its inverse), every memory layout of every array -- C order, Fortran
           order, any axis permutation of a C-ordered block (out of band), strided / broadcast (in band) --
           and every content of the blocks beyond the payload (zero-length payloads included),
           decode (encode t) = arrived t, and arrived t has the content of t (only the layout tag of an array
           that travelled in band differs: it arrives C-ordered);
           layout_roundtrip: the index arithmetic behind it, for all shapes and axis permutations;
           whole_buffer_refuted: without the recorded length the statement is false; fortran_block: the
           block of a Fortran-ordered array is NOT its index order, so a rebuild that drops the order is wrong;
           transport_rules (GENERATED shape): SHMPickler.reducer_override intercepts tensors and tensor
           storages only -- arrays are left to NumPy's own reduction, whose contract (which layouts travel
           out of band, in which byte order) is the model's `encode` and is compared with every observed block.
           Tensors travel through torch's own reducers (contract; content hashes are computed inside the
           workers by the harness).
   * "and the worker pool is released afterwards" -> release_order (shape only; child processes and
     shared-memory segments are counted after every pool case by the harness). *)
From Coq Require Import ZArith List Bool String.
From LK Require Import Model.C12_shapes Gen.C12_shape Model.C12_pool Proofs.C12_pool Proofs.C12_env Proofs.C12_layout Proofs.C12_shm Proofs.C12_batch.
Import ListNotations.
Open Scope list_scope.

Theorem scheduler_order : forall (A R : Type) (f : A -> res R) (xs : list A) (sched : list ev),
  complete (prun f xs sched) = true -> pool_map f xs sched = map f xs.
Proof. exact @scheduler_order_l. Qed.
Print Assumptions scheduler_order.

Theorem handed_over_is_prefix : forall (A R : Type) (f : A -> res R) (xs : list A) (sched : list ev),
  exists m, pool_map f xs sched = map f (firstn m xs).
Proof. exact @pool_map_prefix. Qed.
Print Assumptions handed_over_is_prefix.

Theorem never_misattributed : forall (A R : Type) (f : A -> res R) (xs : list A) (sched : list ev) i r,
  dfind i (p_done (prun f xs sched)) = Some r -> exists x, nth_error xs i = Some x /\ r = f x.
Proof. exact @stored_is_f. Qed.
Print Assumptions never_misattributed.

Theorem never_duplicated : forall (A R : Type) (f : A -> res R) (xs : list A) (sched : list ev),
  NoDup (indices (prun f xs sched)).
Proof. exact @no_duplicates. Qed.
Print Assumptions never_duplicated.

Theorem invoker_map_order : forall (A R : Type) (f : A -> res R) n_jobs (xs : list A) (sched : list ev),
  (n_jobs <> 1 -> complete (prun f xs sched) = true) -> invoker_map f n_jobs xs sched = map f xs.
Proof. exact @invoker_map_l. Qed.
Print Assumptions invoker_map_order.

Theorem worker_environment : forall (E C A R : Type) (f : E -> C -> A -> res R) (c : C) (e0 : E) (xs : list A) (sched : list ev),
  complete (prun (worker_call f (worker_init c e0)) xs sched) = true ->
  pool_map (worker_call f (worker_init c e0)) xs sched = map (f e0 c) xs.
Proof. exact worker_environment_l. Qed.
Print Assumptions worker_environment.

Theorem batch_is_sequential : forall (IV V : Type) (run_all : list string -> inputs -> res outs)
    (mapper : (key * IV -> res (key * outs)) -> list (key * IV) -> list (res (key * outs))),
  (forall g xs, mapper g xs = map g xs) ->                      (* library contract: Executor.map *)
  forall (invs : list (@invocation IV)) (reqs : list (@key IV * IV)),
  (forall req, In req reqs -> is_ok (run_pipeline run_all invs req) = true) ->
  exists b : @bres IV V, batch_run run_all mapper invs reqs = Ok b /\
    (forall o, alookup o b <> None <-> In o (onames invs)) /\
    forall o, In o (onames invs) ->
      exists l, alookup o b = Some l /\ map fst l = map fst reqs /\
                map (fun kv => Some (snd kv)) l = map (fun req => single_query run_all invs req o) reqs.
Proof. exact @batch_is_sequential_l. Qed.
Print Assumptions batch_is_sequential.

Theorem batch_over_pool : forall (IV V : Type) (run_all : list string -> inputs -> res outs) n_jobs
    (sched_of : list (@key IV * IV) -> list ev),
  (forall (g : @key IV * IV -> res (@key IV * @outs V)) xs, n_jobs <> 1 -> complete (prun g xs (sched_of xs)) = true) ->
  forall invs reqs,
  (forall req, In req reqs -> is_ok (run_pipeline run_all invs req) = true) ->
  exists b : @bres IV V,
    batch_run run_all (fun g xs => invoker_map g n_jobs xs (sched_of xs)) invs reqs = Ok b /\
    forall o, In o (onames invs) ->
      exists l, alookup o b = Some l /\ map fst l = map fst reqs /\
                map (fun kv => Some (snd kv)) l = map (fun req => single_query run_all invs req o) reqs.
Proof.
  intros IV V run_all n_jobs sched_of H invs reqs Hok.
  destruct (batch_is_sequential_l run_all _ (pool_mapper_is_map n_jobs sched_of H) invs reqs Hok) as [b [E [_ P]]].
  exists b. split; [exact E|exact P].
Qed.
Print Assumptions batch_over_pool.

(* "batch recommendation equals the single-query operation for each key in turn" includes the PARAMETERS of the call: the module-level
   helpers (GENERATED helper_recommend / helper_score / helper_predict: the request each puts on its runner) give the pipeline, for every
   key and every value of the list length n -- None, 0, negative or larger than the catalogue, no value stands for "not given" -- exactly the
   keyword arguments of lenskit.recommend(pipe, q, n) / lenskit.score / predict(pipe, q, items) *)
Theorem helpers_forward_parameters : forall (IV : Type) (k : @key IV) (n items : IV),
  inputs_of (helper_inv helper_recommend n) k items = single_inputs HSRecommendN (alookup "user_id"%string k) n items /\
  inputs_of (helper_inv helper_score n) k items = single_inputs HSScore (alookup "user_id"%string k) n items /\
  inputs_of (helper_inv helper_predict n) k items = single_inputs HSPredict (alookup "user_id"%string k) n items.
Proof. exact helpers_forward_parameters_l. Qed.
Print Assumptions helpers_forward_parameters.

Theorem failure_surfaces :
  (forall (A R : Type) (f : A -> res R) (d : R) pre x post e,
     (forall y, In y pre -> is_ok (f y) = true) -> f x = Err e ->
     consume (map f (pre ++ x :: post)) = (map (fun y => ok_value d (f y)) pre, Some e)) /\
  (forall (IV V : Type) (run_all : list string -> inputs -> res outs)
     (mapper : (key * IV -> res (key * outs)) -> list (key * IV) -> list (res (key * outs))),
     (forall g xs, mapper g xs = map g xs) ->
     forall (invs : list (@invocation IV)) pre req post e,
     (forall r, In r pre -> is_ok (run_pipeline run_all invs r) = true) ->
     run_pipeline run_all invs req = Err e ->
     @batch_run IV V run_all mapper invs (pre ++ req :: post) = Err e).
Proof. split; [exact @consume_first_error|exact @failure_surfaces_l]. Qed.
Print Assumptions failure_surfaces.

Theorem shm_roundtrip : forall (pad : nat -> list nat) (t : tree), wf_tree t = true ->
  shm_deserialize shm_slice (shm_serialize pad t) = Some (arrived t) /\ contents (arrived t) = contents t.
Proof. exact shm_roundtrip_l. Qed.
Print Assumptions shm_roundtrip.

(* the elements of A = M.transpose(p), written out in the order of M's memory and read back through the
   inverse index map, are the elements of A: all shapes, all axis permutations p with inverse q *)
Theorem layout_roundtrip : forall (p q s : list nat) (elems : list (list nat)),
  perm_ok (List.length s) p q -> List.length elems = prod s -> from_memory q s (to_memory p q s elems) = elems.
Proof. exact from_to_memory. Qed.
Print Assumptions layout_roundtrip.

Theorem fortran_block :
  wf_tree f23 = true /\
  map (view SliceRecorded) (snd (shm_serialize (fun _ => [0; 0]) f23)) = [[1; 4; 2; 5; 3; 6]] /\
  shm_deserialize shm_slice (shm_serialize (fun _ => [0; 0]) f23) = Some f23 /\
  chunk 1 6 [1; 4; 2; 5; 3; 6] <> [[1]; [2]; [3]; [4]; [5]; [6]].
Proof. exact fortran_block_l. Qed.
Print Assumptions fortran_block.

Theorem transport_rules : reducer_dispatch = [RTensorCSR; RTensorCSC; RTensorTorch; RStorageTorch; ROwnReduction].
Proof. reflexivity. Qed.
Print Assumptions transport_rules.

Theorem whole_buffer_refuted :
  shm_deserialize WholeBuffer (shm_serialize (fun _ => [0; 0; 0]) (TNode [TBuf [1; 2; 3; 4; 5]])) <> Some (TNode [TBuf [1; 2; 3; 4; 5]]).
Proof. exact whole_buffer_refuted_l. Qed.
Print Assumptions whole_buffer_refuted.

Theorem release_order : pool_shutdown = [ShutPool; ShutManager] /\ batch_loop_shape = AddEachOutputUnderItsKey.
Proof. split; reflexivity. Qed.
Print Assumptions release_order.

(* ---- non-vacuity ------------------------------------------------------------------------------------- *)

(* three workers, five tasks, finished out of order (task 2 before 0, 4 before 3): complete, and the caller
   receives map f xs; a stalled interleaving hands over only a prefix *)
Example c12_pool_nonvacuous :
  let f := fun x : nat => if Nat.eqb x 7 then @Err nat 0 else Ok (x * 2) in
  let xs := [5; 6; 8; 9; 5] in
  let sched := [Claim 0; Claim 1; Claim 2; Finish 2; Claim 2; Finish 0; Finish 1; Claim 0; Finish 0; Finish 2] in
  complete (prun f xs sched) = true /\ pool_map f xs sched = [Ok 10; Ok 12; Ok 16; Ok 18; Ok 10] /\
  pool_map f xs [Claim 0; Claim 1; Finish 1] = [] /\
  consume (map f [5; 7; 8]) = ([10], Some 0).
Proof. cbv zeta. repeat split; vm_compute; reflexivity. Qed.

(* a task function whose value depends on the environment (0: subnormal numbers kept, 1: flushed): two workers
   initialised from environment 0 return the values of environment 0; the hypothesis of worker_environment holds *)
Example c12_env_nonvacuous :
  let f := fun (e c x : nat) => if Nat.eqb e 0 then @Ok nat (c + x) else Ok 0 in
  let sched := [Claim 0; Claim 1; Finish 1; Finish 0; Claim 1; Finish 1] in
  complete (prun (worker_call f (worker_init 40 0)) [1; 2; 3] sched) = true /\
  pool_map (worker_call f (worker_init 40 0)) [1; 2; 3] sched = [Ok 41; Ok 42; Ok 43] /\
  map (f 1 40) [1; 2; 3] <> map (f 0 40) [1; 2; 3].
Proof. cbv zeta. repeat split; try (vm_compute; reflexivity). vm_compute. discriminate. Qed.

(* a batch of three keys (one duplicated) over a pipeline given as a table; all hypotheses hold *)
Example c12_batch_nonvacuous :
  let run_all := fun (nodes : list string) (inp : list (string * nat)) =>
                   match alookup "query"%string inp with Some u => @Ok (list (string * nat)) [("recommender"%string, u * 10)] | None => Err 4 end in
  let invs := [mkInv false [("n"%string, 3)] [("recommender"%string, "recommendations"%string)]] in
  let reqs := [([("user_id"%string, 3)], 0); ([("user_id"%string, 1)], 0); ([("user_id"%string, 3)], 0)] in
  (forall req, In req reqs -> is_ok (run_pipeline run_all invs req) = true) /\
  batch_run run_all (fun g xs => map g xs) invs reqs =
    Ok [("recommendations"%string, [([("user_id"%string, 3)], 30); ([("user_id"%string, 1)], 10); ([("user_id"%string, 3)], 30)])].
Proof.
  cbv zeta. split; [|vm_compute; reflexivity].
  intros req [H|[H|[H|[]]]]; subst; vm_compute; reflexivity.
Qed.

(* a model with a C-ordered vector, a Fortran-ordered 2 x 3 matrix, a 2 x 3 x 2 array with permuted axes, a
   strided array (in band), an empty array and a raw buffer: well formed, and it comes back *)
Example c12_layout_nonvacuous :
  let t := TNode [TArr (OutOfBand [0] [0]) 2 [3] [[1; 0]; [2; 0]; [3; 0]]; f23;
                  TArr (OutOfBand [1; 2; 0] [2; 0; 1]) 1 [2; 3; 2] (map (fun k => [k]) (seq 0 12));
                  TArr InBand 1 [2; 2] [[9]; [8]; [7]; [6]]; TArr (OutOfBand [1; 0] [1; 0]) 4 [0; 3] []; TBuf [5; 5]; TAtom 3] in
  wf_tree t = true /\ arrived t <> t /\
  shm_deserialize shm_slice (shm_serialize (fun i => repeat 0 i) t) = Some (arrived t).
Proof. cbv zeta. repeat split; try (vm_compute; reflexivity). vm_compute. discriminate. Qed.
