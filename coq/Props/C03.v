(* C03 -- Standard pipelines return exactly the top-n unseen candidates, best first.
   Property theorems only; each is closed by `exact <lemma>` and followed by Print Assumptions.
   `topn_len` (TopNRanker's length resolution) and `argtopn_plan` (which of argtopn's branches runs)
   are the GENERATED definitions of Gen/C03_len.v, so pipeline_ok and runtime_n_overrides are
   re-checked against the source on every run.  The scorer is universally quantified
   (`sc : query -> Z -> option Q`, None = NaN): the statements hold for every scoring model.

   Property text -> theorem:
   * "the recommendation list contains only candidate items ..., has no duplicates and no unscored
     items, is in non-increasing score order carrying the very scores the scoring model assigns to
     those items, has length min(n, number of scorable candidates), and omits no scorable candidate
     whose score is strictly higher than an included one"
         -> rec_spec (Proofs/C03_checker.v, one conjunct per clause); rec_ok_sound_complete says the
            executable checker applied to the implementation's (candidates, scorer output, ranking)
            triples decides exactly that; pipeline_ok says the model pipeline satisfies it for every
            dataset, scorer, query, candidate list and configured / run-time length.
   * "(all training items minus the items in the user's history, or exactly the caller-supplied
     candidates)"                                                    -> candidates_exact
   * "a length given at run time overrides the configured one"        -> runtime_n_overrides
   * "Rating predictions equal the primary model's score wherever that is available and the
     fallback model's score elsewhere"                                -> predict_merge, fallback_itemwise
   * "a bare user identifier, a query object carrying that identifier, and a query object carrying
     the identifier together with the user's training history all produce the same output"
                                                                      -> query_forms_agree
   * "every trained standard top-N or rating-prediction pipeline": which node feeds which parameter of
     which component in RecPipelineBuilder.build / topn_pipeline / predict_pipeline is the GENERATED
     Gen/C03_wiring.v; interpreted node by node it computes exactly the pipelines the other theorems
     speak about                                                      -> standard_wiring
   * "trained": the data of the latest train() alone, whatever the same object was trained on and
     asked before                                                     -> retrain_current_data
   * "every trained ... pipeline", several of them alive in one process (built and trained in any interleaving,
     on different data): an object answers from ITS OWN latest train(), whatever other objects were built,
     trained or asked before and after                                -> objects_independent
   Hypotheses: the item vocabulary has no repeated identifier (C01's bijection) and a supplied
   candidate list is duplicate-free (the quantifier of the property: "supplied lists of distinct
   items").  A configured length of 0 is outside the claim; the generated resolution treats it as
   "unlimited" (`config.n or -1`) and the theorems cover it as such. *)
From Coq Require Import ZArith QArith List Bool Sorted.
From LK Require Import Lib.QLib Lib.PyInt Lib.TopN Gen.C03_len Model.C03_pipeline Model.C03_graph Gen.C03_wiring
  Proofs.C03_checker Proofs.C03_main Proofs.C03_wiring.
Import ListNotations.
Open Scope Z_scope.

Theorem rec_ok_sound_complete : forall cand scores n out,
  rec_ok_b cand scores n out = true <->
  (forall i s, In (i, s) out -> In i cand) /\
  NoDup (map fst out) /\
  (forall i s, In (i, s) out -> s <> None) /\
  StronglySorted (fun a b => skey b <= skey a)%Q out /\
  (forall i s, In (i, s) out -> In (i, s) scores) /\
  length out = (if n <? 0 then length (scorable cand scores)
                else Nat.min (Z.to_nat n) (length (scorable cand scores))) /\
  (forall j t, In (j, Some t) scores -> In j cand -> ~ In j (map fst out) ->
     forall i s, In (i, Some s) out -> ~ (s < t)%Q).
Proof. exact rec_ok_sound_complete_l. Qed.
Print Assumptions rec_ok_sound_complete.

Theorem pipeline_ok : forall (sc : scorer) ds i supplied config_n run_n,
  NoDup (ds_items ds) -> (forall l, supplied = Some l -> NoDup l) ->
  let q := lookup_history ds i in
  let cand := candidates ds q supplied in
  let k := match run_n with Some k => k | None => config_default config_n end in
  exists out,
    rec_pipeline sc ds i supplied config_n run_n = Ok (out, true) /\      (* a list, flagged ordered *)
    rec_ok_b cand (score_items sc q cand) k out = true.
Proof. exact pipeline_ok_l. Qed.
Print Assumptions pipeline_ok.

Theorem candidates_exact : forall ds i supplied,
  let q := lookup_history ds i in
  (forall l, supplied = Some l -> candidates ds q supplied = l) /\
  (supplied = None -> forall x, In x (candidates ds q supplied) <-> In x (ds_items ds) /\ ~ In x (history_ids q)) /\
  q_items q = match q_items (create i), q_user (create i) with
              | Some h, _ => Some h
              | None, Some u => row_items ds u
              | None, None => None
              end.
Proof. exact candidates_exact_l. Qed.
Print Assumptions candidates_exact.

Theorem runtime_n_overrides : forall (sc : scorer) ds i supplied config_n config_n' k,
  resolved (Some k) config_n = Some k /\
  resolved None config_n = Some (match config_n with Some c => if c =? 0 then -1 else c | None => -1 end) /\
  rec_pipeline sc ds i supplied config_n (Some k) = rec_pipeline sc ds i supplied config_n' (Some k).
Proof. exact runtime_n_overrides_l. Qed.
Print Assumptions runtime_n_overrides.

Theorem predict_merge : forall (sc f : scorer) ds i supplied,
  let q := lookup_history ds i in
  let cand := candidates ds q supplied in
  rows (pred_pipeline sc (Some f) ds i supplied)
    = map (fun x => (x, match sc q x with Some v => Some v | None => f q x end)) cand /\
  rows (pred_pipeline sc None ds i supplied) = score_items sc q cand.
Proof. exact predict_merge_l. Qed.
Print Assumptions predict_merge.

Theorem fallback_itemwise : forall ids ps bids bs,
  length ps = length ids ->
  let out := fallback_scorer (ids, Some ps) (bids, Some bs) in
  fst out = ids /\
  exists os, snd out = Some os /\ length os = length ids /\
    forall k i p, nth_error ids k = Some i -> nth_error ps k = Some p ->
      nth_error os k = Some (match p with Some v => Some v | None => score_of i (combine bids bs) end).
Proof. exact fallback_itemwise_l. Qed.
Print Assumptions fallback_itemwise.

Theorem query_forms_agree : forall (sc : scorer) (fb : option scorer) ds u supplied config_n run_n,
  let bare := QId u in
  let qid := QQuery {| q_user := Some u; q_items := None |} in
  let qhist := QQuery {| q_user := Some u; q_items := row_items ds u |} in
  rec_pipeline sc ds qid supplied config_n run_n = rec_pipeline sc ds bare supplied config_n run_n /\
  rec_pipeline sc ds qhist supplied config_n run_n = rec_pipeline sc ds bare supplied config_n run_n /\
  pred_pipeline sc fb ds qid supplied = pred_pipeline sc fb ds bare supplied /\
  pred_pipeline sc fb ds qhist supplied = pred_pipeline sc fb ds bare supplied.
Proof. exact query_forms_agree_l. Qed.
Print Assumptions query_forms_agree.

(* The ranker and the rating merger consume ONE scorer output; a run asked for several nodes (any order,
   memoised) gives each node the result it has on its own.  In the model values are immutable, so "no
   consumer alters an output that another consumer reads" holds by construction; for the implementation
   it is a correspondence clause of every case (node values after multi-node runs = stand-alone values). *)
Theorem shared_scorer_output : forall (sc f : scorer) ds i supplied config_n run_n,
  let q := lookup_history ds i in
  let cand := candidates ds q supplied in
  let scores := score_items sc q cand in
  rec_pipeline sc ds i supplied config_n run_n = topn_ranker (Some scores) run_n config_n /\
  pred_pipeline sc (Some f) ds i supplied = fallback_scorer (of_rows scores) (of_rows (score_items f q cand)) /\
  pred_pipeline sc None ds i supplied = of_rows scores /\
  forall fb req nd v, In (nd, v) (run_request sc fb ds i supplied config_n run_n req []) ->
    v = eval_node sc fb ds i supplied config_n run_n nd.
Proof. exact shared_scorer_output_l. Qed.
Print Assumptions shared_scorer_output.

(* The wiring that pipeline/common.py assembles (regenerated from the source: node, component, parameter <- node),
   interpreted generically (Model/C03_graph.v: eval), is the composition the theorems above are about:
   the "recommender" (= default) node of RecPipelineBuilder.build() for every combination of prediction flags,
   its "rating-predictor" with a fallback model and without, and predict_pipeline's default node. *)
Theorem standard_wiring : forall E : wenv,
  let rec := rec_pipeline (e_sc E) (e_ds E) (e_in E) (e_items E) (e_cfg E) (e_n E) in
  let pred := pred_pipeline (e_sc E) (e_fb E) (e_ds E) (e_in E) (e_items E) in
  (forall pr hf, run_wiring E (rec_wiring pr hf) Nrecommender = V_Rec rec /\
                 run_default E (rec_wiring pr hf) = V_Rec rec) /\
  (forall f, e_fb E = Some f -> as_pred (run_wiring E (rec_wiring true true) Npredictor) = Some pred) /\
  (e_fb E = None -> as_pred (run_wiring E (rec_wiring true false) Npredictor) = Some pred) /\
  (forall hf, find_node (w_nodes (rec_wiring false hf)) Npredictor = None) /\
  (forall l, e_items E = Some l ->
     (forall f, e_fb E = Some f -> as_pred (run_default E (predict_wiring true)) = Some pred) /\
     (e_fb E = None -> as_pred (run_default E (predict_wiring false)) = Some pred)).
Proof. exact standard_wiring_l. Qed.
Print Assumptions standard_wiring.

(* One pipeline object, any earlier life `pre` (train() on other data sets, queries), then train(ds) and further
   queries: every answer is the answer of a pipeline that has only ever seen `ds`. *)
Theorem retrain_current_data : forall (sc : scorer) (fb : option scorer) pre ds qs i supplied config_n run_n,
  forallb is_ask qs = true ->
  after (pre ++ Train ds :: qs) = Some ds /\
  rec_after sc (pre ++ Train ds :: qs) i supplied config_n run_n = Some (rec_pipeline sc ds i supplied config_n run_n) /\
  pred_after sc fb (pre ++ Train ds :: qs) i supplied = Some (pred_pipeline sc fb ds i supplied).
Proof. exact retrain_current_data_l. Qed.
Print Assumptions retrain_current_data.

(* Several pipeline objects in one process (`w`: which object each event happened to).  After object k's train(ds),
   whatever happened before (`pre`: any objects, any events) and whatever happens afterwards to OTHER objects
   (`post`: no further train() of k itself): every answer of k is that of a pipeline that has only ever seen `ds`.
   In the model this holds by construction (`own`: an object's state is a function of its own events -- no component
   instance is shared between objects); the point is that the correspondence cases are evaluated against
   `own 0 <process history>` and the implementation has to agree. *)
Theorem objects_independent : forall (sc : scorer) (fb : option scorer) k pre ds post i supplied config_n run_n,
  existsb (trains k) post = false ->
  after_in k (pre ++ (k, Train ds) :: post) = Some ds /\
  rec_in sc k (pre ++ (k, Train ds) :: post) i supplied config_n run_n = Some (rec_pipeline sc ds i supplied config_n run_n) /\
  pred_in sc fb k (pre ++ (k, Train ds) :: post) i supplied = Some (pred_pipeline sc fb ds i supplied).
Proof. exact objects_independent_l. Qed.
Print Assumptions objects_independent.

(* non-vacuity: a vocabulary of five items, a user who has seen two of them, a scorer with a tie and
   a missing score, configured length 10 overridden by a run-time length of 2 *)
Example c03_nonvacuous :
  let ds := {| ds_items := [10; 11; 12; 13; 14];
               ds_rows := [(1, [(10, Some (3 # 1)%Q); (12, None)]); (2, [])] |} in
  let sc : scorer := fun q i => if i =? 13 then None else if i =? 10 then Some (9 # 1)%Q else Some (1 # 2)%Q in
  NoDup (ds_items ds) /\
  candidates ds (lookup_history ds (QId 1)) None = [11; 13; 14] /\
  rec_pipeline sc ds (QId 1) None (Some 10) (Some 2) = Ok ([(11, Some (1 # 2)%Q); (14, Some (1 # 2)%Q)], true) /\
  rec_pipeline sc ds (QId 1) None (Some 1) None = Ok ([(11, Some (1 # 2)%Q)], true) /\
  rec_ok_b [11; 13; 14] (score_items sc (lookup_history ds (QId 1)) [11; 13; 14]) 2
           [(14, Some (1 # 2)%Q); (11, Some (1 # 2)%Q)] = true /\          (* the other tie order is accepted too *)
  rec_ok_b [11; 13; 14] (score_items sc (lookup_history ds (QId 1)) [11; 13; 14]) 2
           [(11, Some (1 # 2)%Q)] = false /\                               (* too short *)
  rows (pred_pipeline sc (Some (fun _ _ => Some (7 # 2)%Q)) ds (QId 1) None)
    = [(11, Some (1 # 2)%Q); (13, Some (7 # 2)%Q); (14, Some (1 # 2)%Q)] /\
  (* supplied candidates with a seen item (10), an unknown one (99) and a gap of the primary (13): each gets its own score *)
  rows (pred_pipeline (fun q i => if i =? 10 then Some (9 # 1)%Q else None) (Some (fun _ i => Some (i # 2)%Q)) ds (QId 1) (Some [10; 99; 13]))
    = [(10, Some (9 # 1)%Q); (99, Some (99 # 2)%Q); (13, Some (13 # 2)%Q)] /\
  (* the same object trained earlier on data in which user 1 had seen everything: the latest train() decides *)
  (let old := {| ds_items := [10; 11; 12; 13; 14]; ds_rows := [(1, [(10, None); (11, None); (12, None); (13, None); (14, None)])] |} in
   rec_after sc [Train old; Ask (QId 1) None; Train ds; Ask (QId 2) None] (QId 1) None (Some 10) (Some 2)
     = Some (Ok ([(11, Some (1 # 2)%Q); (14, Some (1 # 2)%Q)], true))) /\
  (* a second pipeline object trained afterwards on a smaller catalogue does not change what the first one answers *)
  (let small := {| ds_items := [10; 12]; ds_rows := [(1, [])] |} in
   rec_in sc 0 [(1%nat, Train small); (0%nat, Train ds); (1%nat, Train small); (1%nat, Ask (QId 1) None)] (QId 1) None (Some 10) (Some 2)
     = Some (Ok ([(11, Some (1 # 2)%Q); (14, Some (1 # 2)%Q)], true))) /\
  (* the generated wiring, run node by node *)
  run_default {| e_sc := sc; e_fb := None; e_ds := ds; e_in := QId 1; e_items := None; e_cfg := Some 10; e_n := Some 2 |}
              (rec_wiring true true) = V_Rec (Ok ([(11, Some (1 # 2)%Q); (14, Some (1 # 2)%Q)], true)).
Proof.
  cbv zeta. split.
  - repeat constructor; simpl; intuition discriminate.
  - repeat split; vm_compute; reflexivity.
Qed.
