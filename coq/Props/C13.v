(* C13 -- placeholder while the correspondence is brought up; theorems follow. *)
From LK Require Import Lib.StrDict Gen.C13_shape Model.C13_json Model.C13_config.
