(* C13 -- A pipeline's configuration reproduces it and its hash is stable across processes.
   Property theorems only; each is closed by `exact <lemma>` and followed by Print Assumptions.
   The shape facts used by the model (field order of the configuration classes, which collections
   are written sorted, where the cycle check sits, order of the from_config passes, name/version
   kept) are the GENERATED ones (Gen/C13_shape.v): these statements are re-checked against the
   source on every run.

   Model parameters (explicit premises, never axioms):
     sig     parameter names of a component                       (inspect.signature)
     norm    validate-then-dump of a component's settings          (pydantic TypeAdapter); contract norm_idempotent
     H       SHA-256 hex digest                                     ; contract collision_free
     set_of  iteration order of a freshly built set of type names   ; contract set_contract (any order, no duplicates)

   Property text -> theorem:
   * "rebuilding from the configuration - directly, after a JSON round trip, or by cloning - yields a
     pipeline with the same name and version, inputs and their types, components and component
     settings, wiring with default connections resolved, aliases, default node and configuration
     hash ... without a hash-mismatch warning"                      -> config_roundtrip, clone_equal
   * "that returns the same results as the original on every input before training"
                                                                    -> rebuilt_pipeline_equal_partial (the rebuilt
       node table, wiring, aliases and default are those of the original; that a run is a function of these
       is C02's theorem and the component contract; equality of actual run results is checked by the oracle)
   * "for every pipeline built"                                     -> reachable_states_wellformed (every history of
       builder operations from the empty builder gives a state the theorems apply to)
   * "equal configurations hash equally in every process and regardless of the order in which a
     component's connections or the aliases were declared"          -> hash_order_free
   * "any change to a setting, connection, alias, default or name changes it"
                                                                    -> serialize_injective, hash_changes
   * "loading a document whose recorded hash disagrees with its content raises a warning"
                                                                    -> tampered_hash_warns
   * the cycle check standing for graphlib.TopologicalSorter is exact -> cycle_check_exact
   * "its configuration document fully determines it ... after a JSON round trip" for LITERAL nodes: a value is
     written as JSON exactly when JSON can hold it as it is (type of every part included; GENERATED fact
     literal_json_iff_exact about PipelineLiteral.represent), read back from the JSON tree unchanged, pickled
     otherwise, and two different values (a tuple and the equal list, 1 and true, a key 1 and a key "1") never
     share an entry - with config_roundtrip / hash_changes: the reloaded literal nodes hold the original values and
     a change of a literal's type changes the hash         -> literal_json_roundtrip, literal_survives_reload,
                                                              literal_change_changes_entry
     (pickle_contract: the base85 pickle text of a value can be loaded again - library contract) *)
From Coq Require Import String Ascii List Bool Permutation.
From LK Require Import Lib.StrDict Lib.StrDictFacts Gen.C13_shape Model.C13_json Model.C13_config
  Proofs.C13_acyclic Proofs.C13_wf Proofs.C13_fromconfig Proofs.C13_roundtrip Proofs.C13_buildwf Proofs.C13_main
  Proofs.C13_order Proofs.C13_print Proofs.C13_inject Proofs.C13_ops Model.C13_literal Proofs.C13_literal
  Model.C13_text (* byte-list notation used by the correspondence case files; no theorem depends on it *).
Import ListNotations.
Open Scope string_scope.

Definition set_contract (set_of : list string -> list string) : Prop :=
  forall l, NoDup (set_of l) /\ (forall x, In x (set_of l) <-> In x l).
Definition norm_idempotent (norm : string -> option obj -> option (option obj)) : Prop :=
  forall code s s', norm code s = Some s' -> norm code s' = Some s'.
Definition collision_free (H : string -> string) : Prop := forall s t, H s = H t -> s = t.

Theorem config_roundtrip : forall sig norm H set_of, set_contract set_of ->
  forall b c, bwf norm b -> build sig H b = OK c ->
  let c' := reloaded H set_of c in
  reload sig norm H set_of c = OK (c', false) /\                (* Pipeline.from_config(p.config): no warning *)
  cequiv c' c /\                                                  (* equal up to the order the type sets are held in *)
  (forall ex, serialize ex c' = serialize ex c) /\                (* same JSON, with and without exclude_none *)
  m_name (cf_meta c') = b_name b /\ m_version (cf_meta c') = b_version b /\
  m_hash (cf_meta c') = m_hash (cf_meta c) /\
  cf_components c' = cf_components c /\ cf_aliases c' = cf_aliases c /\ cf_default c' = cf_default c /\
  cf_literals c' = cf_literals c /\ Forall2 input_equiv (cf_inputs c') (cf_inputs c).
Proof. exact roundtrip_l. Qed.
Print Assumptions config_roundtrip.

(* Pipeline.clone() is from_config(self._config): same serialisation, same hash, no warning *)
Theorem clone_equal : forall sig norm H set_of, set_contract set_of ->
  forall b c, bwf norm b -> build sig H b = OK c ->
  exists c', reload sig norm H set_of c = OK (c', false) /\
    (forall ex, serialize ex c' = serialize ex c) /\ m_hash (cf_meta c') = m_hash (cf_meta c) /\
    m_name (cf_meta c') = m_name (cf_meta c) /\ m_version (cf_meta c') = m_version (cf_meta c).
Proof. exact clone_equal_l. Qed.
Print Assumptions clone_equal.

Theorem rebuilt_pipeline_equal_partial : forall sig norm H set_of, set_contract set_of ->
  forall b c, bwf norm b -> build sig H b = OK c ->
  exists b' w, from_config sig norm H set_of c = OK (b', w) /\ w = false /\
    b_name b' = b_name b /\ b_version b' = b_version b /\
    forall n, match dget n (b_nodes b), dget n (b_nodes b') with
              | Some (KInput a), Some (KInput a') => Permutation a a'
              | Some k, Some k' => k = k'
              | None, None => True
              | _, _ => False
              end.
Proof. exact rebuilt_nodes_l. Qed.
Print Assumptions rebuilt_pipeline_equal_partial.

Theorem reachable_states_wellformed : forall norm set_of, set_contract set_of -> norm_idempotent norm ->
  forall name version ops, hist_pre norm set_of (new_builder name version) ops ->
  bwf norm (fst (run_ops norm set_of (new_builder name version) ops)).
Proof. exact reachable_wf_l. Qed.
Print Assumptions reachable_states_wellformed.

Theorem hash_order_free : forall sig norm H b b' ih, bwf norm b -> bwf norm b' -> bequiv b b' ->
  match build_config sig H b ih, build_config sig H b' ih with
  | OK c, OK c' => cequiv c c' /\ (forall ex, serialize ex c = serialize ex c') /\ m_hash (cf_meta c) = m_hash (cf_meta c')
  | Err e, Err e' => e = e'
  | _, _ => False
  end.
Proof. exact order_free_l. Qed.
Print Assumptions hash_order_free.

Theorem serialize_injective : forall ex c d, in_domain ex c -> in_domain ex d ->
  serialize ex c = serialize ex d -> cequiv c d.
Proof. exact serialize_inj. Qed.
Print Assumptions serialize_injective.

Theorem hash_changes : forall H, collision_free H -> forall c d,
  in_domain hash_excludes_none (clear_hash c) -> in_domain hash_excludes_none (clear_hash d) ->
  ~ cequiv (clear_hash c) (clear_hash d) -> H (preimage c) <> H (preimage d).
Proof. exact hash_changes_l. Qed.
Print Assumptions hash_changes.

Theorem tampered_hash_warns : forall sig norm H set_of, set_contract set_of -> forall c, cwf norm c ->
  exists b', from_config sig norm H set_of c = OK (b', warn_of H c) /\
    (forall h, m_hash (cf_meta c) = Some h -> (warn_of H c = true <-> h <> H (preimage c))) /\
    (m_hash (cf_meta c) = None -> warn_of H c = false).
Proof. exact tampered_l. Qed.
Print Assumptions tampered_hash_warns.

Theorem cycle_check_exact : forall g, acyclic_b g = true <-> Acyclic g.
Proof. exact acyclic_b_spec. Qed.
Print Assumptions cycle_check_exact.

(* ---- literal values ---- *)
Definition pickle_contract (pickle : pyv -> string) (unpickle : string -> option pyv) : Prop :=
  forall v, unpickle (pickle v) = Some v.

(* JSON text -> JSON tree -> Python value gives back a JSON-exact value, type of every part included *)
Theorem literal_json_roundtrip : forall v, json_exact v = true -> pyv_wf v = true -> of_json (to_json v) = v.
Proof. exact of_to_json. Qed.
Print Assumptions literal_json_roundtrip.

(* the entry represent writes decodes to the original value whatever its type; it is JSON iff the value is
   JSON-exact; writing the decoded value again gives the same entry (so from_config + build_config keep it) *)
Theorem literal_survives_reload : forall pickle unpickle, pickle_contract pickle unpickle ->
  forall v, pyv_wf v = true ->
  decode unpickle (represent pickle v) = Some v /\
  (l_enc (represent pickle v) = "json" <-> json_exact v = true) /\
  (l_enc (represent pickle v) = "json" \/ l_enc (represent pickle v) = "base85") /\
  forall v', decode unpickle (represent pickle v) = Some v' -> represent pickle v' = represent pickle v.
Proof. exact literal_survives_l. Qed.
Print Assumptions literal_survives_reload.

Theorem literal_change_changes_entry : forall pickle unpickle, pickle_contract pickle unpickle ->
  forall v w, pyv_wf v = true -> pyv_wf w = true -> v <> w -> represent pickle v <> represent pickle w.
Proof. exact literal_change_l. Qed.
Print Assumptions literal_change_changes_entry.

(* non-vacuity of the literal theorems: a tuple inside a list, an int-keyed dict, a subclass instance and a
   non-finite float are not JSON-exact; a nested JSON value is, is well-formed and is read back unchanged *)
Example c13_literals_nonvacuous :
  let v := PDict [(PStr "a", PList [PInt "1"; PFloat "-0.0"; PNone; PBool true]); (PStr "b", PDict [(PStr "1", PStr "one")])] in
  json_exact v = true /\ pyv_wf v = true /\ of_json (to_json v) = v /\
  json_exact (PList [PInt "1"; PTuple [PInt "2"]]) = false /\ json_exact (PDict [(PInt "1", PStr "one")]) = false /\
  json_exact (PSub (PFloat "2.5")) = false /\ json_exact (PFloatNF "nan") = false /\
  to_json (PTuple [PInt "1"; PInt "2"]) = to_json (PList [PInt "1"; PInt "2"]) /\
  PTuple [PInt "1"; PInt "2"] <> PList [PInt "1"; PInt "2"].
Proof. cbv zeta. repeat split; try (vm_compute; reflexivity). discriminate. Qed.

(* non-vacuity: a named, versioned pipeline with a multi-type input, a literal, settings with a null, a default
   connection, two aliases declared out of order and a default node is reachable, well-formed, builds, lies in
   the lexical domain, and its configuration reloads without warning *)
Example c13_nonvacuous :
  let sig := fun code : string => if String.eqb code "m:add" then ["x"; "y"] else ["x"] in
  let norm := fun (_ : string) (s : option obj) => Some s in
  let H := fun s : string => s in
  let ops := [OInput "a" ["str"; "int"; "None"];
              OAdd "c1" "m:Scale" (Some [("factor", JTok "3"); ("label", JTok "null")]) [("x", TNode "a")];
              ODefaultConn "y" (TNode "c1");
              OAdd "c2" "m:add" None [("x", TLit "L" "json" (JTok "7"))];
              OAlias "zz" "c2"; OAlias "aa" "c1"; ODefaultComp "zz"] in
  let b := fst (run_ops norm sdedup (new_builder (Some "p") (Some "1")) ops) in
  set_contract sdedup /\ norm_idempotent norm /\ collision_free H /\
  hist_pre norm sdedup (new_builder (Some "p") (Some "1")) ops /\ bwf norm b /\
  exists c, build sig H b = OK c /\ in_domain true (clear_hash c) /\
    dget "c2" (cf_components c) = Some {| c_code := "m:add"; c_config := None; c_inputs := [("x", "L"); ("y", "c1")] |} /\
    keys (cf_aliases c) = ["aa"; "zz"] /\
    exists c', reload sig norm H sdedup c = OK (c', false) /\ serialize true c' = serialize true c.
Proof.
  cbv zeta.
  assert (SC : set_contract sdedup) by (intro l; split; [apply sdedup_nodup|intro x; apply sdedup_in]).
  assert (NI : norm_idempotent (fun (_ : string) (s : option obj) => Some s)) by (intros ? ? ? [= <-]; reflexivity).
  assert (HP : hist_pre (fun (_ : string) (s : option obj) => Some s) sdedup (new_builder (Some "p") (Some "1"))
                 [OInput "a" ["str"; "int"; "None"];
                  OAdd "c1" "m:Scale" (Some [("factor", JTok "3"); ("label", JTok "null")]) [("x", TNode "a")];
                  ODefaultConn "y" (TNode "c1");
                  OAdd "c2" "m:add" None [("x", TLit "L" "json" (JTok "7"))];
                  OAlias "zz" "c2"; OAlias "aa" "c1"; ODefaultComp "zz"]).
  { cbn. repeat split; try exact I; try (repeat constructor); cbn; try tauto. }
  split; [exact SC|]. split; [exact NI|]. split; [intros s t E; exact E|]. split; [exact HP|].
  split; [apply (reachable_wf_l _ _ SC NI); exact HP|].
  eexists. split; [vm_compute; reflexivity|]. split; [vm_compute; reflexivity|].
  split; [vm_compute; reflexivity|]. split; [vm_compute; reflexivity|].
  eexists. split; vm_compute; reflexivity.
Qed.
