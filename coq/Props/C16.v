(* C16 -- Item lists keep each item's identifier, number and field values together.
   Property theorems only; each is closed by `exact <lemma>` and followed by Print Assumptions.
   The model (Model/C16_itemlist.v) is hand-written and tied to lenskit/data/items.py by the
   operation-sequence correspondence that ./check C16 evaluates inside Coq on every run.

   Property text -> theorem
   * "For every item list built from identifiers, numbers, or both with a vocabulary, identifiers
     and numbers always correspond through that vocabulary - and through any alternate vocabulary
     requested, with a negative marker or an error for unknown items as selected - every field has
     exactly one value per item, and ranks are 1..n in list order exactly when the list is ordered"
     ... for "all finite sequences of subsetting, copy-with-override, format-conversion and
     alternate-vocabulary operations"                          -> coherent_preserved
       (`coherent` is the sentence above, clause by clause; `run` interprets any sequence of
        constructions, copies with overrides/removals, subsettings, lazy reads, alternate-vocabulary
        reads, clones and round trips through data frames and Arrow tables -- default columns or a
        caller-supplied schema in any order -- over a pool of lists)
   * "Subsetting by mask, index array or slice ... keep each item's identifier, number and field
     values together"                                          -> rows_stay_together
   * "copying with fields replaced or removed"                 -> copy_keeps_rows
   * "and never change the source list"                        -> source_unchanged
   * "fields of the wrong length or dimensionality are rejected at construction"
                                                               -> bad_shapes_rejected
   * "conversion among ... Arrow ... representations keep each item's identifier, number and field
     values together", for a caller-supplied column schema in any order -> columns_by_name,
     columns_round_trip
       (the round trips through data frames / Arrow tables, with or without a schema, are operations of
        `run`, so coherent_preserved and source_unchanged cover them)
   * conversion among NumPy, PyTorch and Arrow views of one array is the identity on the abstract
     values of the model; that the four real formats agree entry-wise is checked on every list of
     every correspondence case (harness), not proved.

   Hypotheses (all discharged for the concrete example at the end):
   env_ok   every vocabulary has distinct terms (Vocabulary.__init__ raises otherwise);
   ops_ok   what a caller owes at each construction: a 1-D array of shape [n] has n entries;
            identifiers and numbers given together agree with the vocabulary in force; a vocabulary
            attached later to a list built from both without one agrees with them; a supplied rank
            column is 1..n. *)
From Coq Require Import ZArith List Bool.
From LK Require Import Model.C16_itemlist Proofs.C16_base Proofs.C16_wf Proofs.C16_ops Proofs.C16_rows Proofs.C16_copy Proofs.C16_cols.
Import ListNotations.
Open Scope Z_scope.

Theorem coherent_preserved : forall env ops,
  env_ok env -> ops_ok env [] ops -> Forall (coherent env) (run env [] ops).
Proof. exact coherent_preserved_l. Qed.
Print Assumptions coherent_preserved.

(* `coherent env l`, unfolded, is literally:
     get_ids env l = Ok i                      -> length i = len l
     get_nums env l m = Ok n                   -> length n = len l
     vocab l = Some v, ids i, numbers n        -> n = map (position in vocabulary v, or -1) i
     get_nums env l MNegative = Ok n           -> get_nums env l MError = if some n<0 then Err EKey else Ok n
     get_ids env l = Ok i                      -> alt_nums env l v2 m = apply_missing m (vnums (venv env v2) i)
     get_field l f = Some vs                   -> length vs = len l
     get_ranks l = if ordered l then Some [1..len l] else None *)
Theorem coherent_means : forall env l, coherent env l ->
  (forall i, get_ids env l = Ok i -> length i = len l) /\
  (forall v i n, vocab l = Some v -> get_ids env l = Ok i -> get_nums env l MNegative = Ok n -> n = map (vnum (venv env v)) i) /\
  (forall n, get_nums env l MNegative = Ok n -> get_nums env l MError = if has_neg n then Err EKey else Ok n) /\
  (forall v2 i m, get_ids env l = Ok i -> alt_nums env l v2 m = apply_missing m (map (vnum (venv env v2)) i)) /\
  (forall f vs, get_field l f = Some vs -> length vs = len l) /\
  get_ranks l = if ordered l then Some (seq1 (len l)) else None.
Proof. exact coherent_means_l. Qed.
Print Assumptions coherent_means.

Theorem rows_stay_together : forall env l s l',
  env_ok env -> wf env l -> subset env l s = Ok l' ->
  exists sigma, sel_idx (len l) s = Ok sigma /\ Forall (fun k => (k < len l)%nat) sigma /\
    len l' = length sigma /\ ordered l' = ordered l /\ vocab l' = vocab l /\
    (forall i, get_ids env l = Ok i -> get_ids env l' = Ok (pick 0 sigma i)) /\
    (forall n, get_nums env l MNegative = Ok n -> get_nums env l' MNegative = Ok (pick 0 sigma n)) /\
    (forall f, f <> F_RANK -> get_field l' f = option_map (pick VNaN sigma) (get_field l f)).
Proof. exact rows_stay_together_l. Qed.
Print Assumptions rows_stay_together.

(* the positions a selector denotes: a mask selects exactly its true positions in increasing order,
   an index array its entries (negative ones counted from the end), a full slice everything *)
Theorem selectors_mean : forall n,
  (forall m, length m = n -> exists sigma, sel_idx n (SMask m) = Ok sigma /\
     forall k, In k sigma <-> nth k m false = true) /\
  (forall ix sigma, sel_idx n (SIdx ix) = Ok sigma ->
     length sigma = length ix /\ forall j, (j < length ix)%nat ->
       Z.of_nat (nth j sigma O) = let i := nth j ix 0 in if i <? 0 then i + Z.of_nat n else i) /\
  sel_idx n (SSlice None None None) = Ok (seq 0 n).
Proof. exact selectors_mean_l. Qed.
Print Assumptions selectors_mean.

Theorem copy_keeps_rows : forall env s a l,
  env_ok env -> wf env s -> args_ok env (Some s) a ->
  c_ids a = None -> c_nums a = None -> construct env (Some s) a = Ok l ->
  len l = len s /\
  (forall i, get_ids env s = Ok i -> get_ids env l = Ok i) /\
  ((c_vocab a = None \/ c_vocab a = vocab s) -> forall n, raw_nums env s = Ok n -> raw_nums env l = Ok n) /\
  (forall f, f <> F_SCORE -> f <> F_RANK ->
     get_field l f = match lookup f (c_fields a) with
                     | Some FFalse => None                                          (* removed *)
                     | Some (FArr x) => if array_is_null x then None else Some (map to_np (a_data x))   (* replaced / added *)
                     | None => get_field s f                                         (* kept *)
                     end) /\
  (c_scores a = SNone -> lookup F_SCORE (c_fields a) = None -> get_field l F_SCORE = get_field s F_SCORE) /\
  (c_scores a = SFalse -> get_field l F_SCORE = None).
Proof. exact copy_keeps_rows_l. Qed.
Print Assumptions copy_keeps_rows.

Theorem source_unchanged : forall env ls o k l,
  env_ok env -> Forall (wf env) ls -> nth_error ls k = Some l ->
  exists l', nth_error (fst (step env ls o)) k = Some l' /\ observe env l' = observe env l.
Proof. exact source_unchanged_l. Qed.
Print Assumptions source_unchanged.

Theorem bad_shapes_rejected : forall env src a l,
  construct env src a = Ok l ->
  (forall f x, In (f, FArr x) (eff_fields src a) -> f <> F_SCORE -> f <> F_RANK -> array_is_null x = false ->
               a_shape x = [len l]) /\
  (forall x, c_scores a = SArr x -> a_shape x = [len l]) /\
  (forall x, c_scores a = SNone -> lookup F_SCORE (eff_fields src a) = Some (FArr x) -> a_shape x = [len l]) /\
  (forall x, lookup F_RANK (c_fields a) = Some (FArr x) -> c_ordered a <> Some false -> a_shape x = [len l]) /\
  (forall z, c_ids a = Some z -> (z_badtype z = false /\ z_shape z = [len l]) \/ (len l = 0%nat /\ exists r, z_shape z = 0%nat :: r)) /\
  (forall z, c_nums a = Some z -> z_shape z = [len l] \/ (len l = 0%nat /\ exists r, z_shape z = 0%nat :: r)).
Proof. exact bad_shapes_rejected_l. Qed.
Print Assumptions bad_shapes_rejected.

(* to_arrow(columns=cols) for ANY caller-supplied list of column names in ANY order (`arrow_cols`
   fills the columns one by one in the caller's order, as the code does): reading the columns only
   fills caches of the list, and the table holds under each NAME what that name denotes -- item_id:
   the identifiers, item_num: the numbers (missing="error"), rank: the ranks (nulls = None for an
   unordered list), any other name f: the values of field f (nulls = absent when the list has no
   such field) -- and nothing under a name that was not requested.  The statement does not mention
   the order of `cols`, so values can never land under another column's name. *)
Theorem columns_by_name : forall env l cols l' t,
  env_ok env -> wf env l -> arrow_cols env l cols t_none = (l', Ok t) ->
  observe env l' = observe env l /\
  (In CId cols -> exists i, get_ids env l = Ok i /\ t_ids t = Some i) /\ (~ In CId cols -> t_ids t = None) /\
  (In CNum cols -> exists n, get_nums env l MError = Ok n /\ t_nums t = Some n) /\ (~ In CNum cols -> t_nums t = None) /\
  (In (CName F_RANK) cols -> t_rank t = get_ranks l) /\ (~ In (CName F_RANK) cols -> t_rank t = None) /\
  (forall f, f <> F_RANK ->
     (In (CName f) cols -> lookup f (t_fields t) = get_field l f) /\ (~ In (CName f) cols -> lookup f (t_fields t) = None)).
Proof. exact columns_by_name_l. Qed.
Print Assumptions columns_by_name.

(* the round trip ItemList.from_arrow(l.to_arrow(columns=cols), vocabulary=...) of a non-empty list, for ANY
   schema in ANY order: same length; identifiers / numbers come back if their column was requested; the field
   named f comes back exactly when the column f was requested (and the list has it); the result is ordered
   exactly when the list is ordered and the rank column was requested.  (`has_name f cols` = some column of
   `cols` is named f; see has_name_in: it is `In (CName f) cols`.) *)
Theorem columns_round_trip : forall env l cols kv l' x,
  env_ok env -> wf env l -> (0 < len l)%nat -> via_arrow_cols env l cols kv = (l', Ok x) ->
  len x = len l /\ vocab x = (if kv then vocab l else None) /\
  ordered x = (has_name F_RANK cols && ordered l) /\
  (In CId cols -> get_ids env x = get_ids env l) /\
  (In CNum cols -> get_nums env x MNegative = get_nums env l MError) /\
  (forall f, f <> F_RANK -> get_field x f = if has_name f cols then get_field l f else None).
Proof. exact columns_round_trip_l. Qed.
Print Assumptions columns_round_trip.

(* non-vacuity of columns_by_name: an ordered list with an unknown item, scores and a rating, converted
   with the schema (score, rank, item_id, rating, foo) *)
Example c16_columns_example :
  let env := [[10; 11; 12; 13]] in
  let l := {| len := 3%nat; ids := Some [11; 99; 13]; nums := None; vocab := Some 0%nat; ordered := true; ranks := None;
              fields := [(0%nat, [VZ 4; VZ 8; VNaN]); (2%nat, [VZ 1; VZ 2; VZ 3])] |} in
  let cols := [CName 0%nat; CName 1%nat; CId; CName 2%nat; CName 3%nat] in
  env_ok env /\ wf env l /\
  exists l' t, arrow_cols env l cols t_none = (l', Ok t) /\
    t_ids t = Some [11; 99; 13] /\ t_nums t = None /\ t_rank t = Some [1; 2; 3] /\
    lookup 0%nat (t_fields t) = Some [VZ 4; VZ 8; VNaN] /\ lookup 2%nat (t_fields t) = Some [VZ 1; VZ 2; VZ 3] /\
    lookup 3%nat (t_fields t) = None /\
    exists l2 x, via_arrow_cols env l cols true = (l2, Ok x) /\ (0 < len l)%nat /\ ordered x = true /\
      get_ids env x = Ok [11; 99; 13] /\ get_field x 2%nat = Some [VZ 1; VZ 2; VZ 3] /\ get_field x 3%nat = None.
Proof. exact c16_columns_example_l. Qed.

(* every list reachable by the interpreter satisfies the invariant the other theorems assume *)
Theorem reachable_wf : forall env ops, env_ok env -> ops_ok env [] ops -> Forall (wf env) (run env [] ops).
Proof. exact reachable_wf_l. Qed.
Print Assumptions reachable_wf.

(* non-vacuity: two vocabularies, a list built from identifiers with an unknown item, its numbers
   read lazily, a copy that replaces the vocabulary (numbers are recomputed), a reversed slice, a
   data-frame round trip; the hypotheses hold and the run produces five lists *)
Example c16_nonvacuous :
  let env := [[10; 11; 12; 13]; [13; 12; 99; 10]] in
  let f1 := {| a_kind := KNumpy; a_shape := [3%nat]; a_data := [VZ 4; VZ 8; VNaN] |} in
  let a0 := {| c_ids := Some (znp1 [11; 99; 13]); c_nums := None; c_vocab := Some 0%nat; c_ordered := Some true;
               c_scores := SArr f1; c_fields := [(2%nat, FArr f1)] |} in
  let a1 := {| c_ids := None; c_nums := None; c_vocab := Some 1%nat; c_ordered := None; c_scores := SFalse; c_fields := [] |} in
  let ops := [ONew a0; ONums 0 MNegative; OCopy 0 a1; OSub 1 (SSlice None None (Some (-1))); ODf 2 true false; OClone 0] in
  env_ok env /\ ops_ok env [] ops /\
  map (observe env) (run env [] ops) <> [] /\ length (run env [] ops) = 5%nat /\
  map (fun l => get_nums env l MNegative) (run env [] ops) =
    [Ok [1; -1; 3]; Ok [-1; 2; 0]; Ok [0; 2; -1]; Ok [0; 2; -1]; Ok [1; -1; 3]].
Proof. exact c16_nonvacuous_l. Qed.
