(* C16 -- placeholder while the proofs are being written *)
From LK Require Import Model.C16_itemlist.
