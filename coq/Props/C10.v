(* C10 -- Matrix-factorisation training meets its optimality conditions and update rules.
   Property theorems only; each is closed by `exact <lemma>` and followed by Print Assumptions.

   Property text -> theorem
   * "after each ALS half-step every updated embedding is the exact solution of the regularised
     least-squares problem defined by the other side's current embeddings (squared error on
     bias-normalised ratings with a ridge term scaled by the row's rating count ...)"
        -> normal_eq_iff_minimiser, minimiser_unique            (any real field, MathComp matrices)
           explicit_row_minimises, halfstep_explicit_optimal     (the executable model, over Q)
   * "(... the confidence-weighted implicit-feedback objective otherwise)"
        -> implicit_system_iff_minimiser, implicit_minimiser_unique, implicit_row_minimises,
           halfstep_implicit_optimal
   * the residual check used on every observed half-step is a verified checker
        -> halfstep_checker_sound_complete, halfstep_inhabits_checker, residual_scale
   * "rows without data keep their previous values"
        -> empty_rows_kept, empty_rows_kept_checked
   * rows are solved independently of one another (what the chunked fan-out relies on)
        -> halfstep_rows_independent, halfstep_row_with_data
   * "the embedding folded in for a supplied user history is the corresponding solution for that
     history"  -> foldin_is_same_system, foldin_is_row_update, foldin_uses_known_items
     (the fold-in system is a function of the item embeddings, the ridge and the history's row only:
     after a re-training of the same object the case files evaluate it on the embeddings the LAST
     training left, never on a value cached on the object; a train(retrain = false) on a trained object
     keeps the embeddings -> kept_ok_checks)
     the fold-in seen through the public interface only (history in, embedding out)
        -> foldin_public_view
   * "scores are embedding dot products plus the applicable bias terms"
        -> score_is_dot_plus_bias, score_is_dot_implicit; the user bias that applies when a history is folded
           in is the one derived from that history, 0 included, never the stored one
        -> history_bias_applies, fold_query_ignores_stored_bias, zero_history_bias_scores
   * "FunkSVD training equals feature-by-feature stochastic gradient descent over the seeded
     sample order with the documented update rule, learning rate, regularisation, range clamping
     and trailing-feature estimate"
        -> funksvd_is_featurewise_sgd (every arithmetic instance: binary64 and Q), sgd_rule,
           trailing_estimate, clamps_agree; "over the seeded sample order": the samples are the stored ratings
           visited in the order drawn from the generator the seed stands for, whichever way the seed reaches the
           training (in the options as integer / sequence / SeedSequence / Generator / BitGenerator, or through
           lenskit.random.set_global_rng with no rng in the options): every stored rating exactly once per pass
        -> seeded_order_visits_every_sample_once, seeded_training_is_featurewise_sgd, seeded_agree_checks
   Contract, not a theorem: lenskit.math.solve.solve_cholesky returns a solution of A x = y
   (hypothesis solver_exact_on; its output is checked through the residual on every case).
   Not a theorem: that BLAS/torch evaluate the Gram products as written, that the TorchScript
   fork/wait fan-out (> 50 rows) runs the same per-row function, the seeded shuffle of NumPy --
   covered by the correspondence runs (thorough tier includes > 50-row trainings). *)
From mathcomp Require Import all_ssreflect all_algebra.
From LK Require Proofs.C10_normal_eq.
From Coq Require Import ZArith QArith List Permutation.
From LK Require Import Lib.QLib Model.C10_als Model.C10_funksvd Model.C10_history Proofs.C10_ls Proofs.C10_als_proofs Proofs.C10_funksvd_proofs Proofs.C10_history_proofs Proofs.C10_order.
Import ListNotations.
Module NE := LK.Proofs.C10_normal_eq.

(* ------------------------------------------------------------------------------------------ *)
(* Real-field statements.  obj x = |M x - v|^2 + c |x|^2,  A = M^T M + c I,  y = M^T v.
   For a row with n ratings the code takes c = lambda * n. *)
Open Scope ring_scope.
Theorem normal_eq_iff_minimiser :
  forall (R : realFieldType) (m n : nat) (M : 'M[R]_(m, n)) (v : 'cV[R]_m) (c : R) (x : 'cV[R]_n),
  (0 <= c)%R ->
  (NE.A M c *m x = NE.y M v <-> forall d, (NE.obj M v c x <= NE.obj M v c (x + d))%R).
Proof. exact NE.normal_eq_iff_minimiser. Qed.
Print Assumptions normal_eq_iff_minimiser.

Theorem minimiser_unique :
  forall (R : realFieldType) (m n : nat) (M : 'M[R]_(m, n)) (v : 'cV[R]_m) (c : R) (x x' : 'cV[R]_n),
  (0 < c)%R ->
  (forall d, (NE.obj M v c x <= NE.obj M v c (x + d))%R) ->
  (forall d, (NE.obj M v c x' <= NE.obj M v c (x' + d))%R) -> x = x'.
Proof. exact NE.minimiser_unique. Qed.
Print Assumptions minimiser_unique.

(* implicit feedback: O = all embeddings of the other side, p_i = 1 on observed entries,
   confidence 1 + e_i with e_i = weight * rating on observed entries and 0 elsewhere.
   A_code = (O^T O + c I) + O^T diag(e) O,  y_code = O^T ((1 + e) o p);
   objw O p (1+e) c x = sum_i (1 + e_i) ((O x)_i - p_i)^2 + c |x|^2. *)
Theorem implicit_system_iff_minimiser :
  forall (R : realFieldType) (m n : nat) (O : 'M[R]_(m, n)) (p e : 'cV[R]_m) (c : R),
  (forall i, (0 <= e i 0)%R) -> forall x : 'cV[R]_n, (0 <= c)%R ->
  (NE.A_code O e c *m x = NE.y_code O p e <->
   forall d, (NE.objw O p (NE.conf e) c x <= NE.objw O p (NE.conf e) c (x + d))%R).
Proof. exact NE.implicit_normal_eq_iff_minimiser. Qed.
Print Assumptions implicit_system_iff_minimiser.

Theorem implicit_minimiser_unique :
  forall (R : realFieldType) (m n : nat) (O : 'M[R]_(m, n)) (p e : 'cV[R]_m) (c : R),
  (forall i, (0 <= e i 0)%R) -> forall x x' : 'cV[R]_n, (0 < c)%R ->
  NE.A_code O e c *m x = NE.y_code O p e -> NE.A_code O e c *m x' = NE.y_code O p e -> x = x'.
Proof. exact NE.implicit_normal_eq_unique. Qed.
Print Assumptions implicit_minimiser_unique.

(* ------------------------------------------------------------------------------------------ *)
(* The executable model (lists over Q). *)
Close Scope ring_scope.
Open Scope Q_scope.

(* the system the model builds for an explicit-feedback row (M = other[cols], vals = normalised
   ratings): any exact solution minimises  sum_j (m_j . x - v_j)^2 + lam * |M| * |x|^2 *)
Theorem explicit_row_minimises : forall k lam M v x,
  Forall (fun m => length m = k) M -> length v = length M -> length x = k -> 0 <= lam ->
  veq (matvec (fst (normal_eq_explicit k lam M v)) x) (snd (normal_eq_explicit k lam M v)) ->
  forall x', length x' = k ->
    obj_explicit M v (lam * Qofnat (length M)) x <= obj_explicit M v (lam * Qofnat (length M)) x'.
Proof. exact explicit_solution_minimises. Qed.
Print Assumptions explicit_row_minimises.

(* implicit row: OtOr + (M^T * vals) M, M^T (vals + 1) built from the selected rows only is the
   system of  sum_{all i} (1 + e_i)(o_i . x - p_i)^2 + lam |x|^2 *)
Theorem implicit_row_minimises : forall k lam other row x,
  Forall (fun o => length o = k) other ->
  NoDup (map fst row) -> Forall (fun c => (lt c (length other))) (map fst row) ->
  Forall (fun v => 0 <= v) (map snd row) -> 0 <= lam -> length x = k ->
  veq (matvec (fst (row_system_implicit k (otor k lam other) other row)) x)
      (snd (row_system_implicit k (otor k lam other) other row)) ->
  forall x', length x' = k -> obj_implicit other row lam x <= obj_implicit other row lam x'.
Proof. exact implicit_solution_minimises. Qed.
Print Assumptions implicit_row_minimises.

(* the residual check at tolerance 0 decides "rows with data solve their system, rows without
   data are unchanged" *)
Theorem halfstep_checker_sound_complete : forall sys sc left rows left',
  halfstep_ok 0 sys sc left rows left' = true <-> halfstep_spec sys left rows left'.
Proof. exact halfstep_ok_exact. Qed.
Print Assumptions halfstep_checker_sound_complete.

(* The tolerance of the residual check is relative to |A||x| + |y| + sc, sc = | |M|^T |v| |_inf being the size of
   the data the right-hand side was formed from (y = M^T v may cancel to 0 while the code's y is rounding noise
   of size eps * |M|^T |v|).  The scale plays no role for exactness (tolerance 0), it is >= 0, and adding it only
   widens: whatever passes relative to |A||x| + |y| alone passes with it. *)
Theorem residual_scale : forall tol sc A x y fb k other row,
  (resid_ok 0 sc A x y = true <-> solves (A, y) x) /\
  0 <= row_scale fb k other row /\
  (0 <= tol -> resid_ok tol 0 A x y = true -> resid_ok tol (row_scale fb k other row) A x y = true).
Proof. exact residual_scale_l. Qed.
Print Assumptions residual_scale.

(* ... and the half-step run with an exact solver satisfies it *)
Theorem halfstep_inhabits_checker : forall solve sys sc left rows, length left = length rows ->
  solver_exact_on solve sys rows -> halfstep_ok 0 sys sc left rows (halfstep solve sys left rows) = true.
Proof. exact halfstep_passes_checker. Qed.
Print Assumptions halfstep_inhabits_checker.

Theorem halfstep_explicit_optimal : forall k lam other left rows left',
  Forall (fun o => length o = k) other -> 0 <= lam ->
  halfstep_spec (row_system Explicit k lam other) left rows left' ->
  forall i row new, nth_error rows i = Some row -> row <> [] -> nth_error left' i = Some new ->
    length new = k /\
    forall x', length x' = k -> row_obj_explicit k lam other row new <= row_obj_explicit k lam other row x'.
Proof. exact Proofs.C10_als_proofs.halfstep_explicit_optimal. Qed.
Print Assumptions halfstep_explicit_optimal.

Theorem halfstep_implicit_optimal : forall k lam other left rows left',
  Forall (fun o => length o = k) other -> 0 <= lam ->
  Forall (fun row => NoDup (map fst row) /\ Forall (fun c => (lt c (length other))) (map fst row)
                     /\ Forall (fun v => 0 <= v) (map snd row)) rows ->
  halfstep_spec (row_system Implicit k lam other) left rows left' ->
  forall i row new, nth_error rows i = Some row -> row <> [] -> nth_error left' i = Some new ->
    length new = k /\
    forall x', length x' = k -> row_obj_implicit k lam other row new <= row_obj_implicit k lam other row x'.
Proof. exact Proofs.C10_als_proofs.halfstep_implicit_optimal. Qed.
Print Assumptions halfstep_implicit_optimal.

Theorem empty_rows_kept : forall solve sys left rows i,
  nth_error rows i = Some [] -> nth_error (halfstep solve sys left rows) i = nth_error left i.
Proof. exact empty_rows_kept_l. Qed.
Print Assumptions empty_rows_kept.

Theorem empty_rows_kept_checked : forall tol sys sc left rows left' i old new,
  halfstep_ok tol sys sc left rows left' = true ->
  nth_error rows i = Some [] -> nth_error left i = Some old -> nth_error left' i = Some new -> veq new old.
Proof. exact Proofs.C10_als_proofs.empty_rows_kept_checked. Qed.
Print Assumptions empty_rows_kept_checked.

Theorem halfstep_rows_independent : forall solve sys left1 left2 rows1 rows2 i,
  nth_error rows1 i = nth_error rows2 i -> nth_error left1 i = nth_error left2 i ->
  nth_error (halfstep solve sys left1 rows1) i = nth_error (halfstep solve sys left2 rows2) i.
Proof. exact halfstep_rows_independent_l. Qed.
Print Assumptions halfstep_rows_independent.

Theorem halfstep_row_with_data : forall solve sys left rows i row old,
  nth_error rows i = Some row -> row <> [] -> nth_error left i = Some old ->
  nth_error (halfstep solve sys left rows) i = Some (solve (fst (sys row)) (snd (sys row))).
Proof. exact Proofs.C10_als_proofs.halfstep_row_with_data. Qed.
Print Assumptions halfstep_row_with_data.

Theorem foldin_is_same_system : forall k lam OtOr items row,
  foldin_system_explicit k lam items row = row_system_explicit k lam items row /\
  foldin_system_implicit k OtOr items row = row_system_implicit k OtOr items row.
Proof. intros. split; [apply foldin_is_same_system_explicit|apply foldin_is_same_system_implicit]. Qed.
Print Assumptions foldin_is_same_system.

Theorem foldin_is_row_update : forall solve k lam items row old, row <> [] ->
  foldin_explicit solve k lam items row = row_update solve (row_system Explicit k lam items) (vzero k) row /\
  foldin_implicit solve k (otor k lam items) items row = row_update solve (row_system Implicit k lam items) old row.
Proof. intros. split; [apply foldin_is_row_update_explicit|apply foldin_is_row_update_implicit]; assumption. Qed.
Print Assumptions foldin_is_row_update.

Theorem foldin_uses_known_items : forall b damp w ur vocab h,
  map fst (foldin_rows_explicit b damp vocab h) = map fst (known_rows vocab h) /\
  map fst (foldin_rows_implicit w ur vocab h) = map fst (known_rows vocab h) /\
  map fst (known_rows vocab h) =
    flat_map (fun ir => match number vocab (fst ir) with Some n => [n] | None => [] end) h /\
  Forall (fun n => (lt n (length vocab))) (map fst (known_rows vocab h)).
Proof.
  intros. split; [apply foldin_explicit_items|]. split; [apply foldin_implicit_items|].
  exact (Proofs.C10_als_proofs.foldin_uses_known_items vocab h).
Qed.
Print Assumptions foldin_uses_known_items.

(* The public-only check of an explicit fold-in (the row is the model's own, with an allowance `tolb` for
   the single-precision normalised ratings the code used): without allowance it is the residual checker
   `foldin_ok_explicit`; with any allowance >= 0 it accepts whatever that checker accepts on the row. *)
Theorem foldin_public_view : forall tol k lam items row x,
  foldin_ok_explicit_pub tol 0 k lam items row x = foldin_ok_explicit tol k lam items row x /\
  (forall tolb, 0 <= tolb -> foldin_ok_explicit tol k lam items row x = true ->
                foldin_ok_explicit_pub tol tolb k lam items row x = true).
Proof. exact foldin_public_view_l. Qed.
Print Assumptions foldin_public_view.

(* train(d, retrain = false) on a trained object: the case files accept it iff both embedding matrices
   are entry for entry (==) what they were, and user embeddings are neither dropped nor created. *)
Theorem kept_ok_checks : forall Pb Pa Qb Qa,
  kept_ok Pb Pa Qb Qa = true <->
  meqb Qb Qa = true /\ match Pb, Pa with Some a, Some b => meqb a b = true | None, None => True | _, _ => False end.
Proof. exact kept_ok_iff. Qed.
Print Assumptions kept_ok_checks.

Theorem score_is_dot_plus_bias : forall vocab k items b u ub cands,
  map fst (score_explicit vocab k items b u ub cands) = cands /\
  forall j i, nth_error cands j = Some i ->
    nth_error (score_explicit vocab k items b u ub cands) j =
    Some (i, match number vocab i with
             | Some n => Some (C10_als.dot (nth n items (vzero k)) u + (b_global b + nth n (b_item b) 0 + ub))
             | None => None
             end).
Proof. exact score_is_dot_plus_bias_explicit. Qed.
Print Assumptions score_is_dot_plus_bias.

Theorem score_is_dot_implicit : forall vocab k items u cands,
  map fst (score_implicit vocab k items u cands) = cands /\
  forall j i, nth_error cands j = Some i ->
    exists s, nth_error (score_implicit vocab k items u cands) j = Some (i, s) /\
      match number vocab i, s with
      | Some n, Some v => v == C10_als.dot (nth n items (vzero k)) u
      | None, None => True
      | _, _ => False
      end.
Proof. exact Proofs.C10_als_proofs.score_is_dot_implicit. Qed.
Print Assumptions score_is_dot_implicit.

(* "... plus the APPLICABLE bias terms": when a history is folded in, the user bias that applies is the one derived
   from that history (the embedding was solved against ratings normalised with it) -- whatever its value.  It does
   not read the biases stored in training; it is exactly 0 when the history's residuals r - b_g - b_i cancel; and a
   query that folds its history in is judged (query_ok_explicit, evaluated on every such generated query, among them
   histories solved for a bias of exactly 0 presented for a known user whose stored bias is not 0) without the stored
   user biases being read at all. *)
Theorem history_bias_applies : forall b bu d vocab h,
  applicable_user_bias b d vocab UFold h = foldin_user_bias b d vocab h /\
  foldin_user_bias (with_user_bias b bu) d vocab h = foldin_user_bias b d vocab h /\
  (Qsum (hist_residuals b vocab h) == 0 -> applicable_user_bias b d vocab UFold h == 0).
Proof. exact history_bias_applies_l. Qed.
Print Assumptions history_bias_applies.

Theorem fold_query_ignores_stored_bias : forall tol tolb k lam ivocab items P b bu d prefer un h cands fold obs,
  user_path prefer (is_some P) un (length h) = UFold ->
  query_ok_explicit tol tolb k lam ivocab items P (with_user_bias b bu) d prefer un (Some h) cands fold obs =
  query_ok_explicit tol tolb k lam ivocab items P b d prefer un (Some h) cands fold obs.
Proof. exact fold_query_ignores_stored_bias_l. Qed.
Print Assumptions fold_query_ignores_stored_bias.

Theorem zero_history_bias_scores : forall vocab k items b d h u cands,
  applicable_user_bias b d vocab UFold h == 0 ->
  forall j i n, nth_error cands j = Some i -> number vocab i = Some n ->
    exists s, nth_error (score_explicit vocab k items b u (applicable_user_bias b d vocab UFold h) cands) j = Some (i, Some s) /\
              s == C10_als.dot (nth n items (vzero k)) u + (b_global b + nth n (b_item b) 0).
Proof. exact zero_history_bias_scores_l. Qed.
Print Assumptions zero_history_bias_scores.

(* non-vacuity of the three statements above: user 0 has a stored bias of 3/4; the history rates the known item 100
   half a star above its baseline 7/2 + 1/4 and an unknown item half a star below the global mean, so the residuals
   cancel; the query check accepts scores formed with bias 0 and rejects the same scores shifted by the stored 3/4. *)
Example c10_zero_history_bias :
  let b := {| b_global := 7 # 2; b_item := [1 # 4; 0]; b_user := [3 # 4] |} in
  let vocab := [100%Z; 101%Z] in
  let h : hist := [(100%Z, 17 # 4); (900%Z, 3)] in
  let items : mat := [[1]; [2]] in
  (* row: item 0 with normalised rating 17/4 - (7/2 + 1/4 + 0) = 1/2; A = 1 + (1/2)*1, y = 1/2, x = 1/3 *)
  let fold := Some ([(0%nat, 1 # 2)], [1 # 3]) in
  Qsum (hist_residuals b vocab h) == 0 /\
  user_path false true (Some 0%nat) (length h) = UFold /\
  query_ok_explicit 0 0 1 (1 # 2) vocab items (Some [[5]]) b 5 false (Some 0%nat) (Some h) [101%Z; 950%Z] fold
    [(101%Z, Some ((2 # 3) + (7 # 2))); (950%Z, None)] = true /\
  query_ok_explicit 0 0 1 (1 # 2) vocab items (Some [[5]]) b 5 false (Some 0%nat) (Some h) [101%Z; 950%Z] fold
    [(101%Z, Some ((2 # 3) + (7 # 2) + (3 # 4))); (950%Z, None)] = false.
Proof. cbv zeta. repeat split; vm_compute; reflexivity. Qed.

(* ------------------------------------------------------------------------------------------ *)
(* FunkSVD.  `train` is the transcription of the array-updating loops; `train_cols` trains one
   pair of columns per feature with `col_sample` (the documented rule) from the initial value,
   with trail = init*init*(features still untrained) and the running estimate clamped after
   each feature (`col_next_est`).  Holds for every arithmetic instance. *)
Theorem funksvd_is_featurewise_sgd : forall (Ar : arith) p nfeat nusers nitems smps f, (lt f (nfeat)) ->
  nth_error (train_cols Ar p nfeat nusers nitems nfeat smps) f =
  Some (proj Ar f (train Ar p nfeat nusers nitems smps)).
Proof. exact train_is_featurewise. Qed.
Print Assumptions funksvd_is_featurewise_sgd.

Theorem sgd_rule : forall (p : params q_arith) (trail : Q) (uc ic : list Q) user item rating est,
  let u := get1 q_arith uc user in
  let i := get1 q_arith ic item in
  let pred := clamp_loop q_arith (rng q_arith p) (est + u * i + trail) in
  let err := rating - pred in
  (lt user (length uc)) -> (lt item (length ic)) ->
  let st' := col_sample q_arith p trail (uc, ic) (user, item, rating, est) in
  get1 q_arith (fst st') user == u + lrate q_arith p * (err * i - reg_term q_arith p * u) /\
  get1 q_arith (snd st') item == i + lrate q_arith p * (err * u - reg_term q_arith p * i) /\
  (forall u', u' <> user -> get1 q_arith (fst st') u' = get1 q_arith uc u') /\
  (forall i', i' <> item -> get1 q_arith (snd st') i' = get1 q_arith ic i').
Proof. exact sgd_rule_Q. Qed.
Print Assumptions sgd_rule.

Theorem trailing_estimate : forall (p : params q_arith) (nfeat f : nat),
  init q_arith p * init q_arith p * of_nat q_arith (nfeat - f - 1)
  == Qsum (repeat (init q_arith p * init q_arith p) (nfeat - f - 1)).
Proof. exact trail_is_untrained_Q. Qed.
Print Assumptions trailing_estimate.

Theorem clamps_agree : forall lo hi e : Q, lo <= hi ->
  clamp_loop q_arith (Some (lo, hi)) e = clamp_np q_arith (Some (lo, hi)) e.
Proof. exact clamps_agree_Q. Qed.
Print Assumptions clamps_agree.

(* "over the seeded sample order".  `stored` = the rating matrix in its stored order, `order` = the shuffle of
   0..n-1 drawn from the generator the seed stands for (NumPy's draw, repeated by the harness on an equal generator:
   for TrainingOptions() under lenskit.random.set_global_rng(seed), on a generator equal to the installed one).
   An accepted order visits every stored rating exactly once per pass; training over it is feature-wise SGD
   (every arithmetic instance); the case files evaluate exactly this
   (funksvd_seeded_agree = seeded_ok with the bit-for-bit float run over `in_order stored order` as the check). *)
Theorem seeded_order_visits_every_sample_once : forall (A : Type) (d : A) stored order,
  is_order (length stored) order = true ->
  Permutation (in_order d stored order) stored /\ length (in_order d stored order) = length stored.
Proof. exact @in_order_visits_once. Qed.
Print Assumptions seeded_order_visits_every_sample_once.

Theorem seeded_training_is_featurewise_sgd : forall (Ar : arith) p nfeat nusers nitems (d : sample Ar) stored order f,
  (lt f nfeat) -> is_order (length stored) order = true ->
  let smps := in_order d stored order in
  Permutation smps stored /\
  nth_error (train_cols Ar p nfeat nusers nitems nfeat smps) f = Some (proj Ar f (train Ar p nfeat nusers nitems smps)).
Proof. exact seeded_train_is_featurewise. Qed.
Print Assumptions seeded_training_is_featurewise_sgd.

Theorem seeded_agree_checks : forall (A : Type) (d : A) agree stored order,
  seeded_ok d agree stored order = true <->
  is_order (length stored) order = true /\ agree (in_order d stored order) = true.
Proof. exact @seeded_ok_spec. Qed.
Print Assumptions seeded_agree_checks.

(* the order is not a formality: an index missing / repeated / out of range is rejected, and the same two ratings
   visited in the two possible orders leave different features *)
Example c10_order_nonvacuous :
  is_order 3 [2; 0; 1]%nat = true /\ is_order 3 [2; 0; 0]%nat = false /\ is_order 3 [0; 1; 3]%nat = false /\
  let p : params q_arith := Build_params q_arith 1 (1 # 10) (1 # 100) None (1 # 10) in
  let stored : list (sample q_arith) := [(0%nat, 0%nat, 4, 3); (0%nat, 1%nat, 2, 3)] in
  let a := train q_arith p 1 1 2 (in_order (0%nat, 0%nat, 0, 0) stored [0; 1]%nat) in
  let b := train q_arith p 1 1 2 (in_order (0%nat, 0%nat, 0, 0) stored [1; 0]%nat) in
  Qeq_bool (get2 q_arith (fst a) 0 0) (get2 q_arith (fst b) 0 0) = false.
Proof. cbv zeta. repeat split; vm_compute; reflexivity. Qed.

(* ------------------------------------------------------------------------------------------ *)
(* non-vacuity: a two-user, two-item explicit half-step with an exactly solved row and a row
   without data is accepted by the checker at tolerance 0 (so the hypotheses of
   halfstep_explicit_optimal are satisfiable on a non-trivial state), the same state with a
   perturbed solution is rejected, and FunkSVD over Q on two samples moves both features. *)
Example c10_nonvacuous :
  let other : mat := [[1; 0]; [0; 1]] in
  let rows : list srow := [[(0%nat, 3); (1%nat, 1)]; []] in
  let left : mat := [[5; 5]; [7 # 2; 1]] in
  let sys := row_system Explicit 2 (1 # 2) other in
  let sc := row_scale Explicit 2 other in
  (* row 0: A = I + (1/2)*2*I = 2I, y = (3, 1)  =>  x = (3/2, 1/2) *)
  halfstep_ok 0 sys sc left rows [[3 # 2; 1 # 2]; [7 # 2; 1]] = true /\
  halfstep_ok 0 sys sc left rows [[3 # 2; 1]; [7 # 2; 1]] = false /\
  halfstep_ok 0 sys sc left rows [[3 # 2; 1 # 2]; [0; 0]] = false /\
  let p : params q_arith := Build_params q_arith 1 (1 # 10) (1 # 100) (Some (1 # 2, 5)) (1 # 10) in
  let r := train q_arith p 2 2 2 [(0%nat, 0%nat, 4, 3); (1%nat, 0%nat, 2, 3)] in
  get2 q_arith (fst r) 0 0 <> (1 # 10) /\ get2 q_arith (fst r) 0 1 <> (1 # 10).
Proof. cbv zeta. repeat split; try (vm_compute; reflexivity); vm_compute; discriminate. Qed.
