(* C10 -- placeholder while the proofs are being written *)
From LK Require Import Model.C10_als Model.C10_funksvd.
