(* C02 -- A pipeline run is the functional evaluation of its DAG, each needed node once.
   Property theorems only; each is closed by `exact <lemma>` and followed by Print Assumptions.

   Model: Model/C02_runner.v -- [run]/[run_all]/[pipeline_run] render PipelineRunner.run,
   _run_node, _inject_input, _run_component, DeferredRun.get, Pipeline.run_all/run line by line
   (memo table = status map + state map, `required` propagation, bail-out of optional consumers,
   run-time type checks, component bodies as interaction trees that may force lazy inputs);
   [den] is the specification: the same graph evaluated as a pure dataflow program without any memo
   table, returning the value (or "no value" / error) and the list of component bodies executed.
   Acyclic wiring = a rank function decreasing along every connection ([ranked]); [F] bounds the
   model's recursion and is immaterial (run_fuel_irrelevant).  All theorems quantify over ALL graphs,
   inputs, request lists and component bodies.

   Bodies that CATCH the exception of a lazy input ([TryForce]: `try: x.get() except Exception: ...`):
   at_most_once, only_if_needed (i), failed_node_not_retried, cycle_rejected, rerun_after_failure and the
   builder theorems hold for them as for all bodies.  The theorems that compare the run with the
   memo-free evaluation ([run_correct], [value_independent_of_consumer], [only_if_needed] (ii)/(iii),
   [declaration_order_irrelevant], [run_fuel_irrelevant]) and [exception_transparent] carry the
   hypothesis [catch_free g] (no body of g catches): after a caught failure the runner answers a second
   request of the failed node with its own "previously failed" error instead of evaluating the node
   again (that is what keeps "at most once"), which a memo-free evaluation cannot express, and a caught
   exception by definition does not reach the caller.

   Property text -> theorem:
   * "running the pipeline returns exactly the values obtained by evaluating the graph as a pure
     dataflow program ... a missing required input or wrongly-typed value is reported as an error"
                                  -> run_correct (+ den_is_dataflow, value_independent_of_consumer,
                                     run_fuel_irrelevant)
   * "explicit connections first and builder-level default connections otherwise"
                                  -> default_connections_second, builder_edits, built_pipeline_is_acyclic
   * "independent of the order in which nodes were declared or requested"
                                  -> declaration_order_irrelevant
   * "each component executes at most once"            -> at_most_once
   * "and only if a requested node depends on it, inputs declared lazy and fallback alternatives
     execute only when actually consulted"             -> only_if_needed, fallback_only_when_consulted
   * "Cyclic wirings are rejected"                     -> cycle_rejected
   * "an exception raised inside a component reaches the caller unchanged"
                                  -> exception_transparent, failed_node_not_retried
   * "and leaves the pipeline fully usable for later runs"
                                  -> rerun_after_failure (uses the shape facts REGENERATED from the
                                     source on every run: Gen/C02_shape.v) *)
From Coq Require Import ZArith List Bool Arith Lia Permutation.
From LK Require Import Model.C02_runner Gen.C02_shape
  Proofs.C02_basic Proofs.C02_den Proofs.C02_correct Proofs.C02_cycle Proofs.C02_order Proofs.C02_shapeok
  Proofs.C02_catch.
Import ListNotations.
Open Scope list_scope.

(* The runner with its memo table returns what the memo-free dataflow evaluation returns: the
   values of the requested nodes, or the error that evaluation meets first in request order. *)
Theorem run_correct : forall (g : graph) (inputs : list (name * val)) (rank : name -> nat),
  ranked g rank -> forall F, (forall n, rank n < F) -> catch_free g ->
  forall ns, pipeline_run g inputs F ns = den_outcome g inputs F ns.
Proof. exact run_correct_l. Qed.
Print Assumptions run_correct.

(* [den] satisfies the dataflow equations (no fuel): a literal is its value; an input is the supplied
   value (type-checked), None if optional and absent, missing otherwise; a component is its body
   applied to the values of the nodes wired to its parameters. *)
Theorem den_is_dataflow : forall g inputs rank, ranked g rank -> forall F, (forall n, rank n < F) ->
  forall n r, den g inputs F n r = den_step g inputs (den g inputs F) n r.
Proof. exact D_fix. Qed.
Print Assumptions den_is_dataflow.

(* What a node evaluates to does not depend on whether its consumer requires it: same value and same
   executed components; "no value" for an optional consumer is exactly the missing-input error for a
   requiring one; an error stays an error. *)
Theorem value_independent_of_consumer : forall g inputs rank, ranked g rank -> forall F, (forall n, rank n < F) ->
  catch_free g -> forall n, rel2 (den g inputs F n false) (den g inputs F n true).
Proof. exact D_rel2. Qed.
Print Assumptions value_independent_of_consumer.

Theorem run_fuel_irrelevant : forall g inputs rank F1 F2 ns,
  ranked g rank -> (forall n, rank n < F1) -> (forall n, rank n < F2) -> catch_free g ->
  pipeline_run g inputs F1 ns = pipeline_run g inputs F2 ns.
Proof. exact run_fuel_irrelevant_l. Qed.
Print Assumptions run_fuel_irrelevant.

(* Permuting the declarations and the request changes neither the value of any node nor whether the
   run fails (which of several independent errors is reported follows the request order). *)
Theorem declaration_order_irrelevant : forall g g' inputs rank F ns ns',
  NoDup (map fst g) -> Permutation g g' -> Permutation ns ns' -> ns <> [] ->
  ranked g rank -> (forall n, rank n < F) -> catch_free g ->
  (forall n, node_value g inputs F n = node_value g' inputs F n) /\
  (forall vs, pipeline_run g inputs F ns = Values vs -> vs = map (node_value g inputs F) ns) /\
  (forall vs, pipeline_run g' inputs F ns' = Values vs -> vs = map (node_value g inputs F) ns') /\
  ((exists vs, pipeline_run g inputs F ns = Values vs) <-> (exists vs, pipeline_run g' inputs F ns' = Values vs)).
Proof. exact order_irrelevant_l. Qed.
Print Assumptions declaration_order_irrelevant.

(* Any graph (cyclic or not), any bodies (catching ones included), any fuel, failing or not: no
   component body is called twice. *)
Theorem at_most_once : forall g inputs fuel ns s e,
  run_all g inputs fuel ns = (s, e) -> NoDup (log s).
Proof. exact at_most_once_l. Qed.
Print Assumptions at_most_once.

(* A component runs only if a requested node reaches it through the wiring (any graph); on an acyclic
   wiring only if the memo-free evaluation of a requested node executes it -- in particular the source
   of a lazy parameter only if the body forced it -- and, when the run succeeds, exactly then. *)
Theorem only_if_needed :
  (forall g inputs fuel ns s e c, run_all g inputs fuel ns = (s, e) -> In c (log s) ->
     exists root, In root (requests g ns) /\ reach g root c) /\
  (forall g inputs rank, ranked g rank -> forall F, (forall n, rank n < F) -> catch_free g ->
     (forall ns s e c, run_all g inputs F ns = (s, e) -> In c (log s) ->
        exists root, In root (requests g ns) /\ needs g inputs F root c) /\
     (forall ns s root c, run_all g inputs F ns = (s, None) ->
        In root (requests g ns) -> needs g inputs F root c -> In c (log s))).
Proof.
  split; [exact only_reachable_l|].
  intros g inputs rank Hr F HF Hcf. split; [exact (only_if_needed_l g inputs rank Hr F HF Hcf)|exact (needed_executed_l g inputs rank Hr F HF Hcf)].
Qed.
Print Assumptions only_if_needed.

(* fallback_on_none / use_first_of: when the primary has a value the node returns it and executes
   nothing beyond the primary's evaluation; the alternative is evaluated only when the primary gave
   no value, and then the node returns the alternative's value. *)
Theorem fallback_only_when_consulted : forall g inputs d f a b r,
  lookup f g = Some (Comp (fallback_params a b) fallback_body) ->
  (forall v, fst (d a false) = DVal (Some v) ->
     den_step g inputs d f r = (DVal (Some v), snd (d a false) ++ [f])) /\
  (to_opt (fst (d a false)) = None -> (forall e, fst (d a false) <> DErr e) ->
     snd (den_step g inputs d f r) = (snd (d a false) ++ [f]) ++ snd (d b false) /\
     ((forall e, fst (d b false) <> DErr e) -> fst (den_step g inputs d f r) = DVal (to_opt (fst (d b false))))).
Proof. exact fallback_den_l. Qed.
Print Assumptions fallback_only_when_consulted.

(* build_config wires a parameter to its explicit connection, else to the default connection of its
   name; a pipeline that build() returned is acyclic (so run_correct applies, with the fuel the
   correspondence runs use). *)
Theorem default_connections_second : forall defaults p,
  p_src (resolve_param defaults p) =
    match bp_conn p with Some s => Some s | None => lookup (bp_name p) defaults end /\
  p_lazy (resolve_param defaults p) = bp_lazy p /\ p_typed (resolve_param defaults p) = bp_typed p /\
  p_nullable (resolve_param defaults p) = bp_nullable p.
Proof. exact resolve_param_l. Qed.
Print Assumptions default_connections_second.

(* Editing a builder between builds: default_connection(pn, t) redirects exactly the parameters named
   pn that have no explicit connection (whatever an earlier build resolved them to) and changes nothing
   else; connect(c, pn=t) sets that explicit connection only.  [build] is a function of the builder
   state, so every build() denotes the state at that moment. *)
Theorem builder_edits :
  (forall b pn t p,
     p_src (resolve_param (b_defaults (apply_edit b (EDefault pn t))) p) =
       match bp_conn p with
       | Some s => Some s
       | None => if Nat.eqb (bp_name p) pn then Some t else lookup (bp_name p) (b_defaults b)
       end /\
     b_nodes (apply_edit b (EDefault pn t)) = b_nodes b /\ b_aliases (apply_edit b (EDefault pn t)) = b_aliases b) /\
  (forall pn t p,
     bp_conn (set_conn pn t p) = (if Nat.eqb (bp_name p) pn then Some t else bp_conn p) /\
     bp_name (set_conn pn t p) = bp_name p /\ bp_lazy (set_conn pn t p) = bp_lazy p /\
     bp_typed (set_conn pn t p) = bp_typed p /\ bp_nullable (set_conn pn t p) = bp_nullable p /\
     bp_ty (set_conn pn t p) = bp_ty p).
Proof. split; [exact default_edit_l|exact connect_edit_l]. Qed.
Print Assumptions builder_edits.

(* clear_inputs(c) leaves no explicit connection (every parameter is resolved by the default connections
   again); replace_component(c, comp, **inputs) keeps, for each parameter of the new component, the explicit
   connection the old component had for that name unless [inputs] gives one; both touch node c only. *)
Theorem builder_edits_clear_replace :
  (forall defaults p,
     p_src (resolve_param defaults (with_conn p None)) = lookup (bp_name p) defaults /\
     bp_name (with_conn p None) = bp_name p /\ bp_lazy (with_conn p None) = bp_lazy p /\
     bp_typed (with_conn p None) = bp_typed p /\ bp_nullable (with_conn p None) = bp_nullable p /\
     bp_ty (with_conn p None) = bp_ty p) /\
  (forall old p,
     bp_conn (keep_conn old p) = match bp_conn p with Some s => Some s | None => old_conn old (bp_name p) end /\
     bp_name (keep_conn old p) = bp_name p /\ bp_lazy (keep_conn old p) = bp_lazy p /\
     bp_typed (keep_conn old p) = bp_typed p /\ bp_nullable (keep_conn old p) = bp_nullable p /\
     bp_ty (keep_conn old p) = bp_ty p) /\
  (forall c f l n, n <> c -> lookup n (edit_node c f l) = lookup n l).
Proof. split; [exact clear_edit_l|split; [exact replace_edit_l|exact edit_node_other]]. Qed.
Print Assumptions builder_edits_clear_replace.

(* "cyclic wirings are rejected" at EVERY build of a builder's life: whatever edits led to the state
   (connect, default_connection, alias, literal, clear_inputs, replace_component) and whatever was built,
   hashed or serialised from the builder before -- [build] reads the state only --, a resolved wiring with
   a closed path is rejected, and an accepted one is the resolved wiring of that state and has a rank. *)
Theorem cycle_rejected_at_every_build : forall b edits,
  let b' := fold_left apply_edit edits b in
  (forall n, path (resolve b') n n -> build b' = None) /\
  (forall g, build b' = Some g -> g = resolve b' /\ exists rank, ranked g rank).
Proof. exact history_cycle_rejected_l. Qed.
Print Assumptions cycle_rejected_at_every_build.

Theorem built_pipeline_is_acyclic : forall b g, build b = Some g ->
  g = resolve b /\ exists rank, ranked g rank /\ forall n, rank n < 2 + length g.
Proof. exact build_ranked_l. Qed.
Print Assumptions built_pipeline_is_acyclic.

(* The cycle check accepts exactly the wirings (explicit and default connections together) that have
   a rank, and rejects every wiring with a closed path; the runner raises on re-entering a node that
   is in progress. *)
Theorem cycle_rejected :
  (forall g,
     (acyclic_b g = true -> exists rank, ranked g rank /\ forall n, rank n < 2 + length g) /\
     (NoDup (map fst g) -> (exists rank, ranked g rank) -> acyclic_b g = true) /\
     (forall n, path g n n -> acyclic_b g = false)) /\
  (forall g inputs fuel s n r, stat s n = InProgress -> run g inputs (S fuel) s n r = (s, Err ECycle)).
Proof. split; [exact cycle_rejected_l|exact reenter_raises_l]. Qed.
Print Assumptions cycle_rejected.

(* If the run ends with exception e, every node that failed during the run failed with that very e,
   and e was created at one place: a diagnostic of the runner or a Raise in some component's body.
   If the run succeeds no node failed.  (Any graph, any fuel.) *)
Theorem exception_transparent : forall g inputs, catch_free g -> forall fuel ns s,
  (forall e, run_all g inputs fuel ns = (s, Some e) ->
     (forall m e', stat s m = Failed e' -> e' = e) /\ origin g e) /\
  (run_all g inputs fuel ns = (s, None) -> forall m e', stat s m <> Failed e').
Proof. exact exception_transparent_l. Qed.
Print Assumptions exception_transparent.

(* When a body catches the failure of a lazy input and the run goes on (any graph, any bodies, any
   fuel): a node that failed is never evaluated again in that run -- asking for it returns the runner's
   "previously failed" error and leaves the state (in particular the execution log) untouched --, and
   whatever runs afterwards it stays failed with the same exception, as a finished node stays finished.
   Together with at_most_once: a raising component runs once however many consumers reach it. *)
Theorem failed_node_not_retried : forall g inputs,
  (forall fuel s n r e, stat s n = Failed e -> run g inputs (S fuel) s n r = (s, Err EFailed)) /\
  (forall fuel s n r s' res, run g inputs fuel s n r = (s', res) ->
     forall m, (stat s m = Finished -> stat s' m = Finished) /\ (forall e, stat s m = Failed e -> stat s' m = Failed e)) /\
  (forall fuel ns s s' x, run_list g inputs fuel s ns = (s', x) ->
     forall m, (stat s m = Finished -> stat s' m = Finished) /\ (forall e, stat s m = Failed e -> stat s' m = Failed e)).
Proof. exact failed_not_retried_l. Qed.
Print Assumptions failed_node_not_retried.

(* Runs made one after another on the same pipeline object -- each starting from what the source says
   a run starts from -- return what each would return on its own, whatever failed before. *)
Theorem rerun_after_failure : forall g fuel reqs,
  run_seq g fuel init reqs = map (fun r => pipeline_run g (fst r) fuel (snd r)) reqs.
Proof. exact rerun_l. Qed.
Print Assumptions rerun_after_failure.

(* the shape of the source the model relies on (regenerated on every run): a run starts from a fresh
   all-pending runner and does not assign to the pipeline; the status dispatch (a failed node is refused,
   not evaluated again); connect()/default_connection() wire a Node by its name and turn every other
   argument -- strs spelled like node names included -- into a new literal node *)
Theorem shape_as_modelled :
  runner_fresh_per_run = true /\ init_all_pending = true /\ init_state_empty = true /\
  pipeline_methods_assigning_self = [] /\ handler_reraises_same_exception = true /\
  status_dispatch = expected_dispatch /\ status_writes = expected_writes /\
  pipeline_members_used = expected_members /\
  connect_wiring = expected_connect /\ default_connection_body = expected_default_connection.
Proof. exact shape_l. Qed.
Print Assumptions shape_as_modelled.

(* non-vacuity: the graph of defect F-C02-1 (optional input x absent; inc needs x; c1 and c2 take inc
   optionally; both needs c1 and c2), built through the builder with a default connection, satisfies
   the hypotheses, and the run returns the dataflow value with c1, both, c2 executed once each and inc
   skipped (the second input of `both` is lazy). *)
Definition ex_body1 (k : Z) : list (option val) -> prog :=
  body_of (BIfNone (AArg 0) (BRet (BLin (-k) [])) (BRet (BLin (100 * k) [(1%Z, AArg 0)]))).
Definition ex_builder : builder :=
  {| b_nodes :=
       [ (0, BInput true true);
         (1, BComp [ {| bp_name := 0; bp_conn := Some 0; bp_lazy := false; bp_typed := true; bp_nullable := false; bp_ty := TInt |} ]
                   (body_of (BRet (BLin 1 [(1%Z, AArg 0)]))));
         (2, BComp [ {| bp_name := 1; bp_conn := None; bp_lazy := false; bp_typed := true; bp_nullable := true; bp_ty := TInt |} ] (ex_body1 1));
         (3, BComp [ {| bp_name := 1; bp_conn := None; bp_lazy := false; bp_typed := true; bp_nullable := true; bp_ty := TInt |} ] (ex_body1 2));
         (4, BComp [ {| bp_name := 2; bp_conn := Some 2; bp_lazy := false; bp_typed := true; bp_nullable := false; bp_ty := TInt |};
                     {| bp_name := 3; bp_conn := Some 3; bp_lazy := true; bp_typed := true; bp_nullable := false; bp_ty := TInt |} ]
                   (body_of (BForce 1 (BRet (BLin 0 [(1000%Z, AArg 0); (1%Z, AForced 1)]))))) ];
     b_defaults := [(1, 1)];
     b_aliases := [(100, 4)] |}.

Example c02_nonvacuous :
  let g := resolve ex_builder in
  let F := 2 + length g in
  build ex_builder = Some g /\
  ranked g (fun n => Nat.min n 5) /\ (forall n : nat, Nat.min n 5 < F) /\ catch_free g /\
  (* requested through its alias; inc (node 1) is skipped; c1 runs, then the body of `both` starts and
     forces its lazy input c2: each once *)
  snd (run_all g [] F [resolve_alias (b_aliases ex_builder) 100]) = None /\
  rev (log (fst (run_all g [] F [4]))) = [2; 4; 3] /\
  stat (fst (run_all g [] F [4])) 1 = Finished /\ vals (fst (run_all g [] F [4])) 1 = None /\
  pipeline_run g [] F [4] = Values [Some (VInt (-1002))] /\
  pipeline_run g [(0, VInt 5)] F [4; 1] = Values [Some (VInt 106206); Some (VInt 6)].
Proof.
  cbv zeta. split.
  { unfold build. assert (E : acyclic_b (resolve ex_builder) = true) by (vm_compute; reflexivity).
    rewrite E. reflexivity. }
  split; [apply ranked_b_sound; vm_compute; reflexivity|].
  split; [intros n; change (length (resolve ex_builder)) with 5; lia|].
  split.
  { intros n ps body Hin a. unfold ex_builder, resolve in Hin. cbn [map b_nodes fst snd resolve_node In] in Hin.
    repeat (destruct Hin as [Hin|Hin]; [inversion Hin; subst; apply body_of_nocatch; reflexivity|]).
    destruct Hin. }
  repeat split; vm_compute; reflexivity.
Qed.

(* non-vacuity for catching bodies: node 0 raises, node 1 takes it lazily and catches, node 2 takes it
   eagerly.  The consumer's value comes back; the failed node, asked for again (directly or through node
   2), is not run a second time. *)
Example c02_catching_nonvacuous :
  pipeline_run catch_graph [] 5 [1] = Values [Some (VInt 7)] /\
  pipeline_run catch_graph [] 5 [1; 0] = Raised EFailed /\
  rev (log (fst (run_all catch_graph [] 5 [1; 0]))) = [1; 0] /\
  pipeline_run catch_graph [] 5 [1; 1; 2] = Raised EFailed /\
  rev (log (fst (run_all catch_graph [] 5 [1; 1; 2]))) = [1; 0] /\
  pipeline_run catch_graph [] 5 [2; 1] = Raised (EComp 5) /\
  stat (fst (run_all catch_graph [] 5 [1; 0])) 0 = Failed (EComp 5) /\
  stat (fst (run_all catch_graph [] 5 [1; 0])) 1 = Finished.
Proof. exact catch_example. Qed.
