(* C02 -- placeholder while the harness is brought up; replaced below. *)
From Coq Require Import List String Bool.
From LK Require Import Gen.C02_shape Model.C02_runner.
Import ListNotations.

Theorem shape_as_modelled :
  runner_fresh_per_run = true /\ init_all_pending = true /\ init_state_empty = true /\
  pipeline_methods_assigning_self = [] /\ handler_reraises_same_exception = true.
Proof. repeat split; reflexivity. Qed.
Print Assumptions shape_as_modelled.
