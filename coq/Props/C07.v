(* C07 -- Prediction metrics and run analysis report the exact per-list and pooled values.
   Property theorems only; each is closed by `exact <lemma>` and followed by Print Assumptions.
   The metric bodies are the GENERATED ones (Gen/C07_agg.v): these statements are re-checked
   against the source on every run.

   Property text -> theorem:
   * "RMSE and MAE equal their definitions over exactly the items that have both a prediction and
     a true rating under the chosen missing-data policy"       -> rmse_definition, mae_definition,
                                                                  error_policy
   * every denominator counts only both-present pairs            -> ignored_excluded_everywhere
   * "the per-list results report ... exactly the value the metric itself gives for that output and
     the test list found by projecting the key ... and no value when there is no such test list"
                                                                 -> list_value_is_metric (+ coherence of
                                                                    the decomposed path for RMSE/MAE)
   * "the run-level value equals the same formula applied to all such pairs pooled over the lists"
                                                                 -> global_is_pooled
   * "declining the substitution leaves them absent"             -> defaults_only_on_request
   * "summary statistics are mean, median and std ... after substituting each metric's default"
                                                                 -> summary_of_filled (shape of the generated
                                                                    list_summary; the statistics themselves are
                                                                    the model's definitions, tied by correspondence)
   * the same at the level of RunAnalysis.measure (the aggregate is taken over exactly the outputs
     that have a test list, whatever metrics precede or follow)   -> run_level_is_pooled
   * "for each output key": the result frame carries the output keys; row i sits under the key of
     output i, and the key-by-key matcher the case files use to compare the implementation's frame
     (index tuples + rows, in frame order) accepts only re-orderings that keep every row under its
     own key                                                      -> rows_under_own_key, keyed_match_sound
   * "exactly the items that have both a prediction and a true rating": an aligned pair with
     NEITHER value is not missing on one side -- no disposition pair raises on it, and (by
     ignored_excluded_everywhere) it is in no denominator        -> both_missing_tolerated *)
From Coq Require Import ZArith QArith Qabs List Bool Permutation.
From LK Require Import Lib.QLib Gen.C07_agg Model.C07_metrics Proofs.C07_proofs Proofs.C07_main Proofs.C07_global Proofs.C07_keys.
Import ListNotations.
Open Scope Q_scope.

Theorem rmse_definition : forall ms mt preds truth al,
  align ms mt preds truth = Some al -> rmse_measure_list al = rmse_def (both preds truth).
Proof. exact rmse_definition_l. Qed.
Print Assumptions rmse_definition.

Theorem mae_definition : forall ms mt preds truth al,
  align ms mt preds truth = Some al -> mae_measure_list al = mae_def (both preds truth).
Proof. exact mae_definition_l. Qed.
Print Assumptions mae_definition.

Theorem error_policy : forall ms mt preds truth,
  align ms mt preds truth = None <->
  (ms = DError /\ exists pt, In pt (join preds truth) /\ missing_score pt = true) \/
  (mt = DError /\ exists pt, In pt (join preds truth) /\ missing_truth pt = true).
Proof. exact error_policy_l. Qed.
Print Assumptions error_policy.

Theorem ignored_excluded_everywhere : forall ms mt preds truth al,
  align ms mt preds truth = Some al ->
  rmse_compute_list_data al = (Qsum (map sqerr (both preds truth)), Qofnat (length (both preds truth))) /\
  mae_compute_list_data al = (Qsum (map abserr (both preds truth)), Qofnat (length (both preds truth))) /\
  rmse_extract_list_metric (rmse_compute_list_data al) = rmse_measure_list al /\
  mae_extract_list_metric (mae_compute_list_data al) = mae_measure_list al.
Proof. exact ignored_excluded_everywhere_l. Qed.
Print Assumptions ignored_excluded_everywhere.

Theorem global_is_pooled : forall lists : list (ilist * ilist),
  let js := map (fun ot => join (fst ot) (snd ot)) lists in
  let pooled := concat (map (fun ot => both (fst ot) (snd ot)) lists) in
  res_eq (rmse_global_aggregate (map (fun j => rmse_compute_list_data (aligned_of j)) js)) (rmse_def pooled) /\
  res_eq (mae_global_aggregate (map (fun j => mae_compute_list_data (aligned_of j)) js)) (mae_def pooled).
Proof. exact global_is_pooled_l. Qed.
Print Assumptions global_is_pooled.

Theorem run_level_is_pooled : forall ofs tfs pre ms mt d post outputs test,
  (forall a, measure ofs tfs (pre ++ rmse_metric ms mt d :: post) outputs test = OK a ->
     exists ts v,
       sequence (map (fun e => lookup_projected ofs tfs (fst e) test) outputs) = Some ts /\
       nth_error (a_globals a) (length (filter in_globals pre)) = Some v /\
       res_eq v (rmse_def (pooled_pairs outputs ts))) /\
  (forall a, measure ofs tfs (pre ++ mae_metric ms mt d :: post) outputs test = OK a ->
     exists ts v,
       sequence (map (fun e => lookup_projected ofs tfs (fst e) test) outputs) = Some ts /\
       nth_error (a_globals a) (length (filter in_globals pre)) = Some v /\
       res_eq v (mae_def (pooled_pairs outputs ts))).
Proof. intros. split; intro a; [exact (run_level_rmse _ _ _ _ _ _ _ _ _ a)|exact (run_level_mae _ _ _ _ _ _ _ _ _ a)]. Qed.
Print Assumptions run_level_is_pooled.

Theorem list_value_is_metric : forall ofs tfs ms outputs test a,
  measure ofs tfs ms outputs test = OK a ->
  length (a_table a) = length outputs /\
  forall i key o, nth_error outputs i = Some (key, o) ->
    exists row, nth_error (a_table a) i = Some row /\
      match lookup_projected ofs tfs key test with
      | None => False
      | Some None => row = map (fun _ => RNone) (filter in_table ms)        (* no test list: no value *)
      | Some (Some t) =>
          length row = length (filter in_table ms) /\
          forall k m, nth_error (filter in_table ms) k = Some m -> m_listwise m = true -> coherent m ->
            exists v, nth_error row k = Some v /\ opt_res_eq (Some v) (m_measure_list m o t)
      end.
Proof. exact list_value_is_metric_l. Qed.
Print Assumptions list_value_is_metric.

Theorem shipped_metrics_coherent : forall ms mt d, coherent (rmse_metric ms mt d) /\ coherent (mae_metric ms mt d).
Proof. exact shipped_metrics_coherent_l. Qed.
Print Assumptions shipped_metrics_coherent.

Theorem defaults_only_on_request : forall a,
  list_metrics_of a false = a_table a /\
  list_metrics_of a true = fill_table (a_table a) (a_defaults a) /\
  forall v d, fill_cell v d = match v with RNone => match d with Some q => RVal q | None => RNone end | _ => v end.
Proof. exact defaults_only_on_request_l. Qed.
Print Assumptions defaults_only_on_request.

Theorem summary_of_filled : list_summary_fill = true /\ list_summary_stats = [SMean; SMedian; SStd].
Proof. exact summary_of_filled_l. Qed.
Print Assumptions summary_of_filled.

Theorem rows_under_own_key : forall ofs tfs ms outputs test a,
  measure ofs tfs ms outputs test = OK a ->
  map fst (keyed_table outputs (a_table a)) = map fst outputs /\
  forall i key o, nth_error outputs i = Some (key, o) ->
    exists row, nth_error (keyed_table outputs (a_table a)) i = Some (key, row) /\
                nth_error (a_table a) i = Some row.      (* the row list_value_is_metric speaks about *)
Proof. exact keyed_rows_l. Qed.
Print Assumptions rows_under_own_key.

Theorem keyed_match_sound : forall tol model index obs,
  (agree_keyed tol model index obs = true ->
   exists rows, Permutation model (combine index rows) /\ length rows = length index /\
                Forall2 (fun r o => all2 (agree_res tol) r o = true) rows obs) /\
  (forall rows, length index = length rows -> Forall2 (fun r o => all2 (agree_res tol) r o = true) rows obs ->
   agree_keyed tol (combine index rows) index obs = true).
Proof. intros. split; [apply agree_keyed_sound|intros rows; apply agree_keyed_self]. Qed.
Print Assumptions keyed_match_sound.

Theorem both_missing_tolerated : forall ms mt preds truth,
  (forall pt, In pt (join preds truth) -> (fst pt = None <-> snd pt = None)) ->
  exists al, align ms mt preds truth = Some al.
Proof. exact both_missing_tolerated_l. Qed.
Print Assumptions both_missing_tolerated.

(* non-vacuity: a run with an ignored pair, an output without test data and a projected key *)
Example c07_nonvacuous :
  let o1 : ilist := [(1%Z, Some 3); (2%Z, Some 4); (3%Z, None)] in
  let t1 : ilist := [(1%Z, Some 4); (2%Z, Some (9 # 2)); (3%Z, Some 2)] in
  exists al a,
    align DIgnore DIgnore o1 t1 = Some al /\ both o1 t1 = [(3, 4); (4, 9 # 2)] /\
    measure [0; 1]%nat [0]%nat [rmse_metric DIgnore DIgnore None; fun_metric (Some 0)]
            [([1; 0]%Z, o1); ([2; 0]%Z, o1)] [([1]%Z, t1)] = OK a /\
    length (a_table a) = 2%nat.
Proof. cbv zeta. eexists. eexists. split; [reflexivity|]. split; [reflexivity|]. split; [vm_compute; reflexivity|reflexivity]. Qed.

(* non-vacuity of the keyed reading: two-field keys in non-sorted order, an item with neither a score nor a
   rating under error/error; the frame sorted TOGETHER with its rows is accepted, the frame whose index alone
   was sorted (rows left in collection order) is rejected *)
Example c07_keyed_nonvacuous :
  let o1 : ilist := [(1%Z, Some 3); (2%Z, None)] in
  let o2 : ilist := [(1%Z, Some 6)] in
  let t1 : ilist := [(1%Z, Some 4)] in
  let outs := [([2; 1]%Z, o1); ([1; 2]%Z, o2)] in
  exists a,
    measure [0; 1]%nat [0; 1]%nat [mae_metric DError DError None] outs [([2; 1]%Z, t1); ([1; 2]%Z, t1)] = OK a /\
    agree_keyed tol64 (keyed_table outs (a_table a)) [[1; 2]; [2; 1]]%Z [[Some 2]; [Some 1]] = true /\
    agree_keyed tol64 (keyed_table outs (a_table a)) [[1; 2]; [2; 1]]%Z [[Some 1]; [Some 2]] = false.
Proof. cbv zeta. eexists. split; [vm_compute; reflexivity|]. split; vm_compute; reflexivity. Qed.
