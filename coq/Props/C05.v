(* C05 -- placeholder while the proofs are being written *)
From LK Require Import Lib.SplitLib Model.C05_split.
