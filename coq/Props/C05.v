(* C05 -- Every train/test split is an exact, leak-free partition with the exact hold-out.
   Property theorems only; each is closed by `exact <lemma>` and followed by Print Assumptions.
   The per-user hold-out bodies are the GENERATED ones (Gen/C05_holdout.v, from splitting/holdout.py):
   holdout_exact, holdout_selects_rows, user_pairs and crossfold_users_once are re-checked against
   the source on every run.  All theorems are about lists of any length, any number of users, folds,
   cut-offs; random draws, argsort results and the rounding function are universally quantified
   (constrained only by the library contracts, which boolean checkers -- library_checkers -- test on
   every observed run).

   Property text -> theorem
   * "each train/test pair is an exact partition of the original interactions: no (user, item) pair
     occurs in both parts and every original record, with its attributes unchanged, occurs in exactly
     one of them (the training part being empty only when test-only output is requested)"
        -> pair_is_partition_records (every branch of sample_records, incl. the cross-fold fallback),
           crossfold_records_once (per fold), user_pairs (every pair of crossfold_users / sample_users,
           through user_splitters_are_sections), temporal_cut (pair without an upper bound)
   * "the data-frame views of the pair list exactly those records"        -> frames_list_records
   * "Cross-fold splitting puts every record / every user on the test side of exactly one fold"
        -> crossfold_records_once, crossfold_users_once (with numpy.array_split's fold sizes)
   * "user-based splitting holds out exactly the specified number, or rounded fraction, of each test
     user's rows - the most recent ones for time-ordered rules"
        -> holdout_exact (+ rounded_fraction: round-half-even is a nearest integer), user_pairs (the
           test list of test user i is exactly the rows the rule selects from that user's row)
   * "and leaves all rows of other users in training"                     -> user_pairs (third clause of eff = false)
   * "temporal splitting places every record strictly before the cut in training and every record in
     [cut, next cut or end) in test"                                      -> temporal_cut, filter_window_exact
        (times are integers of ANY magnitude compared exactly with rational cut-offs; integer_cut_ceiling: the
        code's comparison of an integer column with math.ceil of a fractional cut-off is that exact comparison)
   * "for cut-offs given as UNIX seconds or in the same representation as the stored times - every
     local time-zone setting"                                             -> temporal_zone_free
   Records are (user, item, attribute, time) tuples carried whole, so "attributes unchanged" is part
   of Permutation.  Hypothesis NoDup (map pair_of recs): the interaction class has no repeated
   (user, item) pair.  Not theorems (correspondence only): that pandas' quantile is the cut of
   split_temporal_fraction; the Arrow anti-join / mask kernels themselves. *)
From Coq Require Import ZArith QArith Qround List Bool Permutation Lia.
From LK Require Import Lib.SplitLib Lib.PyRoundZ Gen.C05_holdout Model.C05_split
     Proofs.C05_records Proofs.C05_holdout Proofs.C05_users Proofs.C05_temporal Proofs.C05_resolution Proofs.C05_main.
Import ListNotations.

(* ---- record-based ---------------------------------------------------------------------------------------- *)
Theorem pair_is_partition_records :
  forall recs size repeats (disjoint test_only : bool) draws fs,
  NoDup (map pair_of recs) ->
  sample_records recs size repeats disjoint test_only draws = Folds fs ->
  forall f, In f fs ->
    (forall r, In r (test_recs f) -> In r recs) /\
    (Permutation (f_train f ++ test_recs f) recs \/ (test_only = true /\ f_train f = [])) /\
    (forall r1 r2, In r1 (f_train f) -> In r2 (test_recs f) -> pair_of r1 <> pair_of r2).
Proof. exact pair_is_partition_records_l. Qed.
Print Assumptions pair_is_partition_records.

Theorem crossfold_records_once :
  forall recs perm k (test_only : bool),
  NoDup (map pair_of recs) -> Permutation perm (seq 0 (length recs)) -> (0 < k)%Z ->
  exists folds, crossfold_records recs k test_only perm = Folds folds /\
    length folds = Z.to_nat k /\
    Permutation (concat (map test_recs folds)) recs /\
    (forall j, (j < Z.to_nat k)%nat ->
       length (test_recs (nth j folds (mkFold [] []))) =
       (length recs / Z.to_nat k + (if Nat.ltb j (length recs mod Z.to_nat k) then 1 else 0))%nat) /\
    (forall f, In f folds ->
       (test_only = false -> Permutation (f_train f ++ test_recs f) recs) /\
       (test_only = true -> f_train f = []) /\
       (forall r, In r (test_recs f) -> In r recs) /\
       (forall r1 r2, In r1 (f_train f) -> In r2 (test_recs f) -> pair_of r1 <> pair_of r2)).
Proof. exact crossfold_records_once_main. Qed.
Print Assumptions crossfold_records_once.

Theorem sample_records_size :
  forall recs size draws (test_only disjoint : bool),
  valid_idx (length recs) (nth 0 draws []) -> Z.of_nat (length (nth 0 draws [])) = size ->
  exists f, sample_records recs size None disjoint test_only draws = Folds [f] /\ Z.of_nat (length (test_recs f)) = size.
Proof. exact sample_records_single_size. Qed.
Print Assumptions sample_records_size.

(* ---- hold-out rules (generated bodies) ------------------------------------------------------------------------ *)
Theorem holdout_exact :
  forall (F : Type) (rm : Z -> F -> option Z) (h : holdout F) row d, hdraw_ok rm h row d ->
  let len := Z.of_nat (length row) in
  match h with
  | HSampleN n => (0 <= n)%Z -> exists idx, run_holdout rm h row d = HOk idx /\ exact_count len n idx
  | HSampleFrac f => forall n, rm len f = Some n -> (0 <= n <= len)%Z ->
      exists idx, run_holdout rm h row d = HOk idx /\ exact_count len n idx
  | HLastN n fld => (0 <= n)%Z -> forall c, col_of fld row = Some c ->
      exists idx, run_holdout rm h row d = HOk idx /\ exact_count len n idx /\ most_recent c idx
  | HLastFrac f fld => forall n c, rm len f = Some n -> (0 <= n)%Z -> col_of fld row = Some c ->
      exists idx, run_holdout rm h row d = HOk idx /\ exact_count len n idx /\ most_recent c idx
  end.
Proof. exact (@run_holdout_exact_l). Qed.
Print Assumptions holdout_exact.

(* a user without interactions has an empty row, which carries no fields (col_of = None): LastN / LastFrac with a
   non-negative size hold out nothing and do not ask for the ordering field *)
Theorem holdout_empty_row :
  forall (F : Type) (rm : Z -> F -> option Z) (h : holdout F) d,
  match h with
  | HLastN n fld => (0 <= n)%Z -> run_holdout rm h [] d = HOk []
  | HLastFrac f fld => forall n, rm 0%Z f = Some n -> (0 <= n)%Z -> run_holdout rm h [] d = HOk []
  | _ => True
  end.
Proof. exact (@run_holdout_empty_row_l). Qed.
Print Assumptions holdout_empty_row.

Theorem holdout_selects_rows :
  forall (F : Type) (rm : Z -> F -> option Z) (h : holdout F) row d idx,
  hdraw_ok rm h row d -> run_holdout rm h row d = HOk idx -> valid_idx (length row) idx.
Proof. exact (@run_holdout_valid). Qed.
Print Assumptions holdout_selects_rows.

Theorem rounded_fraction :
  forall m e, (e < 0 -> 2 * Z.abs (round_half_even m e * 2 ^ (- e) - m) <= 2 ^ (- e))%Z /\
              (0 <= e -> round_half_even m e = m * 2 ^ e)%Z.
Proof. exact rounded_fraction_l. Qed.
Print Assumptions rounded_fraction.

(* ---- user-based ------------------------------------------------------------------------------------------------- *)
Theorem user_splitters_are_sections :
  forall (F : Type) (rm : Z -> F -> option Z) recs users h (test_only : bool) hds fs,
  (forall k perm, crossfold_users rm recs users k h test_only perm hds = Folds fs ->
     (0 < k)%Z /\ split_sections rm recs users h test_only (array_split perm (Z.to_nat k)) hds = Folds fs /\
     (Permutation perm (seq 0 (length users)) -> forall s, In s (array_split perm (Z.to_nat k)) -> valid_idx (length users) s)) /\
  (forall size repeats (disjoint : bool) draws,
     sample_users rm recs users size repeats disjoint test_only h draws hds = Folds fs ->
     exists secs eff, (eff = test_only \/ eff = false) /\
       split_sections rm recs users h eff secs hds = Folds fs /\
       ((disjoint = true -> repeats <> None -> Permutation (nth 0 draws []) (seq 0 (length users))) ->
        ((disjoint = false \/ repeats = None) -> forall i, valid_idx (length users) (nth i draws [])) ->
        forall s, In s secs -> valid_idx (length users) s)).
Proof. exact (@user_splitters_are_sections_l). Qed.
Print Assumptions user_splitters_are_sections.

Theorem user_pairs :
  forall (F : Type) (rm : Z -> F -> option Z) recs users h (eff : bool) secs hds fs,
  NoDup (map pair_of recs) -> NoDup users -> (forall s, In s secs -> valid_idx (length users) s) ->
  sections_draws_ok rm recs users h secs hds ->
  split_sections rm recs users h eff secs hds = Folds fs ->
  length fs = length secs /\
  forall j, (j < length secs)%nat ->
    let f := nth j fs dfold in
    let us := gather 0%Z users (nth j secs []) in
    test_keys f = us /\ NoDup us /\
    (forall i, (i < length us)%nat ->
       exists idx, run_holdout rm h (user_row recs (nth i us 0%Z)) (nth i (nth j hds []) no_draw) = HOk idx /\
                   nth i (f_test f) (0%Z, []) = (nth i us 0%Z, gather dflt (user_row recs (nth i us 0%Z)) idx)) /\
    (forall r, In r (test_recs f) -> In r recs /\ In (ru r) us) /\
    (eff = true -> f_train f = []) /\
    (eff = false ->
       Permutation (f_train f ++ test_recs f) recs /\
       (forall r, In r recs -> ~ In (ru r) us -> In r (f_train f)) /\
       (forall r1 r2, In r1 (f_train f) -> In r2 (test_recs f) -> pair_of r1 <> pair_of r2)).
Proof. exact (@split_sections_pairs_l). Qed.
Print Assumptions user_pairs.

Theorem crossfold_users_once :
  forall (F : Type) (rm : Z -> F -> option Z) recs users k h (test_only : bool) perm hds folds,
  Permutation perm (seq 0 (length users)) -> (0 < k)%Z ->
  sections_draws_ok rm recs users h (array_split perm (Z.to_nat k)) hds ->
  crossfold_users rm recs users k h test_only perm hds = Folds folds ->
  length folds = Z.to_nat k /\
  Permutation (concat (map test_keys folds)) users /\
  (forall j, (j < Z.to_nat k)%nat ->
     length (test_keys (nth j folds dfold)) =
     (length users / Z.to_nat k + (if Nat.ltb j (length users mod Z.to_nat k) then 1 else 0))%nat).
Proof. exact (@crossfold_users_once_l). Qed.
Print Assumptions crossfold_users_once.

(* ---- temporal ------------------------------------------------------------------------------------------------------ *)
Theorem temporal_cut :
  forall c off recs cuts endt fs j x,
  split_global_time c off recs cuts endt = Folds fs -> nth_error cuts j = Some x ->
  let t := conv c off x in
  let t2 := next_cut (map (conv c off) cuts) (option_map (conv c off) endt) j in
  length fs = length cuts /\
  exists f, nth_error fs j = Some f /\
    f_train f = filter (fun r => Qlt_b (tq r) t) recs /\
    Permutation (test_recs f) (filter (fun r => Qle_b t (tq r) && match t2 with None => true | Some e => Qlt_b (tq r) e end) recs) /\
    (forall r, In r (f_train f) <-> In r recs /\ (tq r < t)%Q) /\
    (forall r, In r (test_recs f) <-> In r recs /\ (t <= tq r)%Q /\ match t2 with None => True | Some e => (tq r < e)%Q end) /\
    (t2 = None -> Permutation (f_train f ++ test_recs f) recs) /\
    (forall e, t2 = Some e -> (t <= e)%Q ->
       Permutation (f_train f ++ test_recs f ++ filter (fun r => Qle_b e (tq r)) recs) recs).
Proof. exact temporal_cut_l. Qed.
Print Assumptions temporal_cut.

Theorem temporal_zone_free :
  forall c recs cuts endt off1 off2,
  Forall (zone_free c) cuts -> match endt with None => True | Some e => zone_free c e end ->
  split_global_time c off1 recs cuts endt = split_global_time c off2 recs cuts endt.
Proof. exact split_global_time_zone_free. Qed.
Print Assumptions temporal_zone_free.

Theorem filter_window_exact :
  forall c off recs mn mx l, filter_window c off recs mn mx = Some l ->
  (c = ColNone -> l = recs) /\
  (c <> ColNone -> forall r, In r l <-> In r recs /\
     match mn with None => True | Some a => (conv c off a <= tq r)%Q end /\
     match mx with None => True | Some b => (tq r < conv c off b)%Q end).
Proof. exact filter_window_spec. Qed.
Print Assumptions filter_window_exact.

(* integer times (seconds ... nanoseconds since the epoch, beyond 2^53) against a fractional cut-off x: the code
   compares with math.ceil(x) (builder._conform_time, temporal._int_bound); for every integer time and every
   rational x this is the exact comparison, so the pairs / the window built from the ceilings are those of x *)
Theorem integer_cut_ceiling :
  (forall (z : Z) (x : Q), ((inject_Z z < x)%Q <-> (z < Qceiling x)%Z) /\ ((x <= inject_Z z)%Q <-> (Qceiling x <= z)%Z)) /\
  (forall recs cuts endt,
     time_folds recs (map (fun t => inject_Z (Qceiling t)) cuts) (option_map (fun e => inject_Z (Qceiling e)) endt)
     = time_folds recs cuts endt) /\
  (forall recs (mn mx : option Q),
     filter (fun r => match mn with None => true | Some a => Qle_b (inject_Z (Qceiling a)) (tq r) end &&
                      match mx with None => true | Some b => Qlt_b (tq r) (inject_Z (Qceiling b)) end) recs
     = filter (fun r => match mn with None => true | Some a => Qle_b a (tq r) end &&
                        match mx with None => true | Some b => Qlt_b (tq r) b end) recs).
Proof. exact integer_cut_ceiling_l. Qed.
Print Assumptions integer_cut_ceiling.

(* ---- frames, checkers --------------------------------------------------------------------------------------------------- *)
Theorem frames_list_records :
  forall l : list rec,
  Permutation (concat (map snd (group_by_user l))) l /\
  NoDup (map fst (group_by_user l)) /\
  (forall u g, In (u, g) (group_by_user l) -> g <> [] /\ forall r, In r g -> ru r = u /\ In r l) /\
  (forall (test_only : bool) recs idx,
     f_test (make_pair test_only recs idx) = group_by_user (take_mask dflt (in_idx idx) recs)) /\
  (forall f, train_df f = f_train f /\ test_size f = length (test_recs f)).
Proof. exact frames_list_records_l. Qed.
Print Assumptions frames_list_records.

Theorem library_checkers :
  (forall n perm, is_perm_b n perm = true <-> Permutation perm (seq 0 n)) /\
  (forall len n draw, choice_ok_b len n draw = true <-> valid_idx len draw /\ Z.of_nat (length draw) = n) /\
  (forall draw a n, ((0 <= n <= a)%Z -> valid_idx (Z.to_nat a) draw /\ Z.of_nat (length draw) = n) -> choice_ok_at (np_choice draw) a n) /\
  (forall col o, argsort_ok_b col o = true <-> argsort_ok (fun _ => o) col).
Proof. exact library_checkers_l. Qed.
Print Assumptions library_checkers.

(* non-vacuity: two users, user 1 with three rows (a tie in time), user 2 with one row; 2-fold user
   cross-folding with LastN(1): the hypotheses of user_pairs / crossfold_users_once hold and the result
   is the expected pair of folds *)
Example c05_nonvacuous :
  let recs := [mkRec 1 10 4 5; mkRec 1 11 8 7; mkRec 1 12 6 7; mkRec 2 10 12 3] in
  let users := [1; 2]%Z in
  let perm := [1; 0]%nat in
  let hds : list (list hdraw) := [[([], [0]%nat)]; [([], [0; 1; 2]%nat)]] in
  let rm : Z -> unit -> option Z := fun _ _ => None in
  NoDup (map pair_of recs) /\ NoDup users /\ Permutation perm (seq 0 (length users)) /\
  sections_draws_ok rm recs users (HLastN 1 FTime) (array_split perm 2) hds /\
  crossfold_users rm recs users 2 (HLastN 1 FTime) false perm hds =
    Folds [mkFold [mkRec 1 10 4 5; mkRec 1 11 8 7; mkRec 1 12 6 7] [(2%Z, [mkRec 2 10 12 3])];
           mkFold [mkRec 1 10 4 5; mkRec 1 11 8 7; mkRec 2 10 12 3] [(1%Z, [mkRec 1 12 6 7])]].
Proof.
  cbv zeta. split; [|split; [|split; [|split]]].
  - apply NoDup_map_inv with (f := fun p => (fst p * 100 + snd p)%Z). vm_compute.
    repeat (constructor; [cbn; intuition discriminate|]). constructor.
  - repeat (constructor; [cbn; intuition discriminate|]). constructor.
  - apply is_perm_b_iff. vm_compute. reflexivity.
  - intros j Hj. assert (j = 0 \/ j = 1)%nat as [E|E] by (vm_compute in Hj; lia); subst j;
      intros i Hi; assert (i = 0)%nat by (vm_compute in Hi; lia); subst i;
      intros c Ec; vm_compute in Ec; inversion Ec; subst c; apply argsort_ok_b_iff; vm_compute; reflexivity.
  - vm_compute. reflexivity.
Qed.
