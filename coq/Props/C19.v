(* C19 -- Random selection and stochastic ranking give valid samples at configured odds.
   Property theorems only; each is closed by `exact <lemma>` and followed by Print Assumptions.
   random_len / softmax_len / stochastic_len (length resolution), *_mask (eligibility) and
   argtopn_plan are the GENERATED definitions of Gen/C19_len.v and Gen/C03_len.v: the structural
   theorems are re-checked against the source on every run.  Randomness is explicit and universally
   quantified: `picked` is whatever rng.choice(N, m, replace=False) returned (contract: m distinct
   positions below N), `keys` are whatever log(U)/max(w, tiny) came to.

   Property text -> theorem:
   * "return a list (marked as ordered by the rankers) of distinct items drawn only from the eligible
     inputs (all items for uniform selection, items with finite scores for score-based sampling), of
     length min(n, number eligible), with each selected item's fields intact"
         -> selection_valid_random, selection_valid_softmax, selection_valid_stochastic
            (rows are returned whole: `In r items` is membership of the full row) and
            eligibility_partial + softmax_finite_only_refuted (what the generated masks are; the
            deprecated SoftmaxRanker also admits +-inf: known finding)
   * "a positive run-time length overriding the configured one"     -> positive_runtime_n_overrides
   * "every eligible item is equally likely under uniform selection" -> uniform_symmetric (counting),
     uniform_inclusion_count (the exact count for every n: probability min(n, N)/N, with n = 1, N-1, N spelled
     out) and generator_use_rule (GENERATED: the selector's only use of its generator is
     rng.choice(len(items), n, replace=False), the rankers' only use is rng.uniform(0, 1, N))
   * the samples of different calls are draws from different generator streams (user-derived seeds)
         -> derived_streams (GENERATED facts about lenskit/random.py + the stream identities: every anonymous
            call a new child, integer users always apart, str / bytes / UUID users apart exactly when the digest
            separates their bytes; the digest itself -- MD5 -- is not modelled: the frequency exercise counts
            users of look-alike id families that were handed the same list)
   * "under stochastic ranking the probability that an item is ranked first is its transformed score
     weight (softmax, linear, or raw) divided by the total weight"
         -> first_pick_probability + key_tail (law of the first of independent exponential clocks,
            which is what sorting by log(U)/w computes), linear_weights_prob (the linear transform is
            a probability vector); the softmax weights are symbolic (any positive reals).

   PARTIAL for the distribution clause: the two statements below are about an idealised generator
   (all permutations equally likely; independent uniform U_j).  The full statement
       forall i, P_PCG64( item i is ranked first ) = rate_i / sum of rates
   is not proved: NumPy's PCG64 stream and floating-point log are not modelled, and the step from
   "independent clocks with these tails" to "probability = this integral" is textbook probability that
   is not formalised here.  Fixed-seed frequency tables (evidence: `frequency_tables`) exercise it. *)
From Coq Require Import ZArith QArith List Bool Reals.
From Coquelicot Require Import Coquelicot.
From LK Require Import Lib.QLib Lib.PyInt Lib.C19Rules Lib.TopN Gen.C03_len Gen.C19_len Model.C19_select Model.C19_seed
  Proofs.C19_main Proofs.C19_uniform Proofs.C19_inclusion Proofs.C19_seed Proofs.C19_race.
Import ListNotations.

(* FULL statement (property text: "items with finite scores for score-based sampling"):
     random_mask = MAll /\ softmax_mask = MFinite /\ stochastic_mask = MFinite
   It does NOT hold for the code as it is: the deprecated SoftmaxRanker masks only NaN
   (`~np.isnan(scores)`), so +-inf scores are eligible there.  KNOWN_FINDINGS.txt records it
   (key softmax:ineligible:infinite-score; the unedited test-suite pins that behaviour).  Proved
   instead: what the generated masks are, and the refutation witness for SoftmaxRanker. *)
Theorem eligibility_partial :
  random_mask = MAll /\ stochastic_mask = MFinite /\ softmax_mask = MNotNan /\
  (forall r, eligible MFinite r = true <-> exists q, r_score r = SNum q) /\
  (forall r, eligible MNotNan r = true <-> r_score r <> SNan) /\
  (forall r, eligible MAll r = true).
Proof. exact eligibility_partial_l. Qed.
Print Assumptions eligibility_partial.

Theorem softmax_finite_only_refuted :
  exists items keys out, softmax_ranker items (Some 1%Z) None keys = Some (out, true) /\
    exists r, In r out /\ r_score r = SPInf.
Proof. exact softmax_finite_only_refuted_l. Qed.
Print Assumptions softmax_finite_only_refuted.

(* where the scale factor enters and which transforms exist: GENERATED facts (the translator matches the
   three transform bodies textually and requires a single use of config.scale, before the match) *)
Theorem weight_rule :
  stochastic_scale = ScaleBeforeTransform /\
  stochastic_transforms = [TrLinearMinMax; TrSoftmax; TrRawClamp] /\
  stochastic_keys = KLogUOverW /\ softmax_keys = KLogUOverW /\
  (forall scale valid, weights TLinear (scaled_scores scale valid) = linear_weights (scaled_scores scale valid)) /\
  (forall scale valid, weights TRaw (scaled_scores scale valid) = scaled_scores scale valid) /\
  (forall scale i q x, scaled_scores scale [(i, SNum q, x)] = [(q * scale)%Q]).
Proof. exact weight_rule_l. Qed.
Print Assumptions weight_rule.

Theorem selection_valid_random : forall items n config_n,
  NoDup (map r_id items) ->
  let N := Z.of_nat (length items) in
  let m := random_length n config_n N in                     (* = N if n < 0, else min n N *)
  (* the generator is asked for m distinct positions out of N, and only when m > 0 *)
  random_request items n config_n = Some (if (m >? 0)%Z then Some (N, m) else None) /\
  forall picked, ((m > 0)%Z -> choice_ok N m picked = true) ->
    exists out, random_select items n config_n picked = Some (out, false) /\
      NoDup (map r_id out) /\
      (forall r, In r out -> In r items) /\
      Z.of_nat (length out) = m.
Proof. exact selection_valid_random_l. Qed.
Print Assumptions selection_valid_random.

Theorem selection_valid_softmax : forall items n config_n keys,
  NoDup (map r_id items) ->
  let valid := filter (eligible softmax_mask) items in
  let N := Z.of_nat (length valid) in
  length keys = length valid ->
  exists out, softmax_ranker items n config_n keys = Some (out, true) /\        (* flagged ordered *)
    NoDup (map r_id out) /\
    (forall r, In r out -> In r items /\ eligible softmax_mask r = true) /\
    Z.of_nat (length out) = rank_length n config_n N /\
    (forall r kr r' kr', In (r, kr) (combine valid keys) -> In r out ->
       In (r', kr') (combine valid keys) -> ~ In r' out -> (kr' <= kr)%Q).
Proof. exact selection_valid_softmax_l. Qed.
Print Assumptions selection_valid_softmax.

Theorem selection_valid_stochastic : forall items n config_n keys,
  NoDup (map r_id items) ->
  let valid := filter (eligible stochastic_mask) items in
  let N := Z.of_nat (length valid) in
  length keys = length valid ->
  exists out, stochastic_ranker items n config_n keys = Some (out, true) /\
    NoDup (map r_id out) /\
    (forall r, In r out -> In r items /\ eligible stochastic_mask r = true) /\
    Z.of_nat (length out) = rank_length n config_n N /\
    (forall r kr r' kr', In (r, kr) (combine valid keys) -> In r out ->
       In (r', kr') (combine valid keys) -> ~ In r' out -> (kr' <= kr)%Q).
Proof. exact selection_valid_stochastic_l. Qed.
Print Assumptions selection_valid_stochastic.

Theorem positive_runtime_n_overrides : forall k config_n N, (0 < k)%Z -> (0 <= N)%Z ->
  rank_length (Some k) config_n N = Z.min k N /\
  random_length (Some k) config_n N = Z.min k N /\
  (* and with no run-time length: the configured one, unlimited when it is None / -1 *)
  rank_length None config_n N = (let c := config_default config_n in if ((c <? 0) || (c >? N))%Z then N else c) /\
  random_length None config_n N = (let c := config_default config_n in if (c <? 0)%Z then N else Z.min c N).
Proof. exact positive_runtime_l. Qed.
Print Assumptions positive_runtime_n_overrides.

Theorem uniform_symmetric : forall (l : list nat) (n i j : nat),
  NoDup l -> In i l -> In j l ->
  count_first n i l = count_first n j l /\ length (perms l) = fact (length l) /\
  (forall p, In p (perms l) <-> Permutation.Permutation l p) /\ NoDup (perms l).
Proof. exact uniform_symmetric_full. Qed.
Print Assumptions uniform_symmetric.

(* exact inclusion count for every length n, not only symmetry: N * #{arrangements with i among the first n} = min(n, N) * N! *)
Theorem uniform_inclusion_count : forall (l : list nat) (n i : nat),
  NoDup l -> In i l ->
  (count_first n i l * length l = Nat.min n (length l) * fact (length l) /\
   count_first 1 i l * length l = fact (length l) /\
   count_first (length l - 1) i l * length l = (length l - 1) * fact (length l) /\
   count_first (length l) i l = fact (length l))%nat.
Proof. exact uniform_inclusion_full. Qed.
Print Assumptions uniform_inclusion_count.

(* how the components use their generator: GENERATED facts (the translator lists every use of `rng` in each __call__) *)
Theorem generator_use_rule :
  random_draw = DrawChoiceNoReplace /\ softmax_draw = DrawUniform01PerEligible /\ stochastic_draw = DrawUniform01PerEligible.
Proof. exact generator_use_rule_l. Qed.
Print Assumptions generator_use_rule.

(* user-derived seeds (lenskit/random.py, GENERATED facts) and the identity of the stream each call draws from *)
Theorem derived_streams :
  seed_digest = DigestMd5XorFold /\ seed_derivation = DeriveChildIfAnonymousElseBaseAndUser /\
  seed_words = [WSkipNone; WSeedSequenceEntropy; WNumpyInt; WInt; WDigestUuidBytes; WDigestUtf8; WDigestBytes; WIntSequence] /\
  seed_specs = [SpecUserFreshEntropy; SpecSeedUser; SpecFixedGenerator] /\
  forall (digest : list Z -> Z) (base : list Z),
    (forall i j, anonymous_stream base i = anonymous_stream base j <-> i = j) /\
    (forall i k, anonymous_stream base i <> user_stream digest base k) /\
    (forall k1 k2, user_stream digest base k1 = user_stream digest base k2 <-> key_word digest k1 = key_word digest k2) /\
    (forall a b, user_stream digest base (UInt a) = user_stream digest base (UInt b) <-> a = b) /\
    (forall family k1 k2 b1 b2, separates digest family ->
       key_bytes k1 = Some b1 -> key_bytes k2 = Some b2 -> In b1 family -> In b2 family ->
       (user_stream digest base k1 = user_stream digest base k2 <-> b1 = b2)).
Proof. exact derived_streams_l. Qed.
Print Assumptions derived_streams.

Theorem linear_weights_prob : forall xs tiny, xs <> [] -> (0 < tiny)%Q ->
  length (linear_weights xs) = length xs /\
  (Qsum (linear_weights xs) == 1)%Q /\ (forall w, In w (linear_weights xs) -> (0 <= w)%Q) /\
  (forall t ws w, In w (rates tiny (weights t ws)) -> (0 < w)%Q).
Proof. exact linear_weights_prob_full. Qed.
Print Assumptions linear_weights_prob.

Open Scope R_scope.
Theorem key_tail : forall w u t : R, 0 < w -> 0 < u -> (t < - ln u / w <-> u < exp (- w * t)).
Proof. exact key_tail_l. Qed.
Print Assumptions key_tail.

(* PARTIAL (idealised generator): see the header *)
Theorem first_pick_probability_partial : forall (w : R) (others : list R),
  0 < w -> List.Forall (fun x => 0 <= x) others ->
  let W := w + total others in
  0 < W /\
  (forall T, is_RInt (fun t => w * exp (- w * t) * survive others t) 0 T ((w / W) * (1 - exp (- W * T)))) /\
  is_lim (fun T => (w / W) * (1 - exp (- W * T))) p_infty (w / W).
Proof. exact first_pick_probability_l. Qed.
Print Assumptions first_pick_probability_partial.
Close Scope R_scope.

(* non-vacuity: five items, one NaN and one infinite score; run-time 2 beats configured 4 *)
Example c19_nonvacuous :
  let items : list row := [(10, SNum (1 # 2), 7); (11, SNan, 8); (12, SNum 3, 9); (13, SPInf, 1); (14, SNum (-2), 2)]%Z in
  NoDup (map r_id items) /\
  choice_ok 5 2 [3; 0]%nat = true /\
  random_select items (Some 2%Z) (Some 4%Z) [3; 0]%nat = Some ([(13, SPInf, 1); (10, SNum (1 # 2), 7)]%Z, false) /\
  stochastic_ranker items (Some 2%Z) (Some 4%Z) [(-3 # 1); (-1 # 4); (-2 # 1)]%Q
    = Some ([(12, SNum 3, 9); (14, SNum (-2), 2)]%Z, true) /\
  stochastic_ranker items None None [(-3 # 1); (-1 # 4); (-2 # 1)]%Q
    = Some ([(12, SNum 3, 9); (14, SNum (-2), 2); (10, SNum (1 # 2), 7)]%Z, true) /\
  count_first 2 0 [0; 1; 2; 3]%nat = 12%nat /\ count_first 2 3 [0; 1; 2; 3]%nat = 12%nat /\
  count_first 1 3 [0; 1; 2; 3]%nat = 6%nat /\ count_first 3 3 [0; 1; 2; 3]%nat = 18%nat /\ count_first 4 3 [0; 1; 2; 3]%nat = 24%nat /\
  user_stream (fun b => Z.of_nat (length b)) [7]%Z (UStr [117; 49]%Z) = user_stream (fun b => Z.of_nat (length b)) [7]%Z (UBytes [117; 50]%Z) /\
  user_stream (fun b => fold_left Z.add b 0%Z) [7]%Z (UStr [117; 49]%Z) <> user_stream (fun b => fold_left Z.add b 0%Z) [7]%Z (UStr [117; 50]%Z) /\
  (Qsum (linear_weights [1; 3; 2]) == 1)%Q.
Proof.
  cbv zeta. split; [repeat constructor; simpl; intuition discriminate|].
  repeat split; vm_compute; try reflexivity. discriminate.
Qed.
