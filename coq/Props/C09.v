(* C09 -- k-NN scorers compute the documented neighbourhood formula.
   Property theorems only; each is closed by `exact <lemma>` and followed by Print Assumptions.

   PARTIAL in one respect, as planned in DESIGN.md: cosine values are irrational, so the similarity side
   is carried through the SIGNED SQUARED cosine (sign of a.b and (a.b)^2/(|a|^2 |b|^2), both rational);
   "the stored value equals the cosine" is therefore established only up to the tolerance of the
   correspondence (observed value squared against the exact square, 2^-20), while everything that
   decides WHICH neighbours are used (threshold, self removal, truncation, top-k, minimum-neighbour
   rule) is exact.  The scoring side is exact over the implementation's own stored similarities.
   Full statement kept for reference:
     "item-based and user-based k-NN scores equal the documented definition: cosine similarity between
      rating vectors (mean-centred for explicit feedback), the at most k most similar qualifying
      neighbours whose similarity reaches the threshold, the similarity-weighted average of mean-centred
      ratings added back to the mean (explicit) or the sum of similarities (implicit), and no score when
      fewer than the minimum number of neighbours qualify - up to the choice among exactly tied
      neighbours."
   Proved below: the same with "cosine similarity" read as "signed squared cosine" on the model-building
   side (sim_* theorems) and as "the stored similarity values" on the scoring side (score_* theorems).

   Property text -> theorem:
   * symmetric when neighbours are not truncated                  -> sim_symmetric_untruncated
   * never relates an item to itself                              -> no_self
   * contains only similarities within [threshold, 1]             -> sims_in_threshold_one
   * keeps the most similar neighbours when truncated             -> truncation_keeps_most_similar
   * does not depend on the block size                            -> block_size_irrelevant
   * cosine similarity between rating vectors (does not depend on
     the magnitude of the ratings)                                -> similarity_scale_invariant
   * scores equal the definition, up to ties (verified checkers)  -> item_score_eq_definition_partial,
                                                                     user_score_eq_definition_partial,
                                                                     item_score_checker, user_score_checker
   * fast and dense top-k paths agree with the one definition     -> knn_paths_agree
   * no score when fewer than the minimum qualify                 -> too_few_neighbours_unscored *)
From Coq Require Import ZArith QArith Qabs List Bool Sorted Permutation.
From LK Require Import Lib.QLib Lib.SortPerm Model.C09_knn Proofs.C09_sim_proofs Proofs.C09_score_proofs Proofs.C09_scale_proofs.
Import ListNotations.
Open Scope Q_scope.

Theorem sim_symmetric_untruncated : forall V min2 i j s, (i < length V)%nat ->
  In (j, s) (sim_row V min2 None i) -> exists s', In (i, s') (sim_row V min2 None j) /\ s == s'.
Proof. exact sim_symmetric_l. Qed.
Print Assumptions sim_symmetric_untruncated.

Theorem no_self : forall V min2 save i s, ~ In (i, s) (sim_row V min2 save i).
Proof. exact no_self_l. Qed.
Print Assumptions no_self.

(* min2 = min_sim^2; a stored pair has a positive dot product and min_sim^2 <= cos^2 <= 1 (Cauchy-Schwarz) *)
Theorem sims_in_threshold_one : forall V min2 save i j s,
  In (j, s) (sim_row V min2 save i) -> 0 < sdot V i j /\ min2 <= s /\ s <= 1.
Proof. exact sims_in_threshold_one_l. Qed.
Print Assumptions sims_in_threshold_one.

(* with save_nbrs = m: min(m, #qualifying) distinct qualifying columns, ascending, and none left out is
   strictly more similar than one kept *)
Theorem truncation_keeps_most_similar : forall V min2 m i,
  let c := cands V min2 i in
  let K := sim_cols V min2 (Some m) i in
  NoDup K /\ incl K c /\ length K = Nat.min m (length c) /\
  StronglySorted (fun a b => Nat.leb a b = true) K /\
  forall k d, In k K -> In d c -> ~ In d K -> sq V i d <= sq V i k.
Proof. exact truncation_l. Qed.
Print Assumptions truncation_keeps_most_similar.

(* for every positive block size the concatenated blocks are the rows 0 .. n-1 in order *)
Theorem block_size_irrelevant : forall {A} (row : nat -> A) n bs, (0 < bs)%nat ->
  sim_blocks row n bs = map row (seq 0 n).
Proof. exact @block_size_irrelevant_l. Qed.
Print Assumptions block_size_irrelevant.

(* the similarity is a cosine: every rating multiplied by one non-zero constant c (rscale c R) leaves each squared
   cosine, each threshold decision and each truncation as they are -- explicit (mean-centred) and implicit mode *)
Theorem similarity_scale_invariant : forall c R explicit min2 save i, ~ c == 0 ->
  sim_cols (prep explicit (rscale c R)) min2 save i = sim_cols (prep explicit R) min2 save i /\
  forall j, sq (prep explicit (rscale c R)) i j == sq (prep explicit R) i j.
Proof. exact similarity_scale_invariant_l. Qed.
Print Assumptions similarity_scale_invariant.

(* the item scorer's output has the documented form (ItemSpec): some top selection (TopSel: min(k, size)
   distinct stored neighbours among the rated items, none left out strictly more similar) aggregated
   by weighted average + item mean (explicit) or sum (implicit) *)
Theorem item_score_eq_definition_partial : forall m hist target, positive_sims m ->
  ItemSpec m hist target (item_score m hist target).
Proof. exact item_score_spec_l. Qed.
Print Assumptions item_score_eq_definition_partial.

(* verified checker (certificate = the neighbours used): sound and complete for ItemSpec *)
Theorem item_score_checker : forall m hist target obs,
  (exists ks, item_score_ok_b Qeq_bool m hist target ks obs = true) <-> ItemSpec m hist target obs.
Proof. exact item_checker_iff. Qed.
Print Assumptions item_score_checker.

Theorem user_score_eq_definition_partial : forall m self sims0 umean target,
  UserSpec m self sims0 umean target (user_score m self sims0 umean target).
Proof. exact user_score_spec_l. Qed.
Print Assumptions user_score_eq_definition_partial.

Theorem user_score_checker : forall m self sims0 umean target obs,
  (exists ks, user_score_ok_b Qeq_bool m self sims0 umean target ks obs = true) <-> UserSpec m self sims0 umean target obs.
Proof. exact user_checker_iff. Qed.
Print Assumptions user_score_checker.

(* the fast path (whole neighbourhood, size <= k) and the dense top-k path (size > k) both aggregate over
   a TopSel of the same neighbourhood *)
Theorem knn_paths_agree : forall m hist t, positive_sims m ->
  let st := stored_pos m (rated m hist) t in
  ((length st <= ik_k m)%nat -> TopSel (ik_k m) (item_sim m hist t) st st) /\
  ((ik_k m < length st)%nat ->
     TopSel (ik_k m) (item_sim m hist t) st (topk_pos (ik_k m) (dense_col m (rated m hist) t))).
Proof. exact knn_paths_agree_l. Qed.
Print Assumptions knn_paths_agree.

Theorem too_few_neighbours_unscored :
  (forall m hist t, (length (stored_pos m (rated m hist) t) < ik_min m)%nat -> item_score m hist (Some t) = None) /\
  (forall m self sims0 umean i,
     (length (raters m i (qualified m (zero_self self sims0))) < uk_min m)%nat ->
     user_score m self sims0 umean (Some i) = None).
Proof. split; [exact item_too_few_l|exact user_too_few_l]. Qed.
Print Assumptions too_few_neighbours_unscored.

(* non-vacuity: 3 items x 3 users, explicit; items 0 and 1 have cosine^2 = 1/4 > 0 ... concrete values:
   rows (centred) a0 = (1,-1,0), a1 = (1,0,-1), a2 = (-1,1,0):  a0.a1 = 1 > 0, a0.a2 = -2 < 0.
   An item scorer with a neighbourhood larger than k, tied similarities at the cut, both tie choices
   accepted and a wrong score rejected; a user scorer dropping the least similar rater. *)
Definition is_val (o : option Q) (v : Q) : Prop := match o with Some q => q == v | None => False end.
Example c09_nonvacuous :
  let R : list orow := [[Some 3; Some 1; None]; [Some 3; None; Some 1]; [Some 1; Some 3; None]] in
  let V := prep true R in
  map fst (sim_row V (1 # 100) None 0) = [1%nat] /\ sq V 0 1 == 1 # 4 /\
  sim_row V (1 # 100) None 2 = [] /\
  (let m := {| ik_k := 2; ik_min := 2; ik_explicit := false;
               ik_S := [[(3%nat, 1 # 2)]; [(3%nat, 1 # 4)]; [(3%nat, 1 # 4)]; []]; ik_means := [] |} in
   let hist := [(Some 0%nat, 1); (Some 1%nat, 1); (None, 1); (Some 2%nat, 1)] in
   is_val (item_score m hist (Some 3%nat)) (3 # 4) /\
   item_score_ok_b Qeq_bool m hist (Some 3%nat) [0; 1]%nat (Some (3 # 4)) = true /\
   item_score_ok_b Qeq_bool m hist (Some 3%nat) [0; 2]%nat (Some (3 # 4)) = true /\
   item_score_ok_b Qeq_bool m hist (Some 3%nat) [1; 2]%nat (Some (1 # 2)) = false /\
   item_score m [(Some 0%nat, 1)] (Some 3%nat) = None) /\
  (let u := {| uk_k := 1; uk_min := 1; uk_explicit := true; uk_min_sim := 1 # 10;
               uk_ratings := [[Some 1; None]; [Some (- (1)); Some 2]; [Some 3; None]] |} in
   is_val (user_score u (Some 0%nat) [1; 1 # 2; 3 # 4] 3 (Some 0%nat)) 6 /\
   is_val (user_score u (Some 0%nat) [1; 1 # 2; 3 # 4] 3 (Some 1%nat)) 5 /\
   user_score u (Some 0%nat) [1; 1 # 20; 1 # 30] 3 (Some 1%nat) = None).
Proof.
  cbv zeta. split; [vm_compute; reflexivity|]. split; [vm_compute; reflexivity|].
  split; [vm_compute; reflexivity|]. split.
  - repeat split; vm_compute; reflexivity.
  - repeat split; vm_compute; reflexivity.
Qed.
