(* C08 -- Bias and popularity scorers equal their documented formulas.
   Property theorems only; each is closed by `exact <lemma>` and followed by Print Assumptions.
   The model (Model/C08_bias.v) follows BiasModel.learn / compute_for_items, PopScorer._train_internal /
   __call__ and TimeBoundedPopScore.train statement by statement and is tied to /repo by the
   correspondence cases, evaluated inside Coq on exact rationals (float32 results: 2^-20 relative).

   Property text -> theorem:
   * "the learned global, item and user offsets equal the documented damped-mean formulas (item offsets
     from globally-centred ratings, user offsets from ratings centred by global and item offsets, each
     divided by count plus damping)"                                   -> offsets_eq_formulas
   * "the bias score of an item for a user is the sum of the applicable offsets ... zero offsets for
     unknown users or items"                                            -> score_is_sum_of_applicable
   * "with the user offset recomputed by the same formula from the query's rated history when one is
     supplied"                                                          -> history_recomputed,
                                                                           history_of_training_ratings
   * "popularity scores are strictly monotone in an item's interaction count"
                                                                        -> pop_strictly_monotone
   * "the count, average-rank and cumulative-share variants equal to their definitions"
                                                                        -> pop_variants_definition,
                                                                           cumulative_share_checker
   * "unknown items left unscored"                                      -> unknown_unscored
   * "the time-bounded variant counts only interactions after the cutoff, whichever representation
     the timestamps have"                                               -> time_bounded_counts_after_cutoff,
                                                                           time_representation_irrelevant
   * the cutoff of the time-bounded variant is an instant, however it is written (clock reading + UTC offset)
                                                                        -> cutoff_is_an_instant,
                                                                           cutoff_offset_is_part_of_the_cutoff
   * "for every rating dataset ... zero offsets for unknown users or items" at the level of identifiers
     (vocabularies in arrival order, identifiers of any value)             -> identifiers_resolve,
                                                                           offset_by_identifier,
                                                                           popularity_vocabulary_order_irrelevant,
                                                                           popularity_by_identifier
   * "the bias score of an item for a user ..." / "unknown items left unscored" for item lists that carry a
     vocabulary of their own (another split, the same items in another order, a superset; of the same
     length as the training vocabulary or not)                           -> list_vocabulary_irrelevant
   Standing conventions: Q division by zero is 0, so `global_mean []` is 0 where numpy gives NaN (the
   statements about learn are meant for a non-empty rating set, which the generator always supplies);
   damping is non-negative where a hypothesis says so (BiasConfig enforces it). *)
From Coq Require Import ZArith QArith Qabs List Bool Sorted Permutation.
From LK Require Import Lib.QLib Model.C08_bias Model.C08_vocab Proofs.C08_bias_proofs Proofs.C08_pop_proofs
  Proofs.C08_vocab_proofs.
Import ListNotations.
Open Scope Q_scope.

(* b_g = mean rating; b_i = sum_{R_i}(r - b_g)/(|R_i| + beta_i); b_u = sum_{R_u}(r - b_g - b_i)/(|R_u| + beta_u);
   an entity whose damped count is not positive (no ratings, no damping) keeps offset 0; an entity kind
   that was not requested has no offsets at all. *)
Theorem offsets_eq_formulas : forall nu ni rs d ent_item ent_user,
  let m := learn nu ni rs d ent_item ent_user in
  b_global m == global_mean rs /\
  match b_items m with
  | Some b => ent_item = true /\ length b = ni /\
              forall i, (i < ni)%nat -> nth i b 0 == item_formula rs (d_item d) i
  | None => ent_item = false
  end /\
  match b_users m with
  | Some b => ent_user = true /\ length b = nu /\
              forall u, (u < nu)%nat ->
                nth u b 0 == user_formula rs (d_user d) (fun i => item_off m (Some i)) u
  | None => ent_user = false
  end.
Proof. exact offsets_eq_formulas_l. Qed.
Print Assumptions offsets_eq_formulas.

(* score = global + item offset (0 for an unknown item or when items carry no offsets)
                  + user offset (0 when users carry no offsets; from the rated history when one is
                    supplied; else the stored offset of a known user; else 0) *)
Theorem score_is_sum_of_applicable : forall m d q items,
  length (bias_scores m d q items) = length items /\
  forall k it, nth_error items k = Some it ->
    nth_error (bias_scores m d q items) k =
    Some (b_global m
          + match b_items m, it with Some b, Some i => nth i b 0 | _, _ => 0 end
          + match b_users m with
            | None => 0
            | Some ub => match q_hist q with
                         | Some h => hist_bias m (d_user d) h
                         | None => match q_user q with Some u => nth u ub 0 | None => 0 end
                         end
            end).
Proof. exact score_is_sum_of_applicable_l. Qed.
Print Assumptions score_is_sum_of_applicable.

(* the offset used for a query with a rated history is the user formula over that history (unknown
   history items contribute no item offset), whatever the query's user id is *)
Theorem history_recomputed : forall m d ub qu h,
  b_users m = Some ub -> 0 <= d_user d ->
  user_off m d {| q_user := qu; q_hist := Some h |} == hist_formula m (d_user d) h.
Proof. exact history_recomputed_l. Qed.
Print Assumptions history_recomputed.

(* "the same formula": a user's own training ratings supplied as history reproduce the learned offset *)
Theorem history_of_training_ratings : forall nu ni rs d ent_item ub u,
  let m := learn nu ni rs d ent_item true in
  b_users m = Some ub -> (u < nu)%nat -> 0 <= d_user d ->
  hist_bias m (d_user d) (map (fun r => (Some (r_item r), r_val r)) (of_user u rs)) == nth u ub 0.
Proof. exact history_of_training_l. Qed.
Print Assumptions history_of_training_ratings.

(* any score vector meeting a variant's definition -- in particular the model's and, through the
   checker, the implementation's -- is strictly increasing in the count *)
Theorem pop_strictly_monotone : forall v counts scores, PopSpec v counts scores ->
  forall i j ci cj, nth_error counts i = Some ci -> nth_error counts j = Some cj -> (ci < cj)%nat ->
  exists si sj, nth_error scores i = Some (Some si) /\ nth_error scores j = Some (Some sj) /\ si < sj.
Proof. exact pop_strictly_monotone_l. Qed.
Print Assumptions pop_strictly_monotone.

(* count: the count; rank: (#smaller counts) + (tie-group size + 1)/2; quantile: running total over
   an ascending ordering divided by the total (QuantSpec) *)
Theorem pop_variants_definition : forall v counts, PopSpec v counts (pop_scores v counts).
Proof. exact pop_variants_definition_l. Qed.
Print Assumptions pop_variants_definition.

(* verified checker for the cumulative-share variant: sound and complete for QuantSpec (the order among
   equal counts is the sort's choice); inhabited by the model through pop_variants_definition VQuantile *)
Theorem cumulative_share_checker : forall counts scores,
  quantile_ok_b Qeq_bool counts scores = true <-> QuantSpec counts scores.
Proof. exact quantile_ok_iff. Qed.
Print Assumptions cumulative_share_checker.

Theorem unknown_unscored : forall item_scores items k,
  (nth_error items k = Some None -> nth_error (pop_call item_scores items) k = Some None) /\
  (forall i, nth_error items k = Some (Some i) ->
     nth_error (pop_call item_scores items) k = Some (nth i item_scores None)).
Proof. intros sc items k. split; [apply unknown_unscored_l|intro i; apply known_scored_l]. Qed.
Print Assumptions unknown_unscored.

(* the count of item i is the number of its log rows whose instant (seconds rep t) is strictly after the
   cutoff, for numeric seconds (integer or float) and for date-time typed timestamps of any resolution *)
Theorem time_bounded_counts_after_cutoff : forall ni rep cutoff log, rep_ok rep ->
  length (tb_counts ni rep cutoff log) = ni /\
  forall i, (i < ni)%nat ->
    nth i (tb_counts ni rep cutoff log) 0%nat
    = length (filter (fun e => Nat.eqb (fst e) i && Qltb cutoff (seconds rep (snd e))) log).
Proof. exact time_bounded_counts_l. Qed.
Print Assumptions time_bounded_counts_after_cutoff.

(* "whichever representation the timestamps have": the same instants stored date-time typed with r ticks
   per second (any r > 0: s, ms, us, ns) give exactly the counts of the numeric-seconds representation *)
Theorem time_representation_irrelevant : forall ni cutoff r (log : list (nat * Q)), 0 < r ->
  tb_counts ni (TDate r) cutoff (map (fun e => (fst e, snd e * r)) log) = tb_counts ni TNum cutoff log.
Proof. exact time_repr_irrelevant_l. Qed.
Print Assumptions time_representation_irrelevant.

(* "counts only interactions after the cutoff": the cutoff is an instant.  Two ways of writing the same instant
   (a UTC reading, a +05:00 reading five hours ahead, epoch seconds, ...) give the same counts *)
Theorem cutoff_is_an_instant : forall ni rep c1 c2 log, cut_instant c1 == cut_instant c2 ->
  tb_counts ni rep (cut_instant c1) log = tb_counts ni rep (cut_instant c2) log.
Proof. exact cutoff_same_instant_l. Qed.
Print Assumptions cutoff_is_an_instant.

(* ... and the offset is part of the value: taking the clock reading as if it were UTC moves the cutoff by the
   offset, and every interaction between the two instants is then counted wrongly *)
Theorem cutoff_offset_is_part_of_the_cutoff : forall c,
  cut_instant {| c_wall := c_wall c; c_off := 0 |} == cut_instant c + c_off c /\
  forall t,
  (cut_instant c < t -> t <= c_wall c ->
     after_cutoff TNum (cut_instant c) t = true /\ after_cutoff TNum (c_wall c) t = false) /\
  (c_wall c < t -> t <= cut_instant c ->
     after_cutoff TNum (cut_instant c) t = false /\ after_cutoff TNum (c_wall c) t = true).
Proof. intro c. split; [exact (cutoff_misread_shift_l c)|exact (cutoff_offset_counts_l c)]. Qed.
Print Assumptions cutoff_offset_is_part_of_the_cutoff.

(* identifier level.  A vocabulary lists identifiers in order of arrival (any order, any values: zero,
   negative, the code of the empty string); an identifier that occurs in it resolves to its position and
   one that does not resolves to nothing -- the value of the identifier plays no part. *)
Theorem identifiers_resolve : forall (v : vocab), NoDup v ->
  (forall k x, nth_error v k = Some x -> number v x = Some k) /\
  (forall x, ~ In x v -> number v x = None) /\
  (forall x k, number v x = Some k -> nth_error v k = Some x).
Proof. exact identifiers_resolve_l. Qed.
Print Assumptions identifiers_resolve.

(* a query that carries only a user identifier (bare id, RecQuery(user_id=...)): every known user gets the
   stored offset of its own number, an unknown identifier and a query without identifier get 0; the same
   for item identifiers *)
Theorem offset_by_identifier : forall m d (users items : vocab) ub,
  NoDup users -> NoDup items -> b_users m = Some ub ->
  (forall u x, nth_error users u = Some x ->
     user_off m d (resolve_query users items {| iq_user := Some x; iq_hist := None |}) = nth u ub 0) /\
  (forall x, ~ In x users ->
     user_off m d (resolve_query users items {| iq_user := Some x; iq_hist := None |}) = 0) /\
  user_off m d (resolve_query users items {| iq_user := None; iq_hist := None |}) = 0 /\
  (forall i x, nth_error items i = Some x -> item_off m (number items x) = item_off m (Some i)) /\
  (forall x, ~ In x items -> item_off m (number items x) = 0).
Proof. exact offset_by_identifier_l. Qed.
Print Assumptions offset_by_identifier.

(* PopScorer.train / TimeBoundedPopScore.train: the transformed counts go through sort_index() and are
   brought back with reindex(vocabulary); the stored score at number k is the score of the k-th count
   whatever the order of the vocabulary (built in several steps, later batches with smaller identifiers) *)
Theorem popularity_vocabulary_order_irrelevant : forall (items : vocab) v counts,
  NoDup items -> length counts = length items ->
  pop_train_ids items v counts = pop_scores v counts.
Proof. exact vocabulary_order_irrelevant_l. Qed.
Print Assumptions popularity_vocabulary_order_irrelevant.

(* scoring by identifier after training on any vocabulary: a known identifier gets the score of its own
   count, an unknown identifier stays unscored *)
Theorem popularity_by_identifier : forall (items : vocab) v counts,
  NoDup items -> length counts = length items ->
  (forall its k i x, nth_error its k = Some x -> nth_error items i = Some x ->
     nth_error (pop_call_ids items (pop_train_ids items v counts) its) k = Some (nth i (pop_scores v counts) None)) /\
  (forall its k x, nth_error its k = Some x -> ~ In x items ->
     nth_error (pop_call_ids items (pop_train_ids items v counts) its) k = Some None).
Proof. exact pop_by_identifier_l. Qed.
Print Assumptions popularity_by_identifier.

(* an item list (scored items, rated history) numbered against a vocabulary of its own is scored through
   the identifiers it stands for: the numbers of the training vocabulary are those of the identifiers, the
   popularity / bias scores are those of the same identifiers given directly.  Neither the length of the
   list's vocabulary nor the list's own numbers play any part. *)
Theorem list_vocabulary_irrelevant : forall (items : vocab) l its, denotes l its ->
  ilist_numbers items l = map (number items) its /\
  (forall sc, pop_call_list items sc l = pop_call_ids items sc its) /\
  (forall m d users qu, bias_scores_list m d users items qu None l
     = bias_scores_ids m d users items {| iq_user := qu; iq_hist := None |} its) /\
  (forall m d users qu hl hits hr, denotes hl hits ->
     bias_scores_list m d users items qu (Some (hl, hr)) l
     = bias_scores_ids m d users items {| iq_user := qu; iq_hist := Some (combine hits hr) |} its).
Proof. exact list_vocabulary_irrelevant_l. Qed.
Print Assumptions list_vocabulary_irrelevant.

(* non-vacuity: 3 users x 3 items (item 2 and user 2 without ratings), damping 1/2 for users and 0 for
   items; the offsets are the hand-computed ones; a history with an unknown item; two tied counts whose
   cumulative shares may come in either order, and a wrong assignment that the checker rejects *)
Example c08_nonvacuous :
  let rs : list rat := [(0%nat, 0%nat, 5); (0%nat, 1%nat, 2); (1%nat, 0%nat, 2)] in
  let d := {| d_user := 1 # 2; d_item := 0 |} in
  let m := learn 3 3 rs d true true in
  b_global m == 3 /\
  (exists ib, b_items m = Some ib /\ nth 0 ib 0 == 1 # 2 /\ nth 1 ib 0 == - (1) /\ nth 2 ib 0 == 0) /\
  (exists ub, b_users m = Some ub /\ nth 0 ub 0 == 3 # 5 /\ nth 1 ub 0 == - (1) /\ nth 2 ub 0 == 0) /\
  user_off m d {| q_user := Some 1%nat; q_hist := Some [(Some 1%nat, 5); (None, 4)] |} == 8 # 5 /\
  quantile_ok_b Qeq_bool [2; 1; 1; 0]%nat [Some 1; Some (1 # 4); Some (1 # 2); Some 0] = true /\
  quantile_ok_b Qeq_bool [2; 1; 1; 0]%nat [Some 1; Some (1 # 2); Some (1 # 4); Some 0] = true /\
  quantile_ok_b Qeq_bool [2; 1; 1; 0]%nat [Some 1; Some (1 # 2); Some (1 # 2); Some 0] = false /\
  tb_counts 2 (TDate 1000) (3 # 2) [(0%nat, 1000); (0%nat, 2000); (1%nat, 1500)] = [1; 0]%nat /\
  tb_counts 2 TNum (3 # 2) [(0%nat, 1); (0%nat, 5 # 2); (1%nat, 3 # 2)] = [1; 0]%nat /\
  (* a cutoff written as 05:00:01.5 on a +05:00 clock is the instant 1.5 s; read as UTC it would count nothing *)
  tb_counts 2 TNum (cut_instant {| c_wall := 36003 # 2; c_off := 18000 |}) [(0%nat, 1); (0%nat, 5 # 2); (1%nat, 3 # 2)] = [1; 0]%nat /\
  tb_counts 2 TNum (36003 # 2) [(0%nat, 1); (0%nat, 5 # 2); (1%nat, 3 # 2)] = [0; 0]%nat /\
  (* identifier level: an unsorted vocabulary holding 0 and a negative identifier *)
  (let users : vocab := [7; 0; -1]%Z in let items : vocab := [5; -2; 0]%Z in
   NoDup users /\ NoDup items /\ number users 0%Z = Some 1%nat /\ number users 3%Z = None /\
   user_off m d (resolve_query users items {| iq_user := Some 0%Z; iq_hist := None |}) == - (1) /\
   sort_index (combine items [Some 1; Some 2; Some 0]) = [((-2)%Z, Some 2); (0%Z, Some 0); (5%Z, Some 1)] /\
   pop_train_ids items VCount [1; 2; 0]%nat = [Some 1; Some 2; Some 0] /\
   pop_call_ids items (pop_train_ids items VCount [1; 2; 0]%nat) [0; 9; -2]%Z = [Some 0; None; Some 2] /\
   (* a list numbered against another vocabulary of the SAME length (item 5 replaced by the unknown 9, other
      order): scored through its identifiers, not through its own numbers 0, 1, 2 *)
   (let own : vocab := [0; 9; -2]%Z in
    denotes (ByNums own [0; 1; 2]%nat) [0; 9; -2]%Z /\ length own = length items /\
    pop_call_list items [Some 1; Some 2; Some 0] (ByNums own [0; 1; 2]%nat) = [Some 0; None; Some 2] /\
    pop_call [Some 1; Some 2; Some 0] [Some 0; Some 1; Some 2]%nat = [Some 1; Some 2; Some 0])) /\
  (* a stored rating of exactly 0 counts in the mean: (0 + 1) / 2 *)
  b_global (learn 1 2 [(0%nat, 0%nat, 0); (0%nat, 1%nat, 1)] d true true) == 1 # 2.
Proof.
  cbv zeta. split; [vm_compute; reflexivity|].
  split; [eexists; split; [reflexivity|]; vm_compute; intuition discriminate|].
  split; [eexists; split; [reflexivity|]; vm_compute; intuition discriminate|].
  split; [vm_compute; reflexivity|].
  do 7 (split; [vm_compute; reflexivity|]).
  split; [|vm_compute; reflexivity].
  split; [repeat constructor; cbn; intuition discriminate|].
  split; [repeat constructor; cbn; intuition discriminate|].
  do 6 (split; [vm_compute; reflexivity|]).
  split; [repeat constructor|].
  repeat split; vm_compute; reflexivity.
Qed.
