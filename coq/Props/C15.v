(* C15 -- Saved, pickled and converted objects load back equal; saves never mix contents.
   Property theorems only; each is closed by `exact <lemma>` and followed by Print Assumptions.

   Property text -> theorem:
   * "A dataset save that is interrupted at any step leaves a directory that fails to load, loads as
     exactly the dataset being saved, or - only if nothing had been removed yet - loads as exactly
     the dataset previously stored there, never a mixture of the two."
        -> crash_outcomes, never_mixture.  The effect list of DataContainer.save and the read list of
           DataContainer.load are the GENERATED ones (Gen/C15_save.v): the statements are re-checked
           against the source on every run.  Quantified over every old directory (any contents,
           including junk and earlier partial saves, or no directory), every dataset, every order in
           which rmtree deletes the entries, every crash point and truncation of the write in progress.
           removal_is_needed: without the rmtree step the same statement is false (the witness is the
           mixture the mutation test reproduces on the real code).
   * "datasets through the native directory format ... yields an object observationally equal"
        -> save_load_id (a completed save over anything loads as the schema saved and, for every class
           the schema names, the table saved); pickling of datasets, attributes of every layout and the
           equality of the public views are exercised by the harness (Arrow/Parquet are contracts).
   * "item lists through pickling"               -> itemlist_pickle_id
   * "item lists through ... data frames"        -> df_roundtrip, to_df_refuses_only_unknown
   * "item lists through ... Arrow tables"       -> arrow_roundtrip (non-empty lists);
                                                     arrow_empty_refuted: the statement FAILS for empty
                                                     lists (finding arrow:empty-list)
   * "collections through native Parquet files ... the same keys, list order, fields, ordering flag
     and empty lists" (duplicate keys, lists that differ in which fields they carry)
        -> collection_roundtrip; for an EMPTY list the ordering flag is not claimed: it comes back as
           "the stored columns contain rank" (collection_empty_flag_refuted is the counterexample,
           finding collection:empty-list-ordered-flag); a collection without lists leaves no file
           (no_lists_no_file, finding collection:no-lists-no-file)
   * the lists handed to these codecs are, in practice, DERIVED from other lists (copy constructor with
     overrides, subsetting, clone) whose lazily computed state (identifiers / numbers resolved through
     the vocabulary, ranks) has or has not been filled by earlier uses; the object copies its source's
     __dict__.  derived_lists_wellformed: every history of derivations keeps the constructor's
     invariants, so the theorems above hold of derived lists; caches_do_not_leak: the list at the end
     of a history is the same, up to what it has cached itself, as at the end of the history without
     any use of the intermediate lists; codecs_see_no_caches / collections_see_no_caches: two lists
     that differ only in what they have cached give the same pickle / frame / table / stored
     collection; derived_arrow_roundtrip: the table of a derived list carries the derived list's own
     identifiers, flag, ranks and fields whatever was done with its sources.
   * "picklable generic key tuples"              -> key_reduce_id, key_rebuild_any
   * "trained models and pipelines through pickling ... the same scores": exercised only (pickle is a
     contract); see harness/props/c15.py extra().

   Observational equality is spelled out by `observe` (length, ids(), numbers(), ordered, ranks(),
   fields) and `fields_equiv` (the same field names, each bound to an array of the same dtype with
   the same elements, bit for bit). *)
From Coq Require Import ZArith List Bool String.
From LK Require Import Model.C15_steps Gen.C15_save Model.C15_fs Model.C15_codec
  Model.C15_derive Proofs.C15_crash Proofs.C15_codec Proofs.C15_arrow Proofs.C15_coll Proofs.C15_derive
  Gen.C15_state Proofs.C15_state.
Import ListNotations.
Open Scope string_scope.
Open Scope list_scope.

(* ---- (a) interrupted saves ------------------------------------------------------------------- *)

Theorem crash_outcomes : forall (old : fs) (ds : dataset) (perm : list fname) (k : nat) (trunc : bool),
  wf_dataset ds ->
  let s := save_crash old ds perm k trunc in
  load s = LFail \/ load s = canon ds \/ (load s = load old /\ untouched old s).
Proof. exact crash_outcomes_l. Qed.
Print Assumptions crash_outcomes.

Theorem never_mixture : forall old ds perm k trunc sc ts,
  wf_dataset ds ->
  load (save_crash old ds perm k trunc) = LOk sc ts ->
  LOk sc ts = canon ds \/ (LOk sc ts = load old /\ untouched old (save_crash old ds perm k trunc)).
Proof. exact never_mixture_l. Qed.
Print Assumptions never_mixture.

Theorem save_load_id : forall old ds perm,
  wf_dataset ds ->
  load (save_done old ds perm) = canon ds /\
  forall n, In n (s_names (d_schema ds)) ->
    match canon ds with LOk s ts => s = d_schema ds /\ In (n, table_of ds n) ts | LFail => False end.
Proof. intros old ds perm W. split; [exact (save_load_id_l old ds perm W)|exact (canon_tables ds)]. Qed.
Print Assumptions save_load_id.

Theorem removal_is_needed :
  let steps := [SMkdir; SWriteSchema; SWriteTables; SWriteSummary] in
  let old := run None (save_run ds_old [] steps None) in
  let s := crash_state old (save_run ds_new [] steps old) 2 false in
  load s = LOk (d_schema ds_new) [(0, 10%Z); (1, 11%Z)].
Proof. exact no_removal_mixes. Qed.
Print Assumptions removal_is_needed.

(* ---- (b) codecs ------------------------------------------------------------------------------- *)

Theorem itemlist_pickle_id : forall il,
  exists il', pickle_rt il = Some il' /\ observe il' = observe il /\ il_vocab il' = None.
Proof. exact pickle_id_l. Qed.
Print Assumptions itemlist_pickle_id.

Theorem df_roundtrip : forall il df,
  wf_il il ->
  (forall k, In k (map fst (il_fields il)) -> smem k user_cols = false) ->
  to_df il = Some df ->
  exists il', from_df df = Some il' /\ obs_equiv (observe il') (observe il) /\ il_vocab il' = None.
Proof. exact df_roundtrip_l. Qed.
Print Assumptions df_roundtrip.

Theorem to_df_refuses_only_unknown : forall il,
  wf_il il -> to_df il = None -> has_nums il = true /\ nums_strict il = None.
Proof. exact to_df_none_l. Qed.
Print Assumptions to_df_refuses_only_unknown.

Theorem arrow_roundtrip : forall il numbers,
  wf_il il -> il_len il <> 0 -> has_ids il = true ->
  (numbers = true -> has_nums il = true -> exists n, nums_strict il = Some n) ->
  exists t il',
    to_arrow il true numbers = Some t /\ from_arrow t = Some il' /\
    il_len il' = il_len il /\ v_ids il' = v_ids il /\
    v_nums il' = (if numbers && has_nums il then v_nums il else None) /\
    il_ordered il' = il_ordered il /\ v_ranks il' = v_ranks il /\
    fields_equiv (il_fields il') (il_fields il) /\ il_vocab il' = None.
Proof. exact arrow_roundtrip_l. Qed.
Print Assumptions arrow_roundtrip.

Theorem arrow_empty_refuted : forall il ids numbers, il_len il = 0 ->
  match to_arrow il ids numbers with Some t => from_arrow t = None | None => True end.
Proof. exact arrow_empty_refuted_l. Qed.
Print Assumptions arrow_empty_refuted.

Theorem collection_roundtrip : forall batch kf items c,
  add_all (empty_coll kf) items = Some c -> items <> [] ->
  (forall key il, In (key, il) items -> wf_il il /\ has_ids il = true) ->
  exists t c',
    save_parquet batch c = SFile t /\ load_parquet (SFile t) = Some c' /\
    k_fields c' = kf /\ map fst (c_lists c') = map fst items /\
    Forall2 (list_equiv (p_cols t)) (map snd items) (map snd (c_lists c')) /\
    amem "rank" (p_cols t) = amem "rank" (c_schema c).
Proof. exact collection_roundtrip_l. Qed.
Print Assumptions collection_roundtrip.

Theorem collection_empty_flag_refuted :
  match coll_rt 5000 ["user_id"] [([1%Z], il_ord); ([2%Z], il_empty_unord)] with
  | Some c => map (fun kl => il_ordered (snd kl)) (c_lists c) = [true; true]
  | None => False
  end.
Proof. exact empty_flag_refuted_l. Qed.
Print Assumptions collection_empty_flag_refuted.

Theorem no_lists_no_file : forall batch kf, load_parquet (save_parquet batch (empty_coll kf)) = None.
Proof. exact no_lists_no_file_l. Qed.
Print Assumptions no_lists_no_file.

(* the object the codec model speaks about is the object in the source: its attributes, the one wholesale
   copy of its dictionary, and the statements of __getstate__ / __setstate__ / arrow_types, REGENERATED
   from data/items.py on every run (Gen/C15_state.v), are those the model was written after *)
Theorem itemlist_state_is_modelled :
  itemlist_attrs = expected_itemlist_attrs /\
  itemlist_dict_ops = expected_itemlist_dict_ops /\
  getstate_shape = expected_getstate_shape /\
  setstate_shape = expected_setstate_shape /\
  arrow_types_shape = expected_arrow_types_shape.
Proof. exact state_is_modelled_l. Qed.
Print Assumptions itemlist_state_is_modelled.

(* ---- (b') derived lists and lazily computed state ------------------------------------------------ *)

Theorem derived_lists_wellformed : forall ss il il', wf_il il -> chain_run il ss = Some il' -> wf_il il'.
Proof. exact chain_wf_l. Qed.
Print Assumptions derived_lists_wellformed.

Theorem caches_do_not_leak : forall il ss, opt_rel cache_equiv (chain_run il ss) (chain_run il (cold ss)).
Proof. exact caches_do_not_leak_l. Qed.
Print Assumptions caches_do_not_leak.

Theorem codecs_see_no_caches : forall a b, cache_equiv a b ->
  observe a = observe b /\ pickle_rt a = pickle_rt b /\ df_rt a = df_rt b /\
  (forall ids numbers, arrow_types a ids numbers = arrow_types b ids numbers) /\
  (forall cols, to_arrow_cols a cols = to_arrow_cols b cols) /\
  (forall ids numbers, arrow_rt a ids numbers = arrow_rt b ids numbers).
Proof. exact codecs_see_no_caches_l. Qed.
Print Assumptions codecs_see_no_caches.

Theorem collections_see_no_caches : forall batch kf xs ys,
  items_equiv xs ys -> coll_rt batch kf xs = coll_rt batch kf ys.
Proof. exact coll_sees_no_caches_l. Qed.
Print Assumptions collections_see_no_caches.

Theorem derived_arrow_roundtrip : forall il ss d numbers,
  wf_il il -> chain_run il ss = Some d -> il_len d <> 0 -> has_ids d = true ->
  (numbers = true -> has_nums d = true -> exists n, nums_strict d = Some n) ->
  exists t d',
    to_arrow d true numbers = Some t /\ from_arrow t = Some d' /\
    il_len d' = il_len d /\ v_ids d' = v_ids d /\
    il_ordered d' = il_ordered d /\ v_ranks d' = v_ranks d /\
    fields_equiv (il_fields d') (il_fields d) /\
    exists c, chain_run il (cold ss) = Some c /\ to_arrow c true numbers = Some t.
Proof. exact derived_arrow_roundtrip_l. Qed.
Print Assumptions derived_arrow_roundtrip.

Theorem key_reduce_id : forall c k, key_in_cache c k -> rebuild_key c (reduce_key k) = (k, c).
Proof. exact key_reduce_id_l. Qed.
Print Assumptions key_reduce_id.

Theorem key_rebuild_any : forall c k,
  let (k', c') := rebuild_key c (reduce_key k) in
  key_names k' = key_names k /\ key_vals k' = key_vals k /\ key_in_cache c' k' /\
  (cache_get (key_names k) c <> None -> c' = c).
Proof. exact key_rebuild_any_l. Qed.
Print Assumptions key_rebuild_any.

(* ---- non-vacuity ------------------------------------------------------------------------------- *)

(* an old directory that loads, a different well-formed dataset, and crash points realising each of
   the three outcomes (during the removal: old; after it: fail; completed: new) *)
Example c15_crash_nonvacuous :
  let old := save_done None ds_old [] in
  let perm := [NSummary; NTable 1; NSchema; NTable 0] in
  wf_dataset ds_new /\ load old = canon ds_old /\ canon ds_old <> canon ds_new /\
  load (save_crash old ds_new perm 1 false) = canon ds_old /\
  load (save_crash old ds_new perm 2 false) = LFail /\
  load (save_crash old ds_new perm 8 true) = LFail /\
  load (save_crash old ds_new perm 10 false) = canon ds_new.
Proof.
  cbv zeta. split.
  { split; [repeat constructor; simpl; intuition discriminate|].
    simpl. intros n [H|[H|[]]]; subst; simpl; tauto. }
  repeat split; try (vm_compute; reflexivity). vm_compute. discriminate.
Qed.

(* a well-formed ordered list with a score and an integer field, and an unordered one with another
   field: the hypotheses of the codec theorems hold, and the collection of both can be built *)
Definition ex_a : ilist := mkIL 2 6 (Some [7%Z; 9%Z]) None None true None
  [("score", mkCol TF32 [1065353216%Z; 2143289344%Z]); ("count", mkCol 5 [3%Z; (-1)%Z])].
Definition ex_b : ilist := mkIL 1 6 (Some [4%Z]) None None false None [("rating", mkCol 2 [5%Z])].

Lemma ex_a_wf : wf_il ex_a.
Proof.
  constructor; simpl.
  - intros i H. inversion H. reflexivity.
  - intros n H. discriminate.
  - left. discriminate.
  - intros r H. discriminate.
  - intros k c [H|[H|[]]]; inversion H; reflexivity.
  - repeat constructor; simpl; intuition discriminate.
  - intros k [H|[H|[]]]; subst; reflexivity.
  - intros c H. inversion H. reflexivity.
Qed.
Lemma ex_b_wf : wf_il ex_b.
Proof.
  constructor; simpl.
  - intros i H. inversion H. reflexivity.
  - intros n H. discriminate.
  - left. discriminate.
  - intros r H. discriminate.
  - intros k c [H|[]]; inversion H; reflexivity.
  - repeat constructor; simpl; intuition.
  - intros k [H|[]]; subst; reflexivity.
  - intros c H. discriminate.
Qed.

Example c15_codec_nonvacuous :
  wf_il ex_a /\ has_ids ex_a = true /\ (exists df, to_df ex_a = Some df) /\
  exists c, add_all (empty_coll ["user_id"; "seq"]) [([1%Z; 1%Z], ex_a); ([1%Z; 1%Z], ex_b); ([2%Z; 1%Z], il_empty_unord)] = Some c /\
            List.length (c_schema c) = 5.
Proof.
  split; [exact ex_a_wf|]. split; [reflexivity|]. split; [eexists; reflexivity|].
  eexists. split; [vm_compute; reflexivity|reflexivity].
Qed.

(* a list whose identifiers come from its vocabulary is used (identifiers and ranks filled), a list
   with scores, tied explicit ranks, one field fewer and one more is derived, used, and subset: the
   history runs, and gives the same observation without the uses *)
Example c15_derive_nonvacuous :
  wf_il ex_src /\
  option_map observe (chain_run ex_src ex_steps) =
  Some (mkObs 2 (Some [12%Z; 11%Z]) (Some [2%Z; 1%Z]) true (Some [1%Z; 2%Z])
          [("score", mkCol TF32 [1065353216%Z; 1073741824%Z]); ("w", mkCol 2 [7%Z; 9%Z])]) /\
  option_map observe (chain_run ex_src (cold ex_steps)) = option_map observe (chain_run ex_src ex_steps).
Proof. split; [exact ex_src_wf|exact ex_chain_l]. Qed.
