(* C15 -- placeholder while the development is being built; replaced by the full statement file. *)
From Coq Require Import ZArith List Bool.
From LK Require Import Model.C15_steps Gen.C15_save Model.C15_fs Model.C15_codec Proofs.C15_crash.
Import ListNotations.

Theorem crash_outcomes : forall old ds perm k trunc,
  wf_dataset ds ->
  let s := save_crash old ds perm k trunc in
  load s = LFail \/ load s = canon ds \/ (load s = load old /\ untouched old s).
Proof. exact crash_outcomes_l. Qed.
Print Assumptions crash_outcomes.
