(* C20 -- stub while the correspondence is being brought up *)
From Coq Require Import ZArith List Bool.
From LK Require Import Gen.C20_shape Model.C20_sampling Proofs.C20_key.
Open Scope Z_scope.
Theorem key_injective : forall r c r' c',
  0 <= r < B32 -> 0 <= c < B32 -> 0 <= r' < B32 -> 0 <= c' < B32 ->
  key r c = key r' c' -> r = r' /\ c = c'.
Proof. exact key_injective_l. Qed.
Print Assumptions key_injective.
