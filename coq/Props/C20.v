(* C20 -- Verified negative sampling never returns an observed interaction without warning.
   Property theorems only; each is closed by `exact <lemma>` and followed by Print Assumptions.
   The budget test, the budget decrement, the presence of the exhaustion warning, the layout of the
   combined key and the population of each weighting are the GENERATED ones (Gen/C20_shape.v), so
   these statements are re-checked against the source on every run.

   Reading the model: `sample m w verify att n rows ds` is
     sample_negatives(rows, weighting=w, n=n, verify=verify, max_attempts=att, rng=<the stream ds>)
   on the matrix m (column count, sorted (row, column) table).  The result lists the output COLUMNS
   (one for n=None, else n; out[j][i] is the cell of request row i, column j), the counts carried by
   the DataWarnings in order of emission, and the unused rest of the stream.  All statements hold for
   every draw stream whose elements are in range (the generator contract).

   Property text -> theorem:
   * "the sampled negatives have the requested shape and are valid column numbers"
                                                        -> shape_and_range
   * "with verification on each sampled column is not an observed interaction of its row unless a
      data warning reports that verified negatives could not be found"
                                                        -> verified_or_warned, warning_counts_exact
                                                           (+ membership_test_exact, key_injective: the
                                                           boolean key test IS membership in the data)
   * "rows for which unobserved columns are plentiful receive true negatives without any warning"
                                                        -> failure_needs_all_hits (a cell stays observed only
                                                           if each of its att+1 draws hit an observed column),
                                                           single_row_failure_iff (the exact failure event).
                                                           plentiful_failure_count (+ all_streams_exact,
                                                           observed_draws_exact): of the N^(att+1) in-range draw
                                                           streams exactly h^(att+1) make the call on one row warn,
                                                           h = draws standing for an observed column of the row;
                                                           plentiful_failure_bound: at most a 2^-(att+1) fraction
                                                           when at least half of the draws miss.
                                                           free_rows_never_warned: the deterministic part -- a call whose
                                                           rows have no interaction at all never warns, on EVERY draw
                                                           stream and for every matrix size below 2^32 x 2^32 (also when
                                                           n_rows * n_cols exceeds 2^32: the key does not fold cells of
                                                           different rows together).
        PARTIAL: these are counts over all streams, i.e. the probability (h/N)^(att+1) under an IDEAL
        source that serves the initial draw and every retry level from one stream (the extractor checks
        that the source hands ONE generator through all levels; a level re-seeded from a seed value would
        replay its draw).  That PCG64 behaves like an ideal source is not a theorem; the oracle flags a
        warning / observed cell on plentiful rows when this probability (union bound over the cells of
        the call) is <= 1e-9.
   * "Popularity weighting only draws columns that occur in the data"
                                                        -> popular_draws_occur
   * "every eligible column can be drawn"               -> every_eligible_reachable *)
From Coq Require Import ZArith List Bool.
From LK Require Import Gen.C20_shape Model.C20_sampling Proofs.C20_key Proofs.C20_resample Proofs.C20_sample
  Proofs.C20_history Proofs.C20_reach Proofs.C20_main Proofs.C20_count Proofs.C20_big.
Import ListNotations.
Open Scope Z_scope.

Theorem key_injective : forall r c r' c',
  0 <= r < B32 -> 0 <= c < B32 -> 0 <= r' < B32 -> 0 <= c' < B32 ->
  key r c = key r' c' -> r = r' /\ c = c'.
Proof. exact key_injective_l. Qed.
Print Assumptions key_injective.

(* _check_negatives answers exactly "is (row, column) an interaction of the data" *)
Theorem membership_test_exact : forall m rows col i r c,
  wf m -> 0 <= r < B32 -> in_cols m c ->
  nth_error rows i = Some r -> nth_error col i = Some c ->
  exists b, nth_error (check_negatives m rows col) i = Some b /\ (b = true <-> observed m r c).
Proof. exact check_negatives_spec_l. Qed.
Print Assumptions membership_test_exact.

Theorem shape_and_range : forall m w verify att n rows ds out warns rest,
  wf m -> draws_ok m w ds ->
  sample m w verify att n rows ds = Ok (out, warns, rest) ->
  length out = ncolumns n /\ Forall (fun col => length col = length rows) out /\
  Forall (Forall (in_cols m)) out.
Proof. exact shape_and_range_l. Qed.
Print Assumptions shape_and_range.

Theorem verified_or_warned : forall m w att n rows ds out warns rest,
  wf m -> rows_ok rows -> draws_ok m w ds ->
  sample m w true att n rows ds = Ok (out, warns, rest) ->
  warns = [] ->
  forall col i r c, In col out -> nth_error rows i = Some r -> nth_error col i = Some c -> ~ observed m r c.
Proof. exact verified_or_warned_l. Qed.
Print Assumptions verified_or_warned.

(* stronger: the warnings account for the returned observed cells exactly, one warning per failing
   output column at most, and no warning is empty *)
Theorem warning_counts_exact : forall m w att n rows ds out warns rest,
  sample m w true att n rows ds = Ok (out, warns, rest) ->
  observed_cells m rows out = zsum warns /\ Forall (fun x => 0 < x) warns /\ (length warns <= ncolumns n)%nat.
Proof. exact warning_counts_exact_l. Qed.
Print Assumptions warning_counts_exact.

(* `resample_h` is `resample` (= _check_negatives_and_resample) carrying, for every position, the
   columns drawn for it so far, latest first.  Erasing the histories gives the model's result; every
   draw but the last hit an observed cell; a position is drawn at most att+1 times; and its final
   column is observed only if all att+1 draws were used -- hence all of them hit. *)
Theorem failure_needs_all_hits : forall m w fuel att rows cols ds hs warns rest,
  wf m -> rows_ok rows -> draws_ok m w ds -> length cols = length rows -> Forall (in_cols m) cols ->
  resample_h m w fuel att rows (map (fun c => [c]) cols) ds = Ok (hs, warns, rest) ->
  resample m w fuel att rows cols ds = Ok (map hd0 hs, warns, rest) /\
  Forall2 (fun r h =>
             (1 <= length h <= 1 + Z.to_nat att)%nat /\
             Forall (observed m r) (tl h) /\
             (observed m r (hd0 h) -> length h = (1 + Z.to_nat att)%nat)) rows hs.
Proof. exact failure_needs_all_hits_l. Qed.
Print Assumptions failure_needs_all_hits.

(* one row, scalar request: a warning is raised iff the first att+1 draws all stand for observed columns *)
Theorem single_row_failure_iff : forall m w att r ds out warns rest,
  wf m -> 0 <= r < B32 -> draws_ok m w ds ->
  sample m w true att None [r] ds = Ok (out, warns, rest) ->
  (warns <> [] <-> Forall (fun d => observed m r (col_of m w d)) (firstn (1 + Z.to_nat att) ds)).
Proof. exact single_row_failure_iff_l. Qed.
Print Assumptions single_row_failure_iff.

(* the plentiful clause as a count.  `all_streams m w L`: every in-range stream of L draws, each once;
   `observed_draws m w r`: the draws that stand for an observed column of row r (uniform: its observed
   columns; popularity: the records whose column r observes); `failing_streams m w att r`: the streams of
   att+1 draws on which sample_negatives([r], verify=True, max_attempts=att) warns. *)
Theorem all_streams_exact : forall m w L,
  NoDup (all_streams m w L) /\ forall ds, In ds (all_streams m w L) <-> length ds = L /\ draws_ok m w ds.
Proof. exact all_streams_exact_l. Qed.
Print Assumptions all_streams_exact.

Theorem observed_draws_exact : forall m w r d, wf m -> 0 <= r < B32 ->
  (In d (observed_draws m w r) <-> 0 <= d < pop_n m w /\ observed m r (col_of m w d)).
Proof. exact observed_draws_exact_l. Qed.
Print Assumptions observed_draws_exact.

Theorem plentiful_failure_count : forall m w att r,
  length (failing_streams m w att r) = (length (observed_draws m w r) ^ (1 + Z.to_nat att))%nat
  /\ length (all_streams m w (1 + Z.to_nat att)) = (Z.to_nat (pop_n m w) ^ (1 + Z.to_nat att))%nat.
Proof. exact plentiful_failure_count_l. Qed.
Print Assumptions plentiful_failure_count.

(* unobserved columns plentiful (at least half of the draws miss): at most one stream in 2^(att+1) fails *)
Theorem plentiful_failure_bound : forall m w att r,
  (2 * length (observed_draws m w r) <= Z.to_nat (pop_n m w))%nat ->
  (2 ^ (1 + Z.to_nat att) * length (failing_streams m w att r) <= length (all_streams m w (1 + Z.to_nat att)))%nat.
Proof. exact plentiful_bound_l. Qed.
Print Assumptions plentiful_failure_bound.

(* rows without any interaction: unobserved columns are as plentiful as they can be; no draw stream makes the
   call warn, whatever the other rows hold and however large the matrix is (numbers below 2^32) *)
Theorem free_rows_never_warned : forall m w att n rows ds out warns rest,
  wf m -> rows_ok rows -> draws_ok m w ds ->
  sample m w true att n rows ds = Ok (out, warns, rest) ->
  (forall r c, In r rows -> ~ observed m r c) ->
  warns = [].
Proof. exact free_rows_never_warned_l. Qed.
Print Assumptions free_rows_never_warned.

Theorem popular_draws_occur : forall m verify att n rows ds out warns rest,
  draws_ok m Popular ds ->
  sample m Popular verify att n rows ds = Ok (out, warns, rest) -> Forall (Forall (occurs m)) out.
Proof. exact popular_draws_occur_l. Qed.
Print Assumptions popular_draws_occur.

(* eligible: any column number (uniform) / any column occurring in the data (popularity), not
   observed for the row.  There is an in-range stream on which the call returns with that column in
   the chosen cell. *)
Theorem every_eligible_reachable : forall m w att n rows i j r c,
  wf m -> rows_ok rows ->
  nth_error rows i = Some r -> (j < ncolumns n)%nat ->
  eligible m w c -> ~ observed m r c ->
  exists ds, draws_ok m w ds /\
    exists out warns rest col, sample m w true att n rows ds = Ok (out, warns, rest) /\
      nth_error out j = Some col /\ nth_error col i = Some c.
Proof. exact every_eligible_reachable_main. Qed.
Print Assumptions every_eligible_reachable.

(* non-vacuity: 3 x 3 matrix, row 0 fully dense, rows [0; 1; 2; 0], budget 2; the stream is the one
   PCG64(3) produced in the implementation.  Row 0 exhausts its budget twice over (one warning for two
   cells); rows 1 and 2 receive true negatives. *)
(* non-vacuity of the count: 2 columns, row 0 observes column 0, budget 1: 1 of the 4 streams fails *)
Example c20_count_nonvacuous :
  let m := {| m_ncols := 2; m_pairs := [(0, 0)] |} in
  failing_streams m Uniform 1 0 = [[0; 0]] /\ length (all_streams m Uniform 2) = 4%nat /\ observed_draws m Uniform 0 = [0].
Proof. vm_compute. repeat split. Qed.

(* non-vacuity at a size where cell numbers exceed 2^32: 70000 columns, row 3644 observes columns 100 and 101, row
   65000 observes nothing.  The row-major numbers of (65000, 47396) and (3644, 100) differ by exactly 2^32, yet the draw
   47396 is accepted for row 65000 at once; the draw 100 for row 3644 is an observed cell and is redrawn. *)
Example c20_huge_nonvacuous :
  let m := {| m_ncols := 70000; m_pairs := [(3644, 100); (3644, 101)] |} in
  let rows := [65000; 65000; 3644] in
  let ds := [47396; 47397; 100; 5] in
  wf m /\ rows_ok rows /\ draws_ok m Uniform ds /\
  65000 * 70000 + 47396 = 3644 * 70000 + 100 + 2 ^ 32 /\
  sample m Uniform true 1 None rows ds = Ok ([[47396; 47397; 5]], [], []) /\
  sample m Uniform true 0 None [65000; 65000] [47396; 47397] = Ok ([[47396; 47397]], [], []).
Proof.
  cbv zeta. split; [|split; [|split; [|split; [|split]]]].
  - split; [unfold B32; cbn; split; [discriminate|reflexivity]|].
    repeat constructor; cbn; try discriminate; reflexivity.
  - repeat constructor; cbn; try discriminate; reflexivity.
  - repeat constructor; cbn; try discriminate; reflexivity.
  - reflexivity.
  - vm_compute. reflexivity.
  - vm_compute. reflexivity.
Qed.

Example c20_nonvacuous :
  let m := {| m_ncols := 3; m_pairs := [(0, 0); (0, 1); (0, 2); (1, 1); (2, 2)] |} in
  let ds := [2; 0; 0; 0; 0; 2; 2; 1] in
  wf m /\ rows_ok [0; 1; 2; 0] /\ draws_ok m Uniform ds /\
  sample m Uniform true 2 None [0; 1; 2; 0] ds = Ok ([[2; 0; 0; 1]], [2], []) /\
  ~ observed m 1 0 /\ observed m 0 2.
Proof.
  cbv zeta. split; [|split; [|split; [|split; [|split]]]].
  - split; [unfold B32; cbn; split; [discriminate|reflexivity]|].
    repeat constructor; cbn; try discriminate; reflexivity.
  - repeat constructor; cbn; try discriminate; reflexivity.
  - repeat constructor; cbn; try discriminate; reflexivity.
  - vm_compute. reflexivity.
  - intros [H|[H|[H|[H|[H|[]]]]]]; discriminate.
  - right. right. left. reflexivity.
Qed.
