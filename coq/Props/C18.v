(* C18 -- Retraining fully replaces a model; skipping retraining leaves it untouched.
   Property theorems only; each is closed by `exact <lemma>` and followed by Print Assumptions.
   The frame table and the seed plan of Pipeline.train are GENERATED from the source
   (Gen/C18_frames.v): frames_closed, every_class_retrains_fresh and the pipeline theorems are
   re-checked against what the code says now.

   A component is its instance dictionary (`store`); `train fit fr d o c` is the most general
   behaviour of a class whose train() has frame `fr` (Model/C18_retrain.v): `fit` -- what is learned --
   is an arbitrary function of the data, the seed in the options and those old attributes the frame
   says train() may read.  `frame_ok fr` is the obligation generated per class and configuration
   variant: scoring reads only attributes that every training assigns, no attribute is assigned on
   some paths only, training reads none of the old model, scoring assigns nothing, the guard tests an
   attribute that training sets.

   Property text -> theorem:
   * "training with retraining disabled on an already trained model leaves it bit-for-bit unchanged"
                                                   -> skip_is_identity, skipped_calls_change_nothing,
                                                      trained_means_guarded
   * "training again on a different dataset yields a model equivalent to a freshly constructed
      component trained only on that dataset with the same options - no identifiers, statistics or
      parameters from earlier training data survive", "for every sequence of training calls"
                                                   -> retrain_equals_fresh (any history, any prior state),
                                                      history_characterised (induction over histories),
                                                      obligation_is_needed
   * "for every trainable component"               -> frames_closed, every_class_retrains_fresh
   * "Training a pipeline trains each trainable component exactly once on the given data"
                                                   -> pipeline_trains_each_once,
                                                      pipeline_trains_every_node_whatever_the_wiring (pipeline SHAPES:
                                                      edges, default node, aliases; count per node = 1 also for a
                                                      trainable component that feeds no declared output),
                                                      walking_from_the_outputs_is_not_enough
   * "passing a distinct seed derived from the supplied one to each"
                                                   -> seeds_distinct (hypothesis: SeedSequence.spawn gives
                                                      different children different seeds)
                                                   -> generators_distinct_at_use, options_generator_is_the_given_seed
                                                      (the generator a component obtains from its options is made
                                                      from exactly the child seed: distinct at the point of use)
                                                   -> zero_is_a_seed (seeds are VALUES: the seed that is false in a truth
                                                      test -- 0, numpy.int64(0) -- is a kind of its own, KSeedZero, in
                                                      seeds_distinct / generators_distinct_at_use, and the generated plan
                                                      wraps and spawns it like every other number)
   * the same for pipelines over histories         -> pipeline_retrain_equals_fresh
   * "no identifiers, statistics or parameters from earlier training data survive" when training histories happen in a
     process where datasets are DROPPED and their addresses handed to later datasets while trained models stay alive
                                                   -> training_keeps_nothing_outside_the_component (regenerated scan),
                                                      dropped_datasets_leave_nothing_behind, lifetimes_retrain_equals_fresh,
                                                      identity_keyed_table_is_stale (counter-model) *)
From Coq Require Import ZArith List Bool Lia.
From Coq Require String.
Import String.StringSyntax.
From LK Require Import Model.C18_retrain Gen.C18_frames Proofs.C18_proofs Proofs.C18_main Proofs.C18_frames_ok Proofs.C18_pipeline Proofs.C18_shapes Proofs.C18_life Proofs.C18_life_gen.
Import ListNotations.
Local Open Scope string_scope.

Theorem skip_is_identity : forall (D S : Type) (fit : D -> S -> store -> fitres) fr d o c,
  guard_holds (fr_guard fr) c = true -> o_retrain o = false -> train fit fr d o c = c.
Proof. exact (fun D S fit fr => train_skip fit fr). Qed.
Print Assumptions skip_is_identity.

Theorem skipped_calls_change_nothing : forall (D S : Type) (fit : D -> S -> store -> fitres) fr h c,
  guard_holds (fr_guard fr) c = true -> Forall (fun x => o_retrain (snd x) = false) h -> run fit fr h c = c.
Proof. exact (fun D S fit fr => skipped_suffix fit fr). Qed.
Print Assumptions skipped_calls_change_nothing.

(* "already trained" is what the guard tests: after any completed training of a class that learns
   anything, the guard holds (iterative models: provided one epoch ran) *)
Theorem trained_means_guarded : forall (D S : Type) (fit : D -> S -> store -> fitres) fr d o c,
  frame_ok fr = true -> fr_wmust fr <> [] ->
  match fr_guard fr with GHasAttr _ => True | GPositive a => (0 < learned fit d o a)%Z end ->
  guard_holds (fr_guard fr) (train fit fr d o c) = true.
Proof. intros D S fit fr d o c H. apply training_sets_guard. apply frame_ok_closed. exact H. Qed.
Print Assumptions trained_means_guarded.

Theorem retrain_equals_fresh : forall (D S : Type) (fit : D -> S -> store -> fitres) fr,
  frame_ok fr = true ->
  forall h d o, o_retrain o = true ->
    (* whatever the object held before the history: every learned attribute is the fresh one *)
    (forall c0 a, mem a (fr_wmust fr) = true ->
       lookup a (run fit fr (h ++ [(d, o)]) c0) = lookup a (train fit fr d o [])) /\
    (* a component constructed fresh before the history: the whole instance dictionary *)
    (forall a, lookup a (run fit fr (h ++ [(d, o)]) []) = lookup a (train fit fr d o [])) /\
    (* hence every score: scoring is any function of the attributes it reads *)
    (forall (Q A : Type) (score : store -> Q -> A), reads_only (fr_reads fr) score ->
       forall q, score (run fit fr (h ++ [(d, o)]) []) q = score (train fit fr d o []) q).
Proof. exact retrain_equals_fresh_l. Qed.
Print Assumptions retrain_equals_fresh.

Theorem history_characterised : forall (D S : Type) (fit : D -> S -> store -> fitres) fr,
  frame_ok fr = true ->
  forall h a, lookup a (run fit fr h []) = lookup a (state_of fit fr (effective fit fr None h)).
Proof. exact history_characterised_l. Qed.
Print Assumptions history_characterised.

(* without the obligation a class can keep state of an earlier dataset *)
Theorem obligation_is_needed :
  frame_ok leaky = false /\
  let o := mkOpts true tt in
  lookup "extra_" (run leaky_fit leaky [((1, Some 7), o); ((2, None), o)]%Z []) = Some 7%Z /\
  lookup "extra_" (train leaky_fit leaky (2, None)%Z o []) = None.
Proof. exact (conj leaky_not_ok leaky_keeps_stale_state). Qed.
Print Assumptions obligation_is_needed.

Theorem frames_closed : frames <> [] /\ forallb frame_ok frames = true.
Proof. exact (conj frames_nonempty_l frames_closed_l). Qed.
Print Assumptions frames_closed.

Theorem every_class_retrains_fresh : forall fr, In fr frames ->
  forall (D S : Type) (fit : D -> S -> store -> fitres) h d o, o_retrain o = true ->
    (forall a, lookup a (run fit fr (h ++ [(d, o)]) []) = lookup a (train fit fr d o [])) /\
    (forall d' o' c, guard_holds (fr_guard fr) c = true -> o_retrain o' = false -> train fit fr d' o' c = c).
Proof. exact every_class_retrains_fresh_l. Qed.
Print Assumptions every_class_retrains_fresh.

Theorem pipeline_trains_each_once : forall k retrain sb ns,
  let calls := ptrain_calls (pt_seed_plan k) pt_spawn_width retrain (start_index (pt_seed_plan k) sb) ns in
  map pc_name calls = map pn_name (filter pn_trainable ns) /\
  Forall (fun c => pc_retrain c = retrain) calls /\
  (NoDup (map pn_name ns) -> NoDup (map pc_name calls)).
Proof. exact pipeline_trains_each_once_l. Qed.
Print Assumptions pipeline_trains_each_once.

(* the same for every pipeline SHAPE: a pipeline is its nodes plus edges (consumer, source), a default node and
   aliases; `pt_iterates_all_nodes` is regenerated from the source.  Every node is counted: a trainable component is
   trained exactly once and anything else never -- in particular a trainable component on a side branch, from which
   no declared output is computed (it is only ever run by name); and the calls do not depend on the wiring at all. *)
Theorem pipeline_trains_every_node_whatever_the_wiring : forall k retrain sb sh,
  NoDup (map pn_name (sh_nodes sh)) ->
  let calls := shape_calls pt_iterates_all_nodes (pt_seed_plan k) pt_spawn_width retrain (start_index (pt_seed_plan k) sb) sh in
  (forall n, In n (sh_nodes sh) -> count_name (pn_name n) (map pc_name calls) = expected_count n) /\
  (forall n, In n (sh_nodes sh) -> pn_trainable n = true -> on_output_path sh (pn_name n) = false ->
     count_name (pn_name n) (map pc_name calls) = 1) /\
  (forall sh', sh_nodes sh' = sh_nodes sh ->
     shape_calls pt_iterates_all_nodes (pt_seed_plan k) pt_spawn_width retrain (start_index (pt_seed_plan k) sb) sh' = calls).
Proof. exact every_node_whatever_the_wiring_l. Qed.
Print Assumptions pipeline_trains_every_node_whatever_the_wiring.

(* why the loop must be over all nodes: walking back from the declared outputs leaves a side branch untrained *)
Theorem walking_from_the_outputs_is_not_enough :
  on_output_path side_shape "scorer" = true /\ on_output_path side_shape "fallback" = false /\
  count_name "fallback" (map pc_name (shape_calls false PlanWrap 1 true 0 side_shape)) = 0 /\
  count_name "fallback" (map pc_name (shape_calls pt_iterates_all_nodes PlanWrap 1 true 0 side_shape)) = 1.
Proof. exact outputs_walk_misses_side_branch_l. Qed.
Print Assumptions walking_from_the_outputs_is_not_enough.

Theorem seeds_distinct : forall (Seed : Type) (spawn : nat -> Seed),
  (forall i j, spawn i = spawn j -> i = j) ->                     (* numpy SeedSequence.spawn: library contract *)
  forall k, k = KSeedLike \/ k = KSeedSequence \/ k = KSeedZero ->
  forall retrain sb ns,
    let calls := ptrain_calls (pt_seed_plan k) pt_spawn_width retrain (start_index (pt_seed_plan k) sb) ns in
    Forall (fun c => exists i, pc_rng c = CSpawn i) calls /\
    NoDup (map (fun c => match pc_rng c with CSpawn i => Some (spawn i) | CSame => None end) calls).
Proof. exact seeds_distinct_l. Qed.
Print Assumptions seeds_distinct.

(* the seed is distinct where it is USED: TrainingOptions.random_generator (shape regenerated from the source)
   makes the component's generator from exactly the child seed it was handed; hypotheses: spawn and the
   seed -> generator map of numpy are injective *)
Theorem generators_distinct_at_use : forall (Seed Gen : Type) (spawn : nat -> Seed) (gen_of : Seed -> Gen),
  (forall i j, spawn i = spawn j -> i = j) ->
  (forall s t, gen_of s = gen_of t -> s = t) ->
  options_rng_passthrough = true ->
  forall k, k = KSeedLike \/ k = KSeedSequence \/ k = KSeedZero ->
  forall retrain sb ns,
    let calls := ptrain_calls (pt_seed_plan k) pt_spawn_width retrain (start_index (pt_seed_plan k) sb) ns in
    NoDup (map (fun c => match pc_rng c with CSpawn i => Some (gen_of (spawn i)) | CSame => None end) calls).
Proof. exact generators_distinct_at_use_l. Qed.
Print Assumptions generators_distinct_at_use.

(* seed VALUES: zero -- false in a truth test, so a test like `not rng` would take it for "no seed" -- gets the plan of
   every other number (regenerated from the if-chain of Pipeline.train, whose tests may be by type or by value) *)
Theorem zero_is_a_seed : pt_seed_plan KSeedZero = pt_seed_plan KSeedLike /\ pt_seed_plan KSeedZero = PlanWrap.
Proof. exact zero_is_a_seed_l. Qed.
Print Assumptions zero_is_a_seed.

Theorem options_generator_is_the_given_seed : options_rng_passthrough = true.
Proof. exact options_passthrough_l. Qed.
Print Assumptions options_generator_is_the_given_seed.

Theorem pipeline_retrain_equals_fresh : forall (D B : Type) (fit : D -> B * child_rng -> store -> fitres) k cs h d o,
  (forall c fr, In c cs -> cp_frame c = Some fr -> In fr frames) ->
  (forall c, In c cs -> cp_store c = []) ->
  o_retrain o = true ->
  Forall2 (fun a b => cp_name a = cp_name b /\ cp_frame a = cp_frame b /\ forall x, lookup x (cp_store a) = lookup x (cp_store b))
          (prun fit (pt_seed_plan k) pt_spawn_width (h ++ [(d, o)]) cs)
          (ptrain fit (pt_seed_plan k) pt_spawn_width d o 0 cs).
Proof. exact pipeline_retrain_equals_fresh_l. Qed.
Print Assumptions pipeline_retrain_equals_fresh.

(* ---- object lifetimes ----------------------------------------------------------------------------------------
   A training history happens in a process: dataset OBJECTS live at addresses, are dropped, and their addresses are
   handed to later datasets while the models trained on them stay alive.  `run_life keeps` is the history with a table,
   outside the components, from the identity of the data to what was learned from it -- the most general state a
   training can keep outside the instance dictionary; `train_keeps_outside` is regenerated from the source. *)

(* the scan of every module reachable from a train() path finds no memoising decorator, no id() call, no module- or
   class-level table or container default written by a function, no `global` assignment -- apart from the listed
   process-wide configuration / display state *)
Theorem training_keeps_nothing_outside_the_component : outside_state = [] /\ train_keeps_outside = false.
Proof. exact (conj outside_state_empty_l keeps_nothing_outside_l). Qed.
Print Assumptions training_keeps_nothing_outside_the_component.

(* hence lifetimes are invisible: whatever addresses the dataset objects had (recycled or not) and whatever the table held,
   a lifetime history ends in the component of the plain history over the contents, and the table is untouched *)
Theorem dropped_datasets_leave_nothing_behind : forall (D S : Type) (fit : D -> S -> store -> fitres) fr
    (h : list (dobj D * opts S)) c (m : memo D),
  run_life fit train_keeps_outside fr h (c, m) = (run fit fr (contents h) c, m).
Proof. exact dropped_datasets_leave_nothing_behind_l. Qed.
Print Assumptions dropped_datasets_leave_nothing_behind.

(* ... so for every shipped class a retraining at the end of ANY lifetime history equals a fresh component trained on the
   content of the last dataset object alone *)
Theorem lifetimes_retrain_equals_fresh : forall fr, In fr frames ->
  forall (D S : Type) (fit : D -> S -> store -> fitres) (h : list (dobj D * opts S)) x o (m : memo D), o_retrain o = true ->
  forall a, lookup a (fst (run_life fit train_keeps_outside fr (h ++ [(x, o)]) ([], m))) = lookup a (train fit fr (ob_data x) o []).
Proof. exact lifetimes_retrain_equals_fresh_l. Qed.
Print Assumptions lifetimes_retrain_equals_fresh.

(* why the scan is needed: with a table keyed by the identity of the data, dataset A (content 1) at address 7 is trained on
   and dropped, dataset B (content 2) is allocated at address 7 -- the retrained AND a freshly constructed component come out
   with the model of A; with both objects alive (addresses 7 and 8) nothing shows *)
Theorem identity_keyed_table_is_stale :
  frame_ok life_frame = true /\
  lookup "items_" (fst (run_life life_fit true life_frame life_history ([], []))) = Some 1%Z /\
  lookup "items_" (fst (train_life life_fit true life_frame (mkObj 7 2%Z) (mkOpts true tt)
                          ([], snd (run_life life_fit true life_frame [(mkObj 7 1%Z, mkOpts true tt)] ([], []))))) = Some 1%Z /\
  lookup "items_" (train life_fit life_frame 2%Z (mkOpts true tt) []) = Some 2%Z /\
  lookup "items_" (fst (run_life life_fit true life_frame [(mkObj 7 1%Z, mkOpts true tt); (mkObj 8 2%Z, mkOpts true tt)] ([], []))) = Some 2%Z.
Proof. exact identity_keyed_table_is_stale_l. Qed.
Print Assumptions identity_keyed_table_is_stale.

(* non-vacuity: a closed frame, a history with a retraining on smaller data and a skipped call; the
   hypotheses of the theorems above hold and the states are not trivial *)
Example c18_nonvacuous :
  let fr := mkFrame "Demo" "" (GHasAttr "items_") ["items_"; "scores_"] ["items_"; "scores_"] ["items_"; "scores_"] [] [] [] in
  let fit := fun (d : Z) (s : Z) (_ : store) => mkFit (fun a => if String.eqb a "items_" then d else (d * 100 + s)%Z) (fun _ => false) in
  let h := [(5, mkOpts true 1); (3, mkOpts true 2); (9, mkOpts false 4)]%Z in
  frame_ok fr = true /\
  lookup "scores_" (run fit fr h []) = Some 302%Z /\
  effective fit fr None h = Some (3, mkOpts true 2)%Z /\
  guard_holds (fr_guard fr) (run fit fr h []) = true /\
  existsb (fun f => negb (is_nil (fr_wmust f)) && negb (is_nil (fr_reads f))) frames = true /\
  ptrain_calls (pt_seed_plan KSeedLike) pt_spawn_width true 0 [mkNode "a" true; mkNode "b" false; mkNode "c" true]
    = [mkCall "a" true (CSpawn 0); mkCall "c" true (CSpawn 1)] /\
  (* the seed zero *)
  ptrain_calls (pt_seed_plan KSeedZero) pt_spawn_width true 0 [mkNode "a" true; mkNode "b" false; mkNode "c" true]
    = [mkCall "a" true (CSpawn 0); mkCall "c" true (CSpawn 1)] /\
  (* a lifetime history: the second dataset object lives at the address of the dropped first one *)
  lookup "scores_" (fst (run_life fit train_keeps_outside fr [(mkObj 7 5%Z, mkOpts true 1%Z); (mkObj 7 3%Z, mkOpts true 2%Z)] ([], [(7, 9%Z)]))) = Some 302%Z.
Proof.
  cbv zeta. repeat split; vm_compute; reflexivity.
Qed.
