(* C17 -- placeholder while the proofs are being written *)
From LK Require Import Model.C17_attributes.
