(* C17 -- Entity attributes attach exactly the supplied values to the supplied entities.
   Property theorems only; each is closed by `exact <lemma>` and followed by Print Assumptions.
   The model (Model/C17_attributes.v) is hand-written and tied to lenskit/data/builder.py,
   attributes.py, entities.py by the history correspondence that ./check C17 evaluates inside Coq.

   Property text -> theorem
   * "For every entity class and every attribute of scalar, list, dense-vector or sparse-vector
     layout added for any subset of the entity identifiers given in any order, reading the attribute
     back - by entity identifier, ... for all entities or any selected subset - returns for each of
     those entities exactly the value supplied for it and a missing value for every other entity,
     with the declared dimension names and vector size preserved.  This holds regardless of the
     order in which entities and attributes were added."        -> attr_read_back
       (`run` interprets ANY history of add_entities / add_*_attribute calls, failing calls included;
        `history` is what the accepted calls supplied; `value_of ids vals i` is the value paired with
        entity i, None if there is none or it is null; `asked` is the selection, in the order asked,
        or the whole table)
   * "and a missing value for every other entity" for attributes never supplied -> no_phantom_attribute
   * drop_null (the entities that have a value)                 -> drop_null_correct
   * the offsets / values surgery places list j at row rows[j]  -> expand_align_correct
   * scalar values and fixed-size vectors are re-ordered to the entity table
                                                                -> scalar_placement_correct,
                                                                   fixed_vector_placement_correct
   * the dense-vector reader rebuilds the vectors from the value buffer -> vector_arrow_correct
   * "in every supported output form": pandas / numpy / scipy / torch are functions of the Arrow-level
     reading in the model (pandas_1d, pandas_vec, vec_matrix, sparse_rows); that the real conversions
     agree entry-wise is checked on every query of every correspondence case (harness), not proved.

   Hypotheses: `op_wf` (what a caller owes: the identifiers given with an attribute are distinct, one
   value per identifier, dense vectors have the declared dimension >= 1).  np.argsort / Arrow take are
   "sort the (row, payload) pairs by row" (the model uses its own insertion sort; any correct sort
   gives the same result because rows are distinct). *)
From Coq Require Import ZArith List Bool.
From LK Require Import Model.C17_attributes Model.C17_layout Proofs.C17_align Proofs.C17_read Proofs.C17_layout Proofs.C17_main.
Import ListNotations.
Local Open Scope nat_scope.

Theorem attr_read_back : forall ops name s ids sel,
  Forall op_wf ops ->
  let t := fst (run empty_table ops) in
  In (name, s) (history empty_table ops) -> sel_ok t ids sel ->
  exists a, find_attr t name = Some a /\
    match s with
    | SupScalar sids vals => read_scalar t (a_col a) sel = map (value_of sids vals) (asked t ids)
    | SupList sids lists => read_lists t (a_col a) sel = map (value_of sids lists) (asked t ids)
    | SupVector sids size vecs dims =>
        read_vectors t (a_col a) sel = map (value_of sids vecs) (asked t ids) /\
        vec_size (a_col a) = Some size /\ a_dims a = dims
    | SupSparse sids ncol csr dims =>
        read_sparse_lists t (a_col a) sel = map (value_of sids (map Some csr)) (asked t ids) /\
        vec_size (a_col a) = Some ncol /\ a_dims a = dims
    end.
Proof. exact attr_read_back_l. Qed.
Print Assumptions attr_read_back.

Theorem no_phantom_attribute : forall ops name,
  Forall op_wf ops -> (forall s, ~ In (name, s) (history empty_table ops)) ->
  find_attr (fst (run empty_table ops)) name = None.
Proof. exact no_phantom_attribute_l. Qed.
Print Assumptions no_phantom_attribute.

Theorem drop_null_correct : forall ops name s ids sel,
  Forall op_wf ops ->
  let t := fst (run empty_table ops) in
  In (name, s) (history empty_table ops) -> sel_ok t ids sel ->
  exists a, find_attr t name = Some a /\
    sel_ids t (drop_null t (a_col a) sel) =
    match s with
    | SupScalar sids vals => filter (fun i => is_some (value_of sids vals i)) (asked t ids)
    | SupList sids lists => filter (fun i => is_some (value_of sids lists i)) (asked t ids)
    | SupVector sids _ vecs _ => filter (fun i => is_some (value_of sids vecs i)) (asked t ids)
    | SupSparse sids _ csr _ => filter (fun i => is_some (value_of sids (map Some csr) i)) (asked t ids)
    end.
Proof. exact drop_null_correct_l. Qed.
Print Assumptions drop_null_correct.

(* the list array built by _expand_and_align_list_array, decoded (row r = values[offsets[r]:offsets[r+1]]
   unless masked), has at row r the list given for row r, and null where none (or a null) was given *)
Theorem expand_align_correct : forall (A : Type) n rows (lists : list (option (list A))),
  NoDup rows -> Forall (fun r => r < n) rows ->
  la_decode (expand_align n rows lists) = map (fun r => join (lookupn r (combine rows lists))) (seq 0 n).
Proof. exact @expand_align_correct_l. Qed.
Print Assumptions expand_align_correct.

Theorem scalar_placement_correct : forall n rows (vals : list elem),
  NoDup rows -> Forall (fun r => r < n) rows -> length vals = length rows ->
  place_scalar n rows vals = map (fun r => join (lookupn r (combine rows vals))) (seq 0 n).
Proof. exact place_scalar_correct_l. Qed.
Print Assumptions scalar_placement_correct.

Theorem fixed_vector_placement_correct : forall (A : Type) n rows (vecs : list (option (list A))),
  NoDup rows -> Forall (fun r => r < n) rows -> length vecs = length rows ->
  forallb (fun r => memn r rows) (seq 0 n) = true -> forallb is_some vecs = true ->
  map Some (map snd (sort_rows (valid_pairs rows vecs))) = map (fun r => join (lookupn r (combine rows vecs))) (seq 0 n).
Proof. exact @place_fixed_correct_l. Qed.
Print Assumptions fixed_vector_placement_correct.

(* VectorAttributeSet.arrow() on list storage: cutting the value buffer into `size`-vectors, and
   _replace_vectors when some selected entity has none, give back exactly the selected column *)
Theorem vector_arrow_correct : forall size (col : list (option (list elem))),
  1 <= size -> Forall (vec_ok size) col ->
  (if forallb is_some col then map Some (chunk (length col) size (flat_values col))
   else replace_vectors size (map is_some col) (chunk (length col) size (flat_values col))) = col.
Proof. exact vec_reconstruct. Qed.
Print Assumptions vector_arrow_correct.

(* "all ways of supplying the data": the memory layout of a supplied array does not matter.
   A NumPy view shows buf[off + i*s0 + j*s1] at (i, j) (C order, Fortran order = transposed view, strided and
   reversed slices are choices of off / s0 / s1) ... *)
Theorem strided_view_element : forall (A : Type) (d : A) buf off s0 s1 n m i j, i < n -> j < m ->
  nth j (nth i (nd_rows d buf off s0 s1 n m) []) d = buf_at d buf (off + Z.of_nat i * s0 + Z.of_nat j * s1)%Z.
Proof. exact @nd_rows_nth_l. Qed.
Print Assumptions strided_view_element.

(* ... and _add_dense_vector_attribute_numpy -- FixedSizeListArray.from_arrays(values.ravel(), ncol), ravel
   walking the logical matrix row by row -- hands entity i exactly logical row i for every offset and strides;
   with attr_read_back (stated over these vectors) each entity reads back its own row *)
Theorem dense_numpy_layout_irrelevant : forall buf off s0 s1 n m, 1 <= m ->
  dense_from_numpy buf off s0 s1 n m = map Some (nd_rows None buf off s0 s1 n m).
Proof. exact dense_from_numpy_rows_l. Qed.
Print Assumptions dense_numpy_layout_irrelevant.

(* a sliced Arrow list array (window [o, o+n) of the raw offsets over the shared child values, lists valid,
   offsets monotone): flatten() -- what _expand_and_align_list_array stores as the value buffer -- is the range of
   the child values that starts at the offset of the first list of the window (not at 0, as .values would);
   the unsliced window is the whole array *)
Theorem sliced_list_flatten : forall (A : Type) (la : listarray A) o n,
  (forall r, r < n -> nth (o + r) (la_null la) true = false) ->
  (forall r, r < n -> nth (o + r) (la_offsets la) 0 <= nth (S (o + r)) (la_offsets la) 0) ->
  la_flatten la o n = slice (la_values la) (nth o (la_offsets la) 0) (nth (o + n) (la_offsets la) 0).
Proof. exact @la_flatten_contiguous_l. Qed.
Print Assumptions sliced_list_flatten.

Theorem list_window_full : forall (A : Type) (la : listarray A), la_window la 0 (length (la_null la)) = la_decode la.
Proof. exact @la_window_full_l. Qed.
Print Assumptions list_window_full.

(* non-vacuity of the layout statements: one 3 x 2 matrix held row-major, column-major, strided and reversed
   decodes to the same rows; cutting the column-major buffer itself (ravel in memory order) does not *)
Example c17_layout_nonvacuous :
  let rows := [[1; 2]; [3; 4]; [5; 6]]%Z in
  nd_rows 0%Z [1; 2; 3; 4; 5; 6]%Z 0 2 1 3 2 = rows /\
  nd_rows 0%Z [1; 3; 5; 2; 4; 6]%Z 0 1 3 3 2 = rows /\
  nd_rows 0%Z [1; 9; 2; 9; 9; 9; 9; 9; 3; 9; 4; 9; 9; 9; 9; 9; 5; 9; 6; 9]%Z 0 8 2 3 2 = rows /\
  nd_rows 0%Z [6; 5; 4; 3; 2; 1]%Z 5 (-2) (-1) 3 2 = rows /\
  chunk 3 2 (ravel (nd_rows 0%Z [1; 3; 5; 2; 4; 6]%Z 0 1 3 3 2)) = rows /\
  chunk 3 2 [1; 3; 5; 2; 4; 6]%Z <> rows /\
  let la := mk_la [0; 1; 3; 3; 4] [7; 1; 2; 3]%Z [false; false; false; false] in
  la_window la 1 3 = [Some [1; 2]; Some []; Some [3]]%Z /\ la_flatten la 1 3 = [1; 2; 3]%Z /\ la_values la <> la_flatten la 1 3.
Proof. exact c17_layout_examples. Qed.

(* non-vacuity: entities in two batches, a scalar attribute for a permuted subset, a dense vector
   for every entity known at that time (fixed-size storage) followed by a further batch, a list and a
   sparse attribute; the hypotheses hold and a permuted selection with undefined entities reads back
   the supplied values *)
Example c17_nonvacuous :
  let ops := [OEntities [30; 10; 20]%Z;
              OScalar 0 [20; 10]%Z [Some 5; Some 7]%Z;
              OVector 1 [30; 10; 20]%Z 2 [Some [Some 1; Some 2]; Some [Some 3; None]; Some [Some 0; Some 0]]%Z (Some [8; 9]%Z);
              OEntities [5; 40]%Z;
              OList 2 [40; 10]%Z [Some [Some 1; Some 1]; Some []]%Z;
              OSparse 3 [5; 30]%Z 4 [[(1%nat, 6%Z); (3%nat, 2%Z)]; []] None;
              OVector 4 [40; 5]%Z 1 [Some [Some 9]; None]%Z None;
              OScalar 0 [10]%Z [Some 1]%Z] in
  let t := fst (run empty_table ops) in
  Forall op_wf ops /\ snd (run empty_table ops) = [None; None; None; None; None; None; None; Some ENotImpl] /\
  t_rows t = [10; 20; 30; 5; 40]%Z /\
  sel_ok t (Some [40; 20; 5; 10]%Z) (Some [4; 1; 3; 0]) /\
  In (0, SupScalar [20; 10]%Z [Some 5; Some 7]%Z) (history empty_table ops) /\
  query t 0 (Some [40; 20; 5; 10]%Z) = Ok (VScalar [None; Some 5; None; Some 7]%Z [(20, Some 5); (10, Some 7)]%Z [(20, Some 5); (10, Some 7)]%Z [20; 10]%Z) /\
  (exists a, find_attr t 1 = Some a /\ read_vectors t (a_col a) (Some [4; 1; 3; 0]) = [None; Some [Some 0; Some 0]; None; Some [Some 3; None]]%Z) /\
  (exists a, find_attr t 4 = Some a /\ read_vectors t (a_col a) None = [None; None; None; None; Some [Some 9]]%Z).
Proof. exact c17_nonvacuous_l. Qed.
