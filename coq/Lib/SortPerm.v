(* Stable insertion sort over a boolean order: it returns a sorted permutation, and sorted
   permutations under an antisymmetric total order are unique.  Shared by C08 and C09. *)
From Coq Require Import List Bool Arith Lia Sorted Permutation.
Import ListNotations.

Fixpoint insert_by {A} (leb : A -> A -> bool) (x : A) (l : list A) : list A :=
  match l with [] => [x] | y :: r => if leb x y then x :: l else y :: insert_by leb x r end.
Definition isort {A} (leb : A -> A -> bool) (l : list A) : list A := fold_right (insert_by leb) [] l.

Section Sorting.
  Context {A : Type} (leb : A -> A -> bool).
  Hypothesis leb_total : forall a b, leb a b = true \/ leb b a = true.
  Hypothesis leb_trans : forall a b c, leb a b = true -> leb b c = true -> leb a c = true.
  Let le (a b : A) : Prop := leb a b = true.

  Lemma insert_perm x l : Permutation (insert_by leb x l) (x :: l).
  Proof.
    induction l as [|y l IH]; simpl; [reflexivity|].
    destruct (leb x y); [reflexivity|]. rewrite IH. apply perm_swap.
  Qed.
  Lemma isort_perm l : Permutation (isort leb l) l.
  Proof. induction l as [|x l IH]; simpl; [reflexivity|]. rewrite insert_perm, IH. reflexivity. Qed.

  Lemma insert_sorted x l : StronglySorted le l -> StronglySorted le (insert_by leb x l).
  Proof.
    induction l as [|y l IH]; intro S; simpl.
    - constructor; constructor.
    - inversion S as [|? ? S' F]; subst. destruct (leb x y) eqn:E.
      + constructor; [exact S|]. constructor; [exact E|].
        eapply Forall_impl; [|exact F]. intros z Hz. exact (leb_trans x y z E Hz).
      + constructor; [apply IH, S'|].
        eapply Permutation_Forall; [symmetry; apply insert_perm|].
        constructor; [|exact F]. destruct (leb_total x y) as [H|H]; [congruence|exact H].
  Qed.
  Lemma isort_sorted l : StronglySorted le (isort leb l).
  Proof. induction l as [|x l IH]; simpl; [constructor|apply insert_sorted, IH]. Qed.

  Lemma sorted_perm_unique l1 : forall l2,
    (forall a b, In a l1 -> In b l1 -> leb a b = true -> leb b a = true -> a = b) ->
    StronglySorted le l1 -> StronglySorted le l2 -> Permutation l1 l2 -> l1 = l2.
  Proof.
    induction l1 as [|a t IH]; intros l2 AS S1 S2 P.
    - apply Permutation_nil in P. subst. reflexivity.
    - destruct l2 as [|b t2]; [apply Permutation_sym, Permutation_nil in P; discriminate|].
      inversion S1 as [|? ? S1' F1]; subst. inversion S2 as [|? ? S2' F2]; subst.
      assert (refl : forall z, leb z z = true) by (intro z; destruct (leb_total z z); assumption).
      assert (Hba : leb b a = true).
      { assert (I : In a (b :: t2)) by (eapply Permutation_in; [exact P|left; reflexivity]).
        destruct I as [->|I]; [apply refl|]. rewrite Forall_forall in F2. apply F2, I. }
      assert (Ib : In b (a :: t)) by (eapply Permutation_in; [symmetry; exact P|left; reflexivity]).
      assert (Hab : leb a b = true).
      { destruct Ib as [->|I]; [apply refl|]. rewrite Forall_forall in F1. apply F1, I. }
      assert (a = b) by (apply AS; [left; reflexivity|exact Ib|exact Hab|exact Hba]). subst b.
      f_equal. apply IH; [|exact S1'|exact S2'|eapply Permutation_cons_inv; exact P].
      intros x y Ix Iy. apply AS; right; assumption.
  Qed.
End Sorting.
