(* Python `int | None` values and the handful of operations the list-length resolution of the
   rankers / selectors uses (C03, C19).  The GENERATED files Gen/C03_len.v and Gen/C19_len.v are
   written against exactly these combinators (harness/translate/c03.py).

   pyv      : Python value of type `int | None`   (None = Python None)
   res A    : evaluation that may raise            (None = an exception, e.g. TypeError of `None < 0`) *)
From Coq Require Import ZArith Bool.
Open Scope Z_scope.

Definition pyv := option Z.
Definition res (A : Type) := option A.
Definition ret {A} (a : A) : res A := Some a.
Definition bind {A B} (a : res A) (f : A -> res B) : res B :=
  match a with Some x => f x | None => None end.

Definition py_int (z : Z) : res pyv := Some (Some z).
Definition py_val (v : pyv) : res pyv := Some v.

Definition is_none (v : pyv) : bool := match v with None => true | Some _ => false end.
(* truth value of an `int | None`: None and 0 are false *)
Definition truthy (v : pyv) : bool := match v with Some z => negb (z =? 0) | None => false end.

(* `a or b` / `a and b` on values (Python returns one of the operands) *)
Definition py_or (a b : res pyv) : res pyv := bind a (fun x => if truthy x then Some x else b).
Definition py_and (a b : res pyv) : res pyv := bind a (fun x => if truthy x then b else Some x).
(* `a if c else b` *)
Definition py_ifexp (c : res bool) (a b : res pyv) : res pyv := bind c (fun t => if t then a else b).

Definition cmp2 (f : Z -> Z -> bool) (a b : res pyv) : res bool :=
  bind a (fun x => bind b (fun y =>
    match x, y with Some p, Some q => Some (f p q) | _, _ => None end)).   (* TypeError on None *)
Definition py_lt := cmp2 Z.ltb.
Definition py_le := cmp2 Z.leb.
Definition py_gt := cmp2 Z.gtb.
Definition py_ge := cmp2 Z.geb.
(* == never raises *)
Definition py_eq (a b : res pyv) : res bool :=
  bind a (fun x => bind b (fun y =>
    Some (match x, y with Some p, Some q => p =? q | None, None => true | _, _ => false end))).
Definition py_ne (a b : res pyv) : res bool := bind (py_eq a b) (fun t => Some (negb t)).
Definition py_is_none (a : res pyv) : res bool := bind a (fun x => Some (is_none x)).
Definition py_is_not_none (a : res pyv) : res bool := bind a (fun x => Some (negb (is_none x))).
Definition py_truth (a : res pyv) : res bool := bind a (fun x => Some (truthy x)).
Definition py_not (a : res bool) : res bool := bind a (fun t => Some (negb t)).
(* short-circuit connectives on conditions *)
Definition c_or (a b : res bool) : res bool := bind a (fun t => if t then Some true else b).
Definition c_and (a b : res bool) : res bool := bind a (fun t => if t then b else Some false).

Definition arith2 (f : Z -> Z -> Z) (a b : res pyv) : res pyv :=
  bind a (fun x => bind b (fun y =>
    match x, y with Some p, Some q => Some (Some (f p q)) | _, _ => None end)).
Definition py_min := arith2 Z.min.
Definition py_max := arith2 Z.max.
Definition py_add := arith2 Z.add.
Definition py_sub := arith2 Z.sub.
Definition py_neg (a : res pyv) : res pyv :=
  bind a (fun x => match x with Some p => Some (Some (- p)) | None => None end).

(* what a selector / ranker does once the length is known *)
Inductive outcome :=
| Take (n : pyv) (ordered : bool)      (* hand n to argtopn / rng.choice; result flagged ordered or not *)
| EmptyList (ordered : bool).          (* return an empty list at once *)

(* which entries of the score array are eligible *)
Inductive mask_kind := MAll | MNotNan | MFinite.

(* the three ways argtopn proceeds once NaNs are masked out *)
Inductive plan := PEmpty | PPart | PFull.

(* how the stochastic rankers form their sort keys from uniform draws U and weights w *)
Inductive key_rule := KLogUOverW.

(* where the configured scale factor enters the weights, and the transforms offered *)
Inductive scale_rule := ScaleBeforeTransform.
Inductive transform_rule := TrLinearMinMax | TrSoftmax | TrRawClamp.
