(* Facts about Lib/StrDict.v: the byte order on strings is a total order, insertion sort returns the
   unique sorted permutation when keys are distinct, association-list dictionaries. *)
From Coq Require Import String Ascii List Bool Arith NArith Lia Permutation Sorted.
From LK Require Import Lib.StrDict.
Import ListNotations.
Open Scope string_scope.

(* ---- order ---- *)
Lemma ascii_compare_eq a b : Ascii.compare a b = Eq -> a = b.
Proof. apply Ascii.compare_eq_iff. Qed.
Lemma ascii_compare_refl a : Ascii.compare a a = Eq.
Proof. unfold Ascii.compare. apply N.compare_refl. Qed.
Lemma ascii_compare_lt_trans a b c : Ascii.compare a b = Lt -> Ascii.compare b c = Lt -> Ascii.compare a c = Lt.
Proof. unfold Ascii.compare. rewrite !N.compare_lt_iff. lia. Qed.

Lemma string_compare_refl s : String.compare s s = Eq.
Proof. induction s as [|c s IH]; cbn; [reflexivity|]. rewrite ascii_compare_refl. exact IH. Qed.

Lemma string_compare_lt_trans a : forall b c,
  String.compare a b = Lt -> String.compare b c = Lt -> String.compare a c = Lt.
Proof.
  induction a as [|x a IH]; intros [|y b] [|z c]; cbn; try congruence.
  destruct (Ascii.compare x y) eqn:Exy; try congruence;
  destruct (Ascii.compare y z) eqn:Eyz; try congruence; intros H1 H2.
  - apply ascii_compare_eq in Exy, Eyz. subst. rewrite ascii_compare_refl. eapply IH; eauto.
  - apply ascii_compare_eq in Exy. subst. rewrite Eyz. reflexivity.
  - apply ascii_compare_eq in Eyz. subst. rewrite Exy. reflexivity.
  - rewrite (ascii_compare_lt_trans _ _ _ Exy Eyz). reflexivity.
Qed.

Lemma sleb_refl a : sleb a a = true.
Proof. unfold sleb. rewrite string_compare_refl. reflexivity. Qed.
Lemma sleb_total a b : sleb a b = true \/ sleb b a = true.
Proof.
  unfold sleb. rewrite (String.compare_antisym a b).
  destruct (String.compare b a); cbn; auto.
Qed.
Lemma sleb_antisym a b : sleb a b = true -> sleb b a = true -> a = b.
Proof.
  unfold sleb. rewrite (String.compare_antisym a b).
  destruct (String.compare b a) eqn:E; cbn; try congruence.
  intros _ _. symmetry. apply String.compare_eq_iff. exact E.
Qed.
Lemma sleb_trans a b c : sleb a b = true -> sleb b c = true -> sleb a c = true.
Proof.
  unfold sleb.
  destruct (String.compare a b) eqn:E1; try congruence;
  destruct (String.compare b c) eqn:E2; try congruence; intros _ _.
  - apply String.compare_eq_iff in E1, E2. subst. rewrite string_compare_refl. reflexivity.
  - apply String.compare_eq_iff in E1. subst. rewrite E2. reflexivity.
  - apply String.compare_eq_iff in E2. subst. rewrite E1. reflexivity.
  - rewrite (string_compare_lt_trans _ _ _ E1 E2). reflexivity.
Qed.

(* ---- sort_by ---- *)
Section SortFacts.
  Context {X : Type} (key : X -> string).
  Definition kle (x y : X) : Prop := sleb (key x) (key y) = true.

  Lemma ins_by_perm x l : Permutation (ins_by key x l) (x :: l).
  Proof.
    induction l as [|y r IH]; cbn; [reflexivity|].
    destruct (sleb (key x) (key y)); [reflexivity|].
    rewrite IH. apply perm_swap.
  Qed.
  Lemma sort_by_perm l : Permutation (sort_by key l) l.
  Proof. induction l as [|x r IH]; cbn; [reflexivity|]. rewrite ins_by_perm. constructor. exact IH. Qed.

  Lemma ins_by_sorted x l : StronglySorted kle l -> StronglySorted kle (ins_by key x l).
  Proof.
    induction l as [|y r IH]; cbn; intro S.
    - constructor; constructor.
    - inversion S as [|? ? Sr Hy]; subst.
      destruct (sleb (key x) (key y)) eqn:E.
      + constructor; [exact S|]. constructor; [exact E|].
        rewrite Forall_forall in *. intros z Hz. unfold kle in *. eapply sleb_trans; [exact E|]. apply Hy. exact Hz.
      + constructor; [apply IH; exact Sr|].
        assert (Hyx : kle y x). { destruct (sleb_total (key x) (key y)) as [H|H]; [congruence|exact H]. }
        rewrite Forall_forall in *. intros z Hz.
        apply (Permutation_in _ (ins_by_perm x r)) in Hz. destruct Hz as [<-|Hz]; [exact Hyx|apply Hy; exact Hz].
  Qed.
  Lemma sort_by_sorted l : StronglySorted kle (sort_by key l).
  Proof. induction l as [|x r IH]; cbn; [constructor|apply ins_by_sorted; exact IH]. Qed.

  Lemma ins_by_head x l : Forall (kle x) l -> ins_by key x l = x :: l.
  Proof. destruct l as [|y r]; cbn; [reflexivity|]. intro F. inversion F as [|? ? H _]; subst. unfold kle in H. rewrite H. reflexivity. Qed.
  Lemma sort_by_id l : StronglySorted kle l -> sort_by key l = l.
  Proof.
    induction l as [|x r IH]; cbn; intro S; [reflexivity|].
    inversion S as [|? ? Sr Hx]; subst. rewrite (IH Sr). apply ins_by_head. exact Hx.
  Qed.
  Lemma sort_by_idem l : sort_by key (sort_by key l) = sort_by key l.
  Proof. apply sort_by_id. apply sort_by_sorted. Qed.

  Lemma key_inj_of_nodup l x y : NoDup (map key l) -> In x l -> In y l -> key x = key y -> x = y.
  Proof.
    induction l as [|z r IH]; cbn; intros N Hx Hy E; [tauto|].
    inversion N as [|? ? Nz Nr]; subst.
    destruct Hx as [<-|Hx], Hy as [<-|Hy]; auto.
    - exfalso. apply Nz. rewrite E. apply in_map. exact Hy.
    - exfalso. apply Nz. rewrite <- E. apply in_map. exact Hx.
  Qed.

  Lemma sorted_perm_unique l : forall l',
    NoDup (map key l) -> StronglySorted kle l -> StronglySorted kle l' -> Permutation l l' -> l = l'.
  Proof.
    induction l as [|x r IH]; intros l' N S S' P.
    - apply Permutation_nil in P. congruence.
    - destruct l' as [|y r']; [apply Permutation_sym, Permutation_nil in P; discriminate|].
      assert (x = y) as <-.
      { inversion S as [|? ? _ Hx]; inversion S' as [|? ? _ Hy]; subst.
        rewrite Forall_forall in Hx, Hy.
        assert (Hyl : In y (x :: r)) by (apply (Permutation_in _ (Permutation_sym P)); left; reflexivity).
        assert (Hxl : In x (y :: r')) by (apply (Permutation_in _ P); left; reflexivity).
        destruct Hyl as [E|Hyl]; [exact E|]. destruct Hxl as [E|Hxl]; [symmetry; exact E|].
        apply (key_inj_of_nodup (x :: r)); [exact N|left; reflexivity|right; exact Hyl|].
        apply sleb_antisym; [apply Hx; exact Hyl|apply Hy; exact Hxl]. }
      f_equal. apply IH.
      + inversion N; assumption.
      + inversion S; assumption.
      + inversion S'; assumption.
      + eapply Permutation_cons_inv. exact P.
  Qed.

  Lemma sort_by_perm_eq l l' : NoDup (map key l) -> Permutation l l' -> sort_by key l = sort_by key l'.
  Proof.
    intros N P. apply sorted_perm_unique.
    - eapply Permutation_NoDup; [|exact N]. apply Permutation_map. symmetry. apply sort_by_perm.
    - apply sort_by_sorted.
    - apply sort_by_sorted.
    - rewrite sort_by_perm, sort_by_perm. exact P.
  Qed.
End SortFacts.

Lemma sort_kv_perm {A} (d : dict A) : Permutation (sort_kv d) d.
Proof. apply sort_by_perm. Qed.
Lemma sort_kv_keys_perm {A} (d : dict A) : Permutation (keys (sort_kv d)) (keys d).
Proof. apply Permutation_map. apply sort_kv_perm. Qed.
Lemma sort_s_perm l : Permutation (sort_s l) l.
Proof. apply sort_by_perm. Qed.
Lemma sort_s_perm_eq l l' : NoDup l -> Permutation l l' -> sort_s l = sort_s l'.
Proof. intros N P. apply sort_by_perm_eq; [rewrite map_id; exact N|exact P]. Qed.
Lemma sort_s_inj_perm l l' : sort_s l = sort_s l' -> Permutation l l'.
Proof. intro E. rewrite <- (sort_s_perm l), <- (sort_s_perm l'), E. reflexivity. Qed.

Lemma nodup_snoc {X} (l : list X) x : NoDup l -> ~ In x l -> NoDup (l ++ [x]).
Proof.
  induction l as [|y r IH]; cbn; intros N H; [constructor; [tauto|constructor]|].
  inversion N as [|? ? Ny Nr]; subst. constructor.
  - rewrite in_app_iff. cbn. intros [H1|[H1|[]]]; [tauto|]. subst. tauto.
  - apply IH; tauto.
Qed.

(* ---- dictionaries ---- *)
Section DictFacts.
  Context {A : Type}.
  Implicit Types d : dict A.

  Lemma dmem_in k d : dmem k d = true <-> In k (keys d).
  Proof.
    unfold dmem. induction d as [|[k' v] r IH]; cbn; [split; [discriminate|tauto]|].
    destruct (String.eqb k k') eqn:E.
    - apply String.eqb_eq in E. subst. split; auto.
    - apply String.eqb_neq in E. rewrite IH. split; [auto|]. intros [H|H]; [congruence|exact H].
  Qed.
  Lemma dmem_false k d : dmem k d = false <-> ~ In k (keys d).
  Proof. rewrite <- dmem_in. destruct (dmem k d); split; congruence. Qed.
  Lemma dget_none k d : dget k d = None <-> ~ In k (keys d).
  Proof. rewrite <- dmem_false. unfold dmem. destruct (dget k d); split; congruence. Qed.
  Lemma dget_in k v d : dget k d = Some v -> In (k, v) d.
  Proof.
    induction d as [|[k' v'] r IH]; cbn; [discriminate|].
    destruct (String.eqb k k') eqn:E.
    - apply String.eqb_eq in E. subst. intros [= <-]. left. reflexivity.
    - intro H. right. apply IH. exact H.
  Qed.
  Lemma in_dget k v d : NoDup (keys d) -> In (k, v) d -> dget k d = Some v.
  Proof.
    induction d as [|[k' v'] r IH]; cbn; intros N H; [tauto|].
    inversion N as [|? ? Nk Nr]; subst.
    destruct H as [[= -> ->]|H].
    - rewrite String.eqb_refl. reflexivity.
    - destruct (String.eqb k k') eqn:E.
      + apply String.eqb_eq in E. subst. exfalso. apply Nk. change k' with (fst (k', v)). apply in_map. exact H.
      + apply IH; assumption.
  Qed.
  Lemma dget_some_in_keys k v d : dget k d = Some v -> In k (keys d).
  Proof. intro H. apply dget_in in H. change k with (fst (k, v)). apply in_map. exact H. Qed.

  Lemma dget_dset_same k v d : dget k (dset k v d) = Some v.
  Proof.
    induction d as [|[k' v'] r IH]; cbn; [rewrite String.eqb_refl; reflexivity|].
    destruct (String.eqb k k') eqn:E; cbn; [rewrite String.eqb_refl; reflexivity|rewrite E; exact IH].
  Qed.
  Lemma dget_dset_other k k2 v d : k2 <> k -> dget k2 (dset k v d) = dget k2 d.
  Proof.
    intro Hne. induction d as [|[k' v'] r IH]; cbn.
    - apply String.eqb_neq in Hne. rewrite Hne. reflexivity.
    - destruct (String.eqb k k') eqn:E; cbn.
      + apply String.eqb_eq in E. subst. apply String.eqb_neq in Hne. rewrite Hne. reflexivity.
      + destruct (String.eqb k2 k'); [reflexivity|exact IH].
  Qed.
  Lemma dset_fresh k v d : ~ In k (keys d) -> dset k v d = (d ++ [(k, v)])%list.
  Proof.
    induction d as [|[k' v'] r IH]; cbn; intro H; [reflexivity|].
    destruct (String.eqb k k') eqn:E.
    - apply String.eqb_eq in E. subst. tauto.
    - f_equal. apply IH. tauto.
  Qed.
  Lemma dset_same k v d : dget k d = Some v -> dset k v d = d.
  Proof.
    induction d as [|[k' v'] r IH]; cbn; [discriminate|].
    destruct (String.eqb k k') eqn:E.
    - apply String.eqb_eq in E. subst. intros [= ->]. reflexivity.
    - intro H. f_equal. apply IH. exact H.
  Qed.
  Lemma keys_dset_present k v d : In k (keys d) -> keys (dset k v d) = keys d.
  Proof.
    induction d as [|[k' v'] r IH]; cbn; intro H; [tauto|].
    destruct (String.eqb k k') eqn:E; cbn.
    - apply String.eqb_eq in E. subst. reflexivity.
    - f_equal. apply IH. destruct H as [H|H]; [apply String.eqb_neq in E; congruence|exact H].
  Qed.
  Lemma keys_dset k v d : keys (dset k v d) = if dmem k d then keys d else (keys d ++ [k])%list.
  Proof.
    destruct (dmem k d) eqn:E.
    - apply keys_dset_present. apply dmem_in. exact E.
    - apply dmem_false in E. rewrite (dset_fresh _ _ _ E). unfold keys. rewrite map_app. reflexivity.
  Qed.
  Lemma in_keys_dset k k2 v d : In k2 (keys (dset k v d)) <-> k2 = k \/ In k2 (keys d).
  Proof.
    rewrite keys_dset. destruct (dmem k d) eqn:E.
    - apply dmem_in in E. split; [auto|]. intros [->|H]; assumption.
    - rewrite in_app_iff. cbn. split; [intros [H|[H|[]]]; auto|intros [H|H]; auto].
  Qed.
  Lemma nodup_keys_dset k v d : NoDup (keys d) -> NoDup (keys (dset k v d)).
  Proof.
    intro N. rewrite keys_dset. destruct (dmem k d) eqn:E; [exact N|].
    apply dmem_false in E. apply nodup_snoc; assumption.
  Qed.
  Lemma in_dset k v d x : In x (dset k v d) -> x = (k, v) \/ In x d.
  Proof.
    induction d as [|[k' v'] r IH]; cbn; [intros [H|[]]; auto|].
    destruct (String.eqb k k'); cbn; intros [H|H]; auto. destruct (IH H); auto.
  Qed.
  Lemma in_vals_dset k v d x : In x (vals (dset k v d)) -> x = v \/ In x (vals d).
  Proof.
    unfold vals. rewrite !in_map_iff. intros [[k' v'] [E H]]. cbn in E. subst.
    destruct (in_dset _ _ _ _ H) as [[= _ ->]|H']; [auto|]. right. exists (k', x). auto.
  Qed.

  Lemma keys_ddel_incl k d x : In x (keys (ddel k d)) -> In x (keys d).
  Proof.
    induction d as [|[k' v'] r IH]; cbn; [tauto|].
    destruct (String.eqb k k'); cbn; [auto|]. intros [H|H]; auto.
  Qed.
  Lemma in_ddel k d x : In x (ddel k d) -> In x d.
  Proof.
    induction d as [|[k' v'] r IH]; cbn; [tauto|].
    destruct (String.eqb k k'); cbn; [auto|]. intros [H|H]; auto.
  Qed.
  Lemma nodup_keys_ddel k d : NoDup (keys d) -> NoDup (keys (ddel k d)).
  Proof.
    induction d as [|[k' v'] r IH]; cbn; intro N; [constructor|].
    inversion N as [|? ? Nk Nr]; subst.
    destruct (String.eqb k k'); cbn; [exact Nr|]. constructor; [|apply IH; exact Nr].
    intro H. apply Nk. eapply keys_ddel_incl. exact H.
  Qed.

  Lemma dget_perm k d d' : NoDup (keys d) -> Permutation d d' -> dget k d = dget k d'.
  Proof.
    intros N P.
    assert (N' : NoDup (keys d')) by (eapply Permutation_NoDup; [apply Permutation_map; exact P|exact N]).
    destruct (dget k d) as [v|] eqn:E.
    - symmetry. apply in_dget; [exact N'|]. eapply Permutation_in; [exact P|]. apply dget_in. exact E.
    - symmetry. apply dget_none. apply dget_none in E. intro H. apply E.
      eapply Permutation_in; [apply Permutation_map; symmetry; exact P|exact H].
  Qed.
End DictFacts.

Lemma smem_in x l : smem x l = true <-> In x l.
Proof.
  induction l as [|y r IH]; cbn; [split; [discriminate|tauto]|].
  rewrite orb_true_iff, IH, String.eqb_eq. split; intros [H|H]; auto.
Qed.
Lemma sdedup_in x l : In x (sdedup l) <-> In x l.
Proof.
  induction l as [|y r IH]; cbn; [tauto|].
  destruct (smem y r) eqn:E.
  - rewrite IH. apply smem_in in E. split; [auto|]. intros [<-|H]; auto.
  - cbn. rewrite IH. tauto.
Qed.
Lemma sdedup_nodup l : NoDup (sdedup l).
Proof.
  induction l as [|y r IH]; cbn; [constructor|].
  destruct (smem y r) eqn:E; [exact IH|].
  constructor; [|exact IH]. rewrite sdedup_in. intro H. apply smem_in in H. congruence.
Qed.
