(* Shared helpers: rationals, optional rationals ("series" with NaN), symbolic square roots,
   tolerant comparison used by the correspondence case files.  Definitions only are needed by
   the case files; lemmas are here because several properties share them. *)
From Coq Require Import ZArith QArith Qabs List Bool Lia Lqa Setoid Morphisms.
Import ListNotations.
Open Scope Q_scope.

Definition Qltb (a b : Q) : bool := negb (Qle_bool b a).
Definition Qleb (a b : Q) : bool := Qle_bool a b.
Definition Qeqb (a b : Q) : bool := Qeq_bool a b.
Definition Qmaxq (a b : Q) : Q := if Qle_bool a b then b else a.
Definition Qminq (a b : Q) : Q := if Qle_bool a b then a else b.
Definition Qofnat (n : nat) : Q := inject_Z (Z.of_nat n).

Lemma Qltb_lt a b : Qltb a b = true <-> a < b.
Proof.
  unfold Qltb. rewrite negb_true_iff. split; intro H.
  - destruct (Qlt_le_dec a b) as [L|L]; [exact L|]. apply Qle_bool_iff in L. congruence.
  - destruct (Qle_bool b a) eqn:E; [|reflexivity]. apply Qle_bool_iff in E. lra.
Qed.
Lemma Qltb_nlt a b : Qltb a b = false <-> b <= a.
Proof.
  unfold Qltb. rewrite negb_false_iff. apply Qle_bool_iff.
Qed.
Lemma Qleb_le a b : Qleb a b = true <-> a <= b.
Proof. apply Qle_bool_iff. Qed.

Fixpoint Qsum (l : list Q) : Q := match l with [] => 0 | x :: r => x + Qsum r end.

Lemma Qsum_app a b : Qsum (a ++ b) == Qsum a + Qsum b.
Proof. induction a as [|x a IH]; simpl; [ring|rewrite IH; ring]. Qed.

Lemma Qofnat_S n : Qofnat (S n) == 1 + Qofnat n.
Proof. unfold Qofnat. rewrite Nat2Z.inj_succ, <- Z.add_1_l, inject_Z_plus. reflexivity. Qed.
Lemma Qofnat_add a b : Qofnat (a + b) == Qofnat a + Qofnat b.
Proof. unfold Qofnat. rewrite Nat2Z.inj_add, inject_Z_plus. reflexivity. Qed.
Lemma Qofnat_nonneg n : 0 <= Qofnat n.
Proof. unfold Qofnat. change 0 with (inject_Z 0). rewrite <- Zle_Qle. lia. Qed.
Lemma Qofnat_pos n : (0 < n)%nat -> 0 < Qofnat n.
Proof. intro H. unfold Qofnat. change 0 with (inject_Z 0). rewrite <- Zlt_Qlt. lia. Qed.
Lemma Qofnat_zero n : Qofnat n == 0 -> n = 0%nat.
Proof.
  intro H. destruct n; [reflexivity|]. pose proof (Qofnat_pos (S n) ltac:(lia)). lra.
Qed.

(* ---- series: one optional value per position (None = NaN / missing) ---- *)
Definition series := list (option Q).

Definition opt2 (f : Q -> Q -> Q) (a b : option Q) : option Q :=
  match a, b with Some x, Some y => Some (f x y) | _, _ => None end.
Definition ser_sub (a b : series) : series := map (fun p => opt2 Qminus (fst p) (snd p)) (combine a b).
Definition ser_mul (a b : series) : series := map (fun p => opt2 Qmult (fst p) (snd p)) (combine a b).
Definition ser_abs (a : series) : series := map (option_map Qabs) a.
Definition ser_present (a : series) : list Q := flat_map (fun o => match o with Some x => [x] | None => [] end) a.
Definition ser_sum (a : series) : Q := Qsum (ser_present a).          (* pandas sum skips NaN *)
Definition ser_count (a : series) : Q := Qofnat (length (ser_present a)). (* Series.count() *)
Definition ser_len (a : series) : Q := Qofnat (length a).              (* len(series) *)
Definition ser_mean (a : series) : option Q :=                         (* pandas mean skips NaN; NaN if none *)
  match ser_present a with [] => None | l => Some (Qsum l / Qofnat (length l)) end.

(* ---- results that may be a square root (RMSE) ---- *)
Inductive res := RNone | RVal (q : Q) | RSqrt (q : Q).
Definition res_of_opt (o : option Q) : res := match o with Some q => RVal q | None => RNone end.
Definition res_sqrt_opt (o : option Q) : res := match o with Some q => RSqrt q | None => RNone end.
Definition res_eq (a b : res) : Prop :=
  match a, b with
  | RNone, RNone => True
  | RVal x, RVal y => x == y
  | RSqrt x, RSqrt y => x == y
  | _, _ => False
  end.
Lemma res_eq_refl a : res_eq a a.
Proof. destruct a; simpl; auto; reflexivity. Qed.
Lemma res_eq_sym a b : res_eq a b -> res_eq b a.
Proof. destruct a, b; simpl; auto; intro; symmetry; assumption. Qed.
Lemma res_eq_trans a b c : res_eq a b -> res_eq b c -> res_eq a c.
Proof. destruct a, b, c; simpl; auto; try tauto; intros; etransitivity; eassumption. Qed.

(* ---- tolerant comparison against an observed float (given as its exact rational) ---- *)
Definition close (tol a b : Q) : bool := Qle_bool (Qabs (a - b)) (tol * Qmaxq 1 (Qabs b)).
Definition agree_res (tol : Q) (r : res) (obs : option Q) : bool :=
  match r, obs with
  | RNone, None => true
  | RVal q, Some o => close tol o q
  | RSqrt q, Some o => Qle_bool 0 o && close tol (o * o) q
  | _, _ => false
  end.
Definition agree_opt (tol : Q) (r : option Q) (obs : option Q) : bool :=
  match r, obs with
  | None, None => true
  | Some q, Some o => close tol o q
  | _, _ => false
  end.
Definition tol32 : Q := 1 # 1048576.          (* 2^-20 *)
Definition tol64 : Q := 1 # 1099511627776.    (* 2^-40 *)

Fixpoint all2 {A B} (f : A -> B -> bool) (a : list A) (b : list B) : bool :=
  match a, b with
  | [], [] => true
  | x :: a', y :: b' => f x y && all2 f a' b'
  | _, _ => false
  end.
