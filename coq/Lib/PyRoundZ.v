(* Python's round() on an exact dyadic value m * 2^e: round-half-even.  Pure Z (no floats), so the
   property theorems can talk about "the rounded fraction" without depending on float primitives. *)
From Coq Require Import ZArith Lia.
Open Scope Z_scope.

(* round-half-even of m * 2^e to an integer *)
Definition round_half_even (m e : Z) : Z :=
  if 0 <=? e then m * 2 ^ e else
  let d := 2 ^ (- e) in
  let q := m / d in let r := m mod d in
  if 2 * r <? d then q else if d <? 2 * r then q + 1 else if Z.even q then q else q + 1.

(* the rounded value is a nearest integer: |round * d - m| <= d / 2 with d = 2^-e *)
Lemma round_half_even_nearest m e : e < 0 ->
  let d := 2 ^ (- e) in 2 * Z.abs (round_half_even m e * d - m) <= d.
Proof.
  intros He d. unfold round_half_even. assert ((0 <=? e) = false) as T by (apply Z.leb_gt; exact He). rewrite T.
  fold d. assert (0 < d) as Hd by (apply Z.pow_pos_nonneg; lia).
  pose proof (Z.div_mod m d ltac:(lia)) as DM. pose proof (Z.mod_pos_bound m d Hd) as MB.
  set (q := m / d) in *. set (r := m mod d) in *.
  destruct (2 * r <? d) eqn:A; [apply Z.ltb_lt in A; nia|]. apply Z.ltb_ge in A.
  destruct (d <? 2 * r) eqn:B; [apply Z.ltb_lt in B; nia|]. apply Z.ltb_ge in B.
  destruct (Z.even q); nia.
Qed.
Lemma round_half_even_exact m e : 0 <= e -> round_half_even m e = m * 2 ^ e.
Proof. intro H. unfold round_half_even. assert ((0 <=? e) = true) as T by (apply Z.leb_le; exact H). rewrite T. reflexivity. Qed.
