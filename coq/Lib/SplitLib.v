(* C05 helpers: index lists ("fancy indexing"), boolean masks, Python slices, numpy.array_split,
   filter/partition facts.  Definitions are executable; lemmas are shared by the C05 proofs. *)
From Coq Require Import ZArith List Bool Lia Permutation Arith PeanoNat.
Import ListNotations.

(* ---- outcomes --------------------------------------------------------------------------- *)
Inductive err := EValue | EType | ERuntime.
Inductive hres := HOk (idx : list nat) | HErr (e : err).

Definition err_code (e : err) : nat := match e with EValue => 1 | EType => 2 | ERuntime => 3 end.

(* ---- positions, gather (items[sel]), masks ---------------------------------------------- *)
Definition positions {A} (l : list A) : list nat := seq 0 (length l).
Definition gather {A} (d : A) (l : list A) (idx : list nat) : list A := map (fun p => nth p l d) idx.
Definition in_idx (idx : list nat) (p : nat) : bool := existsb (Nat.eqb p) idx.
(* df[mask] where mask[p] = keep p *)
Definition take_mask {A} (d : A) (keep : nat -> bool) (l : list A) : list A :=
  gather d l (filter keep (positions l)).
Definition all_idx (len : Z) : list nat := seq 0 (Z.to_nat len).

(* an index list that selects distinct existing rows *)
Definition valid_idx (len : nat) (idx : list nat) : Prop := NoDup idx /\ forall p, In p idx -> (p < len)%nat.

Fixpoint nodup_nat_b (l : list nat) : bool :=
  match l with [] => true | x :: r => negb (existsb (Nat.eqb x) r) && nodup_nat_b r end.
Definition valid_idx_b (len : nat) (idx : list nat) : bool :=
  nodup_nat_b idx && forallb (fun p => p <? len)%nat idx.
Definition is_perm_b (n : nat) (perm : list nat) : bool := (length perm =? n)%nat && valid_idx_b n perm.

(* ---- Python slice l[lo:hi] (step 1) -------------------------------------------------------- *)
Definition clip (len i : Z) : Z := if (i <? 0)%Z then Z.max (len + i) 0 else Z.min i len.
Definition py_slice {A} (l : list A) (lo hi : option Z) : list A :=
  let len := Z.of_nat (length l) in
  let a := match lo with None => 0%Z | Some i => clip len i end in
  let b := match hi with None => len | Some i => clip len i end in
  firstn (Z.to_nat (b - a)) (skipn (Z.to_nat a) l).

(* rng.choice(len, n, replace=False): the draw itself is supplied; numpy rejects n < 0 and n > len *)
Definition np_choice (draw : list nat) (len n : Z) : option (list nat) :=
  if ((0 <=? n) && (n <=? len))%Z then Some draw else None.

(* ---- numpy.array_split(l, k) ---------------------------------------------------------------- *)
Fixpoint chunks {A} (sizes : list nat) (l : list A) : list (list A) :=
  match sizes with
  | [] => []
  | s :: ss => firstn s l :: chunks ss (skipn s l)
  end.
Definition split_sizes (n k : nat) : list nat :=
  map (fun j => n / k + (if j <? n mod k then 1 else 0)) (seq 0 k).
Definition array_split {A} (l : list A) (k : nat) : list (list A) := chunks (split_sizes (length l) k) l.
(* [xs[i*size:(i+1)*size] for i in range(reps)] *)
Definition slices {A} (l : list A) (size reps : Z) : list (list A) :=
  map (fun i => py_slice l (Some (Z.of_nat i * size)%Z) (Some (Z.of_nat i * size + size)%Z)) (seq 0 (Z.to_nat reps)).

Definition sum_nat (l : list nat) : nat := fold_right Nat.add 0 l.

(* ============================================================================================ *)
(* lemmas                                                                                        *)
(* ============================================================================================ *)

Lemma in_idx_true idx p : in_idx idx p = true <-> In p idx.
Proof.
  unfold in_idx. rewrite existsb_exists. split.
  - intros [x [Hx E]]. apply Nat.eqb_eq in E. subst. exact Hx.
  - intro H. exists p. split; [exact H|apply Nat.eqb_refl].
Qed.

Lemma nodup_nat_b_sound l : nodup_nat_b l = true -> NoDup l.
Proof.
  induction l as [|x r IH]; cbn [nodup_nat_b]; intro H; [constructor|].
  apply andb_true_iff in H. destruct H as [H1 H2]. constructor; [|auto].
  intro Hin. apply negb_true_iff in H1.
  assert (existsb (Nat.eqb x) r = true) as E.
  { apply existsb_exists. exists x. split; [exact Hin|apply Nat.eqb_refl]. }
  congruence.
Qed.
Lemma nodup_nat_b_complete l : NoDup l -> nodup_nat_b l = true.
Proof.
  induction 1 as [|x r Hn Hd IH]; cbn [nodup_nat_b]; [reflexivity|].
  rewrite IH, andb_true_r. apply negb_true_iff. destruct (existsb (Nat.eqb x) r) eqn:E; [|reflexivity].
  apply existsb_exists in E. destruct E as [y [Hy E]]. apply Nat.eqb_eq in E. subst. contradiction.
Qed.
Lemma valid_idx_b_iff len idx : valid_idx_b len idx = true <-> valid_idx len idx.
Proof.
  unfold valid_idx_b, valid_idx. rewrite andb_true_iff, forallb_forall. split.
  - intros [H1 H2]. split; [apply nodup_nat_b_sound; exact H1|]. intros p Hp. apply Nat.ltb_lt. auto.
  - intros [H1 H2]. split; [apply nodup_nat_b_complete; exact H1|]. intros p Hp. apply Nat.ltb_lt. auto.
Qed.

(* a duplicate-free list of n numbers below n is a permutation of 0..n-1 *)
Lemma valid_idx_full_perm n l : valid_idx n l -> length l = n -> Permutation l (seq 0 n).
Proof.
  intros [Hnd Hlt] Hlen.
  apply NoDup_Permutation_bis; [exact Hnd | rewrite seq_length; lia |].
  intros x Hx. apply in_seq. specialize (Hlt x Hx). lia.
Qed.
Lemma is_perm_b_iff n perm : is_perm_b n perm = true <-> Permutation perm (seq 0 n).
Proof.
  unfold is_perm_b. rewrite andb_true_iff, Nat.eqb_eq, valid_idx_b_iff. split.
  - intros [Hl Hv]. apply valid_idx_full_perm; assumption.
  - intro P. split; [rewrite (Permutation_length P), seq_length; reflexivity|]. split.
    + apply (Permutation_NoDup (Permutation_sym P)). apply seq_NoDup.
    + intros p Hp. apply (Permutation_in _ P) in Hp. apply in_seq in Hp. lia.
Qed.

(* ---- gather -------------------------------------------------------------------------------- *)
Lemma gather_positions {A} (d : A) l : gather d l (positions l) = l.
Proof.
  unfold gather, positions. induction l as [|x l IH]; [reflexivity|].
  cbn [length seq map nth]. f_equal. rewrite <- seq_shift, map_map. exact IH.
Qed.
Lemma gather_app {A} (d : A) l a b : gather d l (a ++ b) = gather d l a ++ gather d l b.
Proof. unfold gather. apply map_app. Qed.
Lemma gather_length {A} (d : A) l idx : length (gather d l idx) = length idx.
Proof. unfold gather. apply map_length. Qed.
Lemma gather_perm {A} (d : A) l a b : Permutation a b -> Permutation (gather d l a) (gather d l b).
Proof. unfold gather. apply Permutation_map. Qed.
Lemma gather_concat {A} (d : A) l (ls : list (list nat)) :
  gather d l (concat ls) = concat (map (gather d l) ls).
Proof. unfold gather. apply concat_map. Qed.
Lemma gather_in {A} (d : A) l idx x : In x (gather d l idx) -> (forall p, In p idx -> (p < length l)%nat) -> In x l.
Proof.
  unfold gather. intros H Hr. apply in_map_iff in H. destruct H as [p [E Hp]]. subst. apply nth_In. auto.
Qed.

(* ---- filter / partition ---------------------------------------------------------------------- *)
Lemma filter_partition_perm {A} (f : A -> bool) l :
  Permutation (filter (fun x => negb (f x)) l ++ filter f l) l.
Proof.
  induction l as [|x l IH]; [constructor|]. cbn [filter]. destruct (f x); cbn [negb].
  - apply Permutation_sym. apply Permutation_cons_app. apply Permutation_sym. exact IH.
  - cbn [app]. constructor. exact IH.
Qed.
Lemma filter_ext_in' {A} (f g : A -> bool) l : (forall x, In x l -> f x = g x) -> filter f l = filter g l.
Proof.
  induction l as [|x l IH]; intro H; [reflexivity|]. cbn [filter].
  rewrite (H x (or_introl eq_refl)). rewrite IH; [reflexivity|]. intros y Hy. apply H. right. exact Hy.
Qed.

(* df[~mask] ++ df[mask] is the frame, up to order *)
Lemma take_mask_partition {A} (d : A) (f : nat -> bool) l :
  Permutation (take_mask d (fun p => negb (f p)) l ++ take_mask d f l) l.
Proof.
  unfold take_mask. rewrite <- gather_app.
  eapply Permutation_trans; [apply gather_perm; apply (filter_partition_perm f)|].
  rewrite gather_positions. apply Permutation_refl.
Qed.

(* selecting by a mask built from a valid index list = gathering that index list, up to order *)
Lemma filter_in_idx_perm n idx : valid_idx n idx -> Permutation (filter (in_idx idx) (seq 0 n)) idx.
Proof.
  intros [Hnd Hlt]. apply NoDup_Permutation.
  - apply NoDup_filter. apply seq_NoDup.
  - exact Hnd.
  - intro p. rewrite filter_In, in_idx_true, in_seq. split; [tauto|]. intro H. split; [|exact H].
    specialize (Hlt p H). lia.
Qed.
Lemma take_mask_gather {A} (d : A) l idx :
  valid_idx (length l) idx -> Permutation (take_mask d (in_idx idx) l) (gather d l idx).
Proof. intro H. unfold take_mask. apply gather_perm. apply filter_in_idx_perm. exact H. Qed.
Lemma take_mask_length {A} (d : A) l idx : valid_idx (length l) idx -> length (take_mask d (in_idx idx) l) = length idx.
Proof. intro H. rewrite (Permutation_length (take_mask_gather d l idx H)). apply gather_length. Qed.
Lemma take_mask_in {A} (d : A) f l x : In x (take_mask d f l) -> In x l.
Proof.
  unfold take_mask. intro H. apply (gather_in d l _ x H). intros p Hp.
  apply filter_In in Hp. destruct Hp as [Hp _]. apply in_seq in Hp. lia.
Qed.

(* if (a ++ b) is a rearrangement of l and g is injective on l, a and b share no g-value *)
Lemma perm_split_disjoint {A B} (g : A -> B) (a b l : list A) :
  Permutation (a ++ b) l -> NoDup (map g l) ->
  forall x y, In x a -> In y b -> g x <> g y.
Proof.
  intros P Hnd x y Hx Hy E.
  assert (NoDup (map g a ++ map g b)) as N.
  { rewrite <- map_app. apply (Permutation_NoDup (Permutation_sym (Permutation_map g P))). exact Hnd. }
  apply in_split in Hx. destruct Hx as [a1 [a2 Ea]]. subst a.
  rewrite map_app in N. cbn [map] in N. rewrite <- app_assoc in N. cbn [app] in N.
  apply NoDup_remove_2 in N. apply N. rewrite app_assoc. apply in_or_app. right.
  rewrite E. apply in_map. exact Hy.
Qed.

(* ---- chunks / array_split --------------------------------------------------------------------- *)
Lemma chunks_length {A} sizes (l : list A) : length (chunks sizes l) = length sizes.
Proof. revert l. induction sizes as [|s ss IH]; intro l; cbn [chunks length]; [reflexivity|]. rewrite IH. reflexivity. Qed.
Lemma firstn_add {A} s m (l : list A) : firstn (s + m) l = firstn s l ++ firstn m (skipn s l).
Proof.
  revert l. induction s as [|s IH]; intro l; [reflexivity|].
  destruct l as [|x l]; cbn [Nat.add firstn skipn app].
  - rewrite firstn_nil. reflexivity.
  - f_equal. apply IH.
Qed.
Lemma chunks_concat {A} sizes (l : list A) : concat (chunks sizes l) = firstn (sum_nat sizes) l.
Proof.
  revert l. induction sizes as [|s ss IH]; intro l; cbn [chunks concat sum_nat fold_right]; [reflexivity|].
  rewrite IH. change (fold_right Nat.add 0 ss) with (sum_nat ss). symmetry. apply firstn_add.
Qed.
Lemma sum_indicator m k : m <= k -> sum_nat (map (fun j => if j <? m then 1 else 0) (seq 0 k)) = m.
Proof.
  revert m. induction k as [|k IH]; intros m H.
  - assert (m = 0) by lia. subst. reflexivity.
  - rewrite seq_S, map_app. cbn [map Nat.add].
    assert (forall a b, sum_nat (a ++ b) = sum_nat a + sum_nat b) as SA.
    { induction a as [|x a IHa]; intro b; cbn [app sum_nat fold_right]; [reflexivity|]. fold (sum_nat (a ++ b)). fold (sum_nat a). rewrite IHa. lia. }
    rewrite SA. cbn [sum_nat fold_right]. destruct (Nat.eq_dec m (S k)) as [E|E].
    + subst m. assert ((k <? S k) = true) as T by (apply Nat.ltb_lt; lia). rewrite T.
      assert (sum_nat (map (fun j => if j <? S k then 1 else 0) (seq 0 k)) = k) as Q.
      { rewrite <- (IH k (Nat.le_refl k)) at 2. f_equal. apply map_ext_in. intros j Hj. apply in_seq in Hj.
        assert ((j <? S k) = true) as T1 by (apply Nat.ltb_lt; lia).
        assert ((j <? k) = true) as T2 by (apply Nat.ltb_lt; lia). rewrite T1, T2. reflexivity. }
      rewrite Q. lia.
    + assert ((k <? m) = false) as T by (apply Nat.ltb_ge; lia). rewrite T. rewrite IH by lia. lia.
Qed.
Lemma sum_nat_map_add (f g : nat -> nat) l : sum_nat (map (fun j => f j + g j) l) = sum_nat (map f l) + sum_nat (map g l).
Proof. induction l as [|x l IH]; cbn [map sum_nat fold_right]; [reflexivity|]. fold (sum_nat (map (fun j => f j + g j) l)). fold (sum_nat (map f l)). fold (sum_nat (map g l)). rewrite IH. lia. Qed.
Lemma sum_nat_const c l : sum_nat (map (fun _ : nat => c) l) = c * length l.
Proof. induction l as [|x l IH]; cbn [map sum_nat fold_right length]; [lia|]. fold (sum_nat (map (fun _ : nat => c) l)). rewrite IH. lia. Qed.
Lemma split_sizes_sum n k : 0 < k -> sum_nat (split_sizes n k) = n.
Proof.
  intro Hk. unfold split_sizes. rewrite (sum_nat_map_add (fun _ => n / k) (fun j => if j <? n mod k then 1 else 0)).
  rewrite sum_nat_const, seq_length. rewrite sum_indicator.
  - pose proof (Nat.div_mod n k ltac:(lia)). lia.
  - pose proof (Nat.mod_upper_bound n k ltac:(lia)). lia.
Qed.
Lemma array_split_concat {A} (l : list A) k : 0 < k -> concat (array_split l k) = l.
Proof. intro Hk. unfold array_split. rewrite chunks_concat, split_sizes_sum by exact Hk. apply firstn_all. Qed.
Lemma array_split_length {A} (l : list A) k : length (array_split l k) = k.
Proof. unfold array_split. rewrite chunks_length. unfold split_sizes. rewrite map_length, seq_length. reflexivity. Qed.

Lemma chunks_nth_length {A} sizes (l : list A) j :
  sum_nat sizes <= length l -> length (nth j (chunks sizes l) []) = nth j sizes 0.
Proof.
  revert l j. induction sizes as [|s ss IH]; intros l j H.
  - destruct j; reflexivity.
  - cbn [sum_nat fold_right] in H. fold (sum_nat ss) in H. destruct j as [|j]; cbn [chunks nth].
    + rewrite firstn_length. lia.
    + apply IH. rewrite skipn_length. lia.
Qed.
Lemma nth_map_seq (f : nat -> nat) k j : j < k -> nth j (map f (seq 0 k)) 0 = f j.
Proof.
  intro H. rewrite (nth_indep _ 0 (f 0)) by (rewrite map_length, seq_length; exact H).
  rewrite (map_nth f). rewrite seq_nth by exact H. reflexivity.
Qed.
Lemma array_split_sizes {A} (l : list A) k j : 0 < k -> j < k ->
  length (nth j (array_split l k) []) = length l / k + (if j <? length l mod k then 1 else 0).
Proof.
  intros Hk Hj. unfold array_split. rewrite chunks_nth_length by (rewrite split_sizes_sum by exact Hk; lia).
  unfold split_sizes. apply (nth_map_seq (fun j => length l / k + (if j <? length l mod k then 1 else 0))). exact Hj.
Qed.

Lemma NoDup_app_l {A} (a b : list A) : NoDup (a ++ b) -> NoDup a.
Proof.
  induction a as [|x a IH]; intro H; [constructor|]. cbn [app] in H. inversion H as [|? ? Hn Hd]; subst.
  constructor; [|auto]. intro Hx. apply Hn. apply in_or_app. left. exact Hx.
Qed.
Lemma NoDup_app_r {A} (a b : list A) : NoDup (a ++ b) -> NoDup b.
Proof.
  induction a as [|x a IH]; intro H; [exact H|]. cbn [app] in H. inversion H; subst. auto.
Qed.
Lemma NoDup_app_disj {A} (a b : list A) : NoDup (a ++ b) -> forall x, In x a -> In x b -> False.
Proof.
  induction a as [|y a IH]; intros H x Ha Hb; [destruct Ha|]. cbn [app] in H. inversion H as [|? ? Hn Hd]; subst.
  destruct Ha as [E|Ha]; [subst; apply Hn; apply in_or_app; right; exact Hb|]. exact (IH Hd x Ha Hb).
Qed.
(* sections of a duplicate-free list are duplicate-free and pairwise disjoint *)
Lemma NoDup_concat_each {A} (ls : list (list A)) : NoDup (concat ls) -> forall s, In s ls -> NoDup s.
Proof.
  induction ls as [|a ls IH]; intros H s Hs; [destruct Hs|]. cbn [concat] in H.
  destruct Hs as [E|Hs]; [subst; exact (NoDup_app_l _ _ H)|]. apply IH; [|exact Hs]. exact (NoDup_app_r _ _ H).
Qed.
Lemma in_concat_in {A} (ls : list (list A)) s x : In s ls -> In x s -> In x (concat ls).
Proof. intros Hs Hx. apply in_concat. exists s. split; assumption. Qed.

(* ---- slices -------------------------------------------------------------------------------------- *)
Lemma In_firstn {A} (l : list A) n x : In x (firstn n l) -> In x l.
Proof. intro H. rewrite <- (firstn_skipn n l). apply in_or_app. left. exact H. Qed.
Lemma In_skipn {A} (l : list A) n x : In x (skipn n l) -> In x l.
Proof. intro H. rewrite <- (firstn_skipn n l). apply in_or_app. right. exact H. Qed.
Lemma firstn_skipn_sub {A} (l : list A) a n : forall x, In x (firstn n (skipn a l)) -> In x l.
Proof. intros x H. apply In_firstn in H. apply In_skipn in H. exact H. Qed.
Lemma NoDup_skipn {A} (l : list A) a : NoDup l -> NoDup (skipn a l).
Proof. intro H. rewrite <- (firstn_skipn a l) in H. exact (NoDup_app_r _ _ H). Qed.
Lemma NoDup_firstn {A} (l : list A) a : NoDup l -> NoDup (firstn a l).
Proof. intro H. rewrite <- (firstn_skipn a l) in H. exact (NoDup_app_l _ _ H). Qed.
Lemma py_slice_sub {A} (l : list A) lo hi x : In x (py_slice l lo hi) -> In x l.
Proof. unfold py_slice. apply firstn_skipn_sub. Qed.
Lemma py_slice_NoDup {A} (l : list A) lo hi : NoDup l -> NoDup (py_slice l lo hi).
Proof. intro H. unfold py_slice. apply NoDup_firstn. apply NoDup_skipn. exact H. Qed.
(* the tail slice l[a:] with 0 <= a <= len *)
Lemma py_slice_tail {A} (l : list A) a : (0 <= a <= Z.of_nat (length l))%Z ->
  py_slice l (Some a) None = skipn (Z.to_nat a) l.
Proof.
  intros [H0 H1]. unfold py_slice, clip. assert ((a <? 0)%Z = false) as T by (apply Z.ltb_ge; exact H0). rewrite T.
  rewrite Z.min_l by exact H1. apply firstn_all2. rewrite skipn_length. lia.
Qed.
Lemma valid_idx_sub n (l s : list nat) : valid_idx n l -> NoDup s -> (forall x, In x s -> In x l) -> valid_idx n s.
Proof. intros [_ Hlt] Hs Hin. split; [exact Hs|]. intros p Hp. apply Hlt. apply Hin. exact Hp. Qed.
