(* Descending stable insertion sort by a rational key, and the facts about "the first n of the
   sorted list" used by C03 (top-n ranking) and C19 (top-n of random keys).  Axiom-free. *)
From Coq Require Import ZArith QArith List Bool Lia Lqa Sorted Permutation.
Import ListNotations.
Open Scope Q_scope.

(* ---- list facts missing from the 8.16 standard library ---- *)
Lemma NoDup_app_l {A} (l1 l2 : list A) : NoDup (l1 ++ l2) -> NoDup l1.
Proof.
  induction l1 as [|x l1 IH]; simpl; intro H; [constructor|].
  inversion H as [|? ? Hn Hd]; subst. constructor; [|auto].
  intro Hi. apply Hn. apply in_or_app. left. exact Hi.
Qed.
Lemma NoDup_app_r {A} (l1 l2 : list A) : NoDup (l1 ++ l2) -> NoDup l2.
Proof.
  induction l1 as [|x l1 IH]; simpl; intro H; [exact H|].
  inversion H; subst. auto.
Qed.
Lemma NoDup_app_disjoint {A} (l1 l2 : list A) x : NoDup (l1 ++ l2) -> In x l1 -> In x l2 -> False.
Proof.
  induction l1 as [|y l1 IH]; simpl; intros H H1 H2; [contradiction|].
  inversion H as [|? ? Hn Hd]; subst. destruct H1 as [->|H1].
  - apply Hn. apply in_or_app. right. exact H2.
  - eauto.
Qed.
Lemma NoDup_firstn {A} n (l : list A) : NoDup l -> NoDup (firstn n l).
Proof. intro H. rewrite <- (firstn_skipn n l) in H. eapply NoDup_app_l; eauto. Qed.
Lemma In_firstn {A} n (l : list A) x : In x (firstn n l) -> In x l.
Proof. intro H. rewrite <- (firstn_skipn n l). apply in_or_app. left. exact H. Qed.
Lemma In_skipn {A} n (l : list A) x : In x (skipn n l) -> In x l.
Proof. intro H. rewrite <- (firstn_skipn n l). apply in_or_app. right. exact H. Qed.
Lemma NoDup_map_firstn {A B} (f : A -> B) n (l : list A) : NoDup (map f l) -> NoDup (map f (firstn n l)).
Proof. intro H. rewrite <- firstn_map. apply NoDup_firstn. exact H. Qed.
Lemma StronglySorted_firstn {A} (R : A -> A -> Prop) n l : StronglySorted R l -> StronglySorted R (firstn n l).
Proof.
  revert n. induction l as [|x l IH]; intros n H; destruct n; simpl; try constructor.
  - apply IH. inversion H; assumption.
  - inversion H as [|? ? Hs Hf]; subst. rewrite Forall_forall in *. intros y Hy. apply Hf. eapply In_firstn; eauto.
Qed.
Lemma StronglySorted_split {A} (R : A -> A -> Prop) n l x y :
  StronglySorted R l -> In x (firstn n l) -> In y (skipn n l) -> R x y.
Proof.
  revert n. induction l as [|z l IH]; intros n H Hx Hy.
  - destruct n; simpl in Hx; contradiction.
  - destruct n; simpl in Hx, Hy; [contradiction|].
    inversion H as [|? ? Hs Hf]; subst. destruct Hx as [->|Hx].
    + rewrite Forall_forall in Hf. apply Hf. eapply In_skipn; eauto.
    + eapply IH; eauto.
Qed.

Section Sort.
  Context {A : Type} (key : A -> Q).

  (* x goes in front of the first element whose key is not larger: equal keys keep their order *)
  Fixpoint insert_desc (x : A) (l : list A) : list A :=
    match l with
    | [] => [x]
    | y :: r => if Qle_bool (key y) (key x) then x :: y :: r else y :: insert_desc x r
    end.
  Definition sort_desc (l : list A) : list A := fold_right insert_desc [] l.

  Definition desc (a b : A) : Prop := key b <= key a.

  Lemma insert_desc_perm x l : Permutation (insert_desc x l) (x :: l).
  Proof.
    induction l as [|y r IH]; simpl; [reflexivity|].
    destruct (Qle_bool (key y) (key x)); [reflexivity|].
    rewrite IH. apply perm_swap.
  Qed.
  Lemma sort_desc_perm l : Permutation (sort_desc l) l.
  Proof.
    induction l as [|x l IH]; simpl; [reflexivity|].
    rewrite insert_desc_perm. constructor. exact IH.
  Qed.
  Lemma insert_desc_sorted x l : StronglySorted desc l -> StronglySorted desc (insert_desc x l).
  Proof.
    induction l as [|y r IH]; simpl; intro H.
    - repeat constructor.
    - inversion H as [|? ? Hs Hf]; subst.
      destruct (Qle_bool (key y) (key x)) eqn:E.
      + apply Qle_bool_iff in E. constructor; [exact H|].
        constructor; [exact E|]. rewrite Forall_forall in *. intros z Hz. unfold desc in *.
        specialize (Hf z Hz). lra.
      + constructor; [apply IH; exact Hs|].
        assert (L : key x <= key y).
        { destruct (Qlt_le_dec (key x) (key y)) as [L|L]; [lra|]. apply Qle_bool_iff in L. congruence. }
        rewrite Forall_forall in *. intros z Hz.
        apply (Permutation_in _ (insert_desc_perm x r)) in Hz. destruct Hz as [<-|Hz]; [exact L|auto].
  Qed.
  Lemma sort_desc_sorted l : StronglySorted desc (sort_desc l).
  Proof. induction l as [|x l IH]; simpl; [constructor|apply insert_desc_sorted; exact IH]. Qed.

  Lemma sort_desc_in x l : In x (sort_desc l) <-> In x l.
  Proof.
    split; intro H; [eapply Permutation_in; [apply sort_desc_perm|exact H]|].
    eapply Permutation_in; [symmetry; apply sort_desc_perm|exact H].
  Qed.
  Lemma sort_desc_length l : length (sort_desc l) = length l.
  Proof. apply Permutation_length, sort_desc_perm. Qed.

  (* the first n of the sorted list dominate everything left out *)
  Lemma topn_dominates n l x y :
    In x (firstn n (sort_desc l)) -> In y (skipn n (sort_desc l)) -> key y <= key x.
  Proof. intros Hx Hy. exact (StronglySorted_split desc n _ x y (sort_desc_sorted l) Hx Hy). Qed.
End Sort.

Lemma sort_desc_NoDup_map {A B} (key : A -> Q) (f : A -> B) l : NoDup (map f l) -> NoDup (map f (sort_desc key l)).
Proof.
  intro H. eapply Permutation_NoDup; [|exact H]. apply Permutation_map. symmetry. apply sort_desc_perm.
Qed.
