(* C19 -- names for the facts that harness/translate/c19.py extracts from the source about HOW the components
   draw and how user-derived seeds are formed (the length / mask / key rules live in Lib/PyInt.v).
   Definitions only. *)

(* RandomSelector: the only use of the generator is rng.choice(len(items), n, replace=False) *)
Inductive draw_rule := DrawChoiceNoReplace.
(* the rankers: the only use of the generator is rng.uniform(0, 1, N) *)
Inductive uniform_rule := DrawUniform01PerEligible.

(* lenskit.random._bytes_seed: abs(xor-fold of the md5 digest read as four int32 words) *)
Inductive digest_rule := DigestMd5XorFold.
(* lenskit.random.make_seed: what each kind of key contributes to the entropy list, in the order of the branches *)
Inductive word_rule :=
| WSkipNone | WSeedSequenceEntropy | WNumpyInt | WInt | WDigestUuidBytes | WDigestUtf8 | WDigestBytes | WIntSequence.
(* DerivingRNG.__call__: no user -> a new child of the base seed on every call (SeedSequence.spawn);
   a user -> default_rng(make_seed(base, user_id)) *)
Inductive derive_rule := DeriveChildIfAnonymousElseBaseAndUser.
(* derivable_rng: 'user' -> DerivingRNG(SeedSequence()); (seed, 'user') -> DerivingRNG(make_seed(seed));
   anything else -> FixedRNG(default_rng(spec)) *)
Inductive spec_rule := SpecUserFreshEntropy | SpecSeedUser | SpecFixedGenerator.
