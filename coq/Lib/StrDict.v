(* Strings as keys: Python's insertion-ordered dict as an association list, and `sorted` by key.
   Definitions only; the lemmas are in Lib/StrDictFacts.v.  (Used by C13 and C14.) *)
From Coq Require Import String Ascii List Bool.
Import ListNotations.
Open Scope string_scope.

Definition sleb (a b : string) : bool := match String.compare a b with Gt => false | _ => true end.

Section Dict.
  Context {A : Type}.
  Definition dict := list (string * A).

  Fixpoint dget (k : string) (d : dict) : option A :=
    match d with
    | [] => None
    | (k', v) :: r => if String.eqb k k' then Some v else dget k r
    end.
  Definition dmem (k : string) (d : dict) : bool := match dget k d with Some _ => true | None => false end.
  (* d[k] = v : an existing key keeps its position *)
  Fixpoint dset (k : string) (v : A) (d : dict) : dict :=
    match d with
    | [] => [(k, v)]
    | (k', v') :: r => if String.eqb k k' then (k, v) :: r else (k', v') :: dset k v r
    end.
  Fixpoint ddel (k : string) (d : dict) : dict :=
    match d with
    | [] => []
    | (k', v') :: r => if String.eqb k k' then r else (k', v') :: ddel k r
    end.
  Definition keys (d : dict) : list string := map fst d.
  Definition vals (d : dict) : list A := map snd d.

  (* sorted(d.items(), key=lambda kv: kv[0]) : stable insertion sort on the key *)
  Fixpoint ins_kv (x : string * A) (l : dict) : dict :=
    match l with
    | [] => [x]
    | y :: r => if sleb (fst x) (fst y) then x :: y :: r else y :: ins_kv x r
    end.
  Fixpoint sort_kv (l : dict) : dict :=
    match l with [] => [] | x :: r => ins_kv x (sort_kv r) end.
End Dict.
Arguments dict A : clear implicits.

Fixpoint ins_s (x : string) (l : list string) : list string :=
  match l with
  | [] => [x]
  | y :: r => if sleb x y then x :: y :: r else y :: ins_s x r
  end.
Fixpoint sort_s (l : list string) : list string :=
  match l with [] => [] | x :: r => ins_s x (sort_s r) end.

Fixpoint smem (x : string) (l : list string) : bool :=
  match l with [] => false | y :: r => String.eqb x y || smem x r end.
(* set(...) of a list, keeping first occurrences *)
Fixpoint sdedup (l : list string) : list string :=
  match l with [] => [] | x :: r => if smem x r then sdedup r else x :: sdedup r end.
