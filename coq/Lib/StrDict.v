(* Strings as keys: Python's insertion-ordered dict as an association list, and `sorted` by key.
   Definitions only; the lemmas are in Lib/StrDictFacts.v.  (Used by C13 and C14.) *)
From Coq Require Import String Ascii List Bool.
Import ListNotations.
Open Scope string_scope.

Definition sleb (a b : string) : bool := match String.compare a b with Gt => false | _ => true end.

Section Dict.
  Context {A : Type}.
  Definition dict := list (string * A).

  Fixpoint dget (k : string) (d : dict) : option A :=
    match d with
    | [] => None
    | (k', v) :: r => if String.eqb k k' then Some v else dget k r
    end.
  Definition dmem (k : string) (d : dict) : bool := match dget k d with Some _ => true | None => false end.
  (* d[k] = v : an existing key keeps its position *)
  Fixpoint dset (k : string) (v : A) (d : dict) : dict :=
    match d with
    | [] => [(k, v)]
    | (k', v') :: r => if String.eqb k k' then (k, v) :: r else (k', v') :: dset k v r
    end.
  Fixpoint ddel (k : string) (d : dict) : dict :=
    match d with
    | [] => []
    | (k', v') :: r => if String.eqb k k' then r else (k', v') :: ddel k r
    end.
  Definition keys (d : dict) : list string := map fst d.
  Definition vals (d : dict) : list A := map snd d.

End Dict.
Arguments dict A : clear implicits.

(* sorted(xs, key=...) : stable insertion sort on a string key *)
Section SortBy.
  Context {X : Type} (key : X -> string).
  Fixpoint ins_by (x : X) (l : list X) : list X :=
    match l with
    | [] => [x]
    | y :: r => if sleb (key x) (key y) then x :: y :: r else y :: ins_by x r
    end.
  Fixpoint sort_by (l : list X) : list X :=
    match l with [] => [] | x :: r => ins_by x (sort_by r) end.
End SortBy.

(* sorted(d.items(), key=lambda kv: kv[0]) *)
Definition sort_kv {A : Type} (l : dict A) : dict A := sort_by (@fst string A) l.
(* sorted(strings) *)
Definition sort_s (l : list string) : list string := sort_by (fun x => x) l.

Fixpoint smem (x : string) (l : list string) : bool :=
  match l with [] => false | y :: r => String.eqb x y || smem x r end.
(* set(...) of a list, keeping first occurrences *)
Fixpoint sdedup (l : list string) : list string :=
  match l with [] => [] | x :: r => if smem x r then sdedup r else x :: sdedup r end.
