(* Shared lemmas about rank-weighted sums (used by C06; generic enough for any discounted metric).

   wsum w r a            = a_0 * w r + a_1 * w (r+1) + ...            (weights indexed by rank)
   wsum_pdom             prefix-sum domination  ==>  weighted-sum domination, for non-negative
                         non-increasing weights (Abel summation, proved by a carry induction)
   topj                  in a non-increasing list the first |a| entries have the largest sum among
                         all sub-multisets a of that size
   sort_desc             insertion sort into non-increasing order (a sorted permutation)
   swap_prefix           exchanging a smaller entry with a larger one further down never lowers a
                         prefix sum *)
From Coq Require Import ZArith QArith Qabs List Bool Lia Lqa Permutation Sorted Setoid Morphisms.
From LK Require Import Lib.QLib.
Import ListNotations.
Open Scope Q_scope.

(* ---- sums ---- *)
Definition bigsum (r n : nat) (F : nat -> Q) : Q := Qsum (map F (seq r n)).

Lemma bigsum_S r n F : bigsum r (S n) F = F r + bigsum (S r) n F.
Proof. reflexivity. Qed.

Lemma bigsum_ext r n F G : (forall i, (r <= i < r + n)%nat -> F i == G i) -> bigsum r n F == bigsum r n G.
Proof.
  revert r. induction n as [|n IH]; intros r H; [reflexivity|].
  rewrite !bigsum_S. rewrite (H r) by lia. rewrite (IH (S r)); [reflexivity|].
  intros i Hi. apply H. lia.
Qed.

Lemma Qsum_nonneg l : (forall x, In x l -> 0 <= x) -> 0 <= Qsum l.
Proof.
  induction l as [|x l IH]; intro H; simpl; [lra|].
  assert (0 <= x) by (apply H; left; reflexivity).
  assert (0 <= Qsum l) by (apply IH; intros y Hy; apply H; right; exact Hy). lra.
Qed.

Lemma In_firstn {A} (x : A) n l : In x (firstn n l) -> In x l.
Proof.
  revert l. induction n as [|n IH]; intros [|y l] H; cbn in H; try contradiction.
  destruct H as [H|H]; [left; exact H|right; apply IH; exact H].
Qed.

Lemma Qsum_firstn_skipn n l : Qsum l == Qsum (firstn n l) + Qsum (skipn n l).
Proof. rewrite <- (firstn_skipn n l) at 1. apply Qsum_app. Qed.

Lemma topsum_mono l : (forall x, In x l -> 0 <= x) ->
  forall n m, (n <= m)%nat -> Qsum (firstn n l) <= Qsum (firstn m l).
Proof.
  induction l as [|x l IH]; intros H n m L.
  - rewrite !firstn_nil. lra.
  - assert (Hx : 0 <= x) by (apply H; left; reflexivity).
    assert (Hl : forall y, In y l -> 0 <= y) by (intros y Hy; apply H; right; exact Hy).
    destruct n as [|n]; destruct m as [|m]; try lia.
    + simpl. lra.
    + simpl. assert (0 <= Qsum (firstn m l)).
      { apply Qsum_nonneg. intros y Hy. apply Hl. eapply In_firstn; eauto. }
      lra.
    + simpl. specialize (IH Hl n m ltac:(lia)). lra.
Qed.

Lemma Qsum_repeat_1 n : Qsum (repeat 1 n) == Qofnat n.
Proof. induction n as [|n IH]; [reflexivity|]. cbn [repeat Qsum]. rewrite IH, Qofnat_S. reflexivity. Qed.

Lemma Qsum_map_zero {A} (f : A -> Q) l : (forall x, In x l -> f x == 0) -> Qsum (map f l) == 0.
Proof.
  induction l as [|x l IH]; intro H; simpl; [reflexivity|].
  rewrite (H x) by (left; reflexivity). rewrite IH; [ring|]. intros y Hy. apply H. right. exact Hy.
Qed.

Lemma Qsum_map_ext {A} (f g : A -> Q) l : (forall x, In x l -> f x == g x) -> Qsum (map f l) == Qsum (map g l).
Proof.
  induction l as [|x l IH]; intro H; simpl; [reflexivity|].
  rewrite (H x) by (left; reflexivity). rewrite IH; [reflexivity|]. intros y Hy. apply H. right. exact Hy.
Qed.

(* ---- rank-weighted sums ---- *)
Fixpoint wsum (w : nat -> Q) (r : nat) (a : list Q) : Q :=
  match a with [] => 0 | x :: a' => x * w r + wsum w (S r) a' end.

Lemma wsum_nonneg w r a : (forall i, 0 <= w i) -> (forall x, In x a -> 0 <= x) -> 0 <= wsum w r a.
Proof.
  intros Hw. revert r. induction a as [|x a IH]; intros r Ha; simpl; [lra|].
  assert (0 <= x) by (apply Ha; left; reflexivity).
  assert (0 <= wsum w (S r) a) by (apply IH; intros y Hy; apply Ha; right; exact Hy).
  pose proof (Qmult_le_0_compat x (w r) H (Hw r)). lra.
Qed.

Lemma wsum_app w r a b : wsum w r (a ++ b) == wsum w r a + wsum w (r + length a) b.
Proof.
  revert r. induction a as [|x a IH]; intro r; simpl.
  - rewrite Nat.add_0_r. ring.
  - rewrite IH. replace (S r + length a)%nat with (r + S (length a))%nat by lia. ring.
Qed.

Lemma wsum_zeros w r n : wsum w r (repeat 0 n) == 0.
Proof. revert r. induction n as [|n IH]; intro r; simpl; [reflexivity|]. rewrite IH. ring. Qed.

Lemma wsum_all_zero w r a : (forall x, In x a -> x == 0) -> wsum w r a == 0.
Proof.
  revert r. induction a as [|x a IH]; intros r H; simpl; [reflexivity|].
  rewrite (H x) by (left; reflexivity). rewrite IH; [ring|]. intros y Hy. apply H. right. exact Hy.
Qed.

Lemma wsum_bigsum w r a :
  wsum w r a == bigsum r (length a) (fun i => nth (i - r) a 0 * w i).
Proof.
  revert r. induction a as [|x a IH]; intro r; [reflexivity|].
  cbn [wsum length]. rewrite bigsum_S, IH. rewrite Nat.sub_diag. cbn [nth].
  apply Qplus_comp; [reflexivity|].
  apply bigsum_ext. intros i Hi. replace (i - r)%nat with (S (i - S r)) by lia. reflexivity.
Qed.

Lemma wsum_ext w w' r a : (forall i, (r <= i < r + length a)%nat -> w i == w' i) -> wsum w r a == wsum w' r a.
Proof.
  revert r. induction a as [|x a IH]; intros r H; simpl; [reflexivity|].
  rewrite (H r) by (simpl; lia). rewrite (IH (S r)); [reflexivity|]. intros i Hi. apply H. simpl. lia.
Qed.

Lemma wsum_repeat_1 w r n : wsum w r (repeat 1 n) == bigsum r n w.
Proof.
  revert r. induction n as [|n IH]; intro r; [reflexivity|].
  cbn [repeat wsum]. rewrite bigsum_S, IH. ring.
Qed.

(* dot product against the weights of ranks r, r+1, ... *)
Fixpoint dot (a b : list Q) : Q :=
  match a, b with x :: a', y :: b' => x * y + dot a' b' | _, _ => 0 end.

Lemma dot_wsum w r a : dot a (map w (seq r (length a))) == wsum w r a.
Proof.
  revert r. induction a as [|x a IH]; intro r; [reflexivity|].
  cbn [length seq map dot wsum]. rewrite IH. reflexivity.
Qed.

(* ---- prefix-sum domination ---- *)
Definition pdom (a b : list Q) : Prop := forall j, Qsum (firstn j a) <= Qsum (firstn j b).

Section Weights.
  Variable w : nat -> Q.
  Hypothesis w_nonneg : forall r, 0 <= w r.
  Hypothesis w_noninc : forall r, w (S r) <= w r.

  Lemma wsum_pdom_carry : forall a b r c,
    0 <= c -> (forall x, In x b -> 0 <= x) ->
    (forall j, Qsum (firstn j a) <= Qsum (firstn j b) + c) ->
    wsum w r a <= wsum w r b + c * w r.
  Proof.
    induction a as [|x a IH]; intros b r c Hc Hb H.
    - cbn [wsum]. pose proof (wsum_nonneg w r b w_nonneg Hb).
      pose proof (Qmult_le_0_compat c (w r) Hc (w_nonneg r)). lra.
    - destruct b as [|y b].
      + assert (Hx : x <= c) by (specialize (H 1%nat); cbn in H; lra).
        assert (IHa := IH [] (S r) (c - x) ltac:(lra) Hb).
        cbn [wsum] in *.
        assert (H' : forall j, Qsum (firstn j a) <= Qsum (firstn j []) + (c - x)).
        { intro j. specialize (H (S j)). rewrite firstn_nil in *. cbn in *. lra. }
        specialize (IHa H').
        pose proof (Qmult_le_compat_r _ _ (c - x) (w_noninc r) ltac:(lra)) as M.
        lra.
      + assert (Hx : x <= y + c) by (specialize (H 1%nat); cbn in H; lra).
        assert (Hb' : forall z, In z b -> 0 <= z) by (intros z Hz; apply Hb; right; exact Hz).
        assert (IHa := IH b (S r) (y + c - x) ltac:(lra) Hb').
        assert (H' : forall j, Qsum (firstn j a) <= Qsum (firstn j b) + (y + c - x)).
        { intro j. specialize (H (S j)). cbn in H. lra. }
        specialize (IHa H'). cbn [wsum].
        pose proof (Qmult_le_compat_r _ _ (y + c - x) (w_noninc r) ltac:(lra)) as M.
        lra.
  Qed.

  Lemma wsum_pdom a b r : (forall x, In x b -> 0 <= x) -> pdom a b -> wsum w r a <= wsum w r b.
  Proof.
    intros Hb H. pose proof (wsum_pdom_carry a b r 0 ltac:(lra) Hb) as P.
    assert (forall j, Qsum (firstn j a) <= Qsum (firstn j b) + 0) by (intro j; specialize (H j); lra).
    specialize (P H0). lra.
  Qed.
End Weights.

Lemma pdom_firstn a b k : pdom a b -> pdom (firstn k a) (firstn k b).
Proof. intros H j. rewrite !firstn_firstn. apply H. Qed.

Lemma pdom_refl a : pdom a a.
Proof. intro j. lra. Qed.

(* ---- exchanging two entries ---- *)
Lemma swap_prefix_tail (u v : Q) b c : u <= v ->
  forall j, Qsum (firstn j (b ++ v :: c)) <= Qsum (firstn j (b ++ u :: c)) + (v - u) /\
            Qsum (firstn j (b ++ u :: c)) <= Qsum (firstn j (b ++ v :: c)).
Proof.
  intro L. induction b as [|h b IH]; intros [|j]; cbn; try lra.
  specialize (IH j). lra.
Qed.

Lemma swap_prefix (u v : Q) a b c : u <= v ->
  pdom (a ++ u :: b ++ v :: c) (a ++ v :: b ++ u :: c).
Proof.
  intros L. induction a as [|h a IH]; intros [|j]; cbn; try lra.
  - destruct (swap_prefix_tail u v b c L j). lra.
  - specialize (IH j). lra.
Qed.

(* ---- non-increasing lists and the top-j lemma ---- *)
Definition Qge' (a b : Q) : Prop := b <= a.
Definition desc (l : list Q) : Prop := StronglySorted Qge' l.

Lemma topj : forall l, desc l -> forall a b, Permutation (a ++ b) l ->
  Qsum a <= Qsum (firstn (length a) l).
Proof.
  intros l D. induction D as [|h t D IH F]; intros a b P.
  - apply Permutation_sym, Permutation_nil in P. destruct a; [cbn; lra|discriminate].
  - destruct a as [|x a]; [cbn; lra|].
    assert (Hin : In h ((x :: a) ++ b)) by (eapply Permutation_in; [apply Permutation_sym, P|left; reflexivity]).
    apply in_app_or in Hin. destruct Hin as [Hin|Hin].
    + apply in_split in Hin. destruct Hin as (a1 & a2 & E).
      assert (P' : Permutation ((a1 ++ a2) ++ b) t).
      { apply (Permutation_cons_inv (a := h)). etransitivity; [|exact P].
        rewrite E. rewrite <- !app_assoc. cbn. apply Permutation_middle. }
      specialize (IH _ _ P').
      assert (Len : length (a1 ++ a2) = length a).
      { apply (f_equal (@length Q)) in E. rewrite app_length in *. cbn in E. lia. }
      rewrite Len in IH.
      assert (S1 : x + Qsum a == h + Qsum (a1 ++ a2)).
      { change (Qsum (x :: a) == h + Qsum (a1 ++ a2)). rewrite E, !Qsum_app. cbn [Qsum]. ring. }
      cbn [length firstn Qsum]. lra.
    + apply in_split in Hin. destruct Hin as (b1 & b2 & E).
      assert (P' : Permutation (a ++ (x :: b1 ++ b2)) t).
      { apply (Permutation_cons_inv (a := h)). etransitivity; [|exact P].
        rewrite E. cbn.
        assert (Q1 : Permutation (h :: a ++ x :: b1 ++ b2) (h :: x :: a ++ b1 ++ b2)).
        { apply perm_skip. apply Permutation_sym, Permutation_middle. }
        assert (Q2 : Permutation (h :: a ++ b1 ++ b2) (a ++ b1 ++ h :: b2)).
        { rewrite !app_assoc. apply Permutation_middle. }
        etransitivity; [exact Q1|]. etransitivity; [apply perm_swap|]. apply perm_skip. exact Q2. }
      specialize (IH _ _ P').
      assert (Hx : x <= h).
      { assert (In x (h :: t)) by (eapply Permutation_in; [exact P|left; reflexivity]).
        destruct H as [H|H]; [subst; lra|]. rewrite Forall_forall in F. apply (F x H). }
      cbn [length firstn Qsum]. lra.
Qed.

(* ---- insertion sort into non-increasing order of a rational key ---- *)
Section SortBy.
  Context {A : Type} (key : A -> Q).

  Fixpoint insert_by (x : A) (l : list A) : list A :=
    match l with
    | [] => [x]
    | h :: t => if Qle_bool (key h) (key x) then x :: h :: t else h :: insert_by x t
    end.
  Definition sort_desc_by (l : list A) : list A := fold_right insert_by [] l.

  Lemma insert_by_perm x l : Permutation (x :: l) (insert_by x l).
  Proof.
    induction l as [|h t IH]; cbn; [apply Permutation_refl|].
    destruct (Qle_bool (key h) (key x)); [apply Permutation_refl|].
    etransitivity; [apply perm_swap|]. apply perm_skip. exact IH.
  Qed.

  Lemma sort_desc_by_perm l : Permutation l (sort_desc_by l).
  Proof.
    induction l as [|x l IH]; cbn; [constructor|].
    etransitivity; [apply perm_skip, IH|]. apply insert_by_perm.
  Qed.

  Lemma sort_desc_by_length l : length (sort_desc_by l) = length l.
  Proof. symmetry. apply Permutation_length, sort_desc_by_perm. Qed.

  Lemma insert_by_desc x l : desc (map key l) -> desc (map key (insert_by x l)).
  Proof.
    induction l as [|h t IH]; intro D; cbn.
    - constructor; constructor.
    - cbn in D. apply StronglySorted_inv in D. destruct D as [D F].
      destruct (Qle_bool (key h) (key x)) eqn:E.
      + apply Qle_bool_iff in E. cbn. constructor.
        * constructor; assumption.
        * constructor; [exact E|]. eapply Forall_impl; [|exact F]. unfold Qge'. intros a Ha. lra.
      + assert (L : key x <= key h).
        { destruct (Qlt_le_dec (key x) (key h)) as [L|L]; [lra|]. apply Qle_bool_iff in L. congruence. }
        cbn. constructor; [apply IH; exact D|].
        assert (P : Permutation (key x :: map key t) (map key (insert_by x t))).
        { change (key x :: map key t) with (map key (x :: t)). apply Permutation_map, insert_by_perm. }
        eapply Permutation_Forall; [exact P|]. constructor; [exact L|exact F].
  Qed.

  Lemma sort_desc_by_desc l : desc (map key (sort_desc_by l)).
  Proof. induction l as [|x l IH]; cbn; [constructor|]. apply insert_by_desc, IH. Qed.
End SortBy.

Definition sort_desc (l : list Q) : list Q := sort_desc_by (fun x => x) l.

Lemma sort_desc_perm l : Permutation l (sort_desc l).
Proof. apply sort_desc_by_perm. Qed.
Lemma sort_desc_desc l : desc (sort_desc l).
Proof. pose proof (sort_desc_by_desc (fun x : Q => x) l) as H. rewrite map_id in H. exact H. Qed.

Lemma insert_by_map {A} (key : A -> Q) x l :
  map key (insert_by key x l) = insert_by (fun q => q) (key x) (map key l).
Proof.
  induction l as [|h t IH]; cbn; [reflexivity|].
  destruct (Qle_bool (key h) (key x)); cbn; [reflexivity|]. rewrite IH. reflexivity.
Qed.
Lemma sort_desc_by_map {A} (key : A -> Q) l : map key (sort_desc_by key l) = sort_desc (map key l).
Proof.
  unfold sort_desc, sort_desc_by. induction l as [|x l IH]; cbn [fold_right map]; [reflexivity|].
  rewrite insert_by_map. f_equal. exact IH.
Qed.

Lemma sort_desc_repeat (c : Q) n : sort_desc (repeat c n) = repeat c n.
Proof.
  unfold sort_desc, sort_desc_by. induction n as [|n IH]; [reflexivity|].
  cbn [repeat fold_right]. rewrite IH. destruct n; cbn; [reflexivity|].
  assert (E : Qle_bool c c = true) by (apply Qle_bool_iff; lra). rewrite E. reflexivity.
Qed.

Lemma In_sort_desc x l : In x (sort_desc l) <-> In x l.
Proof.
  split; intro H.
  - eapply Permutation_in; [apply Permutation_sym, sort_desc_perm|exact H].
  - eapply Permutation_in; [apply sort_desc_perm|exact H].
Qed.

(* the top-n sum of the sorted list dominates every n-element sub-multiset; two corollaries used
   to bound the gain collected by a duplicate-free ranking *)
Lemma topsum_insert_skip g G n :
  0 <= g -> (forall x, In x G -> 0 <= x) ->
  Qsum (firstn n (sort_desc G)) <= Qsum (firstn n (sort_desc (g :: G))).
Proof.
  intros Hg HS. set (S' := sort_desc G).
  assert (P : Permutation (firstn n S' ++ (skipn n S' ++ [g])) (sort_desc (g :: G))).
  { rewrite app_assoc, firstn_skipn. etransitivity; [apply Permutation_sym, Permutation_cons_append|].
    etransitivity; [apply perm_skip, Permutation_sym, sort_desc_perm|]. apply sort_desc_perm. }
  pose proof (topj _ (sort_desc_desc (g :: G)) _ _ P) as T.
  eapply Qle_trans; [exact T|]. apply topsum_mono.
  - intros x Hx. apply (proj1 (In_sort_desc _ _)) in Hx. cbn [In] in Hx. destruct Hx as [E|Hx]; [rewrite <- E; exact Hg|apply HS, Hx].
  - rewrite firstn_length. lia.
Qed.

Lemma topsum_insert_take g G n :
  0 <= g -> (forall x, In x G -> 0 <= x) ->
  g + Qsum (firstn n (sort_desc G)) <= Qsum (firstn (S n) (sort_desc (g :: G))).
Proof.
  intros Hg HS. set (S' := sort_desc G).
  assert (P : Permutation ((g :: firstn n S') ++ skipn n S') (sort_desc (g :: G))).
  { cbn. rewrite firstn_skipn.
    etransitivity; [apply perm_skip, Permutation_sym, sort_desc_perm|]. apply sort_desc_perm. }
  pose proof (topj _ (sort_desc_desc (g :: G)) _ _ P) as T. cbn [Qsum length] in T.
  eapply Qle_trans; [exact T|]. apply topsum_mono.
  - intros x Hx. apply (proj1 (In_sort_desc _ _)) in Hx. cbn [In] in Hx. destruct Hx as [E|Hx]; [rewrite <- E; exact Hg|apply HS, Hx].
  - rewrite firstn_length. lia.
Qed.

(* two non-increasing arrangements of the same multiset have the same top-n sums *)
Lemma topsum_desc_unique l1 l2 n : desc l1 -> desc l2 -> Permutation l1 l2 ->
  Qsum (firstn n l1) == Qsum (firstn n l2).
Proof.
  intros D1 D2 P.
  assert (A : forall l1 l2, desc l2 -> Permutation l1 l2 -> Qsum (firstn n l1) <= Qsum (firstn n l2)).
  { clear. intros l1 l2 D P.
    assert (P' : Permutation (firstn n l1 ++ skipn n l1) l2) by (rewrite firstn_skipn; exact P).
    pose proof (topj _ D _ _ P') as T. rewrite firstn_length in T.
    destruct (Nat.le_gt_cases n (length l1)) as [L|L].
    - rewrite Nat.min_l in T by lia. exact T.
    - rewrite Nat.min_r in T by lia.
      assert (E : length l2 = length l1) by (symmetry; apply Permutation_length, P).
      rewrite <- E in T. rewrite firstn_all in T.
      rewrite (firstn_all2 (n := n) l2) by lia. exact T. }
  apply Qle_antisym; [apply A; assumption|apply A; [assumption|apply Permutation_sym; assumption]].
Qed.
