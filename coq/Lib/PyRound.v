(* Python's round(len * frac) for an int `len` and a float `frac`: the product is one IEEE-754
   binary64 multiplication (PrimFloat.mul), round() is round-half-even on its exact value.
   PrimFloat / Uint63 / FloatOps are imported (not Floats): the primitives show up in
   Print Assumptions of whatever mentions py_round_mul; the C05 theorems therefore quantify over
   an arbitrary rounding function and only the model instantiates it with py_round_mul. *)
From Coq Require Import ZArith Uint63 PrimFloat FloatOps SpecFloat Lia.
Open Scope Z_scope.

(* exact value of a finite float as mantissa * 2^exp *)
Definition f2me (f : float) : option (Z * Z) :=
  match Prim2SF f with
  | S754_zero _ => Some (0, 0)
  | S754_finite s m e => Some ((if s then -1 else 1) * Zpos m, e)
  | _ => None
  end.

(* round-half-even of m * 2^e to an integer *)
Definition round_half_even (m e : Z) : Z :=
  if 0 <=? e then m * 2 ^ e else
  let d := 2 ^ (- e) in
  let q := m / d in let r := m mod d in
  if 2 * r <? d then q else if d <? 2 * r then q + 1 else if Z.even q then q else q + 1.

(* None: the product is NaN or infinite (Python raises) *)
Definition py_round_mul (len : Z) (frac : float) : option Z :=
  match f2me (PrimFloat.mul (of_uint63 (Uint63.of_Z len)) frac) with
  | Some (m, e) => Some (round_half_even m e)
  | None => None
  end.

(* the rounded value is a nearest integer: |round * d - m| <= d / 2 with d = 2^-e *)
Lemma round_half_even_nearest m e : e < 0 ->
  let d := 2 ^ (- e) in 2 * Z.abs (round_half_even m e * d - m) <= d.
Proof.
  intros He d. unfold round_half_even. assert ((0 <=? e) = false) as T by (apply Z.leb_gt; exact He). rewrite T.
  fold d. assert (0 < d) as Hd by (apply Z.pow_pos_nonneg; lia).
  pose proof (Z.div_mod m d ltac:(lia)) as DM. pose proof (Z.mod_pos_bound m d Hd) as MB.
  set (q := m / d) in *. set (r := m mod d) in *.
  destruct (2 * r <? d) eqn:A; [apply Z.ltb_lt in A; nia|]. apply Z.ltb_ge in A.
  destruct (d <? 2 * r) eqn:B; [apply Z.ltb_lt in B; nia|]. apply Z.ltb_ge in B.
  destruct (Z.even q); nia.
Qed.
Lemma round_half_even_exact m e : 0 <= e -> round_half_even m e = m * 2 ^ e.
Proof. intro H. unfold round_half_even. assert ((0 <=? e) = true) as T by (apply Z.leb_le; exact H). rewrite T. reflexivity. Qed.
