(* Python's round(len * frac) for an int `len` and a float `frac`: the product is one IEEE-754
   binary64 multiplication (PrimFloat.mul), round() is round-half-even on its exact value.
   PrimFloat / Uint63 / FloatOps are imported (not Floats): the primitives show up in
   Print Assumptions of whatever mentions py_round_mul; the C05 theorems therefore quantify over
   an arbitrary rounding function and only the model instantiates it with py_round_mul. *)
From Coq Require Import ZArith Uint63 PrimFloat FloatOps SpecFloat Lia.
From LK Require Export Lib.PyRoundZ.
Open Scope Z_scope.

(* exact value of a finite float as mantissa * 2^exp *)
Definition f2me (f : float) : option (Z * Z) :=
  match Prim2SF f with
  | S754_zero _ => Some (0, 0)
  | S754_finite s m e => Some ((if s then -1 else 1) * Zpos m, e)
  | _ => None
  end.

(* None: the product is NaN or infinite (Python raises) *)
Definition py_round_mul (len : Z) (frac : float) : option Z :=
  match f2me (PrimFloat.mul (of_uint63 (Uint63.of_Z len)) frac) with
  | Some (m, e) => Some (round_half_even m e)
  | None => None
  end.

