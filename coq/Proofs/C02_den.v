(* C02 -- properties of the specification [den] alone (no runner state):
   extensionality in the recursive call, independence of the fuel on ranked (acyclic) graphs, the
   fixpoint equation, and the relation between evaluating a node for a consumer that does not /
   does require it (same value and trace, or Skip vs. EMissing, or error vs. error). *)
From Coq Require Import ZArith List Bool Arith Lia.
From LK Require Import Model.C02_runner Proofs.C02_basic.
Import ListNotations.

(* acyclic wiring, witnessed by a rank that decreases along every connection *)
Definition ranked (g : graph) (rank : name -> nat) : Prop :=
  forall n ps body src, lookup n g = Some (Comp ps body) -> In src (srcs ps) -> rank src < rank n.

Section Ext.
Variables d1 d2 : name -> bool -> dres * list name.

Lemma den_args_ext r : forall ps,
  (forall src rq, In src (srcs ps) -> d1 src rq = d2 src rq) ->
  forall acc tr, den_args d1 r ps acc tr = den_args d2 r ps acc tr.
Proof.
  induction ps as [|p ps IH]; intros H acc tr; simpl; [reflexivity|].
  assert (Htl : forall src rq, In src (srcs ps) -> d1 src rq = d2 src rq) by (intros; apply H, srcs_cons_tl; auto).
  destruct (p_src p) as [src|] eqn:Es.
  - destruct (p_lazy p) eqn:El.
    + simpl. rewrite IH by exact Htl. reflexivity.
    + rewrite (H src (r && p_strict p) (srcs_cons_in _ _ _ Es)).
      destruct (d2 src (r && p_strict p)) as [d t]. destruct d; try reflexivity; simpl;
        repeat (match goal with |- context [if ?b then _ else _] => destruct b end; try reflexivity); apply IH, Htl.
  - simpl. destruct (p_lazy p); [apply IH, Htl|].
    repeat (match goal with |- context [if ?b then _ else _] => destruct b end; try reflexivity); apply IH, Htl.
Qed.

Lemma den_exec_ext ps r :
  (forall src rq, In src (srcs ps) -> d1 src rq = d2 src rq) ->
  forall p tr, den_exec d1 ps r p tr = den_exec d2 ps r p tr.
Proof.
  intros H. induction p as [v|e|i k IH|i k IHk h IHh]; intros tr; simpl; try reflexivity.
  - destruct (nth_error ps i) as [q|] eqn:Eq; [|reflexivity].
    destruct (negb (p_lazy q)); [reflexivity|].
    destruct (p_src q) as [src|] eqn:Es; [|apply IH].
    rewrite (H src (r && p_strict q) (srcs_nth _ _ _ _ Eq Es)).
    destruct (d2 src (r && p_strict q)) as [d t]. destruct d; try reflexivity; simpl;
      (destruct (p_typed q && negb (p_compat q _)); [reflexivity|apply IH]).
  - destruct (nth_error ps i) as [q|] eqn:Eq; [|reflexivity].
    destruct (negb (p_lazy q)); [reflexivity|].
    destruct (p_src q) as [src|] eqn:Es; [|apply IHk].
    rewrite (H src (r && p_strict q) (srcs_nth _ _ _ _ Eq Es)).
    destruct (d2 src (r && p_strict q)) as [d t]. destruct d; try apply IHh; simpl;
      (destruct (p_typed q && negb (p_compat q _)); [apply IHh|apply IHk]).
Qed.

Lemma den_step_ext g inputs n r :
  (forall ps body src rq, lookup n g = Some (Comp ps body) -> In src (srcs ps) -> d1 src rq = d2 src rq) ->
  den_step g inputs d1 n r = den_step g inputs d2 n r.
Proof.
  intros H. unfold den_step. destruct (lookup n g) as [[t nl|v|ps body]|] eqn:Eg; try reflexivity.
  assert (H' : forall src rq, In src (srcs ps) -> d1 src rq = d2 src rq) by (intros; eapply H; eauto).
  rewrite (den_args_ext r ps H'). destruct (den_args d2 r ps [] []) as [[a| |e] tr]; try reflexivity.
  apply den_exec_ext, H'.
Qed.
End Ext.

Section Acyclic.
Variable g : graph.
Variable inputs : list (name * val).
Variable rank : name -> nat.
Hypothesis Hrank : ranked g rank.

Lemma den_stable : forall f1 f2 n r, rank n < f1 -> rank n < f2 -> den g inputs f1 n r = den g inputs f2 n r.
Proof.
  induction f1 as [|f1 IH]; intros f2 n r H1 H2; [lia|].
  destruct f2 as [|f2]; [lia|]. simpl.
  apply den_step_ext. intros ps body src rq Hl Hin.
  pose proof (Hrank _ _ _ _ Hl Hin). apply IH; lia.
Qed.

Variable F : nat.
Hypothesis HF : forall n, rank n < F.

Definition D : name -> bool -> dres * list name := den g inputs F.

Lemma D_fix n r : D n r = den_step g inputs D n r.
Proof.
  unfold D. destruct F as [|F'] eqn:EF; [specialize (HF n); lia|].
  change (den g inputs (S F') n r) with (den_step g inputs (den g inputs F') n r).
  apply den_step_ext. intros ps body src rq Hl Hin.
  pose proof (Hrank _ _ _ _ Hl Hin). pose proof (HF n). apply den_stable; lia.
Qed.
End Acyclic.

Lemma den_fuel_irrelevant g inputs rank F1 F2 :
  ranked g rank -> (forall n, rank n < F1) -> (forall n, rank n < F2) ->
  forall n r, den g inputs F1 n r = den g inputs F2 n r.
Proof. intros Hr H1 H2 n r. eapply den_stable; eauto. Qed.

(* ---------------------------------------------------------------------------------------- *)
(* not required vs. required                                                                  *)
(* ---------------------------------------------------------------------------------------- *)

(* of = outcome for required=false, ot = for required=true *)
Definition rel2 (of ot : dres * list name) : Prop :=
  match fst of with
  | DVal _ => ot = of
  | DSkip => fst ot = DErr EMissing /\ snd ot = snd of
  | DErr _ => exists e, fst ot = DErr e
  end.
Definition relA (af at' : dares * list name) : Prop :=
  match fst af with
  | DAOk _ => at' = af
  | DABail => fst at' = DAErr EMissing /\ snd at' = snd af
  | DAErr _ => exists e, fst at' = DAErr e
  end.
Definition relE (ef et : dres * list name) : Prop :=
  match fst ef with
  | DVal _ => et = ef
  | DSkip => False
  | DErr _ => exists e, fst et = DErr e
  end.

Section Rel.
Variable d : name -> bool -> dres * list name.

Lemma den_exec_not_skip ps r : forall p tr, fst (den_exec d ps r p tr) <> DSkip.
Proof.
  induction p as [v|e|i k IH|i k IHk h IHh]; intros tr; simpl; try discriminate.
  - destruct (nth_error ps i) as [q|]; [|simpl; discriminate].
    destruct (negb (p_lazy q)); [simpl; discriminate|].
    destruct (p_src q) as [src|]; [|apply IH].
    destruct (d src (r && p_strict q)) as [dd t]. destruct dd; simpl; try discriminate;
      (destruct (p_typed q && negb (p_compat q _)); [simpl; discriminate|apply IH]).
  - destruct (nth_error ps i) as [q|]; [|simpl; discriminate].
    destruct (negb (p_lazy q)); [simpl; discriminate|].
    destruct (p_src q) as [src|]; [|apply IHk].
    destruct (d src (r && p_strict q)) as [dd t]. destruct dd; simpl; try apply IHh;
      (destruct (p_typed q && negb (p_compat q _)); [apply IHh|apply IHk]).
Qed.

Lemma den_step_true_not_skip g inputs n : fst (den_step g inputs d n true) <> DSkip.
Proof.
  unfold den_step. destruct (lookup n g) as [[t nl|v|ps body]|]; simpl; try discriminate.
  - destruct (lookup n inputs); [destruct (t && negb (is_int v)); simpl; discriminate|].
    destruct (t && negb nl); simpl; discriminate.
  - destruct (den_args d true ps [] []) as [[a| |e] tr]; simpl; try discriminate. apply den_exec_not_skip.
Qed.

Lemma den_args_rel : forall ps,
  (forall src, In src (srcs ps) -> rel2 (d src false) (d src true) /\ fst (d src true) <> DSkip) ->
  forall acc tr, relA (den_args d false ps acc tr) (den_args d true ps acc tr).
Proof.
  induction ps as [|p ps IH]; intros H acc tr.
  - simpl. unfold relA. simpl. reflexivity.
  - assert (Htl : forall src, In src (srcs ps) -> rel2 (d src false) (d src true) /\ fst (d src true) <> DSkip)
      by (intros; apply H, srcs_cons_tl; auto).
    simpl. destruct (p_src p) as [src|] eqn:Es.
    + destruct (p_lazy p) eqn:El; [simpl; apply IH, Htl|].
      simpl. destruct (p_strict p) eqn:Est.
      * (* a strict eager parameter: ireq follows required *)
        destruct (H src (srcs_cons_in _ _ _ Es)) as [Hr Hns]. unfold rel2 in Hr.
        destruct (d src false) as [df tf] eqn:Edf. destruct (d src true) as [dt tt] eqn:Edt. simpl in *.
        assert (Htyped : p_typed p = true /\ p_nullable p = false).
        { unfold p_strict in Est. destruct (p_typed p), (p_nullable p); simpl in Est; try discriminate; auto. }
        destruct Htyped as [Ety Enu].
        destruct df as [vf| |ef].
        -- inversion Hr; subst. destruct vf as [x|]; simpl.
           ++ unfold p_compat, compat. rewrite Ety. destruct (accepts (p_ty p) x); simpl; [apply IH, Htl|].
              unfold relA; simpl; eauto.
           ++ unfold p_compat, compat. rewrite Ety, Enu. simpl. unfold relA; simpl; auto.
        -- destruct Hr as [Hr1 Hr2]; subst. simpl. unfold relA; simpl. auto.
        -- destruct Hr as [e He]; subst. simpl. unfold relA; simpl. eauto.
      * (* ireq = false in both modes: identical sub-evaluation *)
        rewrite ?andb_false_r. destruct (d src false) as [df tf].
        destruct df as [vf| |ef]; simpl; rewrite ?andb_false_r; simpl.
        -- destruct (p_typed p && negb (p_compat p vf)); [unfold relA; simpl; eauto|apply IH, Htl].
        -- destruct (p_typed p && negb (p_compat p None)); [unfold relA; simpl; eauto|apply IH, Htl].
        -- unfold relA; simpl; eauto.
    + destruct (p_lazy p) eqn:El; [simpl; apply IH, Htl|].
      simpl. destruct (p_strict p) eqn:Est; simpl.
      * assert (Htyped : p_typed p = true /\ p_nullable p = false).
        { unfold p_strict in Est. destruct (p_typed p), (p_nullable p); simpl in Est; try discriminate; auto. }
        destruct Htyped as [Ety Enu]. unfold p_compat, compat. rewrite Ety, Enu. simpl.
        unfold relA; simpl; auto.
      * destruct (p_typed p && negb (p_compat p None)); [unfold relA; simpl; eauto|apply IH, Htl].
Qed.

Lemma den_exec_rel ps :
  (forall src, In src (srcs ps) -> rel2 (d src false) (d src true) /\ fst (d src true) <> DSkip) ->
  forall p, nocatch p -> forall tr, relE (den_exec d ps false p tr) (den_exec d ps true p tr).
Proof.
  intros H p Hnc. induction Hnc as [v|e|i k Hk IH]; intros tr; simpl.
  - unfold relE; simpl; reflexivity.
  - unfold relE; simpl; eauto.
  - destruct (nth_error ps i) as [q|] eqn:Eq; [|unfold relE; simpl; eauto].
    destruct (negb (p_lazy q)); [unfold relE; simpl; eauto|].
    destruct (p_src q) as [src|] eqn:Es; [|apply IH].
    simpl. destruct (p_strict q) eqn:Est.
    + destruct (H src (srcs_nth _ _ _ _ Eq Es)) as [Hr Hns]. unfold rel2 in Hr.
      destruct (d src false) as [df tf] eqn:Edf. destruct (d src true) as [dt tt] eqn:Edt. simpl in *.
      assert (Htyped : p_typed q = true /\ p_nullable q = false).
      { unfold p_strict in Est. destruct (p_typed q), (p_nullable q); simpl in Est; try discriminate; auto. }
      destruct Htyped as [Ety Enu].
      destruct df as [vf| |ef].
      * inversion Hr; subst. simpl. destruct (p_typed q && negb (p_compat q vf)); [unfold relE; simpl; eauto|apply IH].
      * destruct Hr as [Hr1 Hr2]; subst. simpl. unfold p_compat, compat. rewrite Ety, Enu. simpl.
        unfold relE; simpl; eauto.
      * destruct Hr as [e He]; subst. unfold relE; simpl; eauto.
    + rewrite ?andb_false_r. destruct (d src false) as [df tf].
      destruct df as [vf| |ef]; simpl;
        try (destruct (p_typed q && negb (p_compat q _)); [unfold relE; simpl; eauto|apply IH]).
      unfold relE; simpl; eauto.
Qed.

Lemma den_step_rel g inputs n :
  (forall ps body a, lookup n g = Some (Comp ps body) -> nocatch (body a)) ->
  (forall ps body src, lookup n g = Some (Comp ps body) -> In src (srcs ps) ->
     rel2 (d src false) (d src true) /\ fst (d src true) <> DSkip) ->
  rel2 (den_step g inputs d n false) (den_step g inputs d n true).
Proof.
  intros Hnc H. unfold den_step. destruct (lookup n g) as [[t nl|v|ps body]|] eqn:Eg.
  - destruct (lookup n inputs) as [v|].
    + destruct (t && negb (is_int v)); unfold rel2; simpl; eauto.
    + destruct (t && negb nl); unfold rel2; simpl; auto.
  - unfold rel2; simpl; reflexivity.
  - assert (H' : forall src, In src (srcs ps) -> rel2 (d src false) (d src true) /\ fst (d src true) <> DSkip)
      by (intros; eapply H; eauto).
    pose proof (den_args_rel ps H' [] []) as HA. unfold relA in HA.
    destruct (den_args d false ps [] []) as [af trf]. destruct (den_args d true ps [] []) as [at' trt]. simpl in HA.
    destruct af as [a| |e].
    + inversion HA; subst. cbv iota beta.
      match goal with |- rel2 (den_exec d ps false ?p ?t) _ =>
        pose proof (den_exec_rel ps H' p (Hnc ps body a eq_refl) t) as HE; pose proof (den_exec_not_skip ps false p t) as Hns;
        unfold relE in HE; unfold rel2; destruct (fst (den_exec d ps false p t)) end;
        [exact HE|contradiction|exact HE].
    + destruct HA as [HA1 HA2]; subst. unfold rel2; simpl. auto.
    + destruct HA as [e' HA]; subst. unfold rel2; simpl. eauto.
  - unfold rel2; simpl; eauto.
Qed.
End Rel.

Section Rel2D.
Variable g : graph.
Variable inputs : list (name * val).
Variable rank : name -> nat.
Hypothesis Hrank : ranked g rank.
Variable F : nat.
Hypothesis HF : forall n, rank n < F.
Hypothesis Hcf : catch_free g.
Let D := D g inputs F.

Lemma D_true_not_skip n : fst (D n true) <> DSkip.
Proof. unfold D. rewrite (D_fix g inputs rank Hrank F HF). apply den_step_true_not_skip. Qed.

Lemma D_rel2 : forall n, rel2 (D n false) (D n true).
Proof.
  assert (G : forall k n, rank n < k -> rel2 (D n false) (D n true)).
  { induction k as [|k IH]; intros n Hn; [lia|].
    unfold D. rewrite !(D_fix g inputs rank Hrank F HF). apply den_step_rel.
    { intros ps body a Hl. eapply Hcf. apply lookup_in. exact Hl. }
    intros ps body src Hl Hin. pose proof (Hrank _ _ _ _ Hl Hin). split; [apply IH; lia|apply D_true_not_skip]. }
  intros n. apply (G (S (rank n))). lia.
Qed.

(* consequences used by the correctness proof *)
Lemma D_val_any n v r : fst (D n false) = DVal v -> D n r = D n false.
Proof. intros H. destruct r; [|reflexivity]. pose proof (D_rel2 n) as R. unfold rel2 in R. rewrite H in R. exact R. Qed.
Lemma D_val_from n v r : fst (D n r) = DVal v -> fst (D n false) = DVal v.
Proof.
  destruct r; [|auto]. intros H. pose proof (D_rel2 n) as R. unfold rel2 in R.
  destruct (fst (D n false)) eqn:E.
  - rewrite R in H. rewrite E in H. exact H.
  - destruct R as [R _]. rewrite R in H. discriminate.
  - destruct R as [e0 R]. rewrite R in H. discriminate.
Qed.
Lemma D_skip_true n : fst (D n false) = DSkip -> fst (D n true) = DErr EMissing /\ snd (D n true) = snd (D n false).
Proof. intros H. pose proof (D_rel2 n) as R. unfold rel2 in R. rewrite H in R. exact R. Qed.
End Rel2D.
