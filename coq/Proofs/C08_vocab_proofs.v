(* C08 -- identifier level: an identifier resolves to its position whatever its value, a known user's
   bare identifier selects the stored offset, and the sort_index()/reindex() pair of the popularity
   trainers leaves every score at its own item's number whatever the order of the vocabulary. *)
From Coq Require Import ZArith QArith List Bool Arith Lia Permutation.
From LK Require Import Lib.QLib Lib.SortPerm Model.C08_bias Model.C08_vocab.
Import ListNotations.
Open Scope Q_scope.

(* ---------------- resolution of identifiers ---------------- *)
Lemma number_from_spec v : forall k x n,
  number_from k v x = Some n -> (k <= n)%nat /\ nth_error v (n - k) = Some x.
Proof.
  induction v as [|y r IH]; intros k x n H; cbn [number_from] in H; [discriminate|].
  destruct (Z.eqb_spec y x) as [E|N].
  - inversion H; subst. split; [lia|]. rewrite Nat.sub_diag. reflexivity.
  - apply IH in H. destruct H as [L H]. split; [lia|].
    replace (n - k)%nat with (S (n - S k)) by lia. exact H.
Qed.

Lemma number_from_known v : forall k j x,
  NoDup v -> nth_error v j = Some x -> number_from k v x = Some (k + j)%nat.
Proof.
  induction v as [|y r IH]; intros k [|j] x ND H; cbn [nth_error] in H; try discriminate; cbn [number_from].
  - inversion H; subst. rewrite Z.eqb_refl. f_equal. lia.
  - inversion ND as [|? ? NI ND']; subst.
    destruct (Z.eqb_spec y x) as [E|N].
    + exfalso. apply NI. subst y. eapply nth_error_In; exact H.
    + rewrite (IH (S k) j x ND' H). f_equal. lia.
Qed.

Lemma number_from_unknown v : forall k x, ~ In x v -> number_from k v x = None.
Proof.
  induction v as [|y r IH]; intros k x NI; cbn [number_from]; [reflexivity|].
  destruct (Z.eqb_spec y x) as [E|N]; [exfalso; apply NI; left; exact E|].
  apply IH. intro I. apply NI. right. exact I.
Qed.

Lemma number_known_l : forall (v : vocab) k x, NoDup v -> nth_error v k = Some x -> number v x = Some k.
Proof. intros v k x ND H. unfold number. rewrite (number_from_known v 0 k x ND H). reflexivity. Qed.

Lemma number_unknown_l : forall (v : vocab) x, ~ In x v -> number v x = None.
Proof. intros v x NI. apply number_from_unknown, NI. Qed.

Lemma number_sound_l : forall (v : vocab) x k, number v x = Some k -> nth_error v k = Some x.
Proof. intros v x k H. apply number_from_spec in H. destruct H as [_ H]. rewrite Nat.sub_0_r in H. exact H. Qed.

Lemma identifiers_resolve_l : forall (v : vocab), NoDup v ->
  (forall k x, nth_error v k = Some x -> number v x = Some k) /\
  (forall x, ~ In x v -> number v x = None) /\
  (forall x k, number v x = Some k -> nth_error v k = Some x).
Proof.
  intros v ND. split; [intros k x; apply number_known_l, ND|].
  split; [apply number_unknown_l|apply number_sound_l].
Qed.

(* ---------------- the user offset selected by an identifier ---------------- *)
Lemma user_by_identifier_l : forall m d (users items : vocab) ub,
  NoDup users -> b_users m = Some ub ->
  (forall u x, nth_error users u = Some x ->
     user_off m d (resolve_query users items {| iq_user := Some x; iq_hist := None |}) = nth u ub 0) /\
  (forall x, ~ In x users ->
     user_off m d (resolve_query users items {| iq_user := Some x; iq_hist := None |}) = 0) /\
  user_off m d (resolve_query users items {| iq_user := None; iq_hist := None |}) = 0.
Proof.
  intros m d users items ub ND HB. unfold user_off, resolve_query; cbn [iq_user iq_hist q_user q_hist option_map].
  rewrite HB. split; [|split].
  - intros u x H. rewrite (number_known_l users u x ND H). reflexivity.
  - intros x NI. rewrite (number_unknown_l users x NI). reflexivity.
  - reflexivity.
Qed.

Lemma item_by_identifier_l : forall m (items : vocab),
  NoDup items ->
  (forall i x, nth_error items i = Some x -> item_off m (number items x) = item_off m (Some i)) /\
  (forall x, ~ In x items -> item_off m (number items x) = 0).
Proof.
  intros m items ND. split.
  - intros i x H. rewrite (number_known_l items i x ND H). reflexivity.
  - intros x NI. rewrite (number_unknown_l items x NI). unfold item_off. destruct (b_items m); reflexivity.
Qed.

Lemma offset_by_identifier_l : forall m d (users items : vocab) ub,
  NoDup users -> NoDup items -> b_users m = Some ub ->
  (forall u x, nth_error users u = Some x ->
     user_off m d (resolve_query users items {| iq_user := Some x; iq_hist := None |}) = nth u ub 0) /\
  (forall x, ~ In x users ->
     user_off m d (resolve_query users items {| iq_user := Some x; iq_hist := None |}) = 0) /\
  user_off m d (resolve_query users items {| iq_user := None; iq_hist := None |}) = 0 /\
  (forall i x, nth_error items i = Some x -> item_off m (number items x) = item_off m (Some i)) /\
  (forall x, ~ In x items -> item_off m (number items x) = 0).
Proof.
  intros m d users items ub NDu NDi HB.
  destruct (user_by_identifier_l m d users items ub NDu HB) as [A [B C]].
  destruct (item_by_identifier_l m items NDi) as [D E].
  repeat split; assumption.
Qed.

(* ---------------- sort_index() followed by reindex(vocabulary) ---------------- *)
Lemma lookup_id_in {A} (s : series A) : forall x v,
  NoDup (map fst s) -> In (x, v) s -> lookup_id x s = Some v.
Proof.
  induction s as [|[y w] s IH]; intros x v ND I; [destruct I|].
  cbn [map fst] in ND. inversion ND as [|? ? NI ND']; subst.
  unfold lookup_id. cbn [find fst snd].
  destruct I as [E|I].
  - inversion E; subst. rewrite Z.eqb_refl. reflexivity.
  - destruct (Z.eqb_spec y x) as [E|N].
    + exfalso. apply NI. subst y. apply (in_map fst) in I. exact I.
    + apply (IH x v ND' I).
Qed.

Lemma map_fst_combine_le {A B} (l1 : list A) : forall (l2 : list B),
  length l1 = length l2 -> map fst (combine l1 l2) = l1.
Proof. induction l1 as [|x l1 IH]; intros [|y l2] L; cbn in *; try discriminate; [reflexivity|]. rewrite IH by lia. reflexivity. Qed.

Lemma reindex_all (S : series (option Q)) : forall (ids : vocab) (vals : list (option Q)),
  length ids = length vals ->
  (forall x v, In (x, v) (combine ids vals) -> lookup_id x S = Some v) ->
  reindex_scores ids S = vals.
Proof.
  induction ids as [|x ids IH]; intros [|v vals] L H; cbn in L; try discriminate; [reflexivity|].
  unfold reindex_scores. cbn [map]. rewrite (H x v) by (left; reflexivity). f_equal.
  apply IH; [lia|]. intros y w I. apply H. right. exact I.
Qed.

Lemma reindex_sort_identity : forall (ids : vocab) (vals : list (option Q)),
  NoDup ids -> length ids = length vals ->
  reindex_scores ids (sort_index (combine ids vals)) = vals.
Proof.
  intros ids vals ND L. apply reindex_all; [exact L|].
  intros x v I.
  assert (P : Permutation (sort_index (combine ids vals)) (combine ids vals)) by apply isort_perm.
  apply lookup_id_in.
  - eapply Permutation_NoDup; [apply Permutation_map, Permutation_sym, P|].
    rewrite (map_fst_combine_le ids vals L). exact ND.
  - eapply Permutation_in; [apply Permutation_sym, P|exact I].
Qed.

Lemma pop_scores_length v counts : length (pop_scores v counts) = length counts.
Proof.
  destruct v; cbn [pop_scores]; [apply map_length|apply map_length|].
  unfold quantile_scores. rewrite map_length, seq_length. reflexivity.
Qed.

Lemma vocabulary_order_irrelevant_l : forall (items : vocab) v counts,
  NoDup items -> length counts = length items ->
  pop_train_ids items v counts = pop_scores v counts.
Proof.
  intros items v counts ND L. unfold pop_train_ids.
  apply reindex_sort_identity; [exact ND|]. rewrite pop_scores_length. symmetry. exact L.
Qed.

(* scoring by identifier: a known identifier gets the score trained for its own count, an unknown one none *)
Lemma pop_by_identifier_l : forall (items : vocab) v counts,
  NoDup items -> length counts = length items ->
  (forall its k i x, nth_error its k = Some x -> nth_error items i = Some x ->
     nth_error (pop_call_ids items (pop_train_ids items v counts) its) k = Some (nth i (pop_scores v counts) None)) /\
  (forall its k x, nth_error its k = Some x -> ~ In x items ->
     nth_error (pop_call_ids items (pop_train_ids items v counts) its) k = Some None).
Proof.
  intros items v counts ND L. rewrite (vocabulary_order_irrelevant_l items v counts ND L).
  unfold pop_call_ids, pop_call. split.
  - intros its k i x Hk Hi. rewrite map_map. rewrite (map_nth_error _ _ _ Hk).
    rewrite (number_known_l items i x ND Hi). reflexivity.
  - intros its k x Hk NI. rewrite map_map. rewrite (map_nth_error _ _ _ Hk).
    rewrite (number_unknown_l items x NI). reflexivity.
Qed.

(* ---------------- item lists numbered against a vocabulary of their own ---------------- *)
Lemma ilist_numbers_denotes : forall (target : vocab) l its,
  denotes l its -> ilist_numbers target l = map (number target) its.
Proof.
  intros target [a|own nums] its H; cbn [denotes ilist_numbers] in *.
  - subst a. reflexivity.
  - induction H as [|n x nums its Hn _ IH]; [reflexivity|].
    cbn [map]. unfold via_own at 1. rewrite Hn. f_equal. exact IH.
Qed.

Lemma map_fst_combine_fn {A B C} (f : A -> C) (a : list A) : forall (b : list B),
  map (fun p => (f (fst p), snd p)) (combine a b) = combine (map f a) b.
Proof.
  induction a as [|x a IH]; intros [|y b]; cbn [combine map fst snd]; try reflexivity.
  rewrite IH. reflexivity.
Qed.

Lemma list_vocabulary_irrelevant_l : forall (items : vocab) l its, denotes l its ->
  ilist_numbers items l = map (number items) its /\
  (forall sc, pop_call_list items sc l = pop_call_ids items sc its) /\
  (forall m d users qu, bias_scores_list m d users items qu None l
     = bias_scores_ids m d users items {| iq_user := qu; iq_hist := None |} its) /\
  (forall m d users qu hl hits hr, denotes hl hits ->
     bias_scores_list m d users items qu (Some (hl, hr)) l
     = bias_scores_ids m d users items {| iq_user := qu; iq_hist := Some (combine hits hr) |} its).
Proof.
  intros items l its H. pose proof (ilist_numbers_denotes items l its H) as E.
  split; [exact E|]. split; [|split].
  - intro sc. unfold pop_call_list, pop_call_ids. rewrite E. reflexivity.
  - intros m d users qu. unfold bias_scores_list, bias_scores_ids, resolve_query.
    cbn [iq_user iq_hist option_map]. rewrite E. reflexivity.
  - intros m d users qu hl hits hr Hh. unfold bias_scores_list, bias_scores_ids, resolve_query.
    cbn [iq_user iq_hist option_map fst snd]. rewrite E.
    rewrite (ilist_numbers_denotes items hl hits Hh). rewrite map_fst_combine_fn. reflexivity.
Qed.

(* two lists that stand for the same identifiers -- against any two vocabularies, of equal length or not --
   resolve to the same numbers of the target vocabulary *)
Lemma same_identifiers_same_numbers_l : forall (target : vocab) l1 l2 its,
  denotes l1 its -> denotes l2 its -> ilist_numbers target l1 = ilist_numbers target l2.
Proof.
  intros target l1 l2 its H1 H2.
  rewrite (ilist_numbers_denotes target l1 its H1), (ilist_numbers_denotes target l2 its H2). reflexivity.
Qed.
