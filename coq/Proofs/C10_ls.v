(* C10 -- least squares on the executable list model (Model/C10_als.v), over Q.
   Part 1: vector algebra; the weighted regularised objective and the matrix-free core:
           if the bilinear form of the normal equations agrees with the linear form at x in the
           direction x' - x, then obj x <= obj x'.
   Part 2: the matrices built by the model (gram, gram_w, mscaleI, mtv, madd) realise those forms.
   Part 3: explicit and implicit systems: a solution of the model's system minimises the
           documented objective.  (The converse and uniqueness are proved for every real field in
           Proofs/C10_normal_eq.v.) *)
From Coq Require Import ZArith QArith Qabs List Bool Lia Lqa Setoid Morphisms.
From LK Require Import Lib.QLib Model.C10_als.
Import ListNotations.
Open Scope Q_scope.

Definition veq (a b : vec) : Prop := Forall2 Qeq a b.

Lemma qadd_eq a b : qadd a b == a + b.
Proof. unfold qadd. apply Qred_correct. Qed.
Lemma qsub_eq a b : qsub a b == a - b.
Proof. unfold qsub. apply Qred_correct. Qed.

(* ---------------------------------------------------------------- dot *)
Lemma dot_nil_l b : dot [] b = 0.
Proof. reflexivity. Qed.
Lemma dot_nil_r a : dot a [] = 0.
Proof. destruct a; reflexivity. Qed.
Lemma dot_cons x a y b : dot (x :: a) (y :: b) == x * y + dot a b.
Proof. cbn [dot]. apply qadd_eq. Qed.

Lemma dot_comm a : forall b, dot a b == dot b a.
Proof.
  induction a as [|x a IH]; intros [|y b]; try reflexivity.
  rewrite !dot_cons, IH. ring.
Qed.

Lemma dot_vscale_l t a : forall c, dot (vscale t a) c == t * dot a c.
Proof.
  induction a as [|x a IH]; intros [|y c]; cbn [vscale map]; rewrite ?dot_nil_l, ?dot_nil_r; try ring.
  rewrite !dot_cons. fold (vscale t a). rewrite IH. ring.
Qed.

Lemma dot_vadd_l a : forall b c, length a = length b -> dot (vadd a b) c == dot a c + dot b c.
Proof.
  induction a as [|x a IH]; intros [|y b] [|z c] L; cbn in L; try discriminate;
    unfold vadd; cbn [zipw]; rewrite ?dot_nil_l, ?dot_nil_r; try ring.
  fold (vadd a b). rewrite !dot_cons, qadd_eq, IH by lia. ring.
Qed.

Lemma dot_vsub_l a : forall b c, length a = length b -> dot (vsub a b) c == dot a c - dot b c.
Proof.
  induction a as [|x a IH]; intros [|y b] [|z c] L; cbn in L; try discriminate;
    unfold vsub; cbn [zipw]; rewrite ?dot_nil_l, ?dot_nil_r; try ring.
  fold (vsub a b). rewrite !dot_cons, qsub_eq, IH by lia. ring.
Qed.

Lemma dot_vadd_r d a b : length a = length b -> dot d (vadd a b) == dot d a + dot d b.
Proof. intro L. rewrite dot_comm, dot_vadd_l by exact L. rewrite (dot_comm a), (dot_comm b). reflexivity. Qed.
Lemma dot_vsub_r d a b : length a = length b -> dot d (vsub a b) == dot d a - dot d b.
Proof. intro L. rewrite dot_comm, dot_vsub_l by exact L. rewrite (dot_comm a), (dot_comm b). reflexivity. Qed.
Lemma dot_vscale_r d t a : dot d (vscale t a) == t * dot d a.
Proof. rewrite dot_comm, dot_vscale_l, dot_comm. reflexivity. Qed.

Lemma dot_veq_r d : forall a b, veq a b -> dot d a == dot d b.
Proof.
  induction d as [|x d IH]; intros a b E; [reflexivity|].
  destruct E as [|y z a b Eyz E]; [reflexivity|].
  rewrite !dot_cons, Eyz, (IH _ _ E). reflexivity.
Qed.

Lemma dot_vzero_l k : forall x, dot (vzero k) x == 0.
Proof.
  induction k as [|k IH]; intros [|y x]; cbn [vzero repeat]; rewrite ?dot_nil_l, ?dot_nil_r; try reflexivity.
  rewrite dot_cons. fold (vzero k). rewrite IH. ring.
Qed.
Lemma dot_vzero_r k x : dot x (vzero k) == 0.
Proof. rewrite dot_comm. apply dot_vzero_l. Qed.

Lemma Qsqr_nonneg (x : Q) : 0 <= x * x.
Proof. nra. Qed.

Lemma dot_self_nonneg a : 0 <= dot a a.
Proof.
  induction a as [|x a IH]; [cbn; lra|].
  rewrite dot_cons. pose proof (Qsqr_nonneg x) as H. nra.
Qed.

Lemma vsub_length a : forall b, length a = length b -> length (vsub a b) = length a.
Proof.
  induction a as [|x a IH]; intros [|y b] L; cbn in L; try discriminate; [reflexivity|].
  unfold vsub; cbn [zipw length]. fold (vsub a b). rewrite IH by lia. reflexivity.
Qed.
Lemma vadd_length a : forall b, length a = length b -> length (vadd a b) = length a.
Proof.
  induction a as [|x a IH]; intros [|y b] L; cbn in L; try discriminate; [reflexivity|].
  unfold vadd; cbn [zipw length]. fold (vadd a b). rewrite IH by lia. reflexivity.
Qed.
Lemma vscale_length t a : length (vscale t a) = length a.
Proof. apply map_length. Qed.
Lemma vzero_length k : length (vzero k) = k.
Proof. apply repeat_length. Qed.

(* dot m x' = dot m x + dot m (x' - x) *)
Lemma dot_shift m x x' : length x = length x' -> dot m x' == dot m x + dot m (vsub x' x).
Proof. intro L. rewrite dot_vsub_r by (symmetry; exact L). ring. Qed.

(* ---------------------------------------------------------------- the weighted objective *)
(* a row of the problem: (weight, target, coefficients) *)
Definition wrow := (Q * Q * vec)%type.
Definition rw (r : wrow) : Q := fst (fst r).
Definition rt (r : wrow) : Q := snd (fst r).
Definition rm (r : wrow) : vec := snd r.

Definition sq (a : Q) : Q := a * a.
Definition objW (rows : list wrow) (c : Q) (x : vec) : Q :=
  Qsum (map (fun r => rw r * sq (dot (rm r) x - rt r)) rows) + c * dot x x.
Definition bilW (rows : list wrow) (c : Q) (d x : vec) : Q :=
  Qsum (map (fun r => rw r * (dot (rm r) x * dot (rm r) d)) rows) + c * dot d x.
Definition linW (rows : list wrow) (d : vec) : Q :=
  Qsum (map (fun r => rw r * (rt r * dot (rm r) d)) rows).
Definition quadW (rows : list wrow) (c : Q) (d : vec) : Q :=
  Qsum (map (fun r => rw r * sq (dot (rm r) d)) rows) + c * dot d d.

Lemma Qsum_cons x l : Qsum (x :: l) = x + Qsum l.
Proof. reflexivity. Qed.

Lemma sum_shift rows x x' : length x = length x' ->
  let d := vsub x' x in
  Qsum (map (fun r => rw r * sq (dot (rm r) x' - rt r)) rows) ==
  Qsum (map (fun r => rw r * sq (dot (rm r) x - rt r)) rows)
  + Qsum (map (fun r => rw r * sq (dot (rm r) d)) rows)
  + 2 * (Qsum (map (fun r => rw r * (dot (rm r) x * dot (rm r) d)) rows)
         - Qsum (map (fun r => rw r * (rt r * dot (rm r) d)) rows)).
Proof.
  intros L d. unfold sq.
  induction rows as [|r rows IH]; cbn [map Qsum]; [ring|].
  rewrite IH, (dot_shift (rm r) x x' L). fold d. ring.
Qed.

Lemma objW_shift rows c x x' : length x = length x' ->
  objW rows c x' == objW rows c x + quadW rows c (vsub x' x)
                    + 2 * (bilW rows c (vsub x' x) x - linW rows (vsub x' x)).
Proof.
  intro L. unfold objW, quadW, bilW, linW.
  rewrite (sum_shift rows x x' L). cbv zeta. set (d := vsub x' x).
  assert (Hc : dot x' x' == dot x x + 2 * dot d x + dot d d).
  { rewrite (dot_shift x' x x' L). fold d.
    rewrite (dot_comm x' x), (dot_shift x x x' L). fold d.
    rewrite (dot_comm x' d), (dot_shift d x x' L). fold d.
    rewrite (dot_comm x d). ring. }
  rewrite Hc. ring.
Qed.

Lemma quadW_nonneg rows c d : Forall (fun r => 0 <= rw r) rows -> 0 <= c -> 0 <= quadW rows c d.
Proof.
  intros W C. unfold quadW.
  assert (0 <= Qsum (map (fun r => rw r * sq (dot (rm r) d)) rows)) as H.
  { induction W as [|r rows Wr W IH]; cbn [map Qsum]; [lra|].
    pose proof (Qmult_le_0_compat _ _ Wr (Qsqr_nonneg (dot (rm r) d))) as H1. unfold sq in *. lra. }
  pose proof (Qmult_le_0_compat _ _ C (dot_self_nonneg d)). lra.
Qed.

(* the matrix-free core *)
Theorem normal_forms_minimise rows c x x' :
  Forall (fun r => 0 <= rw r) rows -> 0 <= c -> length x = length x' ->
  bilW rows c (vsub x' x) x == linW rows (vsub x' x) ->
  objW rows c x <= objW rows c x'.
Proof.
  intros W C L E. rewrite (objW_shift rows c x x' L), E.
  pose proof (quadW_nonneg rows c (vsub x' x) W C). lra.
Qed.

(* ================================================================ part 2: the model's matrices *)
Definition mshape (r k : nat) (A : mat) : Prop := length A = r /\ Forall (fun row => length row = k) A.

Lemma mshape_F2 r k A : forall B, mshape r k A -> mshape r k B -> Forall2 (fun a b => length a = length b) A B.
Proof.
  revert r. induction A as [|a A IH]; intros r B [LA FA] [LB FB]; destruct B as [|b B]; cbn in LA, LB.
  - constructor.
  - exfalso; lia.
  - exfalso; lia.
  - inversion FA; inversion FB; subst. constructor; [congruence|].
    apply (IH (length A)); split; auto; lia.
Qed.

Lemma mshape_madd r k A : forall B, mshape r k A -> mshape r k B -> mshape r k (madd A B).
Proof.
  revert r. induction A as [|a A IH]; intros r B [LA FA] [LB FB]; destruct B as [|b B]; cbn in LA, LB.
  - split; [assumption|constructor].
  - exfalso; lia.
  - exfalso; lia.
  - inversion FA; inversion FB; subst.
    destruct (IH (length A) B) as [L F]; [split; auto|split; auto; lia|].
    unfold madd; cbn [zipw]. fold (madd A B). split; [cbn; rewrite L; reflexivity|].
    constructor; [rewrite vadd_length; congruence|exact F].
Qed.

Lemma mshape_mscale t r k A : mshape r k A -> mshape r k (mscale t A).
Proof.
  intros [L F]. split; [unfold mscale; rewrite map_length; exact L|].
  unfold mscale. rewrite Forall_map. eapply Forall_impl; [|exact F].
  intros a Ha. cbn. rewrite vscale_length. exact Ha.
Qed.

Lemma mshape_outer u v : mshape (length u) (length v) (outer u v).
Proof.
  split; [unfold outer; apply map_length|].
  unfold outer. rewrite Forall_map. apply Forall_forall. intros x _. apply vscale_length.
Qed.

Lemma mshape_repeat_zero n k : mshape n k (repeat (vzero k) n).
Proof.
  split; [apply repeat_length|]. apply Forall_forall. intros x Hx.
  apply repeat_spec in Hx. subst. apply vzero_length.
Qed.
Lemma mshape_mzero k : mshape k k (mzero k).
Proof. apply mshape_repeat_zero. Qed.

Lemma mshape_mscaleI c k : mshape k k (mscaleI c k).
Proof.
  induction k as [|k [L F]]; [split; [reflexivity|constructor]|].
  cbn [mscaleI]. split; [change (S (length (map (cons 0) (mscaleI c k))) = S k); rewrite map_length; f_equal; exact L|].
  constructor; [cbn; rewrite vzero_length; reflexivity|].
  rewrite Forall_map. eapply Forall_impl; [|exact F]. intros a Ha. cbn. rewrite Ha. reflexivity.
Qed.

Lemma mshape_gram k M : Forall (fun m => length m = k) M -> mshape k k (gram k M).
Proof.
  induction 1 as [|m M Hm F IH]; cbn [gram fold_right]; [apply mshape_mzero|].
  apply mshape_madd; [|exact IH]. pose proof (mshape_outer m m) as H. rewrite Hm in H. exact H.
Qed.

Lemma mshape_gram_w k M : forall w, Forall (fun m => length m = k) M -> mshape k k (gram_w k M w).
Proof.
  intros w F. revert w. induction F as [|m M Hm F IH]; intros [|t w]; cbn [gram_w combine fold_right];
    try apply mshape_mzero.
  apply mshape_madd; [|apply IH]. apply mshape_mscale.
  pose proof (mshape_outer m m) as H. rewrite Hm in H. exact H.
Qed.

Lemma mtv_length k M : forall v, Forall (fun m => length m = k) M -> length (mtv k M v) = k.
Proof.
  intros v F. revert v. induction F as [|m M Hm F IH]; intros [|t v]; cbn [mtv combine fold_right];
    try apply vzero_length.
  cbn [fst snd]. rewrite vadd_length; rewrite vscale_length; [exact Hm|]. rewrite Hm. symmetry. apply IH.
Qed.

Lemma dot_map_ext {A} (f g : A -> Q) : forall (l : list A) d, (forall a, f a == g a) -> dot d (map f l) == dot d (map g l).
Proof.
  induction l as [|a l IH]; intros [|x d] E; cbn [map]; rewrite ?dot_nil_l, ?dot_nil_r; try reflexivity.
  rewrite !dot_cons, (E a), (IH d E). reflexivity.
Qed.

Lemma dot_matvec_madd x A : forall B d, Forall2 (fun a b => length a = length b) A B ->
  dot d (matvec (madd A B) x) == dot d (matvec A x) + dot d (matvec B x).
Proof.
  intros B d F. revert d. induction F as [|a b A B Lab F IH]; intros [|e d];
    unfold madd, matvec; cbn [zipw map]; rewrite ?dot_nil_l, ?dot_nil_r; try ring.
  fold (madd A B). fold (matvec (madd A B) x) (matvec A x) (matvec B x).
  rewrite !dot_cons, IH, (dot_vadd_l a b x Lab). ring.
Qed.

Lemma dot_matvec_outer x v : forall u d, dot d (matvec (outer u v) x) == dot v x * dot d u.
Proof.
  induction u as [|a u IH]; intros [|e d]; unfold outer, matvec; cbn [map]; rewrite ?dot_nil_l, ?dot_nil_r; try ring.
  fold (outer u v). fold (matvec (outer u v) x).
  rewrite !dot_cons, IH, dot_vscale_l. ring.
Qed.

Lemma dot_matvec_mscale t x : forall A d, dot d (matvec (mscale t A) x) == t * dot d (matvec A x).
Proof.
  induction A as [|a A IH]; intros [|e d]; unfold mscale, matvec; cbn [map]; rewrite ?dot_nil_l, ?dot_nil_r; try ring.
  fold (mscale t A). fold (matvec (mscale t A) x) (matvec A x).
  rewrite !dot_cons, IH, dot_vscale_l. ring.
Qed.

Lemma dot_matvec_zero k x : forall n d, dot d (matvec (repeat (vzero k) n) x) == 0.
Proof.
  induction n as [|n IH]; intros [|e d]; unfold matvec; cbn [repeat map]; rewrite ?dot_nil_l, ?dot_nil_r; try ring.
  fold (matvec (repeat (vzero k) n) x). rewrite dot_cons, IH, dot_vzero_l. ring.
Qed.

Lemma dot_matvec_mscaleI c : forall k d x, length x = k -> length d = k ->
  dot d (matvec (mscaleI c k) x) == c * dot d x.
Proof.
  induction k as [|k IH]; intros [|e d] [|y x] Lx Ld; cbn in Lx, Ld; try discriminate.
  - cbn. ring.
  - cbn [mscaleI]. unfold matvec. cbn [map]. rewrite map_map.
    rewrite (dot_cons e d), (dot_map_ext (fun r => dot (0 :: r) (y :: x)) (fun r => dot r x)).
    2:{ intro r. rewrite dot_cons. ring. }
    change (map (fun r : list Q => dot r x) (mscaleI c k)) with (matvec (mscaleI c k) x).
    rewrite !dot_cons, dot_vzero_l, IH by lia. ring.
Qed.

Lemma dot_matvec_gram k x d : forall M, Forall (fun m => length m = k) M ->
  dot d (matvec (gram k M) x) == Qsum (map (fun m => dot m x * dot m d) M).
Proof.
  induction 1 as [|m M Hm F IH]; cbn [gram fold_right map Qsum].
  - apply dot_matvec_zero.
  - fold (gram k M). rewrite dot_matvec_madd.
    + rewrite dot_matvec_outer, IH. rewrite (dot_comm d m). reflexivity.
    + apply (mshape_F2 k k); [|apply mshape_gram; exact F].
      pose proof (mshape_outer m m) as H. rewrite Hm in H. exact H.
Qed.

Lemma dot_matvec_gram_w k x d M : forall w, Forall (fun m => length m = k) M ->
  dot d (matvec (gram_w k M w) x) == Qsum (map (fun mw => snd mw * (dot (fst mw) x * dot (fst mw) d)) (combine M w)).
Proof.
  intros w F. revert w. induction F as [|m M Hm F IH]; intros [|t w]; cbn [gram_w combine fold_right map Qsum];
    try apply dot_matvec_zero.
  fold (gram_w k M w). cbn [fst snd]. rewrite dot_matvec_madd.
  - rewrite dot_matvec_mscale, dot_matvec_outer, IH. rewrite (dot_comm d m). ring.
  - apply (mshape_F2 k k); [|apply mshape_gram_w; exact F].
    apply mshape_mscale. pose proof (mshape_outer m m) as H. rewrite Hm in H. exact H.
Qed.

Lemma dot_mtv k d M : forall v, Forall (fun m => length m = k) M ->
  dot d (mtv k M v) == Qsum (map (fun mv => snd mv * dot (fst mv) d) (combine M v)).
Proof.
  intros v F. revert v. induction F as [|m M Hm F IH]; intros [|t v]; cbn [mtv combine fold_right map Qsum];
    try apply dot_vzero_r.
  fold (mtv k M v). cbn [fst snd]. rewrite dot_vadd_r.
  - rewrite dot_vscale_r, IH, (dot_comm d m). reflexivity.
  - rewrite vscale_length, mtv_length by exact F. exact Hm.
Qed.

(* ================================================================ part 3: the two systems *)
Lemma Qsum_map_ext {A} (f g : A -> Q) (l : list A) : (forall a, f a == g a) -> Qsum (map f l) == Qsum (map g l).
Proof. intro E. induction l as [|a l IH]; cbn [map Qsum]; [reflexivity|]. rewrite (E a), IH. reflexivity. Qed.
Lemma Qsum_map_plus {A} (f g : A -> Q) (l : list A) : Qsum (map (fun a => f a + g a) l) == Qsum (map f l) + Qsum (map g l).
Proof. induction l as [|a l IH]; cbn [map Qsum]; [ring|]. rewrite IH. ring. Qed.
Lemma Qsum_map_scale {A} (t : Q) (f : A -> Q) (l : list A) : Qsum (map (fun a => t * f a) l) == t * Qsum (map f l).
Proof. induction l as [|a l IH]; cbn [map Qsum]; [ring|]. rewrite IH. ring. Qed.

Lemma map_fst_combine {A B} (l : list A) : forall (l' : list B), length l = length l' -> map fst (combine l l') = l.
Proof. induction l as [|a l IH]; intros [|b l'] L; cbn in *; try discriminate; [reflexivity|]. rewrite IH by lia. reflexivity. Qed.

Lemma Qsum_map_fst_combine {A B} (g : A -> Q) (l : list A) : forall (l' : list B), length l = length l' ->
  Qsum (map (fun ab => g (fst ab)) (combine l l')) = Qsum (map g l).
Proof. induction l as [|a l IH]; intros [|b l'] L; cbn in *; try discriminate; [reflexivity|]. rewrite IH by lia. reflexivity. Qed.

(* ---- explicit feedback ---- *)
Definition obj_explicit (M : list vec) (v : list Q) (c : Q) (x : vec) : Q :=
  Qsum (map (fun mv => sq (dot (fst mv) x - snd mv)) (combine M v)) + c * dot x x.
Definition rows_explicit (M : list vec) (v : list Q) : list wrow :=
  map (fun mv => (1, snd mv, fst mv)) (combine M v).

Lemma obj_explicit_W M v c x : obj_explicit M v c x == objW (rows_explicit M v) c x.
Proof.
  unfold obj_explicit, objW, rows_explicit. rewrite map_map. unfold rw, rt, rm. cbn [fst snd].
  rewrite (Qsum_map_ext (fun mv => sq (dot (fst mv) x - snd mv)) (fun mv => 1 * sq (dot (fst mv) x - snd mv))).
  - reflexivity.
  - intro a. ring.
Qed.

Lemma rows_explicit_weights M v : Forall (fun r => 0 <= rw r) (rows_explicit M v).
Proof. unfold rows_explicit. rewrite Forall_map. apply Forall_forall. intros a _. cbn. lra. Qed.

Theorem explicit_solution_minimises k lam M v x :
  Forall (fun m => length m = k) M -> length v = length M -> length x = k -> 0 <= lam ->
  veq (matvec (fst (normal_eq_explicit k lam M v)) x) (snd (normal_eq_explicit k lam M v)) ->
  forall x', length x' = k ->
    obj_explicit M v (lam * Qofnat (length M)) x <= obj_explicit M v (lam * Qofnat (length M)) x'.
Proof.
  intros FM Lv Lx Hlam Sol x' Lx'.
  rewrite !obj_explicit_W.
  apply normal_forms_minimise.
  - apply rows_explicit_weights.
  - pose proof (Qofnat_nonneg (length M)). nra.
  - congruence.
  - set (d := vsub x' x).
    assert (Ld : length d = k) by (unfold d; rewrite vsub_length; congruence).
    pose proof (dot_veq_r d _ _ Sol) as E. unfold normal_eq_explicit in E. cbn [fst snd] in E.
    rewrite dot_matvec_madd in E.
    2:{ apply (mshape_F2 k k); [apply mshape_gram; exact FM|apply mshape_mscale, mshape_mscaleI]. }
    rewrite dot_matvec_mscale, dot_matvec_mscaleI, dot_matvec_gram, dot_mtv in E by assumption.
    unfold bilW, linW, rows_explicit. rewrite !map_map. unfold rw, rt, rm. cbn [fst snd].
    rewrite (Qsum_map_ext (fun mv : vec * Q => 1 * (dot (fst mv) x * dot (fst mv) d))
                          (fun mv => (fun m => dot m x * dot m d) (fst mv))) by (intro a; ring).
    rewrite (Qsum_map_fst_combine (fun m => dot m x * dot m d) M v) by (symmetry; exact Lv).
    rewrite (Qsum_map_ext (fun mv : vec * Q => 1 * (snd mv * dot (fst mv) d))
                          (fun mv => snd mv * dot (fst mv) d)) by (intro a; ring).
    set (q := Qofnat (length M)) in *. change (Qofnat (@length vec M)) with q in E. clearbody q.
    etransitivity; [|exact E]. ring.
Qed.

(* ---- implicit feedback ---- *)
Definition lookup (i : nat) (row : srow) : Q := Qsum (map snd (filter (fun cv => Nat.eqb (fst cv) i) row)).
Definition pref (i : nat) (row : srow) : Q := if existsb (fun cv => Nat.eqb (fst cv) i) row then 1 else 0.

(* sum_i (1 + e_i) (o_i . x - p_i)^2 + lam |x|^2  over ALL rows o_i of the other side; e_i is the
   confidence weight of an observed entry (0 elsewhere), p_i = 1 on observed entries (0 elsewhere) *)
Definition rows_implicit (other : mat) (row : srow) : list wrow :=
  map (fun io => (1 + lookup (fst io) row, pref (fst io) row, snd io)) (combine (seq 0 (length other)) other).
Definition obj_implicit (other : mat) (row : srow) (lam : Q) (x : vec) : Q :=
  Qsum (map (fun io => (1 + lookup (fst io) row) * sq (dot (snd io) x - pref (fst io) row))
            (combine (seq 0 (length other)) other)) + lam * dot x x.

Lemma obj_implicit_W other row lam x : obj_implicit other row lam x = objW (rows_implicit other row) lam x.
Proof. unfold obj_implicit, objW, rows_implicit. rewrite map_map. reflexivity. Qed.

Lemma combine_seq_nth {B} (h : nat * vec -> B) (dflt : vec) (l : mat) : forall s,
  map h (combine (seq s (length l)) l) = map (fun i => h (i, nth (i - s) l dflt)) (seq s (length l)).
Proof.
  induction l as [|a l IH]; intro s; [reflexivity|].
  cbn [length seq combine map]. rewrite Nat.sub_diag. cbn [nth]. f_equal.
  rewrite IH. apply map_ext_in. intros i Hi. apply in_seq in Hi.
  replace (i - s)%nat with (S (i - S s)) by lia. reflexivity.
Qed.

Lemma sum_indicator_out (a : nat -> Q) c : forall n s, ~ (s <= c < s + n)%nat ->
  Qsum (map (fun i => if Nat.eqb c i then a i else 0) (seq s n)) == 0.
Proof.
  induction n as [|n IH]; intros s H; [reflexivity|].
  cbn [seq map Qsum]. destruct (Nat.eqb_spec c s); [lia|]. rewrite IH by lia. ring.
Qed.
Lemma sum_indicator (a : nat -> Q) c : forall n s, (s <= c < s + n)%nat ->
  Qsum (map (fun i => if Nat.eqb c i then a i else 0) (seq s n)) == a c.
Proof.
  induction n as [|n IH]; intros s H; [lia|].
  cbn [seq map Qsum]. destruct (Nat.eqb_spec c s) as [->|Ne].
  - rewrite sum_indicator_out by lia. ring.
  - rewrite IH by lia. ring.
Qed.

Lemma combine_seq0_nth {B} (h : nat * vec -> B) (dflt : vec) (l : mat) :
  map h (combine (seq 0 (length l)) l) = map (fun i => h (i, nth i l dflt)) (seq 0 (length l)).
Proof.
  rewrite (combine_seq_nth h dflt l 0). apply map_ext. intro i. rewrite Nat.sub_0_r. reflexivity.
Qed.

Lemma Qsum_map_snd_combine {A B} (g : B -> Q) (l : list A) : forall (l' : list B), length l = length l' ->
  Qsum (map (fun ab => g (snd ab)) (combine l l')) = Qsum (map g l').
Proof. induction l as [|a l IH]; intros [|b l'] L; cbn in *; try discriminate; [reflexivity|]. rewrite IH by lia. reflexivity. Qed.

Lemma Qsum_zeros {A} (l : list A) : Qsum (map (fun _ => 0) l) == 0.
Proof. induction l as [|a l IH]; cbn [map Qsum]; [reflexivity|]. rewrite IH. ring. Qed.

Lemma combine_map_map {A B C} (f : A -> B) (g : A -> C) (l : list A) :
  combine (map f l) (map g l) = map (fun a => (f a, g a)) l.
Proof. induction l as [|a l IH]; cbn; [reflexivity|]. rewrite IH. reflexivity. Qed.

Lemma lookup_cons c v r i : lookup i ((c, v) :: r) == (if Nat.eqb c i then v else 0) + lookup i r.
Proof. unfold lookup. cbn [filter fst]. destruct (Nat.eqb c i); cbn [map Qsum snd]; ring. Qed.

Lemma lookup_nonneg i : forall row, Forall (fun v => 0 <= v) (map snd row) -> 0 <= lookup i row.
Proof.
  induction row as [|[c v] r IH]; intro F; [unfold lookup; cbn; lra|].
  cbn [map snd] in F. inversion F; subst. rewrite lookup_cons. specialize (IH H2).
  destruct (Nat.eqb c i); lra.
Qed.

Lemma lookup_notin i : forall row, ~ In i (map fst row) -> lookup i row == 0.
Proof.
  induction row as [|[c v] r IH]; intro N; [reflexivity|].
  rewrite lookup_cons. cbn [map fst In] in N.
  destruct (Nat.eqb_spec c i); [exfalso; apply N; left; assumption|].
  rewrite IH by (intro; apply N; right; assumption). ring.
Qed.

Lemma sum_lookup n (G : nat -> Q) : forall row, Forall (fun c => (c < n)%nat) (map fst row) ->
  Qsum (map (fun i => lookup i row * G i) (seq 0 n)) == Qsum (map (fun cv => snd cv * G (fst cv)) row).
Proof.
  induction row as [|[c v] r IH]; intro F.
  - cbn [map Qsum]. rewrite (Qsum_map_ext _ (fun _ => 0)); [apply Qsum_zeros|].
    intro a. unfold lookup. cbn. ring.
  - cbn [map fst] in F. inversion F; subst.
    rewrite (Qsum_map_ext _ (fun i => (if Nat.eqb c i then v * G i else 0) + lookup i r * G i)).
    2:{ intro a. rewrite lookup_cons. destruct (Nat.eqb c a); ring. }
    rewrite Qsum_map_plus, (sum_indicator (fun i => v * G i) c n 0) by lia.
    rewrite IH by assumption. cbn [map Qsum fst snd]. ring.
Qed.

Lemma pref_cons c v r i : pref i ((c, v) :: r) = if Nat.eqb c i then 1 else pref i r.
Proof. unfold pref. cbn [existsb fst]. destruct (Nat.eqb c i); reflexivity. Qed.

Definition plus1 (row : srow) : srow := map (fun cv => (fst cv, snd cv + 1)) row.
Lemma plus1_cols row : map fst (plus1 row) = map fst row.
Proof. unfold plus1. rewrite map_map. reflexivity. Qed.

Lemma conf_pref i : forall row, NoDup (map fst row) ->
  (1 + lookup i row) * pref i row == lookup i (plus1 row).
Proof.
  induction row as [|[c v] r IH]; intro ND.
  - unfold lookup, pref. cbn. ring.
  - cbn [map fst] in ND. inversion ND as [|? ? Nin ND']; subst.
    cbn [plus1 map fst snd]. fold (plus1 r). rewrite pref_cons, !lookup_cons.
    destruct (Nat.eqb_spec c i) as [->|Ne].
    + rewrite (lookup_notin i r Nin), (lookup_notin i (plus1 r)) by (rewrite plus1_cols; exact Nin). ring.
    + rewrite <- (IH ND'). ring.
Qed.

Lemma select_lengths k other cols : Forall (fun o => length o = k) other ->
  Forall (fun m => length m = k) (select k other cols).
Proof.
  intro F. unfold select. rewrite Forall_map. apply Forall_forall. intros c _.
  destruct (Nat.lt_ge_cases c (length other)) as [L|G].
  - rewrite Forall_forall in F. apply F. apply nth_In. exact L.
  - rewrite nth_overflow by exact G. apply vzero_length.
Qed.

Lemma mshape_otor k lam other : Forall (fun o => length o = k) other -> mshape k k (otor k lam other).
Proof. intro F. unfold otor. apply mshape_madd; [apply mshape_gram; exact F|apply mshape_mscaleI]. Qed.

Theorem implicit_solution_minimises k lam other row x :
  Forall (fun o => length o = k) other ->
  NoDup (map fst row) -> Forall (fun c => (c < length other)%nat) (map fst row) ->
  Forall (fun v => 0 <= v) (map snd row) -> 0 <= lam -> length x = k ->
  veq (matvec (fst (row_system_implicit k (otor k lam other) other row)) x)
      (snd (row_system_implicit k (otor k lam other) other row)) ->
  forall x', length x' = k -> obj_implicit other row lam x <= obj_implicit other row lam x'.
Proof.
  intros FO ND RG W Hlam Lx Sol x' Lx'.
  rewrite !obj_implicit_W. apply normal_forms_minimise.
  - unfold rows_implicit. rewrite Forall_map. apply Forall_forall. intros io _. unfold rw. cbn [fst].
    pose proof (lookup_nonneg (fst io) row W). lra.
  - exact Hlam.
  - congruence.
  - set (d := vsub x' x).
    assert (Ld : length d = k) by (unfold d; rewrite vsub_length; congruence).
    pose proof (dot_veq_r d _ _ Sol) as E.
    unfold row_system_implicit, normal_eq_implicit in E. cbn [fst snd] in E.
    pose proof (select_lengths k other (map fst row) FO) as FM.
    rewrite dot_matvec_madd in E.
    2:{ apply (mshape_F2 k k); [apply mshape_otor; exact FO|apply mshape_gram_w; exact FM]. }
    unfold otor in E at 1. rewrite dot_matvec_madd in E.
    2:{ apply (mshape_F2 k k); [apply mshape_gram; exact FO|apply mshape_mscaleI]. }
    rewrite dot_matvec_gram, dot_matvec_mscaleI, dot_matvec_gram_w, dot_mtv in E by assumption.
    unfold select in E. rewrite !map_map in E.
    rewrite !combine_map_map in E.
    rewrite !map_map in E. cbn [fst snd] in E.
    (* the dense forms *)
    unfold bilW, linW, rows_implicit. rewrite !map_map. unfold rw, rt, rm. cbn [fst snd].
    rewrite (Qsum_map_ext (fun io : nat * vec => (1 + lookup (fst io) row) * (dot (snd io) x * dot (snd io) d))
              (fun io => (fun o => dot o x * dot o d) (snd io) + lookup (fst io) row * (dot (snd io) x * dot (snd io) d)))
      by (intro a; ring).
    rewrite Qsum_map_plus.
    rewrite (Qsum_map_snd_combine (fun o => dot o x * dot o d)) by (rewrite seq_length; reflexivity).
    rewrite (combine_seq0_nth (fun io => lookup (fst io) row * (dot (snd io) x * dot (snd io) d)) (vzero k) other).
    cbn [fst snd].
    rewrite (sum_lookup (length other) (fun i => dot (nth i other (vzero k)) x * dot (nth i other (vzero k)) d) row RG).
    rewrite (combine_seq0_nth (fun io => (1 + lookup (fst io) row) * (pref (fst io) row * dot (snd io) d)) (vzero k) other).
    cbn [fst snd].
    rewrite (Qsum_map_ext (fun i => (1 + lookup i row) * (pref i row * dot (nth i other (vzero k)) d))
                          (fun i => lookup i (plus1 row) * dot (nth i other (vzero k)) d)).
    2:{ intro i. rewrite <- (conf_pref i row ND). ring. }
    rewrite (sum_lookup (length other) (fun i => dot (nth i other (vzero k)) d) (plus1 row)) by (rewrite plus1_cols; exact RG).
    unfold plus1. rewrite map_map. cbn [fst snd].
    etransitivity; [|exact E].
    rewrite <- !Qplus_assoc. apply Qplus_comp; [reflexivity|apply Qplus_comm].
Qed.
