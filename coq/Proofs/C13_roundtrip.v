(* C13 -- from_config of a well-formed document is `rebuilt c`, and build_config of that builder
   gives the document back (up to the iteration order of the type sets), with equal serialisation. *)
From Coq Require Import String Ascii List Bool Arith Lia Permutation Sorted.
From LK Require Import Lib.StrDict Lib.StrDictFacts Model.C13_json Gen.C13_shape Model.C13_config
  Proofs.C13_acyclic Proofs.C13_wf Proofs.C13_fromconfig.
Import ListNotations.
Open Scope string_scope.
Open Scope list_scope.

Lemma nodup_app_inv {X} (a b : list X) : NoDup (a ++ b) -> NoDup a /\ NoDup b /\ (forall x, In x a -> ~ In x b).
Proof.
  induction a as [|y a IH]; cbn; intro N; [repeat split; [constructor|exact N|tauto]|].
  inversion N as [|? ? Hy Na]; subst. destruct (IH Na) as [N1 [N2 D]].
  repeat split; [constructor; [rewrite in_app_iff in Hy; tauto|exact N1]|exact N2|].
  intros x [<-|Hx]; [rewrite in_app_iff in Hy; tauto|apply D; exact Hx].
Qed.

Lemma flat_map_map {X Y Z} (f : Y -> list Z) (g : X -> Y) l : flat_map f (map g l) = flat_map (fun x => f (g x)) l.
Proof. induction l as [|x l IH]; cbn; [reflexivity|rewrite IH; reflexivity]. Qed.
Lemma flat_map_nil {X Z} (f : X -> list Z) l : (forall x, f x = []) -> flat_map f l = [].
Proof. intro Hf. induction l as [|x l IH]; cbn; [reflexivity|rewrite Hf, IH; reflexivity]. Qed.
Lemma flat_map_single {X Z} (f : X -> list Z) (g : X -> Z) l : (forall x, f x = [g x]) -> flat_map f l = map g l.
Proof. intro Hf. induction l as [|x l IH]; cbn; [reflexivity|rewrite Hf, IH; reflexivity]. Qed.

Lemma flat_map_single_in {X Z} (f : X -> list Z) (g : X -> Z) l : (forall x, In x l -> f x = [g x]) -> flat_map f l = map g l.
Proof.
  induction l as [|x l IH]; cbn; intro Hf; [reflexivity|]. rewrite Hf by (left; reflexivity). rewrite IH; [reflexivity|].
  intros y Hy. apply Hf. right. exact Hy.
Qed.

Section RoundTrip.
  Variable sig : string -> list string.
  Variable norm : string -> option obj -> option (option obj).
  Variable H : string -> string.
  Variable set_of : list string -> list string.
  Hypothesis set_of_spec : forall l, NoDup (set_of l) /\ (forall x, In x (set_of l) <-> In x l).

  Notation tys i := (match i_types i with Some ts => ts | None => [] end).
  Notation RP := (run_pass sig norm H set_of).

  Lemma keys_in_nodes l : keys (map (in_node set_of) l) = map i_name l.
  Proof. unfold keys. rewrite map_map. reflexivity. Qed.
  Lemma keys_lit_nodes l : keys (map lit_node l) = keys l.
  Proof. unfold keys. rewrite map_map. reflexivity. Qed.
  Lemma keys_comp_nodes l : keys (map comp_node l) = keys l.
  Proof. unfold keys. rewrite map_map. reflexivity. Qed.

  Section Passes.
    Variable c : config.
    Hypothesis W : cwf norm c.
    Let nm := m_name (cf_meta c).
    Let ver := m_version (cf_meta c).
    Let N1 := map (in_node set_of) (cf_inputs c).
    Let N2 := map lit_node (cf_literals c).
    Let N3 := map comp_node (cf_components c).

    Lemma names_split :
      NoDup (map i_name (cf_inputs c)) /\ NoDup (keys (cf_literals c)) /\ NoDup (keys (cf_components c)) /\
      (forall x, In x (keys (cf_literals c)) -> ~ In x (map i_name (cf_inputs c))) /\
      (forall x, In x (keys (cf_components c)) -> ~ In x (map i_name (cf_inputs c)) /\ ~ In x (keys (cf_literals c))).
    Proof.
      pose proof (cw_names _ _ W) as ND. unfold config_names in ND.
      destruct (nodup_app_inv _ _ ND) as [A [B C]]. destruct (nodup_app_inv _ _ B) as [B1 [B2 B3]].
      repeat split; try assumption.
      - intros x Hx Hi. apply (C x Hi). rewrite in_app_iff. left. exact Hx.
      - intro Hi. apply (C x Hi). rewrite in_app_iff. right. assumption.
      - intro Hl. apply (B3 x Hl). assumption.
    Qed.

    Lemma pass_inputs w : RP c (OK (new_builder nm ver, w)) PInputs = OK (mkb nm ver N1 [] [] [] None, w).
    Proof.
      destruct names_split as [A _]. unfold run_pass, new_builder.
      rewrite (fold_inputs set_of nm ver [] [] [] None (cf_inputs c) [] A); [reflexivity|].
      intros x _. split; intros [].
    Qed.

    Lemma pass_literals w : RP c (OK (mkb nm ver N1 [] [] [] None, w)) PLiterals = OK (mkb nm ver (N1 ++ N2) [] [] [] None, w).
    Proof.
      destruct names_split as [_ [B [_ [D _]]]]. unfold run_pass.
      rewrite (fold_literals nm ver [] [] [] None (cf_literals c) N1 B); [reflexivity|].
      intros x Hx. unfold N1. rewrite keys_in_nodes. apply D. exact Hx.
    Qed.

    Lemma pass_components w :
      RP c (OK (mkb nm ver (N1 ++ N2) [] [] [] None, w)) PComponents
      = OK (mkb nm ver (N1 ++ N2 ++ N3) (map empty_edge (cf_components c)) [] [] None, w).
    Proof.
      destruct names_split as [_ [_ [C [_ E]]]]. unfold run_pass.
      rewrite (fold_components norm nm ver [] None (cf_components c) (N1 ++ N2) [] C).
      - rewrite <- app_assoc. reflexivity.
      - intros x Hx. split; [|intros []]. rewrite keys_app, in_app_iff. unfold N1, N2. rewrite keys_in_nodes, keys_lit_nodes.
        destruct (E x Hx). tauto.
      - pose proof (cw_comps _ _ W) as F. rewrite Forall_forall in *. intros nc Hnc. destruct (F nc Hnc) as [A1 [A2 _]]. split; assumption.
    Qed.

    Lemma keys_N : keys (N1 ++ N2 ++ N3) = config_names c.
    Proof. apply (keys_rebuilt_nodes set_of c). Qed.

    Lemma pass_wiring w :
      RP c (OK (mkb nm ver (N1 ++ N2 ++ N3) (map empty_edge (cf_components c)) [] [] None, w)) PWiring
      = OK (mkb nm ver (N1 ++ N2 ++ N3) (comp_graph c) [] [] None, w).
    Proof.
      destruct names_split as [_ [_ [C _]]]. unfold run_pass.
      pose proof (fold_wiring nm ver (N1 ++ N2 ++ N3) [] None) as F.
      rewrite keys_N in F. specialize (F (cw_names _ _ W) (cf_components c) []). cbn [map app keys] in F.
      rewrite F; [reflexivity|exact C|].
      intros nc Hnc. pose proof (cw_comps _ _ W) as G. rewrite Forall_forall in G. destruct (G nc Hnc) as [_ [_ [_ [G1 G2]]]].
      repeat split; [|exact G1|exact G2].
      rewrite !in_app_iff. right. right. apply in_map. exact Hnc.
    Qed.

    Lemma pass_aliases w :
      RP c (OK (mkb nm ver (N1 ++ N2 ++ N3) (comp_graph c) [] [] None, w)) PAliases
      = OK (mkb nm ver (N1 ++ N2 ++ N3) (comp_graph c) (cf_aliases c) [] None, w).
    Proof.
      unfold run_pass.
      rewrite (fold_aliases nm ver (N1 ++ N2 ++ N3) (comp_graph c) [] None (cf_aliases c) []); [reflexivity| | | |].
      - exact (cw_al_nodup _ _ W).
      - intros a Ha. rewrite keys_N. apply (cw_al_fresh _ _ W). exact Ha.
      - intros t Ht. rewrite keys_N. apply (cw_al_targets _ _ W). exact Ht.
      - intros t Ht Hk. cbn in Hk. apply (cw_al_fresh _ _ W t Hk). apply (cw_al_targets _ _ W). exact Ht.
    Qed.

    Lemma from_config_rebuilt :
      from_config sig norm H set_of c = RP c (OK (rebuilt set_of c, false)) PHashCheck.
    Proof.
      unfold from_config. change from_config_keeps_meta with true. cbv iota.
      change from_config_passes with [PInputs; PLiterals; PComponents; PWiring; PAliases; PDefault; PHashCheck].
      cbn [fold_left]. fold nm ver.
      rewrite pass_inputs, pass_literals, pass_components, pass_wiring, pass_aliases. reflexivity.
    Qed.
  End Passes.

  (* ---- build_config of the rebuilt builder ---- *)
  Definition reinputs (c : config) : list pinput :=
    map (fun i => {| i_name := i_name i; i_types := Some (set_of (tys i)) |}) (cf_inputs c).
  Definition rebuilt_config (c : config) : config :=
    {| cf_meta := {| m_name := m_name (cf_meta c); m_version := m_version (cf_meta c); m_hash := None |};
       cf_inputs := reinputs c; cf_components := cf_components c; cf_aliases := cf_aliases c;
       cf_default := cf_default c; cf_literals := cf_literals c |}.

  Lemma resolve_one_nil e i : resolve_one [] e i = e.
  Proof. unfold resolve_one. destruct (negb (dmem i e)); reflexivity. Qed.
  Lemma fold_resolve_one_nil l e : fold_left (resolve_one []) l e = e.
  Proof. induction l as [|i l IH]; cbn [fold_left]; [reflexivity|rewrite resolve_one_nil; exact IH]. Qed.

  Lemma resolved_no_defaults : forall nodes E,
    (forall n code s, In (n, KComp code s) nodes -> exists e, dget n E = Some e) ->
    fold_left (resolve_node sig []) nodes E = E.
  Proof.
    induction nodes as [|[n k] nodes IH]; intros E Hc; cbn [fold_left]; [reflexivity|].
    assert (Hstep : resolve_node sig [] E (n, k) = E).
    { unfold resolve_node. cbn [fst snd]. destruct k as [ts|e v|code s]; try reflexivity.
      destruct (Hc n code s (or_introl eq_refl)) as [e He]. rewrite He, fold_resolve_one_nil. apply dset_same. exact He. }
    rewrite Hstep. apply IH. intros n' code s Hin. apply (Hc n' code s). right. exact Hin.
  Qed.

  Lemma record_eta_lit (l : plit) : {| l_enc := l_enc l; l_value := l_value l |} = l.
  Proof. destruct l; reflexivity. Qed.
  Lemma record_eta_comp (p : pcomp) : {| c_code := c_code p; c_config := c_config p; c_inputs := c_inputs p |} = p.
  Proof. destruct p; reflexivity. Qed.

  Lemma comp_graph_get c : cwf norm c -> forall n p, In (n, p) (cf_components c) -> dget n (comp_graph c) = Some (c_inputs p).
  Proof.
    intros W n p Hp. apply in_dget.
    - unfold comp_graph, keys. rewrite map_map. cbn [fst].
      pose proof (cw_names _ _ W) as ND. unfold config_names in ND.
      destruct (nodup_app_inv _ _ ND) as [_ [B _]]. destruct (nodup_app_inv _ _ B) as [_ [B2 _]]. exact B2.
    - unfold comp_graph. change (n, c_inputs p) with ((fun nc : string * pcomp => (fst nc, c_inputs (snd nc))) (n, p)). apply in_map. exact Hp.
  Qed.

  Lemma build_config_rebuilt c ih : cwf norm c ->
    build_config sig H (rebuilt set_of c) ih
    = OK (if ih then with_hash (rebuilt_config c) (Some (H (preimage (rebuilt_config c)))) else rebuilt_config c).
  Proof.
    intro W. unfold build_config.
    assert (HR : resolved_edges sig (rebuilt set_of c) = comp_graph c).
    { unfold resolved_edges. cbn [rebuilt b_defaults b_nodes b_edges]. apply resolved_no_defaults.
      intros n code s Hin. unfold rebuilt_nodes in Hin. rewrite !in_app_iff, !in_map_iff in Hin.
      destruct Hin as [[i [E _]]|[[l [E _]]|[[n' p] [E Hp]]]]; try discriminate.
      unfold comp_node in E. cbn [fst snd] in E. injection E as -> _ _.
      exists (c_inputs p). apply (comp_graph_get c W). exact Hp. }
    rewrite HR. change validate_after_defaults with true. cbv iota. rewrite (cw_acyclic _ _ W).
    change aliases_sorted with true. change literals_sorted with true. cbv iota.
    cbn [rebuilt b_name b_version b_nodes b_aliases b_default].
    assert (HI : node_inputs (rebuilt_nodes set_of c) = reinputs c).
    { unfold node_inputs, rebuilt_nodes. rewrite !flat_map_app, !flat_map_map. cbn [in_node lit_node comp_node fst snd].
      rewrite (flat_map_nil _ (cf_literals c)) by reflexivity. rewrite (flat_map_nil _ (cf_components c)) by reflexivity.
      rewrite !app_nil_r. apply flat_map_single. reflexivity. }
    assert (HL : node_literals (rebuilt_nodes set_of c) = cf_literals c).
    { unfold node_literals, rebuilt_nodes. rewrite !flat_map_app, !flat_map_map. cbn [in_node lit_node comp_node fst snd].
      rewrite (flat_map_nil _ (cf_inputs c)) by reflexivity. rewrite (flat_map_nil _ (cf_components c)) by reflexivity.
      rewrite app_nil_r. cbn [app].
      rewrite (flat_map_single _ (fun nl => nl)); [apply map_id|]. intros [n l]. cbn [fst snd]. rewrite record_eta_lit. reflexivity. }
    assert (HC : node_components (comp_graph c) (rebuilt_nodes set_of c) = cf_components c).
    { unfold node_components, rebuilt_nodes. rewrite !flat_map_app, !flat_map_map. cbn [in_node lit_node comp_node fst snd].
      rewrite (flat_map_nil _ (cf_inputs c)) by reflexivity. rewrite (flat_map_nil _ (cf_literals c)) by reflexivity.
      cbn [app]. change wiring_sorted with true. cbv iota.
      rewrite (flat_map_single_in _ (fun nc => nc)); [apply map_id|].
      intros [n p] Hp. cbn [fst snd]. rewrite (comp_graph_get c W n p Hp).
      pose proof (cw_comps _ _ W) as F. rewrite Forall_forall in F. destruct (F _ Hp) as [_ [_ [S _]]]. cbn [snd] in S.
      unfold sort_kv. rewrite (sort_by_id _ _ S). rewrite record_eta_comp. reflexivity. }
    rewrite HI, HL, HC.
    unfold sort_kv. rewrite (sort_by_id _ _ (cw_al_sorted _ _ W)), (sort_by_id _ _ (cw_lit_sorted _ _ W)).
    assert (HD : norm_default (cf_default c) = cf_default c).
    { pose proof (cw_default _ _ W) as D. unfold norm_default. destruct (cf_default c) as [s|]; [|reflexivity].
      destruct (String.eqb s "") eqn:E; [apply String.eqb_eq in E; subst; congruence|reflexivity]. }
    rewrite HD. destruct ih; reflexivity.
  Qed.

  (* ---- equivalence and serialisation ---- *)
  Lemma set_of_perm ts : NoDup ts -> Permutation (set_of ts) ts.
  Proof. intro N. destruct (set_of_spec ts) as [N' I]. apply NoDup_Permutation; assumption. Qed.

  Lemma rebuilt_config_equiv c : cwf norm c -> cequiv (rebuilt_config c) (clear_hash c).
  Proof.
    intro W. constructor; try reflexivity.
    cbn [rebuilt_config clear_hash cf_inputs]. unfold reinputs.
    pose proof (cw_types _ _ W) as T. induction (cf_inputs c) as [|i l IH]; cbn [map]; constructor.
    - inversion T as [|? ? [ts [E N]] _]; subst. split; [reflexivity|]. cbn [i_types]. rewrite E. apply set_of_perm. exact N.
    - apply IH. inversion T; assumption.
  Qed.

  Lemma input_json_equiv ex i j :
    input_equiv i j -> (forall ts, i_types i = Some ts -> NoDup ts) -> input_json ex i = input_json ex j.
  Proof.
    intros [En Et] N. unfold input_json. rewrite En. f_equal. f_equal. f_equal. f_equal.
    destruct (i_types i) as [a|], (i_types j) as [b|]; try tauto. cbn [option_map]. f_equal.
    unfold types_json. change types_serialized_sorted with true. cbv iota.
    rewrite (sort_s_perm_eq a b); [reflexivity|apply N; reflexivity|exact Et].
  Qed.

  Lemma cequiv_json ex c d :
    cequiv c d -> Forall (fun i => forall ts, i_types i = Some ts -> NoDup ts) (cf_inputs c) ->
    config_json ex c = config_json ex d.
  Proof.
    intros [E1 E2 E3 E4 E5 E6] N. unfold config_json. rewrite E1, E3, E4, E5, E6.
    assert (EI : map (input_json ex) (cf_inputs c) = map (input_json ex) (cf_inputs d)).
    { clear E1 E3 E4 E5 E6. induction E2 as [|i j l m Hij _ IH]; [reflexivity|]. cbn [map].
      inversion N as [|? ? Ni Nl]; subst. rewrite (input_json_equiv ex i j Hij Ni), (IH Nl). reflexivity. }
    rewrite EI. reflexivity.
  Qed.

  Lemma reinputs_nodup c : Forall (fun i => forall ts, i_types i = Some ts -> NoDup ts) (reinputs c).
  Proof.
    unfold reinputs. rewrite Forall_forall. intros i Hi. rewrite in_map_iff in Hi. destruct Hi as [j [<- _]].
    cbn [i_types]. intros ts [= <-]. apply set_of_spec.
  Qed.

  Lemma preimage_rebuilt c : cwf norm c -> preimage (rebuilt_config c) = preimage c.
  Proof.
    intro W. unfold preimage, serialize. f_equal.
    change (clear_hash (rebuilt_config c)) with (rebuilt_config c).
    apply cequiv_json; [apply rebuilt_config_equiv; exact W|apply reinputs_nodup].
  Qed.

  Definition warn_of (c : config) : bool :=
    match m_hash (cf_meta c) with
    | None => false
    | Some h => negb (String.eqb (H (preimage c)) h)
    end.

  Theorem from_config_cwf c : cwf norm c -> from_config sig norm H set_of c = OK (rebuilt set_of c, warn_of c).
  Proof.
    intro W. rewrite (from_config_rebuilt c W). unfold run_pass, warn_of.
    destruct (m_hash (cf_meta c)) as [h|]; [|reflexivity].
    unfold config_hash. rewrite (build_config_rebuilt c false W). rewrite (preimage_rebuilt c W). reflexivity.
  Qed.

  Definition reloaded (c : config) : config := with_hash (rebuilt_config c) (Some (H (preimage c))).

  Lemma pipeline_resolves_reloaded c : pipeline_resolves (reloaded c) = pipeline_resolves c.
  Proof.
    unfold pipeline_resolves, reloaded. cbn [with_hash rebuilt_config cf_inputs cf_literals cf_components cf_aliases cf_default].
    unfold reinputs. rewrite map_map. cbn [i_name]. reflexivity.
  Qed.

  Theorem reload_cwf c : cwf norm c -> pipeline_resolves c = true ->
    reload sig norm H set_of c = OK (reloaded c, warn_of c).
  Proof.
    intros W P. unfold reload. rewrite (from_config_cwf c W). unfold build.
    rewrite (build_config_rebuilt c true W). rewrite (preimage_rebuilt c W).
    fold (reloaded c). rewrite pipeline_resolves_reloaded, P. reflexivity.
  Qed.

  Lemma reloaded_equiv c : cwf norm c -> m_hash (cf_meta c) = Some (H (preimage c)) -> cequiv (reloaded c) c.
  Proof.
    intros W Hh. destruct (rebuilt_config_equiv c W) as [E1 E2 E3 E4 E5 E6].
    constructor; try assumption.
    unfold reloaded. cbn [with_hash cf_meta rebuilt_config m_name m_version]. destruct (cf_meta c) as [a b h]. cbn in *. rewrite Hh. reflexivity.
  Qed.

  Lemma reloaded_serialize ex c : cwf norm c -> m_hash (cf_meta c) = Some (H (preimage c)) ->
    serialize ex (reloaded c) = serialize ex c.
  Proof.
    intros W Hh. unfold serialize. f_equal. apply cequiv_json; [apply reloaded_equiv; assumption|].
    unfold reloaded. cbn [with_hash cf_inputs rebuilt_config]. apply reinputs_nodup.
  Qed.
End RoundTrip.
