(* C14 -- ownership invariant (no dictionary reachable from a built object is writable through a
   builder) and its consequence: every operation leaves the observation of every built pipeline and
   dataset unchanged (training changes only the trained pipeline's own component state). *)
From Coq Require Import String List Bool Arith Lia.
From LK Require Import Lib.StrDict Lib.StrDictFacts Gen.C14_alias Model.C14_heap Proofs.C14_heap.
Import ListNotations.
Open Scope list_scope.

Definition pw (p : pobj) : list ref := vals (p_edges p).
Definition dw (d : dobj) : list ref := [d_ents d; d_rels d].
(* dictionaries a live builder can write *)
Definition wrefs (s : state) : list ref := flat_map pw (st_pblds s) ++ flat_map dw (st_dblds s).
(* dictionaries reachable from built objects *)
Definition frefs (s : state) : list ref := flat_map pw (st_pipes s) ++ flat_map dw (st_dsets s).
Definition irefs (s : state) : list ref := flat_map inst_refs (st_pipes s) ++ flat_map inst_refs (st_pblds s).

Record inv (s : state) : Prop := {
  inv_w : forall r, In r (wrefs s) -> r < length (st_heap s);
  inv_f : forall r, In r (frefs s) -> r < length (st_heap s);
  inv_i : forall r, In r (irefs s) -> r < length (st_inst s);
  inv_own : forall r, In r (wrefs s) -> ~ In r (frefs s) }.

(* a pipeline may be trained when its trainable instances are its own *)
Definition op_ok (s : state) (o : op) : Prop :=
  match o with
  | PTrain j _ codes =>
      forall p, nth_error (st_pipes s) j = Some p ->
      forall k q, k <> j -> nth_error (st_pipes s) k = Some q ->
      forall r, In r (trainable_refs codes p) -> ~ In r (inst_refs q)
  | _ => True
  end.
Definition trains (o : op) (j : nat) : Prop := match o with PTrain j' _ _ => j' = j | _ => False end.

Lemma init_inv : inv init.
Proof. constructor; cbn; intros ? []. Qed.

(* ---- observations depend only on the cells an object references ---- *)
Lemma obs_d_stable s s' d :
  hget (st_heap s') (d_ents d) = hget (st_heap s) (d_ents d) ->
  hget (st_heap s') (d_rels d) = hget (st_heap s) (d_rels d) -> obs_d s' d = obs_d s d.
Proof. intros E1 E2. unfold obs_d. rewrite E1, E2. reflexivity. Qed.

Lemma obs_p_stable s s' p :
  (forall r, In r (pw p) -> hget (st_heap s') r = hget (st_heap s) r) ->
  (forall r, In r (inst_refs p) -> hget (st_inst s') r = hget (st_inst s) r) -> obs_p s' p = obs_p s p.
Proof.
  intros E1 E2. unfold obs_p. f_equal.
  - f_equal. apply map_ext_in. intros [n k] Hin. cbn [fst snd]. f_equal.
    destruct k as [|v|code r|code]; cbn [obs_node]; try reflexivity. f_equal. apply E2.
    unfold inst_refs. rewrite in_flat_map. exists (n, PInst code r). split; [exact Hin|left; reflexivity].
  - f_equal. apply map_ext_in. intros [n r] Hin. cbn [fst snd]. f_equal. apply E1.
    unfold pw, vals. rewrite in_map_iff. exists (n, r). split; [reflexivity|exact Hin].
Qed.
(* the configuration part never depends on the instance heap *)
Lemma obs_p_config_stable s s' p :
  (forall r, In r (pw p) -> hget (st_heap s') r = hget (st_heap s) r) ->
  po_edges (obs_p s' p) = po_edges (obs_p s p) /\ po_name (obs_p s' p) = po_name (obs_p s p) /\
  po_aliases (obs_p s' p) = po_aliases (obs_p s p) /\ po_default (obs_p s' p) = po_default (obs_p s p).
Proof.
  intro E1. unfold obs_p. cbn. repeat split. f_equal. apply map_ext_in. intros [n r] Hin. cbn [fst snd]. f_equal. apply E1.
  unfold pw, vals. rewrite in_map_iff. exists (n, r). split; [reflexivity|exact Hin].
Qed.

Lemma in_frefs_pipe s j p r : nth_error (st_pipes s) j = Some p -> In r (pw p) -> In r (frefs s).
Proof. intros H Hr. unfold frefs. rewrite in_app_iff. left. rewrite in_flat_map. exists p. split; [eapply nth_error_In; exact H|exact Hr]. Qed.
Lemma in_frefs_dset s j d r : nth_error (st_dsets s) j = Some d -> In r (dw d) -> In r (frefs s).
Proof. intros H Hr. unfold frefs. rewrite in_app_iff. right. rewrite in_flat_map. exists d. split; [eapply nth_error_In; exact H|exact Hr]. Qed.
Lemma in_wrefs_pbld s i b r : nth_error (st_pblds s) i = Some b -> In r (pw b) -> In r (wrefs s).
Proof. intros H Hr. unfold wrefs. rewrite in_app_iff. left. rewrite in_flat_map. exists b. split; [eapply nth_error_In; exact H|exact Hr]. Qed.
Lemma in_wrefs_dbld s i b r : nth_error (st_dblds s) i = Some b -> In r (dw b) -> In r (wrefs s).
Proof. intros H Hr. unfold wrefs. rewrite in_app_iff. right. rewrite in_flat_map. exists b. split; [eapply nth_error_In; exact H|exact Hr]. Qed.
Lemma in_irefs_pipe s j p r : nth_error (st_pipes s) j = Some p -> In r (inst_refs p) -> In r (irefs s).
Proof. intros H Hr. unfold irefs. rewrite in_app_iff. left. rewrite in_flat_map. exists p. split; [eapply nth_error_In; exact H|exact Hr]. Qed.

(* ---- a generic frame: what a step may do ---- *)
(* all built objects of s are still there and reference cells whose content is unchanged *)
Definition frame (s s' : state) : Prop :=
  (forall j p, nth_error (st_pipes s) j = Some p -> nth_error (st_pipes s') j = Some p) /\
  (forall j d, nth_error (st_dsets s) j = Some d -> nth_error (st_dsets s') j = Some d) /\
  (forall r, In r (frefs s) -> hget (st_heap s') r = hget (st_heap s) r).

Lemma frame_frozen_d s s' : frame s s' -> forall j d, nth_error (st_dsets s) j = Some d ->
  nth_error (st_dsets s') j = Some d /\ obs_d s' d = obs_d s d.
Proof.
  intros [_ [FD FH]] j d H. split; [apply FD; exact H|].
  apply obs_d_stable; apply FH; eapply in_frefs_dset; try exact H; cbn; auto.
Qed.

Section Step.
  Ltac modes := change from_pipeline_edges with Copy in *; change build_wiring with Copy in *;
                change dsb_init_schema with Copy in *; change build_container_schema with Copy in *.

  (* heap unchanged, built lists unchanged *)
  Lemma frame_same_heap s s' : st_heap s' = st_heap s -> st_pipes s' = st_pipes s -> st_dsets s' = st_dsets s -> frame s s'.
  Proof. intros E1 E2 E3. unfold frame. rewrite E1, E2, E3. auto. Qed.

  Lemma frame_ext s s' : inv s -> ext (st_heap s) (st_heap s') ->
    (forall j p, nth_error (st_pipes s) j = Some p -> nth_error (st_pipes s') j = Some p) ->
    (forall j d, nth_error (st_dsets s) j = Some d -> nth_error (st_dsets s') j = Some d) -> frame s s'.
  Proof. intros I E FP FD. split; [exact FP|split; [exact FD|]]. intros r Hr. apply ext_get; [exact E|apply (inv_f _ I); exact Hr]. Qed.

  Lemma frame_edit s s' r f : inv s -> In r (wrefs s) -> st_heap s' = hedit (st_heap s) r f ->
    st_pipes s' = st_pipes s -> st_dsets s' = st_dsets s -> frame s s'.
  Proof.
    intros I Hw E1 E2 E3. unfold frame. rewrite E1, E2, E3. split; [auto|split; [auto|]].
    intros r' Hr'. apply hget_hedit_other. intro X. subst. apply (inv_own _ I r Hw Hr').
  Qed.
End Step.

(* ---- the step preserves the invariant and frames the built objects ---- *)
Lemma flat_map_snoc {X Y} (f : X -> list Y) l x : flat_map f (l ++ [x]) = flat_map f l ++ f x.
Proof. rewrite flat_map_app. cbn. rewrite app_nil_r. reflexivity. Qed.

Lemma in_fm_lset_incl {X Y} (f : X -> list Y) l i b b' y :
  nth_error l i = Some b -> incl (f b') (f b) -> In y (flat_map f (lset l i b')) -> In y (flat_map f l).
Proof.
  intros Eb Hi Hy. destruct (in_flat_map_lset _ _ _ _ _ Hy) as [X0|X0]; [|exact X0].
  rewrite in_flat_map. exists b. split; [eapply nth_error_In; exact Eb|apply Hi; exact X0].
Qed.

(* a pipeline builder is replaced by one that references no new cells *)
Lemma inv_pbld_update s i b b' : inv s -> nth_error (st_pblds s) i = Some b ->
  incl (pw b') (pw b) -> incl (inst_refs b') (inst_refs b) -> inv (with_pblds s (lset (st_pblds s) i b')).
Proof.
  intros [Iw If Ii Io] Eb Hw Hi.
  constructor; unfold wrefs, frefs, irefs in *; cbn [with_pblds st_heap st_inst st_pipes st_pblds st_dsets st_dblds]; try assumption.
  - intros r Hr. apply Iw. rewrite in_app_iff in *. destruct Hr as [Hr|Hr]; [left; eapply in_fm_lset_incl; eassumption|right; exact Hr].
  - intros r Hr. apply Ii. rewrite in_app_iff in *. destruct Hr as [Hr|Hr]; [left; exact Hr|right; eapply in_fm_lset_incl; eassumption].
  - intros r Hr. apply Io. rewrite in_app_iff in *. destruct Hr as [Hr|Hr]; [left; eapply in_fm_lset_incl; eassumption|right; exact Hr].
Qed.

Lemma inv_dbld_update s i b b' : inv s -> nth_error (st_dblds s) i = Some b -> dw b' = dw b ->
  inv (with_dblds s (lset (st_dblds s) i b')).
Proof.
  intros [Iw If Ii Io] Eb Hw.
  assert (Hi : incl (dw b') (dw b)) by (rewrite Hw; intros x Hx; exact Hx).
  constructor; unfold wrefs, frefs, irefs in *; cbn [with_dblds st_heap st_inst st_pipes st_pblds st_dsets st_dblds]; try assumption.
  - intros r Hr. apply Iw. rewrite in_app_iff in *. destruct Hr as [Hr|Hr]; [left; exact Hr|right; eapply in_fm_lset_incl; eassumption].
  - intros r Hr. apply Io. rewrite in_app_iff in *. destruct Hr as [Hr|Hr]; [left; exact Hr|right; eapply in_fm_lset_incl; eassumption].
Qed.

(* a builder's entry is bound to a newly allocated dictionary *)
Lemma inv_pbld_new_edge s i b name c : inv s -> nth_error (st_pblds s) i = Some b ->
  inv (with_heap (with_pblds s (lset (st_pblds s) i (set_edges b (dset name (length (st_heap s)) (p_edges b))))) (st_heap s ++ [c])).
Proof.
  intros [Iw If Ii Io] Eb.
  assert (Hnew : forall r, In r (flat_map pw (lset (st_pblds s) i (set_edges b (dset name (length (st_heap s)) (p_edges b))))) ->
                 r = length (st_heap s) \/ In r (flat_map pw (st_pblds s))).
  { intros r Hr. destruct (in_flat_map_lset _ _ _ _ _ Hr) as [X0|X0]; [|right; exact X0].
    unfold pw in X0. cbn [set_edges p_edges] in X0. destruct (in_vals_dset _ _ _ _ X0) as [->|X']; [left; reflexivity|right].
    rewrite in_flat_map. exists b. split; [eapply nth_error_In; exact Eb|exact X']. }
  constructor; unfold wrefs, frefs, irefs in *; cbn [with_heap with_pblds st_heap st_inst st_pipes st_pblds st_dsets st_dblds]; try assumption.
  - intros r Hr. rewrite app_length. cbn. rewrite in_app_iff in Hr. destruct Hr as [Hr|Hr].
    + destruct (Hnew r Hr) as [->|X0]; [lia|]. assert (r < length (st_heap s)); [|lia]. apply Iw. rewrite in_app_iff. left. exact X0.
    + assert (r < length (st_heap s)); [|lia]. apply Iw. rewrite in_app_iff. right. exact Hr.
  - intros r Hr. rewrite app_length. cbn. specialize (If r Hr). lia.
  - intros r Hr. apply Ii. rewrite in_app_iff in *. destruct Hr as [Hr|Hr]; [left; exact Hr|right].
    eapply (in_fm_lset_incl inst_refs); [exact Eb| |exact Hr]. intros x Hx. exact Hx.
  - intros r Hr Hf. rewrite in_app_iff in Hr. destruct Hr as [Hr|Hr].
    + destruct (Hnew r Hr) as [->|X0]; [specialize (If _ Hf); lia|]. apply (Io r); [rewrite in_app_iff; left; exact X0|exact Hf].
    + apply (Io r); [rewrite in_app_iff; right; exact Hr|exact Hf].
Qed.

Definition inst_untouched (s s' : state) (o : op) : Prop :=
  forall j p, nth_error (st_pipes s) j = Some p -> forall r, In r (inst_refs p) ->
    (match o with
     | PTrain j' _ codes => match nth_error (st_pipes s) j' with Some q => ~ In r (trainable_refs codes q) | None => True end
     | _ => True end) ->
    hget (st_inst s') r = hget (st_inst s) r.

Lemma step_frame_inv s o : inv s -> inv (step s o) /\ frame s (step s o) /\ inst_untouched s (step s o) o.
Proof.
  intro I. unfold inst_untouched.
  change from_pipeline_edges with Copy. change build_wiring with Copy.
  change dsb_init_schema with Copy. change build_container_schema with Copy.
  assert (Hinst_ext : forall s', ext (st_inst s) (st_inst s') ->
            forall j p, nth_error (st_pipes s) j = Some p -> forall r, In r (inst_refs p) -> hget (st_inst s') r = hget (st_inst s) r).
  { intros s' E j p Hp r Hr. apply ext_get; [exact E|]. apply (inv_i _ I). eapply in_irefs_pipe; eassumption. }
  pose proof I as I0. destruct I0 as [Iw If Ii Io].
  destruct o as [name|i name ns|i name f|i name|i f|i d|i|j|j|j label codes|j|meta ents|j|i f|i f|i f|i f|i]; cbn [step].
  all: change from_pipeline_edges with Copy; change build_wiring with Copy;
       change dsb_init_schema with Copy; change build_container_schema with Copy.
  - (* PNew *)
    split; [|split; [apply frame_same_heap; reflexivity|intros; reflexivity]].
    constructor; unfold wrefs, frefs, irefs in *; cbn [with_pblds st_heap st_inst st_pipes st_pblds st_dsets st_dblds]; try assumption.
    + intros r Hr. apply Iw. rewrite flat_map_snoc in Hr. cbn in Hr. rewrite app_nil_r in Hr. exact Hr.
    + intros r Hr. apply Ii. rewrite flat_map_snoc in Hr. cbn in Hr. rewrite app_nil_r in Hr. exact Hr.
    + intros r Hr. apply Io. rewrite flat_map_snoc in Hr. cbn in Hr. rewrite app_nil_r in Hr. exact Hr.
  - (* PBNode *)
    destruct (nth_error (st_pblds s) i) as [b|] eqn:Eb; [|split; [exact I|split; [apply frame_same_heap; reflexivity|intros; reflexivity]]].
    assert (Hplain : forall k, (forall c r, k <> PInst c r) ->
              inv (with_pblds s (lset (st_pblds s) i (set_nodes b (dset name k (p_nodes b)))))).
    { intros k Hk. apply (inv_pbld_update s i b); [exact I|exact Eb|intros x Hx; exact Hx|].
      intros r Hr. unfold inst_refs in *. cbn [set_nodes p_nodes] in Hr. rewrite in_flat_map in *. destruct Hr as [[n k'] [Hin Hk']].
      destruct (in_dset _ _ _ _ Hin) as [E0|Hin'].
      - injection E0 as -> ->. cbn [snd] in Hk'. destruct k; try (now destruct Hk'). exfalso. eapply Hk. reflexivity.
      - exists (n, k'). split; assumption. }
    destruct ns as [|v|code|code].
    + split; [apply Hplain; discriminate|split; [apply frame_same_heap; reflexivity|intros; reflexivity]].
    + split; [apply Hplain; discriminate|split; [apply frame_same_heap; reflexivity|intros; reflexivity]].
    + (* a new instance cell *)
      cbn [alloc]. split; [|split; [apply frame_same_heap; reflexivity|]].
      * constructor; unfold wrefs, frefs, irefs in *; cbn [with_inst with_pblds st_heap st_inst st_pipes st_pblds st_dsets st_dblds]; try assumption.
        -- intros r Hr. apply Iw. rewrite in_app_iff in *. destruct Hr as [Hr|Hr]; [left|right; exact Hr].
           eapply (in_fm_lset_incl pw); [exact Eb| |exact Hr]. intros x Hx. exact Hx.
        -- intros r Hr. rewrite app_length. cbn. rewrite in_app_iff in Hr. destruct Hr as [Hr|Hr].
           { assert (r < length (st_inst s)) by (apply Ii; rewrite in_app_iff; left; exact Hr). lia. }
           destruct (in_flat_map_lset _ _ _ _ _ Hr) as [X0|X0].
           { unfold inst_refs in X0. cbn [set_nodes p_nodes] in X0. rewrite in_flat_map in X0. destruct X0 as [[n k] [Hin Hk]].
             destruct (in_dset _ _ _ _ Hin) as [E0|Hin'].
             - injection E0 as E1 E2. subst n k. cbn in Hk. destruct Hk as [<-|[]]. lia.
             - assert (r < length (st_inst s)); [|lia]. apply Ii. rewrite in_app_iff. right. rewrite in_flat_map. exists b.
               split; [eapply nth_error_In; exact Eb|]. unfold inst_refs. rewrite in_flat_map. exists (n, k). split; assumption. }
           { assert (r < length (st_inst s)); [|lia]. apply Ii. rewrite in_app_iff. right. exact X0. }
        -- intros r Hr. apply Io. rewrite in_app_iff in *. destruct Hr as [Hr|Hr]; [left|right; exact Hr].
           eapply (in_fm_lset_incl pw); [exact Eb| |exact Hr]. intros x Hx. exact Hx.
      * intros j p Hp r Hr _. cbn [with_inst with_pblds st_inst]. apply ext_get; [exists [[]]; reflexivity|].
        apply Ii. eapply in_irefs_pipe; eassumption.
    + split; [apply Hplain; discriminate|split; [apply frame_same_heap; reflexivity|intros; reflexivity]].
  - (* PBWire *)
    destruct (nth_error (st_pblds s) i) as [b|] eqn:Eb; [|split; [exact I|split; [apply frame_same_heap; reflexivity|intros; reflexivity]]].
    cbv zeta. generalize (resolve b name). clear name. intro name.
    destruct (dget name (p_edges b)) as [r0|] eqn:Eg.
    + assert (Hw0 : In r0 (wrefs s)).
      { eapply in_wrefs_pbld; [exact Eb|]. unfold pw, vals. apply dget_in in Eg. change r0 with (snd (name, r0)). apply in_map. exact Eg. }
      split; [|split; [eapply frame_edit; [exact I|exact Hw0|reflexivity|reflexivity|reflexivity]|intros; reflexivity]].
      constructor; unfold wrefs, frefs, irefs in *; cbn [with_heap st_heap st_inst st_pipes st_pblds st_dsets st_dblds];
        try rewrite hedit_len; assumption.
    + cbn [alloc]. split; [apply inv_pbld_new_edge; assumption|split; [|intros; reflexivity]].
      apply frame_ext; [exact I|exists [f []]; reflexivity|auto|auto].
  - (* PBClear *)
    destruct (nth_error (st_pblds s) i) as [b|] eqn:Eb; [|split; [exact I|split; [apply frame_same_heap; reflexivity|intros; reflexivity]]].
    cbv zeta. generalize (clear_key b name). clear name. intro name.
    cbn [alloc]. split; [apply inv_pbld_new_edge; assumption|split; [|intros; reflexivity]].
    apply frame_ext; [exact I|exists [[]]; reflexivity|auto|auto].
  - (* PBAlias *)
    destruct (nth_error (st_pblds s) i) as [b|] eqn:Eb; [|split; [exact I|split; [apply frame_same_heap; reflexivity|intros; reflexivity]]].
    split; [|split; [apply frame_same_heap; reflexivity|intros; reflexivity]].
    apply (inv_pbld_update s i b); [exact I|exact Eb|intros x Hx; exact Hx|intros x Hx; exact Hx].
  - (* PBDefault *)
    destruct (nth_error (st_pblds s) i) as [b|] eqn:Eb; [|split; [exact I|split; [apply frame_same_heap; reflexivity|intros; reflexivity]]].
    split; [|split; [apply frame_same_heap; reflexivity|intros; reflexivity]].
    apply (inv_pbld_update s i b); [exact I|exact Eb|intros x Hx; exact Hx|intros x Hx; exact Hx].
  - (* PBuild *)
    destruct (nth_error (st_pblds s) i) as [b|] eqn:Eb; [|split; [exact I|split; [apply frame_same_heap; reflexivity|intros; reflexivity]]].
    pose proof (instantiate_spec (p_nodes b) (st_inst s)) as SI. destruct (instantiate (st_inst s) (p_nodes b)) as [ih nodes]. destruct SI as [Ei [Ki Fi]].
    pose proof (wiring_for_copy (p_edges b) (p_nodes b) (st_heap s)) as SW.
    destruct (wiring_for Copy (st_heap s) (p_edges b) (p_nodes b)) as [h edges]. destruct SW as [Eh Fh].
    split; [|split].
    + constructor; unfold wrefs, frefs, irefs in *; cbn [with_inst with_heap with_pipes st_heap st_inst st_pipes st_pblds st_dsets st_dblds].
      * intros r Hr. specialize (Iw r Hr). pose proof (ext_len _ _ Eh). lia.
      * intros r Hr. rewrite flat_map_snoc, <- app_assoc, in_app_iff in Hr. destruct Hr as [Hr|Hr].
        -- assert (r < length (st_heap s)) by (apply If; rewrite in_app_iff; left; exact Hr). pose proof (ext_len _ _ Eh). lia.
        -- rewrite in_app_iff in Hr. destruct Hr as [Hr|Hr].
           ++ unfold pw in Hr. cbn [p_edges] in Hr. destruct (Fh r Hr). lia.
           ++ assert (r < length (st_heap s)) by (apply If; rewrite in_app_iff; right; exact Hr). pose proof (ext_len _ _ Eh). lia.
      * intros r Hr. rewrite flat_map_snoc, <- app_assoc, in_app_iff in Hr. destruct Hr as [Hr|Hr].
        -- assert (r < length (st_inst s)) by (apply Ii; rewrite in_app_iff; left; exact Hr). pose proof (ext_len _ _ Ei). lia.
        -- rewrite in_app_iff in Hr. destruct Hr as [Hr|Hr].
           ++ unfold inst_refs in Hr. cbn [p_nodes] in Hr. destruct (Fi r Hr) as [X0|X0].
              ** assert (r < length (st_inst s)); [|pose proof (ext_len _ _ Ei); lia]. apply Ii. rewrite in_app_iff. right.
                 rewrite in_flat_map. exists b. split; [eapply nth_error_In; exact Eb|exact X0].
              ** destruct X0. lia.
           ++ assert (r < length (st_inst s)) by (apply Ii; rewrite in_app_iff; right; exact Hr). pose proof (ext_len _ _ Ei). lia.
      * intros r Hr Hf. rewrite flat_map_snoc, <- app_assoc, in_app_iff in Hf. destruct Hf as [Hf|Hf].
        -- apply (Io r Hr). rewrite in_app_iff. left. exact Hf.
        -- rewrite in_app_iff in Hf. destruct Hf as [Hf|Hf].
           ++ unfold pw in Hf. cbn [p_edges] in Hf. destruct (Fh r Hf). specialize (Iw r Hr). lia.
           ++ apply (Io r Hr). rewrite in_app_iff. right. exact Hf.
    + apply frame_ext; [exact I|exact Eh| |auto].
      intros j p Hp. cbn [with_inst with_heap with_pipes st_pipes]. apply nth_error_app_old. exact Hp.
    + intros j p Hp r Hr _. cbn [with_inst with_heap with_pipes st_inst]. apply ext_get; [exact Ei|]. apply Ii. eapply in_irefs_pipe; eassumption.
  - (* PModify *)
    destruct (nth_error (st_pipes s) j) as [p|] eqn:Ep; [|split; [exact I|split; [apply frame_same_heap; reflexivity|intros; reflexivity]]].
    pose proof (take_all_copy (p_edges p) (st_heap s)) as ST. destruct (take_all Copy (st_heap s) (p_edges p)) as [h edges]. destruct ST as [Eh [Fh _]].
    split; [|split].
    + constructor; unfold wrefs, frefs, irefs in *; cbn [with_heap with_pblds st_heap st_inst st_pipes st_pblds st_dsets st_dblds].
      * intros r Hr. rewrite flat_map_snoc, <- app_assoc, in_app_iff in Hr. destruct Hr as [Hr|Hr].
        -- assert (r < length (st_heap s)) by (apply Iw; rewrite in_app_iff; left; exact Hr). pose proof (ext_len _ _ Eh). lia.
        -- rewrite in_app_iff in Hr. destruct Hr as [Hr|Hr].
           ++ unfold pw in Hr. cbn [p_edges] in Hr. destruct (Fh r Hr). lia.
           ++ assert (r < length (st_heap s)) by (apply Iw; rewrite in_app_iff; right; exact Hr). pose proof (ext_len _ _ Eh). lia.
      * intros r Hr. specialize (If r Hr). pose proof (ext_len _ _ Eh). lia.
      * intros r Hr. apply Ii. rewrite in_app_iff in *. destruct Hr as [Hr|Hr]; [left; exact Hr|].
        rewrite flat_map_snoc, in_app_iff in Hr. destruct Hr as [Hr|Hr]; [right; exact Hr|left].
        unfold inst_refs in Hr. cbn [p_nodes] in Hr. rewrite in_flat_map. exists p. split; [eapply nth_error_In; exact Ep|exact Hr].
      * intros r Hr Hf. rewrite flat_map_snoc, <- app_assoc, in_app_iff in Hr. destruct Hr as [Hr|Hr].
        -- apply (Io r); [rewrite in_app_iff; left; exact Hr|exact Hf].
        -- rewrite in_app_iff in Hr. destruct Hr as [Hr|Hr].
           ++ unfold pw in Hr. cbn [p_edges] in Hr. destruct (Fh r Hr). specialize (If r Hf). lia.
           ++ apply (Io r); [rewrite in_app_iff; right; exact Hr|exact Hf].
    + apply frame_ext; [exact I|exact Eh|auto|auto].
    + intros; reflexivity.
  - (* PClone *)
    destruct (nth_error (st_pipes s) j) as [p|] eqn:Ep; [|split; [exact I|split; [apply frame_same_heap; reflexivity|intros; reflexivity]]].
    pose proof (reinstantiate_spec (p_nodes p) (st_inst s)) as SI. destruct (reinstantiate (st_inst s) (p_nodes p)) as [ih nodes]. destruct SI as [Ei [Ki Fi]].
    pose proof (take_all_copy (p_edges p) (st_heap s)) as ST. destruct (take_all Copy (st_heap s) (p_edges p)) as [h edges]. destruct ST as [Eh [Fh _]].
    split; [|split].
    + constructor; unfold wrefs, frefs, irefs in *; cbn [with_inst with_heap with_pipes st_heap st_inst st_pipes st_pblds st_dsets st_dblds].
      * intros r Hr. specialize (Iw r Hr). pose proof (ext_len _ _ Eh). lia.
      * intros r Hr. rewrite flat_map_snoc, <- app_assoc, in_app_iff in Hr. destruct Hr as [Hr|Hr].
        -- assert (r < length (st_heap s)) by (apply If; rewrite in_app_iff; left; exact Hr). pose proof (ext_len _ _ Eh). lia.
        -- rewrite in_app_iff in Hr. destruct Hr as [Hr|Hr].
           ++ unfold pw in Hr. cbn [p_edges] in Hr. destruct (Fh r Hr). lia.
           ++ assert (r < length (st_heap s)) by (apply If; rewrite in_app_iff; right; exact Hr). pose proof (ext_len _ _ Eh). lia.
      * intros r Hr. rewrite flat_map_snoc, <- app_assoc, in_app_iff in Hr. destruct Hr as [Hr|Hr].
        -- assert (r < length (st_inst s)) by (apply Ii; rewrite in_app_iff; left; exact Hr). pose proof (ext_len _ _ Ei). lia.
        -- rewrite in_app_iff in Hr. destruct Hr as [Hr|Hr].
           ++ unfold inst_refs in Hr. cbn [p_nodes] in Hr. destruct (Fi r Hr). lia.
           ++ assert (r < length (st_inst s)) by (apply Ii; rewrite in_app_iff; right; exact Hr). pose proof (ext_len _ _ Ei). lia.
      * intros r Hr Hf. rewrite flat_map_snoc, <- app_assoc, in_app_iff in Hf. destruct Hf as [Hf|Hf].
        -- apply (Io r Hr). rewrite in_app_iff. left. exact Hf.
        -- rewrite in_app_iff in Hf. destruct Hf as [Hf|Hf].
           ++ unfold pw in Hf. cbn [p_edges] in Hf. destruct (Fh r Hf). specialize (Iw r Hr). lia.
           ++ apply (Io r Hr). rewrite in_app_iff. right. exact Hf.
    + apply frame_ext; [exact I|exact Eh| |auto].
      intros j' p' Hp. cbn [with_inst with_heap with_pipes st_pipes]. apply nth_error_app_old. exact Hp.
    + intros j' p' Hp r Hr _. cbn [with_inst with_heap with_pipes st_inst]. apply ext_get; [exact Ei|]. apply Ii. eapply in_irefs_pipe; eassumption.
  - (* PTrain *)
    destruct (nth_error (st_pipes s) j) as [p|] eqn:Ep; [|split; [exact I|split; [apply frame_same_heap; reflexivity|intros; reflexivity]]].
    split; [|split; [apply frame_same_heap; reflexivity|]].
    + constructor; unfold wrefs, frefs, irefs in *; cbn [with_inst st_heap st_inst st_pipes st_pblds st_dsets st_dblds]; try assumption.
      intros r Hr. rewrite train_all_len. apply Ii. exact Hr.
    + intros j' p' Hp r Hr Hn. cbn [with_inst st_inst]. apply train_all_other. exact Hn.
  - (* PRun *)
    split; [exact I|split; [apply frame_same_heap; reflexivity|intros; reflexivity]].
  - (* DNew *)
    cbn [alloc]. split; [|split].
    + constructor; unfold wrefs, frefs, irefs in *; cbn [with_heap with_dblds st_heap st_inst st_pipes st_pblds st_dsets st_dblds]; try assumption.
      * intros r Hr. rewrite !app_length. cbn. rewrite in_app_iff in Hr. destruct Hr as [Hr|Hr].
        -- assert (r < length (st_heap s)); [|lia]. apply Iw. rewrite in_app_iff. left. exact Hr.
        -- rewrite flat_map_snoc, in_app_iff in Hr. destruct Hr as [Hr|Hr].
           ++ assert (r < length (st_heap s)); [|lia]. apply Iw. rewrite in_app_iff. right. exact Hr.
           ++ cbn in Hr. rewrite app_length in Hr. cbn in Hr. destruct Hr as [<-|[<-|[]]]; lia.
      * intros r Hr. rewrite !app_length. cbn. specialize (If r Hr). lia.
      * intros r Hr Hf. rewrite in_app_iff in Hr. destruct Hr as [Hr|Hr].
        -- apply (Io r); [rewrite in_app_iff; left; exact Hr|exact Hf].
        -- rewrite flat_map_snoc, in_app_iff in Hr. destruct Hr as [Hr|Hr].
           ++ apply (Io r); [rewrite in_app_iff; right; exact Hr|exact Hf].
           ++ cbn in Hr. rewrite app_length in Hr. cbn in Hr. specialize (If r Hf). destruct Hr as [<-|[<-|[]]]; lia.
    + apply frame_ext; [exact I|exists [ents; []]; rewrite <- app_assoc; reflexivity|auto|auto].
    + intros; reflexivity.
  - (* DFrom *)
    destruct (nth_error (st_dsets s) j) as [d|] eqn:Ed; [|split; [exact I|split; [apply frame_same_heap; reflexivity|intros; reflexivity]]].
    pose proof (take_copy (st_heap s) (d_ents d)) as T1. destruct (take Copy (st_heap s) (d_ents d)) as [h1 re]. destruct T1 as [E1 F1].
    pose proof (take_copy h1 (d_rels d)) as T2. destruct (take Copy h1 (d_rels d)) as [h2 rr]. destruct T2 as [E2 F2].
    assert (E12 : ext (st_heap s) h2) by (eapply ext_trans; eassumption).
    pose proof (ext_len _ _ E1) as L1. pose proof (ext_len _ _ E2) as L2. unfold fresh in F1, F2.
    split; [|split].
    + constructor; unfold wrefs, frefs, irefs in *; cbn [with_heap with_dblds st_heap st_inst st_pipes st_pblds st_dsets st_dblds]; try assumption.
      * intros r Hr. rewrite in_app_iff in Hr. destruct Hr as [Hr|Hr].
        -- assert (r < length (st_heap s)); [|lia]. apply Iw. rewrite in_app_iff. left. exact Hr.
        -- rewrite flat_map_snoc, in_app_iff in Hr. destruct Hr as [Hr|Hr].
           ++ assert (r < length (st_heap s)); [|lia]. apply Iw. rewrite in_app_iff. right. exact Hr.
           ++ cbn in Hr. destruct Hr as [<-|[<-|[]]]; lia.
      * intros r Hr. specialize (If r Hr). lia.
      * intros r Hr Hf. rewrite in_app_iff in Hr. destruct Hr as [Hr|Hr].
        -- apply (Io r); [rewrite in_app_iff; left; exact Hr|exact Hf].
        -- rewrite flat_map_snoc, in_app_iff in Hr. destruct Hr as [Hr|Hr].
           ++ apply (Io r); [rewrite in_app_iff; right; exact Hr|exact Hf].
           ++ cbn in Hr. specialize (If r Hf). destruct Hr as [<-|[<-|[]]]; lia.
    + apply frame_ext; [exact I|exact E12|auto|auto].
    + intros; reflexivity.
  - (* DBMeta *)
    destruct (nth_error (st_dblds s) i) as [b|] eqn:Eb; [|split; [exact I|split; [apply frame_same_heap; reflexivity|intros; reflexivity]]].
    split; [|split; [apply frame_same_heap; reflexivity|intros; reflexivity]].
    apply (inv_dbld_update s i b); [exact I|exact Eb|reflexivity].
  - (* DBEnts *)
    destruct (nth_error (st_dblds s) i) as [b|] eqn:Eb; [|split; [exact I|split; [apply frame_same_heap; reflexivity|intros; reflexivity]]].
    assert (Hw0 : In (d_ents b) (wrefs s)) by (eapply in_wrefs_dbld; [exact Eb|left; reflexivity]).
    split; [|split; [eapply frame_edit; [exact I|exact Hw0|reflexivity|reflexivity|reflexivity]|intros; reflexivity]].
    constructor; unfold wrefs, frefs, irefs in *; cbn [with_heap st_heap st_inst st_pipes st_pblds st_dsets st_dblds];
      try rewrite hedit_len; assumption.
  - (* DBRels *)
    destruct (nth_error (st_dblds s) i) as [b|] eqn:Eb; [|split; [exact I|split; [apply frame_same_heap; reflexivity|intros; reflexivity]]].
    assert (Hw0 : In (d_rels b) (wrefs s)) by (eapply in_wrefs_dbld; [exact Eb|right; left; reflexivity]).
    split; [|split; [eapply frame_edit; [exact I|exact Hw0|reflexivity|reflexivity|reflexivity]|intros; reflexivity]].
    constructor; unfold wrefs, frefs, irefs in *; cbn [with_heap st_heap st_inst st_pipes st_pblds st_dsets st_dblds];
      try rewrite hedit_len; assumption.
  - (* DBTables *)
    destruct (nth_error (st_dblds s) i) as [b|] eqn:Eb; [|split; [exact I|split; [apply frame_same_heap; reflexivity|intros; reflexivity]]].
    split; [|split; [apply frame_same_heap; reflexivity|intros; reflexivity]].
    apply (inv_dbld_update s i b); [exact I|exact Eb|reflexivity].
  - (* DBuild *)
    destruct (nth_error (st_dblds s) i) as [b|] eqn:Eb; [|split; [exact I|split; [apply frame_same_heap; reflexivity|intros; reflexivity]]].
    pose proof (take_copy (st_heap s) (d_ents b)) as T1. destruct (take Copy (st_heap s) (d_ents b)) as [h1 re]. destruct T1 as [E1 F1].
    pose proof (take_copy h1 (d_rels b)) as T2. destruct (take Copy h1 (d_rels b)) as [h2 rr]. destruct T2 as [E2 F2].
    assert (E12 : ext (st_heap s) h2) by (eapply ext_trans; eassumption).
    pose proof (ext_len _ _ E1) as L1. pose proof (ext_len _ _ E2) as L2. unfold fresh in F1, F2.
    split; [|split].
    + constructor; unfold wrefs, frefs, irefs in *; cbn [with_heap with_dsets st_heap st_inst st_pipes st_pblds st_dsets st_dblds]; try assumption.
      * intros r Hr. specialize (Iw r Hr). lia.
      * intros r Hr. rewrite in_app_iff in Hr. destruct Hr as [Hr|Hr].
        -- assert (r < length (st_heap s)); [|lia]. apply If. rewrite in_app_iff. left. exact Hr.
        -- rewrite flat_map_snoc, in_app_iff in Hr. destruct Hr as [Hr|Hr].
           ++ assert (r < length (st_heap s)); [|lia]. apply If. rewrite in_app_iff. right. exact Hr.
           ++ cbn in Hr. destruct Hr as [<-|[<-|[]]]; lia.
      * intros r Hr Hf. rewrite in_app_iff in Hf. destruct Hf as [Hf|Hf].
        -- apply (Io r Hr). rewrite in_app_iff. left. exact Hf.
        -- rewrite flat_map_snoc, in_app_iff in Hf. destruct Hf as [Hf|Hf].
           ++ apply (Io r Hr). rewrite in_app_iff. right. exact Hf.
           ++ cbn in Hf. specialize (Iw r Hr). destruct Hf as [<-|[<-|[]]]; lia.
    + apply frame_ext; [exact I|exact E12|auto|].
      intros j d Hd. cbn [with_heap with_dsets st_dsets]. apply nth_error_app_old. exact Hd.
    + intros; reflexivity.
Qed.
