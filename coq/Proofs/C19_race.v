(* C19 -- the law of the first pick of the stochastic rankers (real analysis, Coquelicot).

   The rankers sort by the keys  K_j = log(U_j) / r_j  (largest first), U_j uniform on (0,1) and
   r_j = max(weight_j, tiny) > 0.  With T_j = - K_j:
     key_tail              T_j > t  <->  U_j < exp(- r_j t)      so P(T_j > t) = exp(- r_j t): an
                           exponential clock of rate r_j, and "largest key" = "first clock to ring";
     survive_exp           the clocks of a set of items all still run at t with probability
                           exp(-(sum of their rates) t);
     first_pick_probability  integrating the density r_i exp(-r_i t) of clock i against the
                           probability that every other clock is still running:
                           int_0^oo r_i exp(-r_i t) prod_{j<>i} exp(-r_j t) dt = r_i / (sum of all rates).
   Independence of the U_j and "probability = that integral" are the idealised-generator part and
   are not formalised (no measure theory here).

   Print Assumptions lists the standard-library axioms of the classical reals
   (ClassicalDedekindReals.sig_forall_dec, sig_not_dec, functional_extensionality_dep, classic). *)
From Coq Require Import Reals Lra List.
From Coquelicot Require Import Coquelicot.
Import ListNotations.
Open Scope R_scope.

Definition total (ws : list R) : R := fold_right Rplus 0 ws.
Definition survive (ws : list R) (t : R) : R := fold_right (fun w acc => exp (- w * t) * acc) 1 ws.
Definition first_density (w : R) (others : list R) (t : R) : R := w * exp (- w * t) * survive others t.

Lemma survive_exp ws t : survive ws t = exp (- total ws * t).
Proof.
  induction ws as [|w ws IH]; simpl.
  - replace (- 0 * t) with 0 by ring. symmetry. apply exp_0.
  - rewrite IH, <- exp_plus. f_equal. ring.
Qed.

Lemma key_tail_l w u t : 0 < w -> 0 < u -> (t < - ln u / w <-> u < exp (- w * t)).
Proof.
  intros Hw Hu. split; intro H.
  - rewrite <- (exp_ln u Hu) at 1. apply exp_increasing.
    apply (Rmult_lt_compat_r w) in H; [|exact Hw].
    unfold Rdiv in H. rewrite Rmult_assoc, Rinv_l, Rmult_1_r in H by lra. lra.
  - rewrite <- (exp_ln u Hu) in H. apply exp_lt_inv in H.
    apply (Rmult_lt_reg_r w); [exact Hw|].
    unfold Rdiv. rewrite Rmult_assoc, Rinv_l, Rmult_1_r by lra. lra.
Qed.

Lemma race_finite (w W T : R) : 0 < W ->
  is_RInt (fun t => w * exp (- W * t)) 0 T ((w / W) * (1 - exp (- W * T))).
Proof.
  intros HW.
  replace ((w / W) * (1 - exp (- W * T)))
    with ((fun t => - (w / W) * exp (- W * t)) T - (fun t => - (w / W) * exp (- W * t)) 0).
  2:{ simpl. rewrite Rmult_0_r, exp_0. field. lra. }
  apply (is_RInt_derive (fun t => - (w / W) * exp (- W * t)) (fun t => w * exp (- W * t))).
  - intros x _. auto_derive; [exact I|]. field. lra.
  - intros x _. apply continuity_pt_filterlim.
    apply derivable_continuous_pt.
    exists (w * (- W * exp (- W * x))).
    apply is_derive_Reals. auto_derive; [exact I|]. ring.
Qed.

Lemma lim_neg_scale W : 0 < W -> is_lim (fun T => - W * T) p_infty m_infty.
Proof.
  intro HW.
  assert (E : Rbar_mult (Finite (- W)) p_infty = m_infty).
  { unfold Rbar_mult, Rbar_mult'. destruct (Rle_dec 0 (- W)) as [H|H]; [exfalso; lra|reflexivity]. }
  rewrite <- E. apply (is_lim_scal_l (fun y => y) (- W) p_infty p_infty). apply is_lim_id.
Qed.

Lemma race_limit (w W : R) : 0 < W ->
  is_lim (fun T => (w / W) * (1 - exp (- W * T))) p_infty (w / W).
Proof.
  intro HW.
  assert (L0 : is_lim (fun T => exp (- W * T)) p_infty 0).
  { apply (is_lim_comp (fun y => exp y) (fun T => - W * T) p_infty 0 m_infty).
    - apply is_lim_exp_m.
    - apply lim_neg_scale. exact HW.
    - exists 0. intros x _. discriminate. }
  assert (L1 : is_lim (fun T => 1 - exp (- W * T)) p_infty 1).
  { apply (is_lim_minus (fun _ => 1) (fun T => exp (- W * T)) p_infty 1 0 1).
    - apply is_lim_const.
    - exact L0.
    - unfold is_Rbar_minus, is_Rbar_plus. simpl. f_equal. f_equal. ring. }
  pose proof (is_lim_scal_l (fun T => 1 - exp (- W * T)) (w / W) p_infty 1 L1) as L2.
  simpl in L2. rewrite Rmult_1_r in L2. exact L2.
Qed.

Lemma first_pick_probability_l (w : R) (others : list R) : 0 < w -> List.Forall (fun x => 0 <= x) others ->
  let W := w + total others in
  0 < W /\
  (forall T, is_RInt (first_density w others) 0 T ((w / W) * (1 - exp (- W * T)))) /\
  is_lim (fun T => (w / W) * (1 - exp (- W * T))) p_infty (w / W).
Proof.
  intros Hw Ho W.
  assert (Ht : 0 <= total others).
  { induction Ho as [|x l Hx _ IH]; simpl; lra. }
  assert (HW : 0 < W) by (unfold W; lra).
  split; [exact HW|]. split; [|apply race_limit; exact HW].
  intro T. apply (is_RInt_ext (fun t => w * exp (- W * t))); [|apply race_finite; exact HW].
  intros t _. unfold first_density. rewrite survive_exp, Rmult_assoc, <- exp_plus. f_equal. f_equal.
  unfold W. ring.
Qed.

(* the first-pick probabilities of all items add up to one *)
Lemma first_pick_total (ws : list R) : 0 < total ws ->
  fold_right Rplus 0 (map (fun w => w / total ws) ws) = 1.
Proof.
  intro H. set (W := total ws) in *.
  assert (G : forall l, fold_right Rplus 0 (map (fun w => w / W) l) = total l / W).
  { induction l as [|x l IH]; simpl; [field; lra|rewrite IH; field; lra]. }
  rewrite G. unfold W. field. fold W. lra.
Qed.
