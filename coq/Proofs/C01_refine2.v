(* C01 -- every builder operation refines its identifier-level reading; invariants of the builder state. *)
From Coq Require Import ZArith List Bool Arith Lia Sorting.Sorted Sorting.Permutation.
From LK Require Import Model.C01_dataset Proofs.C01_vocab Proofs.C01_refine1.
Import ListNotations.
Open Scope Z_scope.

Definition U (st : bstate) : vocab := opt_vocab (b_users st).
Definition I (st : bstate) : vocab := opt_vocab (b_items st).

Record inv (st : bstate) : Prop := {
  inv_u : NoDup (U st);
  inv_i : NoDup (I st);
  inv_t : Forall (valid (U st) (I st)) (b_table st)
}.
Record Rel (st : bstate) (k : sstate) : Prop := {
  R_u : same_opt (b_users st) (k_users k);
  R_i : same_opt (b_items st) (k_items k);
  R_t : k_recs k = map (dec (U st) (I st)) (b_table st);
  R_c : b_cols st = k_cols k;
  R_r : b_repeats st = k_repeats k
}.

Lemma Forall_filter {A} (P : A -> Prop) (f : A -> bool) l : Forall P l -> Forall P (filter f l).
Proof. intro H. rewrite Forall_forall in *. intros x Hx. apply filter_In in Hx. apply H. tauto. Qed.

Lemma filter_ext_in' {A} (f g : A -> bool) l : (forall x, In x l -> f x = g x) -> filter f l = filter g l.
Proof.
  induction l as [|x r IH]; intro H; [reflexivity|]. cbn. rewrite (H x (or_introl eq_refl)), IH; [reflexivity|].
  intros y Hy. apply H. right. exact Hy.
Qed.

Lemma removed_refines UU II rem r : NoDup UU -> NoDup II -> valid UU II r ->
  match rem with
  | None => false
  | Some (RemPairs l) =>
      existsb (fun p => match resolve UU (fst p), resolve II (snd p) with
                        | Some u, Some i => Nat.eqb u (r_u r) && Nat.eqb i (r_i r)
                        | _, _ => false end) l
  | Some (RemUsers l) => existsb (fun o => match o with Some k => Nat.eqb k (r_u r) | None => false end) (map (resolve UU) l)
  | Some (RemItems l) => existsb (fun o => match o with Some k => Nat.eqb k (r_i r) | None => false end) (map (resolve II) l)
  end =
  match rem with
  | None => false
  | Some (RemPairs l) => existsb (id_pair_eqb (fst (dec UU II r))) l
  | Some (RemUsers l) => mem_z (uid_of (dec UU II r)) l
  | Some (RemItems l) => mem_z (iid_of (dec UU II r)) l
  end.
Proof.
  intros NU NI [Lu Li]. destruct rem as [[l|l|l]|]; [| | |reflexivity].
  - apply existsb_ext'. intros p _. unfold id_pair_eqb, dec, term. cbn [fst snd].
    rewrite <- (resolve_eqb UU (r_u r) (fst p) NU Lu), <- (resolve_eqb II (r_i r) (snd p) NI Li).
    destruct (resolve UU (fst p)); destruct (resolve II (snd p)); cbn; try reflexivity. rewrite andb_false_r. reflexivity.
  - rewrite existsb_map'. unfold mem_z, uid_of, dec, term. cbn [fst]. apply existsb_ext'. intros x _. apply resolve_eqb; assumption.
  - rewrite existsb_map'. unfold mem_z, iid_of, dec, term. cbn [fst snd]. apply existsb_ext'. intros x _. apply resolve_eqb; assumption.
Qed.

Lemma step_refines s st k o : inv st -> Rel st k ->
  snd (step s st o) = snd (s_step s k o) /\ inv (fst (step s st o)) /\ Rel (fst (step s st o)) (fst (s_step s k o)) /\
  prefix (U st) (U (fst (step s st o))) /\ prefix (I st) (I (fst (step s st o))).
Proof.
  intros [Nu Ni Vt] [Ru Ri Rt Rc Rr]. destruct o as [c ids p|rows cols p|lo hi rem|].
  - (* add_entities *)
    destruct c; cbn [step s_step].
    + pose proof (add_entities_refines (b_users st) (k_users k) ids p Ru Nu) as AR.
      destruct (add_entities (b_users st) ids p) as [w|e]; destruct (s_add_entities (k_users k) ids p) as [w'|e']; try contradiction.
      * destruct AR as [SO [Nw [Pw _]]]. cbn [fst snd]. split; [reflexivity|]. split; [|split; [|split; [exact Pw|apply prefix_refl]]].
        -- constructor; cbn; [exact Nw|exact Ni|]. apply (valid_grow (U st) (I st)); [exact Pw|apply prefix_refl|exact Vt].
        -- constructor; cbn; try assumption. unfold U, I; cbn. rewrite Rt. symmetry. apply dec_stable; [exact Pw|apply prefix_refl|exact Vt].
      * subst e'. cbn [fst snd]. split; [reflexivity|]. split; [constructor; assumption|]. split; [constructor; assumption|split; apply prefix_refl].
    + pose proof (add_entities_refines (b_items st) (k_items k) ids p Ri Ni) as AR.
      destruct (add_entities (b_items st) ids p) as [w|e]; destruct (s_add_entities (k_items k) ids p) as [w'|e']; try contradiction.
      * destruct AR as [SO [Nw [Pw _]]]. cbn [fst snd]. split; [reflexivity|]. split; [|split; [|split; [apply prefix_refl|exact Pw]]].
        -- constructor; cbn; [exact Nu|exact Nw|]. apply (valid_grow (U st) (I st)); [apply prefix_refl|exact Pw|exact Vt].
        -- constructor; cbn; try assumption. unfold U, I; cbn. rewrite Rt. symmetry. apply dec_stable; [apply prefix_refl|exact Pw|exact Vt].
      * subst e'. cbn [fst snd]. split; [reflexivity|]. split; [constructor; assumption|]. split; [constructor; assumption|split; apply prefix_refl].
  - (* add_interactions *)
    cbn [step s_step].
    pose proof (link_refines (b_users st) (k_users k) (map uid_of rows) p Ru Nu) as LU.
    destruct (link_class (b_users st) (map uid_of rows) p) as [[us unums]|e]; destruct (s_link (k_users k) (map uid_of rows) p) as [us'|e']; try contradiction.
    2:{ subst e'. cbn [fst snd]. split; [reflexivity|]. split; [constructor; assumption|]. split; [constructor; assumption|split; apply prefix_refl]. }
    destruct LU as [SOu [Nus [Pu [_ Eun]]]].
    pose proof (link_refines (b_items st) (k_items k) (map iid_of rows) p Ri Ni) as LI.
    destruct (link_class (b_items st) (map iid_of rows) p) as [[is_ inums]|e]; destruct (s_link (k_items k) (map iid_of rows) p) as [is'|e']; try contradiction.
    2:{ subst e'. cbn [fst snd]. split; [reflexivity|]. split; [|split; [|split; [exact Pu|apply prefix_refl]]].
        - constructor; cbn; [exact Nus|exact Ni|]. apply (valid_grow (U st) (I st)); [exact Pu|apply prefix_refl|exact Vt].
        - constructor; cbn; try assumption. unfold U, I; cbn. rewrite Rt. symmetry. apply dec_stable; [exact Pu|apply prefix_refl|exact Vt]. }
    destruct LI as [SOi [Nis [Pi [_ Ein]]]].
    set (UU := opt_vocab us) in *. set (II := opt_vocab is_) in *.
    assert (Forall (valid UU II) (b_table st)) as Vold by (apply (valid_grow (U st) (I st)); assumption).
    assert (map (dec UU II) (b_table st) = k_recs k) as Dold by (rewrite Rt; apply dec_stable; assumption).
    subst unums inums. destruct (zip_recs_dec UU II rows) as [Dnew Vnew].
    set (new := zip_recs (map (resolve UU) (map uid_of rows)) (map (resolve II) (map iid_of rows)) rows) in *.
    assert (filter (fun r => s_known us' (uid_of r) && s_known is' (iid_of r)) rows = map (dec UU II) new) as Fnew.
    { rewrite Dnew. apply filter_ext_in'. intros r _.
      rewrite <- (s_known_same us us' _ (proj2 SOu)), <- (s_known_same is_ is' _ (proj2 SOi)). reflexivity. }
    rewrite Fnew.
    assert (map (dec UU II) (b_table st ++ new) = k_recs k ++ map (dec UU II) new) as Dall by (rewrite map_app, Dold; reflexivity).
    assert (Forall (valid UU II) (b_table st ++ new)) as Vall by (apply Forall_app; split; assumption).
    assert (has_dup_pair (map fst (b_table st ++ new)) = has_dup_idpair (map fst (k_recs k ++ map (dec UU II) new))) as HD.
    { rewrite <- Dall. apply has_dup_dec; assumption. }
    rewrite <- Rr, <- HD, <- Rc.
    assert (forall rp,
      inv {| b_users := us; b_items := is_; b_table := b_table st ++ new; b_cols := or_cols (b_cols st) cols; b_repeats := rp |} /\
      Rel {| b_users := us; b_items := is_; b_table := b_table st ++ new; b_cols := or_cols (b_cols st) cols; b_repeats := rp |}
          {| k_users := us'; k_items := is'; k_recs := k_recs k ++ map (dec UU II) new; k_cols := or_cols (b_cols st) cols; k_repeats := rp |}) as Done.
    { intro rp. split; constructor; cbn; try assumption; try reflexivity. unfold U, I; cbn. fold UU II. symmetry. exact Dall. }
    assert (inv {| b_users := us; b_items := is_; b_table := b_table st; b_cols := b_cols st; b_repeats := b_repeats st |} /\
            Rel {| b_users := us; b_items := is_; b_table := b_table st; b_cols := b_cols st; b_repeats := b_repeats st |}
                {| k_users := us'; k_items := is'; k_recs := k_recs k; k_cols := b_cols st; k_repeats := b_repeats st |}) as Failed.
    { split; constructor; cbn; try assumption; try reflexivity. unfold U, I; cbn. fold UU II. symmetry. exact Dold. }
    destruct (b_repeats st); [| |].
    + destruct (has_dup_pair (map fst (b_table st ++ new))); cbn [fst snd]; (split; [reflexivity|]);
        (split; [apply Done|split; [apply Done|split; assumption]]).
    + destruct (has_dup_pair (map fst (b_table st ++ new))); cbn [fst snd]; (split; [reflexivity|]).
      * split; [apply Failed|split; [apply Failed|split; assumption]].
      * split; [apply Done|split; [apply Done|split; assumption]].
    + cbn [fst snd]. split; [reflexivity|]. split; [apply Done|split; [apply Done|split; assumption]].
  - (* filter_interactions *)
    cbn [step s_step]. rewrite <- Rc.
    destruct ((match lo, hi with None, None => false | _, _ => true end) && negb (has_ts s (b_cols st))).
    { cbn [fst snd]. split; [reflexivity|]. split; [constructor; assumption|]. split; [constructor; assumption|split; apply prefix_refl]. }
    assert (needs_table rem (b_users st) (b_items st) = needs_table rem (k_users k) (k_items k)) as NT.
    { destruct Ru as [Eu _]. destruct Ri as [Ei _]. unfold needs_table. clear -Eu Ei.
      destruct rem as [[l|l|l]|]; destruct (b_users st), (k_users k), (b_items st), (k_items k); cbn in *; try discriminate; reflexivity. }
    rewrite <- NT. destruct (needs_table rem (b_users st) (b_items st)).
    { cbn [fst snd]. split; [reflexivity|]. split; [constructor; assumption|]. split; [constructor; assumption|split; apply prefix_refl]. }
    cbn [fst snd]. split; [reflexivity|]. split; [|split; [|split; apply prefix_refl]].
    + constructor; cbn; try assumption. apply Forall_filter. exact Vt.
    + constructor; cbn; try assumption; try reflexivity. unfold U, I; cbn. rewrite Rt. symmetry. apply filter_dec.
      intros r Hr. rewrite Forall_forall in Vt. specialize (Vt r Hr).
      pose proof (removed_refines (U st) (I st) rem r Nu Ni Vt) as RR. unfold U, I in RR.
      rewrite RR. reflexivity.
  - (* clear *)
    cbn [step s_step fst snd]. split; [reflexivity|]. split; [constructor; cbn; try assumption; constructor|].
    split; [constructor; cbn; try assumption; reflexivity|split; apply prefix_refl].
Qed.
