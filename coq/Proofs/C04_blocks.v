(* C04 -- lemmas added in the round-3 fixer round: one-item sub-lists, kernels evaluated in blocks, and the integer
   configuration fields the generator explores (Model/C04_scatter.v, end of file). *)
From Coq Require Import ZArith QArith Qabs List Bool Lia.
From LK Require Import Lib.QLib Model.C04_scatter Proofs.C04_proofs.
Import ListNotations.
Open Scope Q_scope.

(* ---- every candidate scored alone ---- *)
Lemma singles_inhabited_l {F} vocab f (items picked : list (entry F)) :
  incl (map fst picked) (map fst items) ->
  singles_ok 0 (obs_of (scatter vocab f items)) (map fst picked)
             (map (fun it => obs_of (scatter vocab f [it])) picked) = true.
Proof.
  unfold singles_ok. induction picked as [|it picked IH]; intro Inc; cbn [map all2]; [reflexivity|].
  assert (Inc1 : incl (map fst [it]) (map fst items)).
  { intros i [<-|[]]. apply Inc. left. reflexivity. }
  destruct (scatter_passes_checks_l vocab f items [it] Inc1) as [_ [A [_ [_ Cn]]]].
  cbn [map] in A. rewrite A, Cn. cbn [andb]. apply IH.
  intros i Hi. apply Inc. right. exact Hi.
Qed.

(* sound: one-item answers passing the exact check carry the base call's score of their item *)
Lemma singles_sound_l (base : obs) : forall (picks : list Z) (singles : list obs),
  singles_ok 0 base picks singles = true ->
  Forall2 (fun i o => exists s, o = [(i, s)] /\ opt_eq s (score_fun base i)) picks singles.
Proof.
  unfold singles_ok. induction picks as [|i picks IH]; intros [|o singles] H; cbn [all2] in H; try discriminate; [constructor|].
  apply andb_true_iff in H. destruct H as [H1 H]. apply andb_true_iff in H1. destruct H1 as [A Cn].
  constructor; [|apply IH; exact H].
  pose proof (checks_sound_l base o [i] A Cn) as S.
  unfold aligned_b, ids_eqb in A.
  destruct o as [|[j s] [|e o]]; cbn [map all2 fst] in A; try discriminate.
  - apply andb_true_iff in A. destruct A as [E _]. apply Z.eqb_eq in E. subst j.
    exists s. split; [reflexivity|]. inversion S; subst. assumption.
  - apply andb_true_iff in A. destruct A as [_ A]. discriminate.
Qed.

(* ---- blocks ---- *)
Lemma concat_chunks_fuel b : forall fuel ks, concat (chunks_fuel fuel b ks) = ks.
Proof.
  induction fuel as [|fu IH]; intro ks; cbn [chunks_fuel].
  - cbn. apply app_nil_r.
  - destruct ks as [|k ks]; [reflexivity|]. cbn [concat]. rewrite IH. apply firstn_skipn.
Qed.

Lemma blocked_pointwise_l b g ks : blocked b (map g) ks = map g ks.
Proof.
  unfold blocked, chunks. rewrite flat_map_concat_map, <- concat_map, concat_chunks_fuel. reflexivity.
Qed.

(* a scorer that evaluates a pointwise kernel block by block and scatters the concatenated answers through the mask
   scores every item as the pointwise scatter does -- for every block size *)
Lemma blocked_mask_scatter_l {F} vocab b g (items : list (entry F)) :
  mask_scatter vocab (blocked b (map g)) items = scatter vocab g items.
Proof. apply mask_scatter_pointwise_l. intro ks. apply blocked_pointwise_l. Qed.

(* the size of every block but the rest is b (what "bounded working set" means), for b > 0 *)
Lemma chunks_fuel_bounded b : forall fuel ks, (length ks <= fuel)%nat -> (0 < b)%nat ->
  Forall (fun c => (length c <= b)%nat) (chunks_fuel fuel b ks).
Proof.
  induction fuel as [|fu IH]; intros ks L B; cbn [chunks_fuel].
  - destruct ks; [|cbn in L; lia]. constructor; [cbn; lia|constructor].
  - destruct ks as [|k ks]; [constructor|]. constructor.
    + rewrite firstn_length. lia.
    + apply IH; [|exact B]. rewrite skipn_length. cbn [length] in *. lia.
Qed.
