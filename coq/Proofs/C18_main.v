(* C18 -- the component-level statements, for any frame that passes frame_ok. *)
From Coq Require Import ZArith List Bool Lia.
From Coq Require String.
Import String.StringSyntax.
From LK Require Import Model.C18_retrain Proofs.C18_proofs.
Import ListNotations.
Local Open Scope string_scope.

Lemma history_characterised_l : forall (D S : Type) (fit : D -> S -> store -> fitres) fr,
  frame_ok fr = true ->
  forall h a, lookup a (run fit fr h []) = lookup a (state_of fit fr (effective fit fr None h)).
Proof.
  intros D S fit fr Hok h a. apply frame_ok_closed in Hok.
  apply (run_characterised_gen fit fr Hok h None []). apply same_refl.
Qed.

Lemma retrain_whole_store : forall (D S : Type) (fit : D -> S -> store -> fitres) fr,
  closed fr -> forall h d o, o_retrain o = true ->
  forall a, lookup a (run fit fr (h ++ [(d, o)]) []) = lookup a (train fit fr d o []).
Proof.
  intros D S fit fr Hc h d o Hr a.
  rewrite (run_characterised_gen fit fr Hc (h ++ [(d, o)]) None [] (same_refl _) a).
  rewrite effective_last by exact Hr. reflexivity.
Qed.

Lemma retrain_equals_fresh_l : forall (D S : Type) (fit : D -> S -> store -> fitres) fr,
  frame_ok fr = true ->
  forall h d o, o_retrain o = true ->
    (forall c0 a, mem a (fr_wmust fr) = true ->
       lookup a (run fit fr (h ++ [(d, o)]) c0) = lookup a (train fit fr d o [])) /\
    (forall a, lookup a (run fit fr (h ++ [(d, o)]) []) = lookup a (train fit fr d o [])) /\
    (forall (Q A : Type) (score : store -> Q -> A), reads_only (fr_reads fr) score ->
       forall q, score (run fit fr (h ++ [(d, o)]) []) q = score (train fit fr d o []) q).
Proof.
  intros D S fit fr Hok h d o Hr. apply frame_ok_closed in Hok. split; [|split].
  - intros c0 a Ha. rewrite run_app. cbn [run]. apply retrain_from_any; assumption.
  - apply retrain_whole_store; assumption.
  - intros Q A score Hro q. apply Hro. intros a _. apply retrain_whole_store; assumption.
Qed.
