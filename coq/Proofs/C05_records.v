(* C05 -- record-based splitting: from_df/to_df round trip, _make_pair is an exact partition,
   cross-folding puts every record in exactly one test part. *)
From Coq Require Import ZArith List Bool Lia Permutation Arith PeanoNat.
From LK Require Import Lib.SplitLib Gen.C05_holdout Model.C05_split.
Import ListNotations.

(* ---- group_by_user (ItemListCollection.from_df) and its flattening (to_df) ------------------------ *)
Lemma filter_or_disjoint_perm {A} (p q : A -> bool) l :
  (forall x, In x l -> p x = true -> q x = false) ->
  Permutation (filter p l ++ filter q l) (filter (fun x => p x || q x) l).
Proof.
  induction l as [|x l IH]; intro H; [constructor|]. cbn [filter].
  assert (forall y, In y l -> p y = true -> q y = false) as H' by (intros y Hy; apply H; right; exact Hy).
  specialize (IH H'). destruct (p x) eqn:P.
  - rewrite (H x (or_introl eq_refl) P). cbn [orb app]. constructor. exact IH.
  - cbn [orb]. destruct (q x).
    + apply Permutation_sym. apply Permutation_cons_app. apply Permutation_sym. exact IH.
    + exact IH.
Qed.

Definition mem_z (ks : list Z) (z : Z) : bool := existsb (Z.eqb z) ks.
Lemma mem_z_true ks z : mem_z ks z = true <-> In z ks.
Proof.
  unfold mem_z. rewrite existsb_exists. split.
  - intros [y [Hy E]]. apply Z.eqb_eq in E. subst. exact Hy.
  - intro H. exists z. split; [exact H|apply Z.eqb_refl].
Qed.

Lemma flat_groups_perm (l : list rec) ks : NoDup ks ->
  Permutation (flat_map (fun u => filter (fun r => (ru r =? u)%Z) l) ks) (filter (fun r => mem_z ks (ru r)) l).
Proof.
  induction 1 as [|u ks Hn Hd IH]; cbn [flat_map].
  - rewrite (filter_ext_in' (fun r => mem_z [] (ru r)) (fun _ => false)) by reflexivity.
    induction l; [constructor|exact IHl].
  - eapply Permutation_trans; [apply Permutation_app_head; exact IH|].
    eapply Permutation_trans; [apply filter_or_disjoint_perm|].
    + intros r _ E. apply Z.eqb_eq in E. destruct (mem_z ks (ru r)) eqn:M; [|reflexivity].
      apply mem_z_true in M. rewrite E in M. contradiction.
    + apply Permutation_refl.
Qed.

Lemma group_by_user_concat l :
  concat (map snd (group_by_user l)) = flat_map (fun u => filter (fun r => (ru r =? u)%Z) l) (nodup Z.eq_dec (map ru l)).
Proof.
  unfold group_by_user. rewrite map_map. cbn [snd]. rewrite flat_map_concat_map. reflexivity.
Qed.

(* to_df (from_df frame) lists exactly the rows of the frame *)
Lemma group_by_user_flat l : Permutation (concat (map snd (group_by_user l))) l.
Proof.
  rewrite group_by_user_concat.
  eapply Permutation_trans; [apply flat_groups_perm; apply NoDup_nodup|].
  rewrite (filter_ext_in' _ (fun _ => true)).
  - clear. induction l as [|x l IH]; [constructor|]. cbn [filter]. constructor. exact IH.
  - intros r Hr. apply mem_z_true. apply nodup_In. apply in_map. exact Hr.
Qed.
Lemma group_by_user_keys l : NoDup (map fst (group_by_user l)) /\
  forall u g, In (u, g) (group_by_user l) -> g <> [] /\ forall r, In r g -> ru r = u /\ In r l.
Proof.
  unfold group_by_user. split.
  - rewrite map_map. cbn [fst]. rewrite map_id. apply NoDup_nodup.
  - intros u g H. apply in_map_iff in H. destruct H as [u' [E Hu]]. inversion E; subst. clear E. split.
    + apply nodup_In in Hu. apply in_map_iff in Hu. destruct Hu as [r [E Hr]]. intro Z0.
      assert (In r (filter (fun r0 => (ru r0 =? u)%Z) l)) as X by (apply filter_In; split; [exact Hr|apply Z.eqb_eq; exact E]).
      rewrite Z0 in X. destruct X.
    + intros r Hr. apply filter_In in Hr. destruct Hr as [Hr E]. apply Z.eqb_eq in E. split; assumption.
Qed.

(* ---- _make_pair -------------------------------------------------------------------------------------- *)
Lemma make_pair_test (test_only : bool) recs idx :
  Permutation (test_recs (make_pair test_only recs idx)) (take_mask dflt (in_idx idx) recs).
Proof. unfold test_recs, make_pair. cbn [f_test]. apply group_by_user_flat. Qed.

Lemma make_pair_partition_l recs idx :
  Permutation (f_train (make_pair false recs idx) ++ test_recs (make_pair false recs idx)) recs.
Proof.
  eapply Permutation_trans; [apply Permutation_app_head; apply make_pair_test|].
  unfold make_pair. cbn [f_train]. apply take_mask_partition.
Qed.
Lemma make_pair_test_only_l recs idx :
  f_train (make_pair true recs idx) = [] /\
  (forall r, In r (test_recs (make_pair true recs idx)) -> In r recs).
Proof.
  split; [reflexivity|]. intros r H. apply (Permutation_in _ (make_pair_test true recs idx)) in H.
  exact (take_mask_in dflt _ recs r H).
Qed.
Lemma make_pair_test_rows (test_only : bool) recs idx : valid_idx (length recs) idx ->
  Permutation (test_recs (make_pair test_only recs idx)) (gather dflt recs idx).
Proof.
  intro H. eapply Permutation_trans; [apply make_pair_test|]. apply take_mask_gather. exact H.
Qed.

(* a partition of records with distinct (user, item) pairs shares no pair *)
Lemma partition_no_shared_pair (train test recs : list rec) :
  Permutation (train ++ test) recs -> NoDup (map pair_of recs) ->
  forall r1 r2, In r1 train -> In r2 test -> pair_of r1 <> pair_of r2.
Proof. intros P N. exact (perm_split_disjoint pair_of train test recs P N). Qed.

(* ---- crossfold_records ----------------------------------------------------------------------------------- *)
Lemma sections_valid (perm : list nat) n (secs : list (list nat)) :
  Permutation perm (seq 0 n) -> concat secs = perm -> forall s, In s secs -> valid_idx n s.
Proof.
  intros P C s Hs. assert (NoDup perm) as N by (apply (Permutation_NoDup (Permutation_sym P)); apply seq_NoDup).
  split.
  - apply (NoDup_concat_each secs); [rewrite C; exact N|exact Hs].
  - intros p Hp. assert (In p perm) as I by (rewrite <- C; apply (in_concat_in secs s p Hs Hp)).
    apply (Permutation_in _ P) in I. apply in_seq in I. lia.
Qed.

Lemma concat_tests_perm (test_only : bool) recs (secs : list (list nat)) :
  (forall s, In s secs -> valid_idx (length recs) s) ->
  Permutation (concat (map (fun s => test_recs (make_pair test_only recs s)) secs)) (gather dflt recs (concat secs)).
Proof.
  induction secs as [|s secs IH]; intro H; [constructor|]. cbn [map concat]. rewrite gather_app.
  apply Permutation_app.
  - apply make_pair_test_rows. apply H. left. reflexivity.
  - apply IH. intros s' Hs'. apply H. right. exact Hs'.
Qed.

Lemma crossfold_records_once_l recs perm k (test_only : bool) :
  Permutation perm (seq 0 (length recs)) -> (0 < k)%Z ->
  exists folds, crossfold_records recs k test_only perm = Folds folds /\
    length folds = Z.to_nat k /\
    Permutation (concat (map test_recs folds)) recs /\
    (forall j, (j < Z.to_nat k)%nat ->
       length (test_recs (nth j folds (mkFold [] []))) =
       (length recs / Z.to_nat k + (if j <? length recs mod Z.to_nat k then 1 else 0))%nat) /\
    (forall f, In f folds ->
       (test_only = false -> Permutation (f_train f ++ test_recs f) recs) /\
       (test_only = true -> f_train f = []) /\
       (forall r, In r (test_recs f) -> In r recs)).
Proof.
  intros P Hk. unfold crossfold_records. assert ((k <=? 0)%Z = false) as T by (apply Z.leb_gt; exact Hk). rewrite T.
  set (kn := Z.to_nat k). assert (0 < kn)%nat as Hkn by (unfold kn; lia).
  set (secs := array_split perm kn). eexists. split; [reflexivity|].
  assert (concat secs = perm) as C by (apply array_split_concat; exact Hkn).
  assert (forall s, In s secs -> valid_idx (length recs) s) as V by (apply (sections_valid perm _ secs P C)).
  assert (length perm = length recs) as LP by (rewrite (Permutation_length P), seq_length; reflexivity).
  split; [rewrite map_length; apply array_split_length|]. split; [|split].
  - rewrite map_map. eapply Permutation_trans; [apply concat_tests_perm; exact V|]. rewrite C.
    eapply Permutation_trans; [apply gather_perm; exact P|]. fold (positions recs). rewrite gather_positions. apply Permutation_refl.
  - intros j Hj. assert (j < length secs)%nat as Hjs by (unfold secs; rewrite array_split_length; exact Hj).
    rewrite (nth_indep _ (mkFold [] []) (make_pair test_only recs [])) by (rewrite map_length; exact Hjs).
    rewrite (map_nth (make_pair test_only recs)).
    assert (In (nth j secs []) secs) as I by (apply nth_In; exact Hjs).
    rewrite (Permutation_length (make_pair_test_rows test_only recs _ (V _ I))), gather_length.
    unfold secs. rewrite array_split_sizes by assumption. rewrite LP. reflexivity.
  - intros f Hf. apply in_map_iff in Hf. destruct Hf as [s [E Hs]]. subst f. split; [|split].
    + intro E. subst test_only. apply make_pair_partition_l.
    + intro E. subst test_only. reflexivity.
    + intros r Hr. apply (Permutation_in _ (make_pair_test test_only recs s)) in Hr. exact (take_mask_in dflt _ recs r Hr).
Qed.

(* ---- every pair produced by any record-based splitter ------------------------------------------------------- *)
Definition pair_ok (recs : list rec) (f : fold) : Prop :=
  (Permutation (f_train f ++ test_recs f) recs \/ f_train f = []) /\ forall r, In r (test_recs f) -> In r recs.

Lemma make_pair_ok (test_only : bool) recs idx : pair_ok recs (make_pair test_only recs idx).
Proof.
  split.
  - destruct test_only; [right; reflexivity|left; apply make_pair_partition_l].
  - intros r Hr. apply (Permutation_in _ (make_pair_test test_only recs idx)) in Hr. exact (take_mask_in dflt _ recs r Hr).
Qed.
Lemma make_pair_exact recs idx : Permutation (f_train (make_pair false recs idx) ++ test_recs (make_pair false recs idx)) recs.
Proof. apply make_pair_partition_l. Qed.

Lemma sequence_in l fs f : sequence l = Folds fs -> In f fs -> In (Some f) l.
Proof.
  unfold sequence. destruct (forallb _ l); [|discriminate]. intro E. inversion E; subst. clear E.
  intro H. apply in_flat_map in H. destruct H as [o [Ho Hf]]. destruct o as [g|]; [|destruct Hf].
  destruct Hf as [E|[]]. subst. exact Ho.
Qed.

(* with test_only = false every pair of sample_records / crossfold_records is an exact partition;
   with test_only = true the training part is empty or the pair is an exact partition (the paths that
   do not forward the flag) *)
Lemma records_pairs_l recs size repeats (disjoint test_only : bool) draws fs :
  sample_records recs size repeats disjoint test_only draws = Folds fs ->
  forall f, In f fs ->
    pair_ok recs f /\ (test_only = false -> Permutation (f_train f ++ test_recs f) recs).
Proof.
  unfold sample_records. intros E f Hf. destruct repeats as [reps|].
  - destruct (disjoint && (Z.of_nat (length recs) <=? reps * size)%Z).
    + unfold crossfold_records in E. destruct (reps <=? 0)%Z; [discriminate|]. inversion E; subst. clear E.
      apply in_map_iff in Hf. destruct Hf as [s [E _]]. subst. split; [apply make_pair_ok|intros _; apply make_pair_exact].
    + destruct disjoint.
      * inversion E; subst. clear E. apply in_map_iff in Hf. destruct Hf as [s [E _]]. subst.
        split; [apply make_pair_ok|]. intro T. subst. apply make_pair_exact.
      * apply (sequence_in _ _ f E) in Hf. apply in_map_iff in Hf. destruct Hf as [i [Ei _]].
        destruct (np_choice (nth i draws []) (Z.of_nat (length recs)) size); [|discriminate]. cbn [option_map] in Ei.
        inversion Ei; subst. split; [apply make_pair_ok|]. intro T. subst. apply make_pair_exact.
  - destruct (np_choice (nth 0 draws []) (Z.of_nat (length recs)) size); [|discriminate]. inversion E; subst. clear E.
    destruct Hf as [E|[]]. subst. split; [apply make_pair_ok|intros _; apply make_pair_exact].
Qed.

(* sample sizes: a valid draw of `size` positions yields `size` test records *)
Lemma sample_records_single_size recs size draws (test_only disjoint : bool) :
  valid_idx (length recs) (nth 0 draws []) -> Z.of_nat (length (nth 0 draws [])) = size ->
  exists f, sample_records recs size None disjoint test_only draws = Folds [f] /\ Z.of_nat (length (test_recs f)) = size.
Proof.
  intros V L. unfold sample_records, np_choice.
  assert (((0 <=? size) && (size <=? Z.of_nat (length recs)))%Z = true) as T.
  { apply andb_true_iff. split; apply Z.leb_le; [lia|]. rewrite <- L.
    destruct V as [Nd Lt]. apply Nat2Z.inj_le. apply NoDup_incl_length with (l' := seq 0 (length recs)) in Nd.
    - rewrite seq_length in Nd. exact Nd.
    - intros p Hp. apply in_seq. specialize (Lt p Hp). lia. }
  rewrite T. eexists. split; [reflexivity|].
  rewrite (Permutation_length (make_pair_test_rows false recs _ V)), gather_length. exact L.
Qed.
