(* C07 -- the run-level value inside RunAnalysis.measure: the aggregate is taken over exactly the
   per-list data of the outputs that have a test list, in output order. *)
From Coq Require Import ZArith QArith Qabs List Bool Lia.
From LK Require Import Lib.QLib Gen.C07_agg Model.C07_metrics Proofs.C07_proofs.
Import ListNotations.
Open Scope Q_scope.

Definition data_of (m : metric) (o : ilist) (tl : option ilist) : list (Q * Q) :=
  match tl with
  | Some t => match m_compute m o t with Some d => [d] | None => [] end
  | None => []
  end.
Definition inter_spec (m : metric) (outputs : list (list Z * ilist)) (ts : list (option ilist)) : list (Q * Q) :=
  flat_map (fun ot => data_of m (snd (fst ot)) (snd ot)) (combine outputs ts).

Lemma sequence_flat_map {A B C} (f : A -> option B) (g : B -> list C) (h : A -> list C) l rows :
  sequence (map f l) = Some rows ->
  (forall x y, In x l -> f x = Some y -> g y = h x) ->
  flat_map g rows = flat_map h l.
Proof.
  revert rows. induction l as [|x l IH]; intros rows S H; simpl in S.
  - injection S as <-. reflexivity.
  - destruct (f x) as [y|] eqn:E; [|discriminate].
    destruct (sequence (map f l)) as [r|] eqn:E2; [|discriminate]. injection S as <-.
    simpl. rewrite (H x y (or_introl eq_refl) E). f_equal. apply IH; [reflexivity|].
    intros x' y' I. apply H. right. exact I.
Qed.

Lemma nth_const_map {A B} (c : B) (l : list A) k : nth k (map (fun _ => c) l) c = c.
Proof. revert k. induction l as [|x l IH]; intros [|k]; simpl; auto. Qed.

Lemma filter_app_nth {A} (p : A -> bool) pre m post :
  p m = true -> nth_error (filter p (pre ++ m :: post)) (length (filter p pre)) = Some m.
Proof.
  intro H. rewrite filter_app. simpl. rewrite H.
  rewrite nth_error_app2 by lia. rewrite Nat.sub_diag. reflexivity.
Qed.

Lemma cell_data m o t c :
  m_decomposed m = true -> cell m o t = Some c -> snd c = data_of m o (Some t).
Proof.
  intros D H. unfold cell in H. rewrite D in H. unfold data_of.
  destruct (m_compute m o t) as [d|]; [|discriminate].
  destruct (m_extract m d) as [v|].
  - injection H as <-. reflexivity.
  - destruct (m_listwise m).
    + destruct (m_measure_list m o t); [|discriminate]. injection H as <-. reflexivity.
    + injection H as <-. reflexivity.
Qed.

Lemma row_data pre m post o tl r :
  m_decomposed m = true ->
  row (pre ++ m :: post) o tl = Some r ->
  snd (nth (length (filter in_table pre)) r (RNone, [])) = data_of m o tl.
Proof.
  intros D R. assert (T : in_table m = true) by (unfold in_table; rewrite D; apply orb_true_r).
  unfold row in R. destruct tl as [t|].
  - pose proof (filter_app_nth in_table pre m post T) as N.
    assert (N2 : nth_error (map (fun m0 => cell m0 o t) (filter in_table (pre ++ m :: post)))
                           (length (filter in_table pre)) = Some (cell m o t)).
    { erewrite map_nth_error; [reflexivity|exact N]. }
    destruct (sequence_nth _ _ _ _ R N2) as [c [Hc Nc]].
    rewrite (nth_error_nth _ _ _ Nc). apply cell_data; assumption.
  - injection R as <-. rewrite (nth_const_map (RNone, @nil (Q * Q))). reflexivity.
Qed.

Lemma globals_of_nth inter outputs test pre0 pre m post :
  m_decomposed m = true ->
  nth_error (globals_of inter outputs test pre0 (pre ++ m :: post)) (length (filter in_globals pre))
  = Some (m_aggregate m (inter (length (filter in_table (pre0 ++ pre))))).
Proof.
  intro D. assert (G : in_globals m = true) by (unfold in_globals; rewrite D; apply orb_true_r).
  revert pre0. induction pre as [|x pre IH]; intro pre0.
  - simpl. rewrite G, D. rewrite app_nil_r. reflexivity.
  - simpl. destruct (in_globals x) eqn:Gx; simpl.
    + rewrite IH. rewrite <- app_assoc. reflexivity.
    + rewrite IH. rewrite <- app_assoc. reflexivity.
Qed.

Lemma measure_global ofs tfs pre m post outputs test a :
  measure ofs tfs (pre ++ m :: post) outputs test = OK a ->
  m_decomposed m = true ->
  exists ts,
    sequence (map (fun e => lookup_projected ofs tfs (fst e) test) outputs) = Some ts /\
    nth_error (a_globals a) (length (filter in_globals pre)) = Some (m_aggregate m (inter_spec m outputs ts)).
Proof.
  unfold measure. intros H D.
  destruct (sequence (map (fun e => lookup_projected ofs tfs (fst e) test) outputs)) as [ts|] eqn:E1; [|discriminate].
  destruct (sequence (map (fun ot => row (pre ++ m :: post) (snd (fst ot)) (snd ot)) (combine outputs ts))) as [rows|] eqn:E2; [|discriminate].
  injection H as <-. cbn [a_globals]. exists ts. split; [reflexivity|].
  rewrite globals_of_nth by exact D. simpl app. do 2 f_equal.
  unfold inter_spec.
  apply (sequence_flat_map (fun ot => row (pre ++ m :: post) (snd (fst ot)) (snd ot))
            (fun r => snd (nth (length (filter in_table pre)) r (RNone, [])))
            (fun ot => data_of m (snd (fst ot)) (snd ot)) _ _ E2).
  intros x y _ R. apply (row_data pre m post _ _ _ D R).
Qed.

(* specialised to RMSE / MAE: the run-level value is the definition on the pooled pairs *)
Definition pooled_pairs (outputs : list (list Z * ilist)) (ts : list (option ilist)) : list (Q * Q) :=
  flat_map (fun ot => match snd ot with Some t => both (snd (fst ot)) t | None => [] end) (combine outputs ts).

Lemma inter_spec_pred ml cd ex ga ms mt d outputs ts :
  (forall ot t, In ot (combine outputs ts) -> snd ot = Some t -> align ms mt (snd (fst ot)) t <> None) ->
  inter_spec (pred_metric ml cd ex ga ms mt d) outputs ts =
  map (fun j => cd (aligned_of j))
      (flat_map (fun ot => match snd ot with Some t => [join (snd (fst ot)) t] | None => [] end) (combine outputs ts)).
Proof.
  unfold inter_spec. induction (combine outputs ts) as [|[[k o] tl] l IH]; intro H; simpl; [reflexivity|].
  rewrite map_app, IH by (intros; eapply H; [right|]; eassumption). f_equal.
  destruct tl as [t|]; simpl; [|reflexivity].
  destruct (align ms mt o t) as [al|] eqn:A.
  - apply align_some in A. subst al. reflexivity.
  - exfalso. eapply (H (k, o, Some t) t); [left; reflexivity|reflexivity|exact A].
Qed.

Lemma pooled_concat l :
  concat (map both_of (flat_map (fun ot : list Z * ilist * option ilist =>
       match snd ot with Some t => [join (snd (fst ot)) t] | None => [] end) l))
  = flat_map (fun ot => match snd ot with Some t => both (snd (fst ot)) t | None => [] end) l.
Proof.
  induction l as [|[[k o] [t|]] l IH]; simpl; auto.
  rewrite both_join, IH. reflexivity.
Qed.

Lemma sequence_in {A B} (f : A -> option B) l rows x :
  sequence (map f l) = Some rows -> In x l -> exists y, f x = Some y.
Proof.
  intros S I. destruct (In_nth_error _ _ I) as [i N].
  assert (N2 : nth_error (map f l) i = Some (f x)) by (erewrite map_nth_error; [reflexivity|exact N]).
  destruct (sequence_nth _ _ _ _ S N2) as [y [Hy _]]. eauto.
Qed.

Lemma measure_ok_compute ofs tfs pre m post outputs test a ts :
  measure ofs tfs (pre ++ m :: post) outputs test = OK a ->
  m_decomposed m = true ->
  sequence (map (fun e => lookup_projected ofs tfs (fst e) test) outputs) = Some ts ->
  forall ot t, In ot (combine outputs ts) -> snd ot = Some t -> m_compute m (snd (fst ot)) t <> None.
Proof.
  unfold measure. intros H D E1 ot t I St. rewrite E1 in H.
  destruct (sequence (map (fun ot => row (pre ++ m :: post) (snd (fst ot)) (snd ot)) (combine outputs ts))) as [rows|] eqn:E2; [|discriminate].
  destruct (sequence_in _ _ _ _ E2 I) as [r R]. rewrite St in R. unfold row in R.
  assert (T : in_table m = true) by (unfold in_table; rewrite D; apply orb_true_r).
  assert (Im : In m (filter in_table (pre ++ m :: post))).
  { apply filter_In. split; [apply in_or_app; right; left; reflexivity|exact T]. }
  destruct (sequence_in _ _ _ _ R Im) as [c C]. unfold cell in C. rewrite D in C.
  destruct (m_compute m (snd (fst ot)) t); [discriminate|discriminate].
Qed.

Lemma run_level_pred ml cd ex ga (def : list (Q * Q) -> res) ofs tfs pre ms mt d post outputs test a :
  (forall js, res_eq (ga (map (fun j => cd (aligned_of j)) js)) (def (concat (map both_of js)))) ->
  measure ofs tfs (pre ++ pred_metric ml cd ex ga ms mt d :: post) outputs test = OK a ->
  exists ts v,
    sequence (map (fun e => lookup_projected ofs tfs (fst e) test) outputs) = Some ts /\
    nth_error (a_globals a) (length (filter in_globals pre)) = Some v /\
    res_eq v (def (pooled_pairs outputs ts)).
Proof.
  intros P H.
  destruct (measure_global _ _ _ _ _ _ _ _ H eq_refl) as [ts [E1 N]].
  exists ts. eexists. split; [exact E1|]. split; [exact N|].
  cbn [m_aggregate pred_metric].
  rewrite inter_spec_pred.
  - unfold pooled_pairs. rewrite <- pooled_concat. apply P.
  - intros ot t I St A.
    apply (measure_ok_compute _ _ _ _ _ _ _ _ _ H eq_refl E1 ot t I St).
    cbn [m_compute pred_metric]. rewrite A. reflexivity.
Qed.

Lemma run_level_rmse ofs tfs pre ms mt d post outputs test a :
  measure ofs tfs (pre ++ rmse_metric ms mt d :: post) outputs test = OK a ->
  exists ts v,
    sequence (map (fun e => lookup_projected ofs tfs (fst e) test) outputs) = Some ts /\
    nth_error (a_globals a) (length (filter in_globals pre)) = Some v /\
    res_eq v (rmse_def (pooled_pairs outputs ts)).
Proof. apply run_level_pred. exact rmse_global_pooled. Qed.
Lemma run_level_mae ofs tfs pre ms mt d post outputs test a :
  measure ofs tfs (pre ++ mae_metric ms mt d :: post) outputs test = OK a ->
  exists ts v,
    sequence (map (fun e => lookup_projected ofs tfs (fst e) test) outputs) = Some ts /\
    nth_error (a_globals a) (length (filter in_globals pre)) = Some v /\
    res_eq v (mae_def (pooled_pairs outputs ts)).
Proof. apply run_level_pred. exact mae_global_pooled. Qed.
