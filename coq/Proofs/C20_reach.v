(* C20 -- every eligible column can be drawn: there is a stream of in-range draws on which the call
   returns (no error, enough draws) with the wanted column in the wanted cell. *)
From Coq Require Import ZArith List Bool Lia.
From LK Require Import Gen.C20_shape Model.C20_sampling Proofs.C20_key Proofs.C20_resample Proofs.C20_sample.
Import ListNotations.
Open Scope Z_scope.

Lemma Forall_eq_app {A} (x : A) a b : Forall (eq x) (a ++ b) -> Forall (eq x) a /\ Forall (eq x) b.
Proof. apply Forall_app. Qed.

Section Const.
  Variable m : mat.
  Variable w : weighting.
  Variable d0 : Z.
  Hypothesis Hpop : 0 < pop_n m w.

  (* on a constant stream that is long enough the resampling returns, and leaves a constant stream *)
  Lemma resample_const : forall fuel b rows cols ds,
    length cols = length rows -> Forall (eq d0) ds ->
    (rows = [] \/ b < Z.of_nat fuel) -> (Z.to_nat b * length rows <= length ds)%nat ->
    exists out warns rest, resample m w fuel b rows cols ds = Ok (out, warns, rest) /\
      Forall (eq d0) rest /\ (length ds <= length rest + Z.to_nat b * length rows)%nat.
  Proof.
    induction fuel as [|fuel IH]; intros b rows cols ds L Hc Hf Hl; cbn [resample];
      destruct (existsb (fun x => x) (check_negatives m rows cols)) eqn:Ex;
      try (exists cols, (@nil Z), ds; split; [reflexivity|split; [exact Hc|lia]]).
    - assert (rows <> []) as Hne by (intro E; subst; cbn in Ex; discriminate).
      destruct Hf as [Hf|Hf]; [contradiction|]. unfold budget_positive, warn_on_exhaustion.
      destruct (b >? 0) eqn:Eb; [cbn in Hf; lia|].
      eexists _, _, _. split; [reflexivity|split; [exact Hc|lia]].
    - unfold budget_positive, warn_on_exhaustion. destruct (b >? 0) eqn:Eb;
        [|eexists _, _, _; split; [reflexivity|split; [exact Hc|lia]]].
      assert (0 < b) as Hb by lia. set (hits := check_negatives m rows cols) in *.
      pose proof (select_length_le hits rows) as Lsel.
      assert (1 <= Z.to_nat b)%nat as Hb1 by lia.
      assert (length (select hits rows) <= length ds)%nat as Lenough by nia.
      destruct (draw_columns_enough m w _ ds Hpop Lenough) as [d [ds1 [Eds [Ld Ed]]]]. rewrite Ed.
      subst ds. apply Forall_eq_app in Hc. destruct Hc as [Hc1 Hc2]. rewrite app_length in *.
      assert (Z.to_nat (budget_next b) = (Z.to_nat b - 1)%nat) as Eq by (unfold budget_next; lia).
      destruct (IH (budget_next b) (select hits rows) (map (col_of m w) d) ds1) as [out [warns [rest [E [Hr Hlen]]]]].
      + rewrite map_length. exact Ld.
      + exact Hc2.
      + right. unfold budget_next. destruct Hf as [Hf|Hf]; [subst; cbn in Ex; discriminate|lia].
      + rewrite Eq. nia.
      + rewrite E. eexists _, _, _. split; [reflexivity|]. split; [exact Hr|]. rewrite Eq in Hlen. nia.
  Qed.

  (* the per-column loop on a constant stream: the cell (i, .) that already holds an unobserved
     column keeps it in every output column *)
  Lemma resample_cols_const att rows i r c :
    nth_error rows i = Some r -> hit m r c = false ->
    forall cols ds,
    Forall (fun col => length col = length rows /\ nth_error col i = Some c) cols ->
    Forall (eq d0) ds -> (length cols * (Z.to_nat att * length rows) <= length ds)%nat ->
    exists out warns rest, resample_cols m w att rows cols ds = Ok (out, warns, rest) /\
      length out = length cols /\ Forall (fun col => nth_error col i = Some c) out.
  Proof.
    intros Hr Hh. assert (1 <= length rows)%nat as Hlen1.
    { destruct rows; [destruct i; discriminate|cbn; lia]. }
    induction cols as [|col cs IH]; intros ds Hcols Hc Hl; cbn [resample_cols].
    - exists (@nil (list Z)), (@nil Z), ds. split; [reflexivity|split; [reflexivity|constructor]].
    - inversion Hcols as [|? ? [Lcol Hi] Hcs]; subst. cbn [length] in Hl.
      destruct (resample_const (fuel_for ds) att rows col ds Lcol Hc) as [c' [w1 [ds1 [E1 [Hc1 Hl1]]]]].
      + right. unfold fuel_for. nia.
      + nia.
      + rewrite E1. destruct (IH ds1 Hcs Hc1) as [cs' [w2 [ds2 [E2 [L2 F2]]]]]; [nia|].
        rewrite E2. eexists _, _, _. split; [reflexivity|]. split; [cbn; lia|].
        constructor; [|exact F2]. eapply resample_keeps; eassumption.
  Qed.
End Const.

Definition eligible (m : mat) (w : weighting) (c : Z) : Prop :=
  match w with Uniform => 0 <= c < m_ncols m | Popular => occurs m c end.

Lemma eligible_draw m w c : eligible m w c -> exists d0, 0 <= d0 < pop_n m w /\ col_of m w d0 = c.
Proof.
  destruct w; unfold eligible, pop_n, col_of, uniform_population, uniform_colmap, popular_population, popular_colmap,
    pop_size, apply_colmap, nnz.
  - intro H. exists c. split; [exact H|reflexivity].
  - intros [r Hin]. destruct (In_nth _ _ (0, 0) Hin) as [k [Hk E]]. exists (Z.of_nat k).
    split; [lia|]. rewrite Nat2Z.id, E. reflexivity.
Qed.

Lemma every_eligible_reachable_l m w att n rows i j r c :
  nth_error rows i = Some r -> (j < ncolumns n)%nat ->
  eligible m w c -> hit m r c = false ->
  exists ds, draws_ok m w ds /\
    exists out warns rest col, sample m w true att n rows ds = Ok (out, warns, rest) /\
      nth_error out j = Some col /\ nth_error col i = Some c.
Proof.
  intros Hr Hj He Hh. destruct (eligible_draw _ _ _ He) as [d0 [Hd0 Ec]].
  set (len := length rows). set (k := ncolumns n).
  exists (repeat d0 (len * k + k * (Z.to_nat att * len))).
  assert (forall K, Forall (eq d0) (repeat d0 K)) as Hrep.
  { intro K. rewrite Forall_forall. intros x Hx. apply repeat_spec in Hx. auto. }
  split. { unfold draws_ok. eapply Forall_impl; [|apply Hrep]. intros a <-. exact Hd0. }
  assert (0 < pop_n m w) as Hpop by lia.
  unfold sample. fold len. fold (ncolumns n). fold k.
  destruct (draw_columns_enough m w (len * k) (repeat d0 (len * k + k * (Z.to_nat att * len))) Hpop) as [d [ds1 [Eds [Ld Ed]]]].
  { rewrite repeat_length. lia. }
  rewrite Ed. pose proof (Hrep (len * k + k * (Z.to_nat att * len))%nat) as Hall. rewrite Eds in Hall.
  apply Forall_eq_app in Hall. destruct Hall as [Hd Hds1].
  assert (length ds1 = (k * (Z.to_nat att * len))%nat) as Lds1.
  { apply (f_equal (@length Z)) in Eds. rewrite repeat_length, app_length in Eds. lia. }
  assert (i < len)%nat as Hi by (apply nth_error_Some; rewrite Hr; discriminate).
  set (cols := map (fun j0 => column_of len k j0 (map (col_of m w) d)) (seq 0 k)).
  assert (Forall (fun col => length col = length rows /\ nth_error col i = Some c) cols) as Hcols.
  { unfold cols. rewrite Forall_map, Forall_forall. intros j0 Hj0. apply in_seq in Hj0.
    split; [apply column_of_length|]. unfold column_of.
    rewrite nth_error_map. rewrite (nth_error_nth' (seq 0 len) 0%nat) by (rewrite seq_length; exact Hi).
    rewrite seq_nth by exact Hi. cbn [option_map plus]. f_equal.
    assert (In (nth (i * k + j0) (map (col_of m w) d) 0) (map (col_of m w) d)) as Hin.
    { apply nth_In. rewrite map_length, Ld. nia. }
    apply in_map_iff in Hin. destruct Hin as [x [Ex Hx]]. rewrite Forall_forall in Hd. rewrite <- (Hd _ Hx) in Ex.
    rewrite <- Ex. exact Ec. }
  destruct (resample_cols_const m w d0 Hpop att rows i r c Hr Hh cols ds1 Hcols Hds1) as [out [warns [rest [E [Lo Fo]]]]].
  { unfold cols. rewrite map_length, seq_length, Lds1. fold len. lia. }
  rewrite E. assert (j < length out)%nat as Hjo by (rewrite Lo; unfold cols; rewrite map_length, seq_length; exact Hj).
  destruct (nth_error out j) as [col|] eqn:En; [|apply nth_error_None in En; lia].
  exists out, warns, rest, col. split; [reflexivity|]. split; [exact En|].
  rewrite Forall_forall in Fo. apply Fo. eapply nth_error_In; exact En.
Qed.
