(* C09 -- scoring side: "the at most k most similar qualifying neighbours" as a specification (TopSel),
   its boolean checker, the scorers' specifications, and the proofs that the code-shaped models of
   Model/C09_knn.v (item-kNN fast and dense top-k paths, user-kNN sorted-neighbour truncation) meet them. *)
From Coq Require Import ZArith QArith Qabs List Bool Arith Lia Lqa Setoid Morphisms Sorted Permutation.
From LK Require Import Lib.QLib Lib.SortPerm Model.C09_knn Proofs.C09_sim_proofs.
Import ListNotations.
Open Scope Q_scope.

(* ---------------- specification of a neighbour selection ---------------- *)
(* ks: distinct candidates, min(k, #candidates) of them, and no candidate left out is strictly more
   similar than one taken (so exactly tied neighbours may be exchanged) *)
Definition TopSel (k : nat) (sim : nat -> Q) (cands ks : list nat) : Prop :=
  NoDup ks /\ incl ks cands /\ length ks = Nat.min k (length cands) /\
  forall x y, In x ks -> In y cands -> ~ In y ks -> sim y <= sim x.

Lemma memb_In x l : memb x l = true <-> In x l.
Proof.
  induction l as [|y l IH]; simpl; [split; [discriminate|tauto]|].
  rewrite orb_true_iff, Nat.eqb_eq, IH. split; intros [H|H]; auto.
Qed.
Lemma memb_nIn x l : memb x l = false <-> ~ In x l.
Proof. rewrite <- memb_In. destruct (memb x l); split; intro H; congruence. Qed.

Lemma nodupb_NoDup l : nodupb l = true <-> NoDup l.
Proof.
  induction l as [|x l IH]; simpl; [split; [constructor|reflexivity]|].
  rewrite andb_true_iff, negb_true_iff, memb_nIn, IH. split.
  - intros [N D]. constructor; assumption.
  - intro H. inversion H; subst. tauto.
Qed.

Lemma topsel_iff k sim cands ks : topsel_b k sim cands ks = true <-> TopSel k sim cands ks.
Proof.
  unfold topsel_b, TopSel. rewrite !andb_true_iff, nodupb_NoDup, Nat.eqb_eq, !forallb_forall.
  split.
  - intros [[[N I] L] D]. split; [exact N|]. split; [intros x Hx; apply memb_In, I, Hx|].
    split; [exact L|]. intros x y Hx Hy Ny. specialize (D x Hx). rewrite forallb_forall in D.
    specialize (D y Hy). apply orb_true_iff in D. destruct D as [D|D].
    + apply memb_In in D. contradiction.
    + apply Qleb_le, D.
  - intros [N [I [L D]]]. repeat split; try assumption.
    + intros x Hx. apply memb_In, I, Hx.
    + intros x Hx. apply forallb_forall. intros y Hy. apply orb_true_iff.
      destruct (memb y ks) eqn:M; [left; reflexivity|right]. apply Qleb_le, D; try assumption.
      apply memb_nIn, M.
Qed.

Lemma topsel_perm k sim c c' ks : Permutation c c' -> TopSel k sim c ks -> TopSel k sim c' ks.
Proof.
  intros P [N [I [L D]]]. split; [exact N|]. split; [intros x Hx; eapply Permutation_in; [exact P|apply I, Hx]|].
  split; [rewrite <- (Permutation_length P); exact L|].
  intros x y Hx Hy Ny. apply D; try assumption. eapply Permutation_in; [symmetry; exact P|exact Hy].
Qed.

Lemma topsel_all k sim l : NoDup l -> (length l <= k)%nat -> TopSel k sim l l.
Proof.
  intros N L. split; [exact N|]. split; [intros x Hx; exact Hx|]. split; [lia|].
  intros x y _ Hy Ny. contradiction.
Qed.

Lemma topsel_sorted_prefix k sim l :
  StronglySorted (fun a b => sim b <= sim a) l -> NoDup l -> TopSel k sim l (firstn k l).
Proof.
  intros S N. split; [apply NoDup_firstn, N|]. split; [intros x Hx; eapply firstn_incl, Hx|].
  split; [apply firstn_length|].
  intros x y Hx Hy Ny. apply (sorted_firstn_skipn _ l S k x y Hx). apply in_skipn_of; assumption.
Qed.

Lemma pigeon (l l' : list nat) : NoDup l -> (length l' < length l)%nat -> exists q, In q l /\ ~ In q l'.
Proof.
  intros N L. destruct (existsb (fun q => negb (memb q l')) l) eqn:E.
  - apply existsb_exists in E. destruct E as [q [I M]]. exists q. split; [exact I|].
    apply memb_nIn. apply negb_true_iff in M. exact M.
  - exfalso. assert (I : incl l l').
    { intros q Hq. apply memb_In. destruct (memb q l') eqn:M; [reflexivity|].
      assert (existsb (fun q => negb (memb q l')) l = true) by (apply existsb_exists; exists q; rewrite M; auto).
      congruence. }
    pose proof (NoDup_incl_length N I). lia.
Qed.

Lemma Permutation_filter' {A} (f : A -> bool) l l' : Permutation l l' -> Permutation (filter f l) (filter f l').
Proof.
  induction 1 as [|x l l' P IH|x y l|l l' l'' P1 IH1 P2 IH2]; simpl.
  - constructor.
  - destruct (f x); [constructor|]; exact IH.
  - destruct (f x), (f y); try reflexivity. apply perm_swap.
  - etransitivity; eassumption.
Qed.

(* ---------------- item-based scorer ---------------- *)
Definition item_sim (m : iknn) (hist : list (option nat * Q)) (t : nat) (p : nat) : Q :=
  nth p (dense_col m (rated m hist) t) 0.
Definition item_val (m : iknn) (hist : list (option nat * Q)) (p : nat) : Q :=
  snd (nth p (rated m hist) (0%nat, 0)).

(* the documented definition: unknown target or empty history: no score; fewer stored neighbours among
   the rated items than min_nbrs: no score; otherwise the aggregate over some top selection of the
   neighbourhood, plus the item mean (explicit) *)
Definition ItemSpec (m : iknn) (hist : list (option nat * Q)) (target : option nat) (obs : option Q) : Prop :=
  match target, hist with
  | None, _ => obs = None
  | _, [] => obs = None
  | Some t, _ =>
      let st := stored_pos m (rated m hist) t in
      if Nat.ltb (length st) (ik_min m) then obs = None
      else exists ks q, TopSel (ik_k m) (item_sim m hist t) st ks /\ obs = Some q /\
                        q == agg (ik_explicit m) (item_sim m hist t) (item_val m hist) ks + item_offset m t
  end.

Lemma not_some_none {A} (o : option A) : negb (is_some o) = true <-> o = None.
Proof. destruct o; simpl; split; intro H; congruence. Qed.

Lemma item_checker_iff m hist target obs :
  (exists ks, item_score_ok_b Qeq_bool m hist target ks obs = true) <-> ItemSpec m hist target obs.
Proof.
  unfold item_score_ok_b, ItemSpec. destruct target as [t|].
  - destruct hist as [|h hist'].
    + split; [intros [_ H]; apply not_some_none, H|intro H; exists []; apply not_some_none, H].
    + set (hist := h :: hist'). fold (item_sim m hist t).
      change (fun p : nat => nth p (dense_col m (rated m hist) t) 0) with (item_sim m hist t).
      change (fun p : nat => snd (nth p (rated m hist) (0%nat, 0))) with (item_val m hist).
      destruct (Nat.ltb (length (stored_pos m (rated m hist) t)) (ik_min m)).
      * split; [intros [_ H]; apply not_some_none, H|intro H; exists []; apply not_some_none, H].
      * split.
        -- intros [ks H]. destruct obs as [q|]; [|discriminate].
           apply andb_true_iff in H. destruct H as [T E]. apply topsel_iff in T. apply Qeq_bool_iff in E.
           exists ks, q. auto.
        -- intros [ks [q [T [-> E]]]]. exists ks. apply andb_true_iff. split; [apply topsel_iff, T|apply Qeq_bool_iff, E].
  - split; [intros [_ H]; apply not_some_none, H|intro H; exists []; apply not_some_none, H].
Qed.

Lemma stored_pos_nodup m rt t : NoDup (stored_pos m rt t).
Proof. unfold stored_pos. apply NoDup_filter, seq_NoDup. Qed.

Lemma dense_col_length m rt t : length (dense_col m rt t) = length rt.
Proof. unfold dense_col. apply map_length. Qed.

Lemma map_nth_lt {A B} (f : A -> B) (l : list A) d d' j : (j < length l)%nat -> nth j (map f l) d' = f (nth j l d).
Proof. revert j; induction l as [|x l IH]; intros [|j] H; simpl in *; try lia; [reflexivity|apply IH; lia]. Qed.

Lemma dense_col_nth m rt t p : (p < length rt)%nat ->
  nth p (dense_col m rt t) 0 = match s_get (ik_S m) (fst (nth p rt (0%nat, 0))) t with Some s => s | None => 0 end.
Proof. intro H. unfold dense_col. rewrite (map_nth_lt _ rt (0%nat, 0) 0 p H). reflexivity. Qed.

Lemma in_stored_pos m rt t p :
  In p (stored_pos m rt t) <-> (p < length rt)%nat /\ is_some (s_get (ik_S m) (fst (nth p rt (0%nat, 0))) t) = true.
Proof. unfold stored_pos. rewrite filter_In, in_seq. intuition lia. Qed.

(* positions of a dense vector sorted by decreasing value *)
Lemma combine_seq_nth (sims : list Q) : forall s p v, In (p, v) (combine (seq s (length sims)) sims) ->
  (s <= p < s + length sims)%nat /\ nth (p - s) sims 0 = v.
Proof.
  induction sims as [|x sims IH]; intros s p v H; simpl in H; [tauto|].
  destruct H as [E|H].
  - inversion E; subst. split; [simpl; lia|]. rewrite Nat.sub_diag. reflexivity.
  - apply IH in H. destruct H as [R E]. split; [simpl; lia|].
    replace (p - s)%nat with (S (p - S s)) by lia. exact E.
Qed.

Lemma map_fst_combine_seq (sims : list Q) s : map fst (combine (seq s (length sims)) sims) = seq s (length sims).
Proof. revert s; induction sims as [|x sims IH]; intro s; simpl; [reflexivity|]. rewrite IH. reflexivity. Qed.

Lemma filter_length_le {A} (f : A -> bool) (l : list A) : (length (filter f l) <= length l)%nat.
Proof. induction l as [|x l IH]; simpl; [lia|]. destruct (f x); simpl; lia. Qed.

Lemma sorted_map_fst_vals (sims : list Q) (l : list (nat * Q)) :
  (forall a, In a l -> nth (fst a) sims 0 = snd a) ->
  StronglySorted (fun a b : nat * Q => Qleb (snd b) (snd a) = true) l ->
  StronglySorted (fun a b => nth b sims 0 <= nth a sims 0) (map fst l).
Proof.
  intros V S. induction S as [|a l S IH F]; simpl; constructor.
  - apply IH. intros b Hb. apply V. right; exact Hb.
  - rewrite Forall_forall in *. intros y Hy. apply in_map_iff in Hy. destruct Hy as [b [<- Hb]].
    rewrite (V a (or_introl eq_refl)), (V b (or_intror Hb)).
    specialize (F b Hb). apply Qleb_le, F.
Qed.

Lemma sorted_positions (sims : list Q) :
  let P := map fst (isort (fun a b : nat * Q => Qleb (snd b) (snd a)) (combine (seq 0 (length sims)) sims)) in
  Permutation P (seq 0 (length sims)) /\
  StronglySorted (fun a b => nth b sims 0 <= nth a sims 0) P.
Proof.
  set (leb := fun a b : nat * Q => Qleb (snd b) (snd a)).
  set (idx := combine (seq 0 (length sims)) sims).
  assert (Pm : Permutation (isort leb idx) idx) by apply isort_perm.
  assert (Ss : StronglySorted (fun a b => leb a b = true) (isort leb idx)).
  { apply isort_sorted; unfold leb; [intros a b; apply Qleb_total|intros a b c H K; eapply Qleb_trans; eassumption]. }
  split.
  - rewrite <- (map_fst_combine_seq sims 0). apply Permutation_map, Pm.
  - assert (V : forall a, In a (isort leb idx) -> nth (fst a) sims 0 = snd a).
    { intros [p v] Ha. apply (Permutation_in _ Pm) in Ha. apply combine_seq_nth in Ha.
      destruct Ha as [_ E]. rewrite Nat.sub_0_r in E. exact E. }
    apply sorted_map_fst_vals; [exact V|exact Ss].
Qed.

(* every stored similarity is positive (they passed sim >= min_sim > 0 when the model was built) *)
Definition positive_sims (m : iknn) : Prop := forall r t s, s_get (ik_S m) r t = Some s -> 0 < s.

Lemma topk_pos_topsel m hist t : positive_sims m ->
  let rt := rated m hist in
  let st := stored_pos m rt t in
  (ik_k m < length st)%nat ->
  TopSel (ik_k m) (item_sim m hist t) st (topk_pos (ik_k m) (dense_col m rt t)).
Proof.
  intros Pos rt st L. unfold topk_pos.
  destruct (sorted_positions (dense_col m rt t)) as [Pm Ss].
  set (P := map fst (isort (fun a b : nat * Q => Qleb (snd b) (snd a))
                           (combine (seq 0 (length (dense_col m rt t))) (dense_col m rt t)))) in *.
  rewrite dense_col_length in Pm.
  assert (NP : NoDup P) by (eapply Permutation_NoDup; [symmetry; exact Pm|apply seq_NoDup]).
  assert (Lst : (length st <= length rt)%nat).
  { unfold st, stored_pos. etransitivity; [apply filter_length_le|]. rewrite seq_length. lia. }
  assert (LP : length P = length rt) by (rewrite (Permutation_length Pm), seq_length; reflexivity).
  assert (InP : forall q, In q st -> In q P).
  { intros q Hq. apply in_stored_pos in Hq. eapply Permutation_in; [symmetry; exact Pm|]. apply in_seq. lia. }
  assert (Dom : forall x y, In x (firstn (ik_k m) P) -> In y st -> ~ In y (firstn (ik_k m) P) ->
                            item_sim m hist t y <= item_sim m hist t x).
  { intros x y Hx Hy Ny. unfold item_sim. fold rt.
    apply (sorted_firstn_skipn _ P Ss (ik_k m) x y Hx). apply in_skipn_of; [apply InP, Hy|exact Ny]. }
  split; [apply NoDup_firstn, NP|]. split; [|split; [rewrite firstn_length; lia|exact Dom]].
  intros p Hp.
  destruct (in_dec Nat.eq_dec p st) as [I|NI]; [exact I|exfalso].
  assert (Hlen : (length (firstn (ik_k m) P) < length st)%nat) by (rewrite firstn_length; lia).
  destruct (pigeon st (firstn (ik_k m) P) (stored_pos_nodup m rt t) Hlen) as [q [Iq Nq]].
  pose proof (Dom p q Hp Iq Nq) as D. unfold item_sim in D. fold rt in D.
  assert (Hplt : (p < length rt)%nat).
  { apply firstn_incl in Hp. apply (Permutation_in _ Pm) in Hp. apply in_seq in Hp. lia. }
  apply in_stored_pos in Iq. destruct Iq as [Hq Sq].
  rewrite (dense_col_nth m rt t p Hplt), (dense_col_nth m rt t q Hq) in D.
  destruct (s_get (ik_S m) (fst (nth q rt (0%nat, 0))) t) as [s|] eqn:Eq; [|discriminate].
  apply Pos in Eq.
  destruct (s_get (ik_S m) (fst (nth p rt (0%nat, 0))) t) as [s'|] eqn:Ep.
  - apply NI. apply in_stored_pos. split; [exact Hplt|]. rewrite Ep. reflexivity.
  - lra.
Qed.

(* both code paths produce a score of the documented form *)
Lemma item_score_spec_l : forall m hist target, positive_sims m ->
  ItemSpec m hist target (item_score m hist target).
Proof.
  intros m hist target Pos. unfold ItemSpec, item_score. destruct target as [t|]; [|reflexivity].
  destruct hist as [|h hist']; [reflexivity|]. set (hist := h :: hist').
  destruct (Nat.ltb (length (stored_pos m (rated m hist) t)) (ik_min m)); [reflexivity|].
  destruct (Nat.leb_spec (length (stored_pos m (rated m hist) t)) (ik_k m)) as [L|L].
  - exists (stored_pos m (rated m hist) t). eexists. split; [|split; [reflexivity|reflexivity]].
    apply topsel_all; [apply stored_pos_nodup|exact L].
  - exists (topk_pos (ik_k m) (dense_col m (rated m hist) t)). eexists. split; [|split; [reflexivity|reflexivity]].
    apply topk_pos_topsel; assumption.
Qed.

(* the two paths separately: the fast path sums over the whole neighbourhood, the dense top-k path over
   positions that form a top selection of the same neighbourhood *)
Lemma knn_paths_agree_l : forall m hist t, positive_sims m ->
  let st := stored_pos m (rated m hist) t in
  ((length st <= ik_k m)%nat -> TopSel (ik_k m) (item_sim m hist t) st st) /\
  ((ik_k m < length st)%nat ->
     TopSel (ik_k m) (item_sim m hist t) st (topk_pos (ik_k m) (dense_col m (rated m hist) t))).
Proof.
  intros m hist t Pos st. split; intro L.
  - apply topsel_all; [apply stored_pos_nodup|exact L].
  - apply topk_pos_topsel; assumption.
Qed.

Lemma item_too_few_l : forall m hist t,
  (length (stored_pos m (rated m hist) t) < ik_min m)%nat -> item_score m hist (Some t) = None.
Proof.
  intros m hist t L. unfold item_score. destruct hist; [reflexivity|].
  apply Nat.ltb_lt in L. rewrite L. reflexivity.
Qed.

(* ---------------- user-based scorer ---------------- *)
Definition user_sim (self : option nat) (sims0 : list Q) (u : nat) : Q := nth u (zero_self self sims0) 0.

Definition UserSpec (m : uknn) (self : option nat) (sims0 : list Q) (umean : Q) (target : option nat)
    (obs : option Q) : Prop :=
  match qualified m (zero_self self sims0), target with
  | [], _ => obs = None
  | _, None => obs = None
  | qs, Some i =>
      let rs := raters m i qs in
      if Nat.ltb (length rs) (uk_min m) then obs = None
      else exists ks q, TopSel (uk_k m) (user_sim self sims0) rs ks /\ obs = Some q /\
                        q == agg (uk_explicit m) (user_sim self sims0) (u_val m i) ks + umean
  end.

Lemma user_checker_iff m self sims0 umean target obs :
  (exists ks, user_score_ok_b Qeq_bool m self sims0 umean target ks obs = true) <-> UserSpec m self sims0 umean target obs.
Proof.
  unfold user_score_ok_b, UserSpec.
  change (fun u : nat => nth u (zero_self self sims0) 0) with (user_sim self sims0).
  destruct (qualified m (zero_self self sims0)) as [|u0 qs'].
  - split; [intros [_ H]; apply not_some_none, H|intro H; exists []; apply not_some_none, H].
  - destruct target as [i|].
    + destruct (Nat.ltb (length (raters m i (u0 :: qs'))) (uk_min m)).
      * split; [intros [_ H]; apply not_some_none, H|intro H; exists []; apply not_some_none, H].
      * split.
        -- intros [ks H]. destruct obs as [q|]; [|discriminate].
           apply andb_true_iff in H. destruct H as [T E]. apply topsel_iff in T. apply Qeq_bool_iff in E.
           exists ks, q. auto.
        -- intros [ks [q [T [-> E]]]]. exists ks. apply andb_true_iff. split; [apply topsel_iff, T|apply Qeq_bool_iff, E].
    + split; [intros [_ H]; apply not_some_none, H|intro H; exists []; apply not_some_none, H].
Qed.

Lemma qualified_nodup m sims : NoDup (qualified m sims).
Proof. unfold qualified. apply NoDup_filter, seq_NoDup. Qed.

Lemma by_sim_facts sims us :
  Permutation (by_sim sims us) us /\
  StronglySorted (fun a b => nth b sims 0 <= nth a sims 0) (by_sim sims us).
Proof.
  unfold by_sim. split; [apply isort_perm|].
  assert (S : StronglySorted (fun a b => Qleb (nth b sims 0) (nth a sims 0) = true)
                             (isort (fun a b => Qleb (nth b sims 0) (nth a sims 0)) us)).
  { apply isort_sorted; [intros a b; apply Qleb_total|intros a b c H K; eapply Qleb_trans; eassumption]. }
  induction S as [|a l S IH F]; constructor; [exact IH|].
  eapply Forall_impl; [|exact F]. intros b Hb. apply Qleb_le, Hb.
Qed.

Lemma user_score_spec_l : forall m self sims0 umean target,
  UserSpec m self sims0 umean target (user_score m self sims0 umean target).
Proof.
  intros m self sims0 umean target. unfold UserSpec, user_score.
  set (sims := zero_self self sims0).
  destruct (qualified m sims) as [|u0 qs'] eqn:Q; [reflexivity|].
  destruct target as [i|]; [|reflexivity].
  set (qs := u0 :: qs') in *.
  destruct (by_sim_facts sims qs) as [Pm Ss].
  assert (Pr : Permutation (raters m i (by_sim sims qs)) (raters m i qs)) by (apply Permutation_filter', Pm).
  rewrite (Permutation_length Pr).
  destruct (Nat.ltb (length (raters m i qs)) (uk_min m)); [reflexivity|].
  exists (firstn (uk_k m) (raters m i (by_sim sims qs))). eexists. split; [|split; [reflexivity|reflexivity]].
  apply (topsel_perm _ _ _ _ _ Pr). apply topsel_sorted_prefix.
  - unfold raters. apply sorted_filter. exact Ss.
  - unfold raters. apply NoDup_filter. eapply Permutation_NoDup; [symmetry; exact Pm|].
    rewrite <- Q. apply qualified_nodup.
Qed.

Lemma user_too_few_l : forall m self sims0 umean i,
  (length (raters m i (qualified m (zero_self self sims0))) < uk_min m)%nat ->
  user_score m self sims0 umean (Some i) = None.
Proof.
  intros m self sims0 umean i L. unfold user_score.
  destruct (qualified m (zero_self self sims0)) as [|u0 qs'] eqn:Q; [reflexivity|].
  destruct (by_sim_facts (zero_self self sims0) (u0 :: qs')) as [Pm _].
  unfold raters in *.
  rewrite (Permutation_length (Permutation_filter' (fun u => is_some (u_rating m u i)) _ _ Pm)).
  apply Nat.ltb_lt in L. rewrite L. reflexivity.
Qed.
