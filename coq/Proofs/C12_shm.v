(* C12 -- shared-memory pickling: decode (encode t) = t whatever the blocks hold beyond the payload and
   however the arrays of t lie in memory. *)
From Coq Require Import ZArith List Bool Arith Lia.
From LK Require Import Model.C12_shapes Gen.C12_shape Model.C12_pool Proofs.C12_layout.
Import ListNotations.

(* induction over trees with a list of subtrees *)
Section TreeInd.
Variable P : tree -> Prop.
Hypothesis Hbuf : forall b, P (TBuf b).
Hypothesis Harr : forall tr isz s elems, P (TArr tr isz s elems).
Hypothesis Hatom : forall a, P (TAtom a).
Hypothesis Hnode : forall ts, Forall P ts -> P (TNode ts).

Fixpoint tree_ind2 (t : tree) : P t :=
  match t with
  | TBuf b => Hbuf b
  | TArr tr isz s elems => Harr tr isz s elems
  | TAtom a => Hatom a
  | TNode ts => Hnode ts ((fix go (l : list tree) : Forall P l :=
                            match l with [] => Forall_nil P | x :: r => Forall_cons x (tree_ind2 x) (go r) end) ts)
  end.
End TreeInd.

Lemma view_store pad b : view SliceRecorded (store pad b) = b.
Proof.
  destruct b as [|x b]; [reflexivity|]. unfold store, view.
  change (firstn (List.length (x :: b)) ((x :: b) ++ pad)) with (firstn (List.length (x :: b) + 0) ((x :: b) ++ pad)) || idtac.
  rewrite firstn_app, Nat.sub_diag, firstn_all. simpl. rewrite app_nil_r. reflexivity.
Qed.

(* the list part of encode / decode, named *)
Fixpoint encode_list (pad : nat -> list nat) (l : list tree) (n : nat) : list etree * list block * nat :=
  match l with
  | [] => ([], [], n)
  | x :: r => let '(e, bs, n1) := encode pad x n in
              let '(es, bs', n2) := encode_list pad r n1 in (e :: es, bs ++ bs', n2)
  end.
Fixpoint decode_list (l : list etree) (bs : list (list nat)) : option (list tree * list (list nat)) :=
  match l with
  | [] => Some ([], bs)
  | x :: r => match decode x bs with
              | Some (t, bs1) => match decode_list r bs1 with Some (ts, bs2) => Some (t :: ts, bs2) | None => None end
              | None => None
              end
  end.

Lemma encode_node pad ts n :
  encode pad (TNode ts) n = let '(es, bs, n') := encode_list pad ts n in (ENode es, bs, n').
Proof.
  simpl. assert (G : forall l m,
    (fix go (l : list tree) (n : nat) : list etree * list block * nat :=
       match l with
       | [] => ([], [], n)
       | x :: r => let '(e, bs, n1) := encode pad x n in let '(es, bs', n2) := go r n1 in (e :: es, bs ++ bs', n2)
       end) l m = encode_list pad l m).
  { induction l as [|x l IH]; intro m; simpl; [reflexivity|]. destruct (encode pad x m) as [[e bs] n1]. rewrite IH. reflexivity. }
  rewrite G. reflexivity.
Qed.

Lemma decode_node es bufs :
  decode (ENode es) bufs = match decode_list es bufs with Some (ts, r) => Some (TNode ts, r) | None => None end.
Proof.
  simpl. assert (G : forall l bs,
    (fix go (l : list etree) (bs : list (list nat)) : option (list tree * list (list nat)) :=
       match l with
       | [] => Some ([], bs)
       | x :: r => match decode x bs with
                   | Some (t, bs1) => match go r bs1 with Some (ts, bs2) => Some (t :: ts, bs2) | None => None end
                   | None => None
                   end
       end) l bs = decode_list l bs).
  { induction l as [|x l IH]; intro bs; simpl; [reflexivity|]. destruct (decode x bs) as [[t bs1]|]; [|reflexivity]. rewrite IH. reflexivity. }
  rewrite G. reflexivity.
Qed.

Lemma forallb_Forall {B} (f : B -> bool) l : forallb f l = true -> Forall (fun x => f x = true) l.
Proof. intro H. apply Forall_forall. intros x Hx. rewrite forallb_forall in H. exact (H x Hx). Qed.

Lemma decode_encode pad t : wf_tree t = true -> forall n rest,
  let '(e, bs, _) := encode pad t n in decode e (map (view SliceRecorded) bs ++ rest) = Some (arrived t, rest).
Proof.
  induction t as [b|tr isz s elems|a|ts IH] using tree_ind2; intros Hwf n rest.
  - simpl. rewrite view_store. reflexivity.
  - cbn [wf_tree] in Hwf. destruct tr as [p q|].
    + cbn [encode map app decode arrived]. rewrite view_store.
      rewrite (array_out_of_band _ _ _ _ _ Hwf). reflexivity.
    + cbn [encode map app decode arrived].
      rewrite (array_in_band _ _ _ _ Hwf). reflexivity.
  - reflexivity.
  - rewrite encode_node.
    assert (Hall : Forall (fun x => wf_tree x = true) ts) by (apply forallb_Forall; exact Hwf).
    assert (G : forall n rest, let '(es, bs, _) := encode_list pad ts n in
                               decode_list es (map (view SliceRecorded) bs ++ rest) = Some (map arrived ts, rest)).
    { clear n rest Hwf. induction IH as [|x l Hx Hl IHl]; intros n rest; simpl; [reflexivity|].
      inversion Hall as [|? ? Hwx Hwl]; subst.
      specialize (Hx Hwx n). destruct (encode pad x n) as [[e bs] n1].
      specialize (IHl Hwl n1). destruct (encode_list pad l n1) as [[es bs'] n2].
      cbn [decode_list]. rewrite map_app, <- app_assoc, Hx, IHl. reflexivity. }
    specialize (G n rest). destruct (encode_list pad ts n) as [[es bs] n'].
    rewrite decode_node, G. reflexivity.
Qed.

Lemma shm_roundtrip_sliced pad t : wf_tree t = true -> shm_deserialize SliceRecorded (shm_serialize pad t) = Some (arrived t).
Proof.
  intro Hwf. unfold shm_deserialize, shm_serialize.
  pose proof (decode_encode pad t Hwf 0 []) as H. destruct (encode pad t 0) as [[e bs] n]. simpl.
  rewrite app_nil_r in H. rewrite H. reflexivity.
Qed.

(* what arrives has the content of what was sent: only the layout tag of an in-band array differs *)
Lemma contents_arrived t : contents (arrived t) = contents t.
Proof.
  induction t as [b|tr isz s elems|a|ts IH] using tree_ind2; try reflexivity.
  - destruct tr; reflexivity.
  - cbn [arrived contents]. f_equal. rewrite map_map. apply map_ext_in.
    intros x Hx. rewrite Forall_forall in IH. exact (IH x Hx).
Qed.

Lemma shm_slice_recorded : shm_slice = SliceRecorded.
Proof. reflexivity. Qed.

Lemma shm_roundtrip_l : forall pad t, wf_tree t = true ->
  shm_deserialize shm_slice (shm_serialize pad t) = Some (arrived t) /\ contents (arrived t) = contents t.
Proof. intros pad t Hwf. rewrite shm_slice_recorded. split; [apply shm_roundtrip_sliced; exact Hwf|apply contents_arrived]. Qed.

(* a tree without arrays (raw buffers and atoms only) comes back as it is *)
Fixpoint no_arrays (t : tree) : bool :=
  match t with TArr _ _ _ _ => false | TNode ts => forallb no_arrays ts | _ => true end.
Lemma no_arrays_wf t : no_arrays t = true -> wf_tree t = true /\ arrived t = t.
Proof.
  induction t as [b|tr isz s elems|a|ts IH] using tree_ind2; intro H; try (split; reflexivity); [discriminate|].
  cbn [no_arrays] in H. apply forallb_Forall in H. cbn [wf_tree arrived].
  assert (G : Forall (fun x => wf_tree x = true /\ arrived x = x) ts).
  { rewrite Forall_forall in *. intros x Hx. exact (IH x Hx (H x Hx)). }
  split.
  - apply forallb_forall. intros x Hx. rewrite Forall_forall in G. exact (proj1 (G x Hx)).
  - f_equal. rewrite <- (map_id ts) at 2. apply map_ext_in. intros x Hx. rewrite Forall_forall in G. exact (proj2 (G x Hx)).
Qed.
Lemma shm_roundtrip_raw : forall pad t, no_arrays t = true -> shm_deserialize shm_slice (shm_serialize pad t) = Some t.
Proof.
  intros pad t H. destruct (no_arrays_wf t H) as [Hwf E].
  destruct (shm_roundtrip_l pad t Hwf) as [R _]. rewrite E in R. exact R.
Qed.

(* the Fortran-ordered 2 x 3 array of the bytes 1..6: its block holds the columns one after the other;
   reading that block back in index order (what a rebuild that ignores the order tag does) is another array *)
Definition f23 : tree := TArr (OutOfBand [1; 0] [1; 0]) 1 [2; 3] [[1]; [2]; [3]; [4]; [5]; [6]].
Lemma fortran_block_l :
  wf_tree f23 = true /\
  map (view SliceRecorded) (snd (shm_serialize (fun _ => [0; 0]) f23)) = [[1; 4; 2; 5; 3; 6]] /\
  shm_deserialize shm_slice (shm_serialize (fun _ => [0; 0]) f23) = Some f23 /\
  chunk 1 6 [1; 4; 2; 5; 3; 6] <> [[1]; [2]; [3]; [4]; [5]; [6]].
Proof. repeat split; try (vm_compute; reflexivity). vm_compute. discriminate. Qed.

(* what is stored: per payload, in order, its length; no block for an empty payload; a block at least as
   long as the payload otherwise *)
Lemma store_shape pad b :
  snd (store pad b) = List.length b /\
  match fst (store pad b) with None => b = [] | Some d => b <> [] /\ List.length d = List.length b + List.length pad end.
Proof.
  destruct b as [|x b]; simpl; [split; reflexivity|]. split; [reflexivity|]. split; [discriminate|].
  rewrite app_length. reflexivity.
Qed.

(* using the block without the recorded length is wrong as soon as a block is longer than its payload *)
Lemma whole_buffer_refuted_l :
  shm_deserialize WholeBuffer (shm_serialize (fun _ => [0; 0; 0]) (TNode [TBuf [1; 2; 3; 4; 5]])) <> Some (TNode [TBuf [1; 2; 3; 4; 5]]).
Proof. vm_compute. discriminate. Qed.
