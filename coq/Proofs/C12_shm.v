(* C12 -- shared-memory pickling: decode (encode t) = t whatever the blocks hold beyond the payload. *)
From Coq Require Import ZArith List Bool Arith Lia.
From LK Require Import Model.C12_shapes Gen.C12_shape Model.C12_pool.
Import ListNotations.

(* induction over trees with a list of subtrees *)
Section TreeInd.
Variable P : tree -> Prop.
Hypothesis Hbuf : forall b, P (TBuf b).
Hypothesis Hatom : forall a, P (TAtom a).
Hypothesis Hnode : forall ts, Forall P ts -> P (TNode ts).

Fixpoint tree_ind2 (t : tree) : P t :=
  match t with
  | TBuf b => Hbuf b
  | TAtom a => Hatom a
  | TNode ts => Hnode ts ((fix go (l : list tree) : Forall P l :=
                            match l with [] => Forall_nil P | x :: r => Forall_cons x (tree_ind2 x) (go r) end) ts)
  end.
End TreeInd.

Lemma view_store pad b : view SliceRecorded (store pad b) = b.
Proof.
  destruct b as [|x b]; [reflexivity|]. unfold store, view.
  change (firstn (List.length (x :: b)) ((x :: b) ++ pad)) with (firstn (List.length (x :: b) + 0) ((x :: b) ++ pad)) || idtac.
  rewrite firstn_app, Nat.sub_diag, firstn_all. simpl. rewrite app_nil_r. reflexivity.
Qed.

(* the list part of encode / decode, named *)
Fixpoint encode_list (pad : nat -> list nat) (l : list tree) (n : nat) : list etree * list block * nat :=
  match l with
  | [] => ([], [], n)
  | x :: r => let '(e, bs, n1) := encode pad x n in
              let '(es, bs', n2) := encode_list pad r n1 in (e :: es, bs ++ bs', n2)
  end.
Fixpoint decode_list (l : list etree) (bs : list (list nat)) : option (list tree * list (list nat)) :=
  match l with
  | [] => Some ([], bs)
  | x :: r => match decode x bs with
              | Some (t, bs1) => match decode_list r bs1 with Some (ts, bs2) => Some (t :: ts, bs2) | None => None end
              | None => None
              end
  end.

Lemma encode_node pad ts n :
  encode pad (TNode ts) n = let '(es, bs, n') := encode_list pad ts n in (ENode es, bs, n').
Proof.
  simpl. assert (G : forall l m,
    (fix go (l : list tree) (n : nat) : list etree * list block * nat :=
       match l with
       | [] => ([], [], n)
       | x :: r => let '(e, bs, n1) := encode pad x n in let '(es, bs', n2) := go r n1 in (e :: es, bs ++ bs', n2)
       end) l m = encode_list pad l m).
  { induction l as [|x l IH]; intro m; simpl; [reflexivity|]. destruct (encode pad x m) as [[e bs] n1]. rewrite IH. reflexivity. }
  rewrite G. reflexivity.
Qed.

Lemma decode_node es bufs :
  decode (ENode es) bufs = match decode_list es bufs with Some (ts, r) => Some (TNode ts, r) | None => None end.
Proof.
  simpl. assert (G : forall l bs,
    (fix go (l : list etree) (bs : list (list nat)) : option (list tree * list (list nat)) :=
       match l with
       | [] => Some ([], bs)
       | x :: r => match decode x bs with
                   | Some (t, bs1) => match go r bs1 with Some (ts, bs2) => Some (t :: ts, bs2) | None => None end
                   | None => None
                   end
       end) l bs = decode_list l bs).
  { induction l as [|x l IH]; intro bs; simpl; [reflexivity|]. destruct (decode x bs) as [[t bs1]|]; [|reflexivity]. rewrite IH. reflexivity. }
  rewrite G. reflexivity.
Qed.

Lemma decode_encode pad t : forall n rest,
  let '(e, bs, _) := encode pad t n in decode e (map (view SliceRecorded) bs ++ rest) = Some (t, rest).
Proof.
  induction t as [b|a|ts IH] using tree_ind2; intros n rest.
  - simpl. rewrite view_store. reflexivity.
  - reflexivity.
  - rewrite encode_node.
    assert (G : forall n rest, let '(es, bs, _) := encode_list pad ts n in
                               decode_list es (map (view SliceRecorded) bs ++ rest) = Some (ts, rest)).
    { clear n rest. induction IH as [|x l Hx Hl IHl]; intros n rest; simpl; [reflexivity|].
      specialize (Hx n). destruct (encode pad x n) as [[e bs] n1].
      specialize (IHl n1). destruct (encode_list pad l n1) as [[es bs'] n2].
      cbn [decode_list]. rewrite map_app, <- app_assoc, Hx, IHl. reflexivity. }
    specialize (G n rest). destruct (encode_list pad ts n) as [[es bs] n'].
    rewrite decode_node, G. reflexivity.
Qed.

Lemma shm_roundtrip_sliced pad t : shm_deserialize SliceRecorded (shm_serialize pad t) = Some t.
Proof.
  unfold shm_deserialize, shm_serialize.
  pose proof (decode_encode pad t 0 []) as H. destruct (encode pad t 0) as [[e bs] n]. simpl.
  rewrite app_nil_r in H. rewrite H. reflexivity.
Qed.

Lemma shm_slice_recorded : shm_slice = SliceRecorded.
Proof. reflexivity. Qed.

Lemma shm_roundtrip_l : forall pad t, shm_deserialize shm_slice (shm_serialize pad t) = Some t.
Proof. intros. rewrite shm_slice_recorded. apply shm_roundtrip_sliced. Qed.

(* what is stored: per payload, in order, its length; no block for an empty payload; a block at least as
   long as the payload otherwise *)
Lemma store_shape pad b :
  snd (store pad b) = List.length b /\
  match fst (store pad b) with None => b = [] | Some d => b <> [] /\ List.length d = List.length b + List.length pad end.
Proof.
  destruct b as [|x b]; simpl; [split; reflexivity|]. split; [reflexivity|]. split; [discriminate|].
  rewrite app_length. reflexivity.
Qed.

(* using the block without the recorded length is wrong as soon as a block is longer than its payload *)
Lemma whole_buffer_refuted_l :
  shm_deserialize WholeBuffer (shm_serialize (fun _ => [0; 0; 0]) (TNode [TBuf [1; 2; 3; 4; 5]])) <> Some (TNode [TBuf [1; 2; 3; 4; 5]]).
Proof. vm_compute. discriminate. Qed.
