(* C08 -- bias model: the documented formulas (specification) and the proofs that the array program
   of Model/C08_bias.v (accumulate with add.at, divide where the damped count is positive, centre by
   the item offsets, accumulate again per user) computes them. *)
From Coq Require Import ZArith QArith Qabs List Bool Arith Lia Lqa Setoid Morphisms.
From LK Require Import Lib.QLib Model.C08_bias.
Import ListNotations.
Open Scope Q_scope.

(* ---------------- the documented formulas ---------------- *)
Definition of_item (i : nat) (rs : list rat) : list rat := filter (fun r => Nat.eqb (r_item r) i) rs.
Definition of_user (u : nat) (rs : list rat) : list rat := filter (fun r => Nat.eqb (r_user r) u) rs.
Definition global_mean (rs : list rat) : Q := Qsum (map r_val rs) / Qofnat (length rs).
(* sum / (count + damping); an entity whose damped count is not positive keeps offset 0 *)
Definition damped (sum : Q) (n : nat) (beta : Q) : Q :=
  if Qltb 0 (Qofnat n + beta) then sum / (Qofnat n + beta) else 0.
(* b_i = sum_{r in R_i} (r - b_g) / (|R_i| + beta_i) *)
Definition item_formula (rs : list rat) (beta : Q) (i : nat) : Q :=
  damped (Qsum (map (fun r => r_val r - global_mean rs) (of_item i rs))) (length (of_item i rs)) beta.
(* b_u = sum_{r in R_u} (r - b_g - b_i) / (|R_u| + beta_u) *)
Definition user_formula (rs : list rat) (beta : Q) (bi : nat -> Q) (u : nat) : Q :=
  damped (Qsum (map (fun r => r_val r - global_mean rs - bi (r_item r)) (of_user u rs))) (length (of_user u rs)) beta.
(* the same formula over a query's rated history *)
Definition hist_formula (m : bmodel) (beta : Q) (h : list (option nat * Q)) : Q :=
  damped (Qsum (map (fun p => snd p - b_global m - item_off m (fst p)) h)) (length h) beta.

(* ---------------- helpers ---------------- *)
Lemma Qltb_comp a a' b b' : a == a' -> b == b' -> Qltb a b = Qltb a' b'.
Proof. intros Ha Hb. unfold Qltb. rewrite Ha, Hb. reflexivity. Qed.

Lemma damped_comp s s' n beta : s == s' -> damped s n beta == damped s' n beta.
Proof. intro H. unfold damped. destruct (Qltb 0 (Qofnat n + beta)); [rewrite H|]; reflexivity. Qed.

Lemma upd_length l k v : length (upd l k v) = length l.
Proof. revert k; induction l as [|x l IH]; intros [|k]; simpl; auto. Qed.

Lemma upd_nth l k v j : (j < length l)%nat ->
  nth j (upd l k v) 0 == nth j l 0 + (if Nat.eqb k j then v else 0).
Proof.
  revert k j; induction l as [|x l IH]; intros k j Hj; simpl in Hj; [lia|].
  destruct k as [|k], j as [|j]; simpl; try ring.
  apply IH; lia.
Qed.

Lemma add_at_fold_length kv init :
  length (fold_left (fun acc (p : nat * Q) => upd acc (fst p) (snd p)) kv init) = length init.
Proof. revert init; induction kv as [|p kv IH]; intro init; simpl; [reflexivity|]. rewrite IH. apply upd_length. Qed.

Lemma add_at_fold_nth kv init j : (j < length init)%nat ->
  nth j (fold_left (fun acc (p : nat * Q) => upd acc (fst p) (snd p)) kv init) 0
  == nth j init 0 + Qsum (map snd (filter (fun p => Nat.eqb (fst p) j) kv)).
Proof.
  revert init; induction kv as [|[k v] kv IH]; intros init Hj; simpl; [ring|].
  rewrite IH by (rewrite upd_length; exact Hj).
  rewrite upd_nth by exact Hj. simpl.
  destruct (Nat.eqb k j); simpl; ring.
Qed.

Lemma add_at_length init idx vals : length (add_at init idx vals) = length init.
Proof. apply add_at_fold_length. Qed.

Lemma nth_repeat_lt (x : Q) n j : (j < n)%nat -> nth j (repeat x n) 0 = x.
Proof. revert j; induction n as [|n IH]; intros [|j] H; simpl; try lia; auto. apply IH; lia. Qed.

(* keyed sums over parallel arrays = sums over the selected ratings *)
Lemma keyed_sum {A} (key : A -> nat) (f : A -> Q) (rs : list A) j :
  Qsum (map snd (filter (fun p => Nat.eqb (fst p) j) (combine (map key rs) (map f rs))))
  = Qsum (map f (filter (fun r => Nat.eqb (key r) j) rs)).
Proof.
  induction rs as [|r rs IH]; simpl; [reflexivity|].
  destruct (Nat.eqb (key r) j); simpl; rewrite IH; reflexivity.
Qed.

Lemma keyed_count {A} (key : A -> nat) (rs : list A) j :
  Qsum (map snd (filter (fun p => Nat.eqb (fst p) j) (combine (map key rs) (repeat 1 (length (map key rs))))))
  == Qofnat (length (filter (fun r => Nat.eqb (key r) j) rs)).
Proof.
  induction rs as [|r rs IH]; simpl; [reflexivity|].
  destruct (Nat.eqb (key r) j); simpl.
  - rewrite IH. rewrite Qofnat_S. reflexivity.
  - exact IH.
Qed.

Lemma map_nth_d {A B} (f : A -> B) (l : list A) (d : A) (d' : B) j :
  f d = d' -> nth j (map f l) d' = f (nth j l d).
Proof. intros <-. apply map_nth. Qed.

Lemma divide_where_nth sums counts j : length sums = length counts ->
  nth j (divide_where sums counts) 0
  = (if Qltb 0 (nth j counts 0) then nth j sums 0 / nth j counts 0 else 0).
Proof.
  intro L. unfold divide_where.
  rewrite (map_nth_d _ _ (0, 0)) by reflexivity.
  rewrite combine_nth by exact L. reflexivity.
Qed.

Lemma divide_where_length sums counts : length sums = length counts -> length (divide_where sums counts) = length sums.
Proof. intro L. unfold divide_where. rewrite map_length, combine_length, L. lia. Qed.

(* the accumulate-and-divide block computes the damped mean of the selected values *)
Lemma damped_means_nth {A} (key : A -> nat) (f : A -> Q) (rs : list A) n beta j : (j < n)%nat ->
  nth j (damped_means n beta (map key rs) (map f rs)) 0
  == damped (Qsum (map f (filter (fun r => Nat.eqb (key r) j) rs)))
            (length (filter (fun r => Nat.eqb (key r) j) rs)) beta.
Proof.
  intro Hj. unfold damped_means.
  rewrite divide_where_nth by (rewrite !add_at_length, !repeat_length; reflexivity).
  unfold add_at.
  assert (C : nth j (fold_left (fun acc (p : nat * Q) => upd acc (fst p) (snd p))
                 (combine (map key rs) (repeat 1 (length (map key rs)))) (repeat beta n)) 0
              == Qofnat (length (filter (fun r => Nat.eqb (key r) j) rs)) + beta).
  { rewrite add_at_fold_nth by (rewrite repeat_length; exact Hj).
    rewrite nth_repeat_lt by exact Hj. rewrite keyed_count. ring. }
  assert (S : nth j (fold_left (fun acc (p : nat * Q) => upd acc (fst p) (snd p))
                 (combine (map key rs) (map f rs)) (repeat 0 n)) 0
              == Qsum (map f (filter (fun r => Nat.eqb (key r) j) rs))).
  { rewrite add_at_fold_nth by (rewrite repeat_length; exact Hj).
    rewrite nth_repeat_lt by exact Hj. rewrite keyed_sum. ring. }
  unfold damped. rewrite (Qltb_comp 0 0 _ _ (Qeq_refl 0) C).
  destruct (Qltb 0 _); [rewrite S, C|]; reflexivity.
Qed.

Lemma damped_means_length n beta idx vals : length (damped_means n beta idx vals) = n.
Proof.
  unfold damped_means. rewrite divide_where_length; rewrite !add_at_length, !repeat_length; reflexivity.
Qed.

Lemma centre_again (rs : list rat) (g : Q) (b : list Q) :
  map (fun p : Q * nat => fst p - nth (snd p) b 0)
      (combine (map (fun x => x - g) (map r_val rs)) (map r_item rs))
  = map (fun r => r_val r - g - nth (r_item r) b 0) rs.
Proof. induction rs as [|r rs IH]; simpl; [reflexivity|]. rewrite IH. reflexivity. Qed.

(* ---------------- offsets equal the documented formulas ---------------- *)
Lemma offsets_eq_formulas_l : forall nu ni rs d ent_item ent_user,
  let m := learn nu ni rs d ent_item ent_user in
  b_global m == global_mean rs /\
  match b_items m with
  | Some b => ent_item = true /\ length b = ni /\
              forall i, (i < ni)%nat -> nth i b 0 == item_formula rs (d_item d) i
  | None => ent_item = false
  end /\
  match b_users m with
  | Some b => ent_user = true /\ length b = nu /\
              forall u, (u < nu)%nat ->
                nth u b 0 == user_formula rs (d_user d) (fun i => item_off m (Some i)) u
  | None => ent_user = false
  end.
Proof.
  intros nu ni rs d ei eu m. split; [|split].
  - subst m. unfold learn, global_mean. cbn [b_global]. rewrite map_length. reflexivity.
  - subst m. unfold learn. cbn [b_items]. destruct ei; [|reflexivity].
    split; [reflexivity|]. split; [apply damped_means_length|].
    intros i Hi. unfold item_formula, of_item.
    rewrite (map_map r_val (fun x => x - _)).
    rewrite (damped_means_nth r_item (fun r => r_val r - _) rs ni (d_item d) i Hi).
    unfold global_mean. rewrite map_length. reflexivity.
  - subst m. unfold learn. cbn [b_users]. destruct eu; [|reflexivity].
    split; [reflexivity|]. split; [apply damped_means_length|].
    intros u Hu. unfold user_formula, of_user, item_off. cbn [b_items].
    destruct ei.
    + rewrite centre_again.
      rewrite (damped_means_nth r_user _ rs nu (d_user d) u Hu).
      unfold global_mean. rewrite map_length. reflexivity.
    + rewrite (map_map r_val (fun x => x - _)).
      rewrite (damped_means_nth r_user _ rs nu (d_user d) u Hu).
      unfold global_mean. rewrite map_length.
      apply damped_comp.
      induction (filter _ rs) as [|r l IH]; simpl; [reflexivity|]. rewrite IH. ring.
Qed.

(* ---------------- scoring ---------------- *)
Lemma bias_scores_length m d q items : length (bias_scores m d q items) = length items.
Proof. unfold bias_scores. rewrite !map_length, combine_length, map_length. lia. Qed.

Lemma bias_scores_nth m d q items k it :
  nth_error items k = Some it ->
  nth_error (bias_scores m d q items) k = Some (b_global m + item_off m it + user_off m d q).
Proof.
  unfold bias_scores. revert k; induction items as [|x items IH]; intros [|k] H; simpl in *; try discriminate.
  - inversion H; subst. reflexivity.
  - apply IH. exact H.
Qed.

Lemma score_is_sum_of_applicable_l : forall m d q items,
  length (bias_scores m d q items) = length items /\
  forall k it, nth_error items k = Some it ->
    nth_error (bias_scores m d q items) k =
    Some (b_global m
          + match b_items m, it with Some b, Some i => nth i b 0 | _, _ => 0 end
          + match b_users m with
            | None => 0
            | Some ub => match q_hist q with
                         | Some h => hist_bias m (d_user d) h
                         | None => match q_user q with Some u => nth u ub 0 | None => 0 end
                         end
            end).
Proof. intros m d q items. split; [apply bias_scores_length|]. intros k it H. apply bias_scores_nth. exact H. Qed.

Lemma hist_bias_formula m beta h : 0 <= beta -> hist_bias m beta h == hist_formula m beta h.
Proof.
  intro Hb. unfold hist_bias, hist_formula, damped.
  pose proof (Qofnat_nonneg (length h)) as Hn.
  destruct (Qeqb (Qofnat (length h) + beta) 0) eqn:E; unfold Qeqb in E.
  - apply Qeq_bool_iff in E.
    destruct (Qltb 0 (Qofnat (length h) + beta)) eqn:L; [|reflexivity].
    apply Qltb_lt in L. lra.
  - destruct (Qltb 0 (Qofnat (length h) + beta)) eqn:L; [reflexivity|].
    apply Qltb_nlt in L. exfalso.
    assert (Z : Qofnat (length h) + beta == 0) by lra.
    apply Qeq_bool_iff in Z. congruence.
Qed.

Lemma history_recomputed_l : forall m d ub qu h,
  b_users m = Some ub -> 0 <= d_user d ->
  user_off m d {| q_user := qu; q_hist := Some h |} == hist_formula m (d_user d) h.
Proof. intros m d ub qu h Hu Hb. unfold user_off. rewrite Hu. cbn [q_hist]. apply hist_bias_formula. exact Hb. Qed.

(* a user's own training ratings, supplied as a history, give back the learned offset *)
Lemma history_of_training_l : forall nu ni rs d ent_item ub u,
  let m := learn nu ni rs d ent_item true in
  b_users m = Some ub -> (u < nu)%nat -> 0 <= d_user d ->
  hist_bias m (d_user d) (map (fun r => (Some (r_item r), r_val r)) (of_user u rs)) == nth u ub 0.
Proof.
  intros nu ni rs d ei ub u m Hu Hlt Hb.
  rewrite hist_bias_formula by exact Hb.
  destruct (offsets_eq_formulas_l nu ni rs d ei true) as [G [_ U]]. fold m in G, U.
  rewrite Hu in U. destruct U as [_ [_ U]]. rewrite (U u Hlt).
  unfold hist_formula, user_formula. rewrite map_length, map_map. cbn [fst snd].
  apply damped_comp.
  induction (of_user u rs) as [|r l IH]; cbn [map Qsum fst snd]; [reflexivity|]. rewrite IH, G. reflexivity.
Qed.

Lemma unknown_zero_l : forall m d ub,
  item_off m None = 0 /\
  (b_users m = Some ub -> user_off m d {| q_user := None; q_hist := None |} = 0).
Proof. intros m d ub. split; [unfold item_off; destruct (b_items m); reflexivity|]. intro H. unfold user_off. rewrite H. reflexivity. Qed.
