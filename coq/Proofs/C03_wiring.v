(* C03 -- the GENERATED wirings of the standard pipelines (Gen/C03_wiring.v, from pipeline/common.py) compute
   exactly the hand-written pipeline models; and the life-cycle facts (the latest train() alone decides). *)
From Coq Require Import ZArith QArith List Bool Lia.
From LK Require Import Lib.QLib Lib.PyInt Lib.TopN Gen.C03_len Model.C03_pipeline Model.C03_graph Gen.C03_wiring.
Import ListNotations.
Open Scope Z_scope.

Definition rec_of (E : wenv) : result (scored * bool) :=
  rec_pipeline (e_sc E) (e_ds E) (e_in E) (e_items E) (e_cfg E) (e_n E).
Definition pred_of (E : wenv) : ilist :=
  pred_pipeline (e_sc E) (e_fb E) (e_ds E) (e_in E) (e_items E).

(* RecPipelineBuilder.build(): the recommender (also the default node), whatever the prediction flags *)
Lemma rec_wiring_recommender E pr hf :
  run_wiring E (rec_wiring pr hf) Nrecommender = V_Rec (rec_of E) /\
  run_default E (rec_wiring pr hf) = V_Rec (rec_of E).
Proof.
  destruct E as [sc fb ds i supplied cfg n]. unfold rec_of, rec_pipeline, candidates. cbn [e_sc e_fb e_ds e_in e_items e_cfg e_n].
  destruct pr, hf, supplied; split; reflexivity.
Qed.

(* ... its rating predictor: with a fallback model, and "raw" *)
Lemma rec_wiring_predictor E :
  (forall f, e_fb E = Some f -> as_pred (run_wiring E (rec_wiring true true) Npredictor) = Some (pred_of E)) /\
  (e_fb E = None -> as_pred (run_wiring E (rec_wiring true false) Npredictor) = Some (pred_of E)) /\
  (forall hf, find_node (w_nodes (rec_wiring false hf)) Npredictor = None).
Proof.
  destruct E as [sc fb ds i supplied cfg n]. unfold pred_of, pred_pipeline, candidates. cbn [e_sc e_fb e_ds e_in e_items e_cfg e_n].
  split; [|split].
  - intros f ->. destruct supplied; reflexivity.
  - intros ->. destruct supplied; reflexivity.
  - intros [|]; reflexivity.
Qed.

(* predict_pipeline(): the rating predictor (the default node) over the supplied items *)
Lemma predict_wiring_predictor E l :
  e_items E = Some l ->
  (forall f, e_fb E = Some f -> as_pred (run_default E (predict_wiring true)) = Some (pred_of E)) /\
  (e_fb E = None -> as_pred (run_default E (predict_wiring false)) = Some (pred_of E)).
Proof.
  destruct E as [sc fb ds i supplied cfg n]. unfold pred_of, pred_pipeline, candidates. cbn [e_sc e_fb e_ds e_in e_items e_cfg e_n].
  intros ->. split.
  - intros f ->. reflexivity.
  - intros ->. reflexivity.
Qed.
(* ... and without an item list it has nothing to score *)
Lemma predict_wiring_needs_items E hf :
  e_items E = None -> as_pred (run_default E (predict_wiring hf)) = None.
Proof.
  destruct E as [sc fb ds i supplied cfg n]. cbn [e_items]. intros ->. destruct hf, fb; reflexivity.
Qed.

Lemma standard_wiring_l E :
  (forall pr hf, run_wiring E (rec_wiring pr hf) Nrecommender = V_Rec (rec_of E) /\
                 run_default E (rec_wiring pr hf) = V_Rec (rec_of E)) /\
  (forall f, e_fb E = Some f -> as_pred (run_wiring E (rec_wiring true true) Npredictor) = Some (pred_of E)) /\
  (e_fb E = None -> as_pred (run_wiring E (rec_wiring true false) Npredictor) = Some (pred_of E)) /\
  (forall hf, find_node (w_nodes (rec_wiring false hf)) Npredictor = None) /\
  (forall l, e_items E = Some l ->
     (forall f, e_fb E = Some f -> as_pred (run_default E (predict_wiring true)) = Some (pred_of E)) /\
     (e_fb E = None -> as_pred (run_default E (predict_wiring false)) = Some (pred_of E))).
Proof.
  split; [intros; apply rec_wiring_recommender|].
  destruct (rec_wiring_predictor E) as [A [B C]].
  split; [exact A|]. split; [exact B|]. split; [exact C|].
  intros l Hl. exact (predict_wiring_predictor E l Hl).
Qed.

(* ---- life cycle ---- *)
Lemma after_app evs evs' : after (evs ++ evs') = fold_left step evs' (after evs).
Proof. unfold after. apply fold_left_app. Qed.
Lemma asks_keep st qs : forallb is_ask qs = true -> fold_left step qs st = st.
Proof.
  revert st. induction qs as [|e qs IH]; intros st H; [reflexivity|].
  simpl in H. apply andb_true_iff in H. destruct H as [He Hq]. destruct e; [discriminate|]. simpl. apply IH. exact Hq.
Qed.
Lemma after_train pre ds qs : forallb is_ask qs = true -> after (pre ++ Train ds :: qs) = Some ds.
Proof. intro H. rewrite after_app. simpl. apply asks_keep. exact H. Qed.

Lemma retrain_current_data_l (sc : scorer) (fb : option scorer) pre ds qs i supplied config_n run_n :
  forallb is_ask qs = true ->
  after (pre ++ Train ds :: qs) = Some ds /\
  rec_after sc (pre ++ Train ds :: qs) i supplied config_n run_n = Some (rec_pipeline sc ds i supplied config_n run_n) /\
  pred_after sc fb (pre ++ Train ds :: qs) i supplied = Some (pred_pipeline sc fb ds i supplied).
Proof.
  intro H. unfold rec_after, pred_after. rewrite (after_train pre ds qs H). repeat split.
Qed.

(* ---- several objects in one process: only an object's own train() calls count ---- *)
Lemma own_app k w w' : own k (w ++ w') = own k w ++ own k w'.
Proof. unfold own. rewrite filter_app, map_app. reflexivity. Qed.
Lemma own_asks k post : existsb (trains k) post = false -> forallb is_ask (own k post) = true.
Proof.
  induction post as [|[j e] post IH]; intro H; [reflexivity|].
  simpl in H. apply orb_false_iff in H. destruct H as [He Hp]. unfold own. simpl.
  unfold trains in He. simpl in He. destruct (Nat.eqb j k); simpl in *.
  - destruct (is_ask e); [|discriminate]. simpl. apply IH. exact Hp.
  - apply IH. exact Hp.
Qed.
Lemma objects_independent_l (sc : scorer) (fb : option scorer) k pre ds post i supplied config_n run_n :
  existsb (trains k) post = false ->
  after_in k (pre ++ (k, Train ds) :: post) = Some ds /\
  rec_in sc k (pre ++ (k, Train ds) :: post) i supplied config_n run_n = Some (rec_pipeline sc ds i supplied config_n run_n) /\
  pred_in sc fb k (pre ++ (k, Train ds) :: post) i supplied = Some (pred_pipeline sc fb ds i supplied).
Proof.
  intro H. unfold after_in, rec_in, pred_in. rewrite own_app.
  assert (E : own k ((k, Train ds) :: post) = Train ds :: own k post).
  { unfold own. simpl. rewrite Nat.eqb_refl. reflexivity. }
  rewrite E. apply retrain_current_data_l. apply own_asks. exact H.
Qed.
