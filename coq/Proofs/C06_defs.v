(* C06 -- the reference model says what the documentation says: set-level characterisations of hit
   and of the hit count, least-rank characterisation of the reciprocal rank, facts about the
   popularity quantiles. *)
From Coq Require Import ZArith QArith Qpower Qabs List Bool Lia Lqa Permutation Sorted Setoid Morphisms.
From LK Require Import Lib.QLib Lib.RankLib Model.C06_ranking Proofs.C06_model.
Import ListNotations.
Open Scope Q_scope.

Lemma hit_iff t L : existsb (rel t) L = true <-> exists i, In i L /\ In i (tl_ids t).
Proof.
  rewrite existsb_exists. split; intros (i & Hi & H); exists i; (split; [exact Hi|]); apply rel_In; exact H.
Qed.

(* first relevant item at 0-based position p  ==>  reciprocal rank 1 / (p + 1) *)
Lemma rr_first t : forall L r p,
  (p < length L)%nat -> rel t (nth p L 0%Z) = true ->
  (forall j, (j < p)%nat -> rel t (nth j L 0%Z) = false) ->
  rr_from r t L = 1 / Qofnat (r + p).
Proof.
  induction L as [|i L IH]; intros r p Hp Hrel Hbefore; [cbn in Hp; lia|].
  destruct p as [|p].
  - cbn [nth] in Hrel. cbn [rr_from]. rewrite Hrel, Nat.add_0_r. reflexivity.
  - pose proof (Hbefore 0%nat ltac:(lia)) as H0. cbn [nth] in H0, Hrel. cbn [rr_from]. rewrite H0.
    rewrite (IH (S r) p); [f_equal; f_equal; lia|cbn in Hp; lia|exact Hrel|].
    intros j Hj. apply (Hbefore (S j)). lia.
Qed.

Lemma rr_none t : forall L r, (forall i, In i L -> rel t i = false) -> rr_from r t L = 0.
Proof.
  induction L as [|i L IH]; intros r H; [reflexivity|]. cbn.
  rewrite (H i) by (left; reflexivity). apply IH. intros j Hj. apply H. right. exact Hj.
Qed.

(* ---- popularity quantiles ---- *)
Lemma count_lt_eq_le cs c : (count_lt cs c + count_eq cs c <= length cs)%nat.
Proof.
  unfold count_lt, count_eq. induction cs as [|x cs IH]; cbn [filter length]; [lia|].
  destruct (Nat.ltb_spec x c); destruct (Nat.eqb_spec x c); cbn [length]; lia.
Qed.

Lemma count_eq_pos cs c : In c cs -> (1 <= count_eq cs c)%nat.
Proof.
  unfold count_eq. induction cs as [|x cs IH]; intro H; [contradiction|]. cbn [filter].
  destruct (Nat.eqb_spec x c); cbn [length]; [lia|]. destruct H as [H|H]; [contradiction|]. apply IH, H.
Qed.

Lemma count_lt_step cs c c' : (c < c')%nat -> (count_lt cs c + count_eq cs c <= count_lt cs c')%nat.
Proof.
  intro L. unfold count_lt, count_eq. induction cs as [|x cs IH]; cbn [filter length]; [lia|].
  destruct (Nat.ltb_spec x c); destruct (Nat.eqb_spec x c); destruct (Nat.ltb_spec x c'); cbn [length]; lia.
Qed.

Lemma in_pos_counts counts c : In c (pos_counts counts) <-> (0 < c)%nat /\ In c (map snd counts).
Proof.
  unfold pos_counts. rewrite filter_In. split; intros [A B]; split; try assumption.
  - apply Nat.ltb_lt. exact B. - apply Nat.ltb_lt. exact A.
Qed.

Lemma Qofnat_inj_le a b : (a <= b)%nat -> Qofnat a <= Qofnat b.
Proof. intro H. unfold Qofnat. rewrite <- Zle_Qle. lia. Qed.

Lemma quantile_zero counts : quantile counts 0 = 0.
Proof. reflexivity. Qed.

Lemma quantile_range counts c : In c (pos_counts counts) -> 0 < quantile counts c /\ quantile counts c <= 1.
Proof.
  intro H. pose proof (proj1 (in_pos_counts counts c) H) as [Pc _].
  unfold quantile. apply Nat.ltb_lt in Pc. rewrite Pc.
  set (cs := pos_counts counts) in *.
  assert (Pn : 0 < Qofnat (length cs)).
  { apply Qofnat_pos. destruct cs; [contradiction|cbn; lia]. }
  pose proof (count_eq_pos cs c H) as E1. pose proof (count_lt_eq_le cs c) as LE.
  pose proof (Qofnat_nonneg (count_lt cs c)) as N1.
  pose proof (Qofnat_inj_le _ _ E1) as E1q. pose proof (Qofnat_inj_le _ _ LE) as LEq.
  rewrite Qofnat_add in LEq. change (Qofnat 1) with 1 in E1q.
  assert (R : 0 < rank_avg cs c /\ rank_avg cs c <= Qofnat (length cs)).
  { unfold rank_avg, Qdiv. change (/ 2) with (1 # 2). split; lra. }
  destruct R as [R0 R1]. split.
  - apply Qlt_shift_div_l; [exact Pn|]. lra.
  - apply Qle_shift_div_r; [exact Pn|]. lra.
Qed.

Lemma quantile_mono counts c c' : (c <= c')%nat -> quantile counts c <= quantile counts c'.
Proof.
  intro L. unfold quantile. set (cs := pos_counts counts).
  destruct (Nat.ltb_spec 0 c) as [Pc|Zc].
  - assert (Pc' : (0 <? c')%nat = true) by (apply Nat.ltb_lt; lia). rewrite Pc'.
    destruct cs as [|x0 cs0] eqn:Ecs.
    + unfold rank_avg, count_lt, count_eq, Qdiv. cbn. lra.
    + assert (Pn : 0 < Qofnat (length (x0 :: cs0))) by (apply Qofnat_pos; cbn; lia).
      unfold Qdiv. apply Qmult_le_compat_r; [|apply Qlt_le_weak, Qinv_lt_0_compat, Pn].
      destruct (Nat.eq_dec c c') as [->|NE]; [lra|].
      pose proof (count_lt_step (x0 :: cs0) c c' ltac:(lia)) as ST.
      apply Qofnat_inj_le in ST. rewrite Qofnat_add in ST.
      pose proof (Qofnat_nonneg (count_eq (x0 :: cs0) c')). pose proof (Qofnat_nonneg (count_eq (x0 :: cs0) c)).
      unfold rank_avg, Qdiv. change (/ 2) with (1 # 2). lra.
  - destruct (Nat.ltb_spec 0 c') as [Pc'|_]; [|lra].
    destruct cs as [|x0 cs0] eqn:Ecs.
    + unfold rank_avg, count_lt, count_eq, Qdiv. cbn. lra.
    + assert (Pn : 0 < Qofnat (length (x0 :: cs0))) by (apply Qofnat_pos; cbn; lia).
      apply Qle_shift_div_l; [exact Pn|].
      pose proof (Qofnat_nonneg (count_lt (x0 :: cs0) c')). pose proof (Qofnat_nonneg (count_eq (x0 :: cs0) c')).
      unfold rank_avg, Qdiv. change (/ 2) with (1 # 2). lra.
Qed.

(* the single most popular item has quantile 1 *)
Lemma count_split cs c : (forall x, In x cs -> (x <= c)%nat) ->
  (count_lt cs c + count_eq cs c = length cs)%nat.
Proof.
  unfold count_lt, count_eq. induction cs as [|x cs IH]; intro H; [reflexivity|]. cbn [filter].
  assert (Hx : (x <= c)%nat) by (apply H; left; reflexivity).
  specialize (IH ltac:(intros y Hy; apply H; right; exact Hy)).
  destruct (Nat.ltb_spec x c); destruct (Nat.eqb_spec x c); cbn [length]; lia.
Qed.

Lemma quantile_unique_max counts c :
  In c (pos_counts counts) -> (forall x, In x (pos_counts counts) -> (x <= c)%nat) ->
  count_eq (pos_counts counts) c = 1%nat -> quantile counts c == 1.
Proof.
  intros H Max Uniq. pose proof (proj1 (in_pos_counts counts c) H) as [Pc _].
  unfold quantile. apply Nat.ltb_lt in Pc. rewrite Pc. set (cs := pos_counts counts) in *.
  pose proof (count_split cs c Max) as Sp. rewrite Uniq in Sp.
  assert (Pn : 0 < Qofnat (length cs)) by (apply Qofnat_pos; lia).
  assert (E : Qofnat (length cs) == Qofnat (count_lt cs c) + 1) by (rewrite <- Sp, Qofnat_add; reflexivity).
  pose proof (Qofnat_nonneg (count_lt cs c)) as N.
  unfold rank_avg. rewrite Uniq, E. change (Qofnat 1) with 1. field. lra.
Qed.

Lemma count_of_absent counts i : ~ In i (map fst counts) -> count_of counts i = 0%nat.
Proof.
  induction counts as [|e cs IH]; cbn; intro H; [reflexivity|].
  destruct (Z.eqb_spec i (fst e)) as [E|N]; [exfalso; apply H; left; symmetry; exact E|].
  apply IH. intro I. apply H. right. exact I.
Qed.

Lemma count_of_in counts i : In i (map fst counts) -> In (count_of counts i) (map snd counts).
Proof.
  induction counts as [|e cs IH]; cbn; intro H; [contradiction|].
  destruct (Z.eqb_spec i (fst e)) as [E|N]; [left; reflexivity|].
  right. apply IH. destruct H as [H|H]; [exfalso; apply N; symmetry; exact H|exact H].
Qed.

Lemma item_quantile_range counts i : 0 <= item_quantile counts i <= 1.
Proof.
  unfold item_quantile. destruct (in_dec Z.eq_dec i (map fst counts)) as [I|N].
  - destruct (Nat.eq_dec (count_of counts i) 0) as [Z0|P].
    + rewrite Z0. cbn. lra.
    + assert (H : In (count_of counts i) (pos_counts counts)).
      { apply in_pos_counts. split; [lia|apply count_of_in, I]. }
      destruct (quantile_range counts _ H). lra.
  - rewrite count_of_absent by exact N. cbn. lra.
Qed.
