(* C12 -- the environment tasks are evaluated in: the worker initialiser (generated steps) leaves the process-wide
   environment of a fresh worker as it was and installs the rebuilt context, so the pool evaluates f in the default
   environment -- the one the caller evaluates it in with n_jobs = 1. *)
From Coq Require Import List Bool Arith.
From LK Require Import Model.C12_shapes Gen.C12_shape Model.C12_pool Proofs.C12_pool.
Import ListNotations.

Lemma worker_init_state : forall (E C : Type) (c : C) (e0 : E), worker_init c e0 = mkW e0 (Some c).
Proof. intros. reflexivity. Qed.

Lemma worker_call_is_f : forall (E C A R : Type) (f : E -> C -> A -> res R) (c : C) (e0 : E) (x : A),
  worker_call f (worker_init c e0) x = f e0 c x.
Proof. intros. rewrite worker_init_state. reflexivity. Qed.

Lemma worker_environment_l : forall (E C A R : Type) (f : E -> C -> A -> res R) (c : C) (e0 : E) (xs : list A) (sched : list ev),
  complete (prun (worker_call f (worker_init c e0)) xs sched) = true ->
  pool_map (worker_call f (worker_init c e0)) xs sched = map (f e0 c) xs.
Proof.
  intros E C A R f c e0 xs sched H.
  rewrite (scheduler_order_l _ _ _ H).
  apply map_ext. intro x. apply worker_call_is_f.
Qed.

(* an initialiser with a step that changes the environment would not do: the statement is about the steps *)
Lemma init_without_rebuild_fails : forall (E C A R : Type) (f : E -> C -> A -> res R) (e0 : E) (x : A),
  worker_call f (mkW e0 (@None C)) x = Err 7.
Proof. reflexivity. Qed.
