(* C07 -- proofs of the property statements (restated verbatim in Props/C07.v). *)
From Coq Require Import ZArith QArith Qabs List Bool.
From LK Require Import Lib.QLib Gen.C07_agg Model.C07_metrics Proofs.C07_proofs.
Import ListNotations.
Open Scope Q_scope.

Lemma rmse_definition_l : forall ms mt preds truth al,
  align ms mt preds truth = Some al -> rmse_measure_list al = rmse_def (both preds truth).
Proof. intros ms mt p t al H. apply align_some in H. subst al. rewrite rmse_measure_list_def, both_join. reflexivity. Qed.

Lemma mae_definition_l : forall ms mt preds truth al,
  align ms mt preds truth = Some al -> mae_measure_list al = mae_def (both preds truth).
Proof. intros ms mt p t al H. apply align_some in H. subst al. rewrite mae_measure_list_def, both_join. reflexivity. Qed.

Lemma error_policy_l : forall ms mt preds truth,
  align ms mt preds truth = None <->
  (ms = DError /\ exists pt, In pt (join preds truth) /\ missing_score pt = true) \/
  (mt = DError /\ exists pt, In pt (join preds truth) /\ missing_truth pt = true).
Proof. exact align_none. Qed.

Lemma ignored_excluded_everywhere_l : forall ms mt preds truth al,
  align ms mt preds truth = Some al ->
  rmse_compute_list_data al = (Qsum (map sqerr (both preds truth)), Qofnat (length (both preds truth))) /\
  mae_compute_list_data al = (Qsum (map abserr (both preds truth)), Qofnat (length (both preds truth))) /\
  rmse_extract_list_metric (rmse_compute_list_data al) = rmse_measure_list al /\
  mae_extract_list_metric (mae_compute_list_data al) = mae_measure_list al.
Proof.
  intros ms mt p t al H. apply align_some in H. subst al.
  rewrite rmse_list_data_def, mae_list_data_def, <- rmse_list_data_def, <- mae_list_data_def,
          rmse_extract_def, mae_extract_def, rmse_list_data_def, mae_list_data_def, both_join. auto.
Qed.

Lemma global_is_pooled_l : forall lists : list (ilist * ilist),
  let js := map (fun ot => join (fst ot) (snd ot)) lists in
  let pooled := concat (map (fun ot => both (fst ot) (snd ot)) lists) in
  res_eq (rmse_global_aggregate (map (fun j => rmse_compute_list_data (aligned_of j)) js)) (rmse_def pooled) /\
  res_eq (mae_global_aggregate (map (fun j => mae_compute_list_data (aligned_of j)) js)) (mae_def pooled).
Proof.
  intros lists js pooled.
  assert (E : concat (map both_of js) = pooled).
  { unfold js, pooled. rewrite map_map. f_equal. apply map_ext. intros [o t]. apply both_join. }
  rewrite <- E. split; [apply rmse_global_pooled|apply mae_global_pooled].
Qed.

Lemma list_value_is_metric_l : forall ofs tfs ms outputs test a,
  measure ofs tfs ms outputs test = OK a ->
  length (a_table a) = length outputs /\
  forall i key o, nth_error outputs i = Some (key, o) ->
    exists row, nth_error (a_table a) i = Some row /\
      match lookup_projected ofs tfs key test with
      | None => False
      | Some None => row = map (fun _ => RNone) (filter in_table ms)        (* no test list: no value *)
      | Some (Some t) =>
          length row = length (filter in_table ms) /\
          forall k m, nth_error (filter in_table ms) k = Some m -> m_listwise m = true -> coherent m ->
            exists v, nth_error row k = Some v /\ opt_res_eq (Some v) (m_measure_list m o t)
      end.
Proof.
  intros ofs tfs ms outputs test a H. destruct (measure_table _ _ _ _ _ _ H) as [L [_ R]].
  split; [exact L|]. intros i key o N. destruct (R i key o N) as [row [Nr S]]. exists row. split; [exact Nr|].
  destruct (lookup_projected ofs tfs key test) as [[t|]|]; auto.
  destruct S as [Lr S]. split; [exact Lr|]. intros k m Nk Lw C.
  destruct (S k m Nk) as [v [Nv Cv]]. exists v. split; [exact Nv|].
  specialize (C o t Lw). rewrite Cv in C. exact C.
Qed.

Lemma shipped_metrics_coherent_l : forall ms mt d, coherent (rmse_metric ms mt d) /\ coherent (mae_metric ms mt d).
Proof. intros. split; [apply coherent_rmse|apply coherent_mae]. Qed.

Lemma defaults_only_on_request_l : forall a,
  list_metrics_of a false = a_table a /\
  list_metrics_of a true = fill_table (a_table a) (a_defaults a) /\
  forall v d, fill_cell v d = match v with RNone => match d with Some q => RVal q | None => RNone end | _ => v end.
Proof. intro a. split; [apply list_metrics_raw|]. split; [apply list_metrics_filled|exact fill_cell_spec]. Qed.

Lemma summary_of_filled_l : list_summary_fill = true /\ list_summary_stats = [SMean; SMedian; SStd].
Proof. exact summary_shape. Qed.

