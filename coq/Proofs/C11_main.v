(* C11 -- the statements of Props/C11.v that do not depend on the generated file. *)
From Coq Require Import ZArith List Bool Lia Permutation.
From Coq Require String.
From LK Require Import Model.C11_seeds Proofs.C11_proofs.
Import ListNotations.

Lemma closed_implies_function_of_seed_l :
  forall (G E : Type) (draw : G -> Z * G) (opaque : String.string -> G -> list Z * G)
         (fresh : E -> G * E) (ambient : E -> Z * E) (resolve : String.string -> option fn),
    (forall c f, resolve c = Some f -> body_closed (fn_body f) = true) ->
    forall fuel,
      (forall body g e1 e2, body_closed body = true ->
         fst (run draw opaque fresh ambient resolve fuel body g e1) = fst (run draw opaque fresh ambient resolve fuel body g e2)) /\
      (forall calls g e1 e2, Forall (fun b => body_closed b = true) calls ->
         fst (run_seq draw opaque fresh ambient resolve fuel calls g e1) = fst (run_seq draw opaque fresh ambient resolve fuel calls g e2)).
Proof.
  intros G E draw opaque fresh ambient resolve Hres fuel. split.
  - intros body g e1 e2 Hc. apply run_closed_indep; assumption.
  - intros calls g e1 e2 Hall. apply run_seq_closed_indep; assumption.
Qed.

Section Rankers.
  Context {Gn P A : Type}.
  Variable plan : bool -> derive_plan.
  Hypothesis plan_user : plan true = DeriveFromUser.
  Variables (derive : Z -> Gn) (spawn : nat -> Gn) (out : Gn -> P -> A).

  Lemma order_free : forall st1 st2 rs1 rs2 i j r u,
    nth_error rs1 i = Some r -> nth_error rs2 j = Some r -> r_user r = Some u ->
    nth_error (serve_all plan derive spawn out st1 rs1) i = nth_error (serve_all plan derive spawn out st2 rs2) j.
  Proof.
    intros st1 st2 rs1 rs2 i j r u H1 H2 Hu.
    rewrite (serve_all_nth plan plan_user derive spawn out rs1 st1 i r u H1 Hu).
    rewrite (serve_all_nth plan plan_user derive spawn out rs2 st2 j r u H2 Hu). reflexivity.
  Qed.

  Lemma permuted_requests : forall st1 st2 rs1 rs2,
    Forall (fun r => r_user r <> None) rs1 -> Permutation rs1 rs2 ->
    Permutation (combine rs1 (serve_all plan derive spawn out st1 rs1)) (combine rs2 (serve_all plan derive spawn out st2 rs2)).
  Proof.
    intros st1 st2 rs1 rs2 Hall Hp.
    assert (Forall (fun r => r_user r <> None) rs2) as Hall2.
    { rewrite Forall_forall in *. intros r Hin. apply Hall. eapply Permutation_in; [apply Permutation_sym; exact Hp|exact Hin]. }
    rewrite (serve_all_identified plan plan_user derive spawn out rs1 st1 Hall).
    rewrite (serve_all_identified plan plan_user derive spawn out rs2 st2 Hall2).
    set (g := fun r : req P => match r_user r with Some u => answer derive out u (r_payload r) | None => out (spawn 0) (r_payload r) end).
    assert (forall l, combine l (map g l) = map (fun r => (r, g r)) l) as X.
    { induction l as [|x l IH]; [reflexivity|]. cbn. f_equal. exact IH. }
    rewrite !X. apply Permutation_map. exact Hp.
  Qed.
End Rankers.

Lemma chunking_irrelevant_l : forall (A B : Type) (f : A -> B) (h : A -> A) (r : A -> list B) c rows,
  0 < c ->
  joined_concat f c rows = map f rows /\
  joined_scatter h c rows = map h rows /\
  joined_rows r c rows = concat (map r rows).
Proof.
  intros A B f h r c rows Hc. split; [|split].
  - unfold joined_concat. rewrite <- concat_map. rewrite concat_chunks by exact Hc. reflexivity.
  - unfold joined_scatter.
    pose proof (scatter_blocks (map (map h) (chunks c rows)) [] rows) as S. cbn [app length] in S.
    rewrite S.
    + rewrite <- concat_map. rewrite concat_chunks by exact Hc. reflexivity.
    + rewrite <- concat_map. rewrite concat_chunks by exact Hc. apply map_length.
  - unfold joined_rows. rewrite concat_map_concat. rewrite concat_chunks by exact Hc. reflexivity.
Qed.
