(* C11 -- lemmas about the seed-forwarding language, derived-seed rankers and chunked joins
   (Model/C11_seeds.v).  Independent of the generated graph. *)
From Coq Require Import ZArith List Bool Lia Permutation.
From Coq Require String.
Import String.StringSyntax.
From LK Require Import Model.C11_seeds.
Import ListNotations.

(* ---- (i) a closed body's result does not depend on ambient entropy ------------------------ *)
Section Run.
  Context {G E : Type}.
  Variable draw : G -> Z * G.
  Variable opaque : String.string -> G -> list Z * G.
  Variable fresh : E -> G * E.
  Variable ambient : E -> Z * E.
  Variable resolve : String.string -> option fn.
  Hypothesis resolve_closed : forall c f, resolve c = Some f -> body_closed (fn_body f) = true.

  Notation run := (run draw opaque fresh ambient resolve).

  Lemma run_closed_env : forall fuel body g,
    body_closed body = true ->
    exists o g', forall e', run fuel body g e' = (o, g', e').
  Proof.
    induction fuel as [|k IH]; intros body g Hc.
    - exists [], g. intro e'. reflexivity.
    - destruct body as [|s rest].
      + exists [], g. intro e'. reflexivity.
      + cbn in Hc. apply andb_true_iff in Hc. destruct Hc as [Hs Hrest].
        destruct s as [|c a|w|w s1]; try discriminate.
        * (* draw *)
          destruct (draw g) as [v g1] eqn:Ed.
          destruct (IH rest g1 Hrest) as [o2 [g2 H2]].
          exists (v :: o2), g2. intro e'. cbn. rewrite Ed. rewrite (H2 e'). reflexivity.
        * destruct a; try discriminate.
          destruct (resolve c) as [f|] eqn:Er.
          -- destruct (IH (fn_body f) g (resolve_closed c f Er)) as [o1 [g1 H1]].
             destruct (IH rest g1 Hrest) as [o2 [g2 H2]].
             exists (o1 ++ o2), g2. intro e'. cbn. rewrite Er. rewrite (H1 e'). rewrite (H2 e'). reflexivity.
          -- destruct (opaque c g) as [o1 g1] eqn:Eo.
             destruct (IH rest g1 Hrest) as [o2 [g2 H2]].
             exists (o1 ++ o2), g2. intro e'. cbn. rewrite Er, Eo. rewrite (H2 e'). reflexivity.
  Qed.

  Lemma run_closed_indep : forall fuel body g e1 e2,
    body_closed body = true ->
    fst (run fuel body g e1) = fst (run fuel body g e2).
  Proof.
    intros fuel body g e1 e2 Hc. destruct (run_closed_env fuel body g Hc) as [o [g' H]].
    rewrite (H e1), (H e2). reflexivity.
  Qed.

  Lemma run_seq_closed_indep : forall fuel calls g e1 e2,
    Forall (fun b => body_closed b = true) calls ->
    fst (run_seq draw opaque fresh ambient resolve fuel calls g e1)
    = fst (run_seq draw opaque fresh ambient resolve fuel calls g e2).
  Proof.
    intros fuel calls. induction calls as [|b t IH]; intros g e1 e2 Hall; [reflexivity|].
    inversion Hall as [|x l Hb Ht]; subst.
    destruct (run_closed_env fuel b g Hb) as [o [g' H]].
    cbn. rewrite (H e1), (H e2).
    specialize (IH g' e1 e2 Ht).
    destruct (run_seq draw opaque fresh ambient resolve fuel t g' e1) as [[os1 g1] x1].
    destruct (run_seq draw opaque fresh ambient resolve fuel t g' e2) as [[os2 g2] x2].
    cbn in IH. inversion IH. subst. reflexivity.
  Qed.
End Run.

(* resolution inside a closed graph only yields closed bodies *)
Lemma find_fn_in : forall g name f, find_fn g name = Some f -> In f g.
Proof. intros g name f H. unfold find_fn in H. apply find_some in H. apply H. Qed.

Lemma resolve_in_closed : forall g fams disp c f,
  graph_closed g = true -> resolve_in g fams disp c = Some f -> body_closed (fn_body f) = true.
Proof.
  intros g fams disp c f Hg Hr. unfold graph_closed in Hg. rewrite forallb_forall in Hg.
  unfold resolve_in in Hr.
  assert (forall name f0, find_fn g name = Some f0 -> fn_primitive f0 = false -> body_closed (fn_body f0) = true) as X.
  { intros name f0 Hf Hp. specialize (Hg f0 (find_fn_in g name f0 Hf)). rewrite Hp in Hg. exact Hg. }
  destruct (find_fn g c) as [f0|] eqn:E0.
  - destruct (fn_primitive f0) eqn:Ep; [discriminate|]. inversion Hr; subst. apply (X c f E0 Ep).
  - destruct (assoc c fams) as [members|]; [|discriminate].
    destruct (nth_error members (disp c)) as [m|]; [|discriminate].
    destruct (find_fn g m) as [f1|] eqn:E1; [|discriminate].
    destruct (fn_primitive f1) eqn:Ep; [discriminate|]. inversion Hr; subst. apply (X m f E1 Ep).
Qed.

(* ---- (ii) rankers ---------------------------------------------------------------------------- *)
Section Rankers.
  Context {Gn P A : Type}.
  Variable plan : bool -> derive_plan.
  Hypothesis plan_user : plan true = DeriveFromUser.
  Variable derive : Z -> Gn.
  Variable spawn : nat -> Gn.
  Variable out : Gn -> P -> A.

  Notation serve_all := (serve_all plan derive spawn out).

  Definition answer (u : Z) (p : P) : A := out (derive u) p.

  Lemma serve_all_nth : forall rs st i r u,
    nth_error rs i = Some r -> r_user r = Some u ->
    nth_error (serve_all st rs) i = Some (answer u (r_payload r)).
  Proof.
    induction rs as [|r0 rs IH]; intros st i r u Hn Hu.
    - destruct i; discriminate.
    - cbn [C11_seeds.serve_all]. destruct (serve_derived plan derive spawn out st r0) as [st' a] eqn:Es.
      destruct i as [|i].
      + cbn in Hn. inversion Hn; subst. unfold serve_derived in Es. rewrite Hu, plan_user in Es.
        inversion Es; subst. reflexivity.
      + cbn in Hn. cbn. apply (IH st' i r u Hn Hu).
  Qed.

  Lemma serve_all_length : forall rs st, length (serve_all st rs) = length rs.
  Proof.
    induction rs as [|r rs IH]; intro st; [reflexivity|].
    cbn [C11_seeds.serve_all]. destruct (serve_derived plan derive spawn out st r) as [st' a]. cbn. f_equal. apply IH.
  Qed.

  Lemma serve_all_identified : forall rs st,
    Forall (fun r => r_user r <> None) rs ->
    serve_all st rs = map (fun r => match r_user r with Some u => answer u (r_payload r) | None => out (spawn 0) (r_payload r) end) rs.
  Proof.
    induction rs as [|r rs IH]; intros st Hall; [reflexivity|].
    inversion Hall as [|x l Hr Hl]; subst.
    cbn [C11_seeds.serve_all map]. unfold serve_derived.
    destruct (r_user r) as [u|] eqn:Eu; [|contradiction].
    rewrite plan_user. f_equal. apply IH. exact Hl.
  Qed.
End Rankers.

(* one fixed generator: the answer depends on what was served before *)
Lemma fixed_ranker_order_dependent :
  let outg := fun (g : Z) (p : Z) => ((g + p)%Z, (g + 1)%Z) in
  let a := mkReq (Some 1%Z) 10%Z in
  let b := mkReq (Some 2%Z) 20%Z in
  nth_error (serve_fixed outg 0%Z [a; b]) 0 <> nth_error (serve_fixed outg 0%Z [b; a]) 1.
Proof. cbv zeta. cbn. discriminate. Qed.

(* ---- (iii) chunks ---------------------------------------------------------------------------- *)
Section Chunks.
  Context {A : Type}.

  Lemma concat_chunks_aux : forall fuel c (l : list A), 0 < c -> length l <= fuel -> concat (chunks_aux fuel c l) = l.
  Proof.
    induction fuel as [|k IH]; intros c l Hc Hl.
    - destruct l; [reflexivity|cbn in Hl; lia].
    - destruct l as [|x l]; [reflexivity|].
      cbn [chunks_aux concat]. rewrite IH; [apply firstn_skipn|exact Hc|].
      rewrite skipn_length. cbn [length] in *. lia.
  Qed.

  Lemma concat_chunks : forall c (l : list A), 0 < c -> concat (chunks c l) = l.
  Proof. intros c l Hc. apply concat_chunks_aux; [exact Hc|lia]. Qed.

  Lemma chunks_aux_sizes : forall fuel c (l : list A), 0 < c ->
    Forall (fun b => 0 < length b /\ length b <= c) (chunks_aux fuel c l).
  Proof.
    induction fuel as [|k IH]; intros c l Hc; [constructor|].
    destruct l as [|x l]; [constructor|].
    cbn [chunks_aux]. constructor; [|apply IH; exact Hc].
    rewrite firstn_length. cbn [length]. lia.
  Qed.

  Lemma write_prefix : forall (done rest vals : list A),
    length vals <= length rest ->
    write (done ++ rest) (length done) vals = (done ++ vals) ++ skipn (length vals) rest.
  Proof.
    intros done rest vals Hl. unfold write.
    rewrite firstn_app, firstn_all, Nat.sub_diag. cbn [firstn]. rewrite app_nil_r.
    rewrite skipn_app. rewrite skipn_all2 by lia. cbn [app].
    replace (length done + length vals - length done) with (length vals) by lia.
    rewrite <- app_assoc. reflexivity.
  Qed.

  (* writing the blocks of new values over the old array, block after block in index order *)
  Lemma scatter_blocks : forall (blocks : list (list A)) (done rest : list A),
    length (concat blocks) = length rest ->
    scatter (done ++ rest) (length done) blocks = done ++ concat blocks.
  Proof.
    induction blocks as [|b bs IH]; intros done rest Hl.
    - cbn in *. destruct rest; [reflexivity|discriminate].
    - cbn [scatter concat] in *. rewrite app_length in Hl.
      rewrite write_prefix by lia.
      replace (length done + length b) with (length (done ++ b)) by (rewrite app_length; reflexivity).
      rewrite IH; [rewrite <- app_assoc; reflexivity|].
      rewrite skipn_length. lia.
  Qed.
End Chunks.

(* ---- (iv) rows filled from one generator: the blocking is irrelevant -------------------------- *)
Section Fill.
  Context {G A : Type}.
  Variable draw : G -> A * G.

  Lemma fill_app : forall a b g,
    fill draw (a + b) g = let (vs, g1) := fill draw a g in let (ws, g2) := fill draw b g1 in (vs ++ ws, g2).
  Proof.
    induction a as [|a IH]; intros b g.
    - cbn. destruct (fill draw b g). reflexivity.
    - cbn [Nat.add fill]. destruct (draw g) as [v g1]. rewrite IH.
      destruct (fill draw a g1) as [vs g2]. destruct (fill draw b g2) as [ws g3]. reflexivity.
  Qed.

  Lemma fill_blocks_seq : forall sizes g, fill_blocks draw sizes g = fill draw (list_sum sizes) g.
  Proof.
    induction sizes as [|n t IH]; intro g; [reflexivity|].
    cbn [fill_blocks]. change (list_sum (n :: t)) with (n + list_sum t). rewrite fill_app. destruct (fill draw n g) as [vs g1]. rewrite IH. reflexivity.
  Qed.
End Fill.

(* one child generator per block: the rows depend on how many blocks (threads) there are.
   Generators are counters, the i-th child of g starts at g + 1000 * (i + 1). *)
Definition demo_draw (g : Z) : Z * Z := (g, (g + 1)%Z).
Definition demo_child (g : Z) (i : nat) : Z := (g + 1000 * (Z.of_nat i + 1))%Z.
Lemma children_depend_on_block_count :
  fill_children demo_draw demo_child 0 [4] 7%Z <> fill_children demo_draw demo_child 0 [2; 2] 7%Z /\
  fst (fill_blocks demo_draw [4] 7%Z) = fst (fill_blocks demo_draw [2; 2] 7%Z).
Proof. split; [discriminate|reflexivity]. Qed.

Lemma concat_map_concat : forall A B (f : A -> list B) (ls : list (list A)),
  concat (map (fun blk => concat (map f blk)) ls) = concat (map f (concat ls)).
Proof.
  induction ls as [|l ls IH]; [reflexivity|].
  cbn [map concat]. rewrite IH. rewrite map_app, concat_app. reflexivity.
Qed.

(* ---- demonstrations with concrete generators (string literals from here on) ---------------- *)
Local Open Scope string_scope.

(* a body that hands a callee nothing (the shape of F-C11-1) can give different results for the
   same seed: generators are counters, the callee draws once from whatever it was given *)
Definition demo_resolve (c : String.string) : option fn :=
  if String.eqb c "crossfold" then Some (mkFn "crossfold" true false [SDraw]) else None.
Definition demo_run (body : list stmt) (seed ambient_state : Z) : list Z :=
  fst (fst (run (fun g => (g, (g + 1)%Z)) (fun _ g => ([], g)) (fun e => (e, (e + 1)%Z)) (fun e => (e, (e + 1)%Z))
                demo_resolve 5 body seed ambient_state)).

(* a draw that happens only when ambient state says so (a sample logged at DEBUG level, drawn from the
   training generator) shifts every later draw: same seed, different results *)
Lemma ambient_conditional_can_differ :
  demo_run [SCond "logging-level" SDraw; SDraw] 42 0 <> demo_run [SCond "logging-level" SDraw; SDraw] 42 1 /\
  demo_run [SDraw; SDraw] 42 0 = demo_run [SDraw; SDraw] 42 1 /\
  forall w s, stmt_closed (SCond w s) = false.
Proof. split; [discriminate|split; reflexivity]. Qed.

Lemma unclosed_can_differ :
  demo_run [SCall "crossfold" AOmitted] 42 0 <> demo_run [SCall "crossfold" AOmitted] 42 1 /\
  demo_run [SCall "crossfold" ASeeded] 42 0 = demo_run [SCall "crossfold" ASeeded] 42 1.
Proof. split; [discriminate|reflexivity]. Qed.

