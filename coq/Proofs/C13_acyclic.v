(* C13 -- the cycle check of the model (Kahn's algorithm on fuel, standing for
   graphlib.TopologicalSorter.prepare) is sound and complete for "there is a rank function that
   decreases along every edge between keys"; hence it depends only on the edge relation. *)
From Coq Require Import String List Bool Arith Lia Permutation.
From LK Require Import Lib.StrDict Lib.StrDictFacts Model.C13_json Gen.C13_shape Model.C13_config.
Import ListNotations.

Definition graph := dict (dict string).

Definition edge_ok (rank : string -> nat) (g : graph) : Prop :=
  forall n ins t, In (n, ins) g -> In t (vals ins) -> In t (keys g) -> rank t < rank n.
Definition Acyclic (g : graph) : Prop := exists rank, edge_ok rank g.

Lemma targets_in_true g ins : targets_in g ins = true <-> exists t, In t (vals ins) /\ In t (keys g).
Proof.
  unfold targets_in. rewrite existsb_exists. split; intros [t [H1 H2]]; exists t; split; auto; apply dmem_in; exact H2.
Qed.

Lemma filter_len_le {X} (f : X -> bool) l : length (filter f l) <= length l.
Proof. induction l as [|y r IH]; cbn; [lia|]. destruct (f y); cbn; lia. Qed.

Lemma filter_length_lt {X} (f : X -> bool) l x : In x l -> f x = false -> length (filter f l) < length l.
Proof.
  induction l as [|y r IH]; cbn; intros H E; [tauto|].
  destruct H as [->|H].
  - rewrite E. pose proof (filter_len_le f r). lia.
  - specialize (IH H E). destruct (f y); cbn; lia.
Qed.

Lemma exists_min_rank (rank : string -> nat) (g : graph) :
  g <> [] -> exists n ins, In (n, ins) g /\ forall m ins', In (m, ins') g -> rank n <= rank m.
Proof.
  induction g as [|[n ins] r IH]; intro H; [congruence|].
  destruct r as [|p r'].
  - exists n, ins. split; [left; reflexivity|]. intros m ins' [[= <- <-]|[]]. lia.
  - destruct IH as [n0 [ins0 [Hin Hmin]]]; [discriminate|].
    destruct (le_lt_dec (rank n) (rank n0)) as [L|L].
    + exists n, ins. split; [left; reflexivity|]. intros m ins' [[= <- <-]|Hm]; [lia|]. specialize (Hmin _ _ Hm). lia.
    + exists n0, ins0. split; [right; exact Hin|]. intros m ins' [[= <- <-]|Hm]; [lia|]. apply (Hmin _ _ Hm).
Qed.

Lemma edge_ok_filter rank g f : edge_ok rank g -> edge_ok rank (filter f g).
Proof.
  intros Hok n ins t Hin Ht Hk. apply filter_In in Hin. destruct Hin as [Hin _].
  apply (Hok n ins t Hin Ht).
  unfold keys in *. rewrite in_map_iff in *. destruct Hk as [x [E Hx]]. apply filter_In in Hx. exists x. tauto.
Qed.

Lemma kahn_complete fuel : forall g, length g <= fuel -> Acyclic g -> kahn fuel g = true.
Proof.
  induction fuel as [|f IH]; intros g L [rank Hok].
  - destruct g; [reflexivity|cbn in L; lia].
  - destruct g as [|p r] eqn:Eg; [reflexivity|]. rewrite <- Eg in *. assert (Hne : g <> []) by (rewrite Eg; discriminate).
    destruct (exists_min_rank rank g Hne) as [n [ins [Hin Hmin]]].
    assert (Hf : targets_in g ins = false).
    { destruct (targets_in g ins) eqn:E; [|reflexivity]. apply targets_in_true in E. destruct E as [t [Ht Hk]].
      pose proof (Hok _ _ _ Hin Ht Hk) as Hlt.
      unfold keys in Hk. rewrite in_map_iff in Hk. destruct Hk as [[t' ins'] [E Hx]]. cbn in E. subst t'.
      specialize (Hmin _ _ Hx). lia. }
    pose proof (filter_length_lt (fun p => targets_in g (snd p)) g (n, ins) Hin Hf) as Hlt.
    replace (kahn (S f) g) with (let rest := filter (fun p => targets_in g (snd p)) g in
                                 if Nat.eqb (length rest) (length g) then false else kahn f rest)
      by (rewrite Eg; reflexivity).
    cbv zeta. destruct (Nat.eqb_spec (length (filter (fun p => targets_in g (snd p)) g)) (length g)) as [E|_]; [lia|].
    apply IH; [lia|]. exists rank. apply edge_ok_filter. exact Hok.
Qed.

Lemma kahn_sound fuel : forall g, kahn fuel g = true -> Acyclic g.
Proof.
  induction fuel as [|f IH]; intros g H.
  - destruct g; [exists (fun _ => 0); intros ? ? ? []|discriminate].
  - destruct g as [|p r] eqn:Eg; [exists (fun _ => 0); intros ? ? ? []|]. rewrite <- Eg in *.
    replace (kahn (S f) g) with (let rest := filter (fun p => targets_in g (snd p)) g in
                                 if Nat.eqb (length rest) (length g) then false else kahn f rest) in H
      by (rewrite Eg; reflexivity).
    cbv zeta in H. set (rest := filter (fun p => targets_in g (snd p)) g) in *.
    destruct (Nat.eqb (length rest) (length g)); [discriminate|].
    destruct (IH _ H) as [rank' Hok'].
    exists (fun n => if dmem n rest then S (rank' n) else 0).
    intros n ins t Hin Ht Hk.
    destruct (targets_in g ins) eqn:E.
    + assert (Hr : In (n, ins) rest) by (apply filter_In; split; assumption).
      assert (Hn : dmem n rest = true) by (apply dmem_in; change n with (fst (n, ins)); apply in_map; exact Hr).
      rewrite Hn. destruct (dmem t rest) eqn:Et; [|lia].
      apply dmem_in in Et. specialize (Hok' _ _ _ Hr Ht Et). lia.
    + exfalso. assert (X : targets_in g ins = true) by (apply targets_in_true; exists t; split; assumption). congruence.
Qed.

Theorem acyclic_b_spec g : acyclic_b g = true <-> Acyclic g.
Proof. unfold acyclic_b. split; [apply kahn_sound|apply kahn_complete; lia]. Qed.

(* a graph whose edges and keys are among those of an acyclic graph is acyclic *)
Definition subgraph (g' g : graph) : Prop :=
  (forall n ins' t, In (n, ins') g' -> In t (vals ins') -> exists ins, In (n, ins) g /\ In t (vals ins)) /\
  incl (keys g') (keys g).

Lemma acyclic_subgraph g' g : subgraph g' g -> Acyclic g -> Acyclic g'.
Proof.
  intros [He Hk] [rank Hok]. exists rank. intros n ins' t Hin Ht Hkt.
  destruct (He _ _ _ Hin Ht) as [ins [Hin2 Ht2]]. apply (Hok _ _ _ Hin2 Ht2). apply Hk. exact Hkt.
Qed.

Lemma acyclic_b_subgraph g' g : subgraph g' g -> acyclic_b g = true -> acyclic_b g' = true.
Proof. intros S H. apply acyclic_b_spec. eapply acyclic_subgraph; [exact S|]. apply acyclic_b_spec. exact H. Qed.
