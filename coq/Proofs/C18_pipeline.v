(* C18 -- statements that depend on the generated table: every shipped class, and Pipeline.train
   with the generated seed plan. *)
From Coq Require Import ZArith List Bool Lia.
From Coq Require String.
Import String.StringSyntax.
From LK Require Import Model.C18_retrain Gen.C18_frames Proofs.C18_proofs Proofs.C18_main Proofs.C18_frames_ok.
Import ListNotations.
Local Open Scope string_scope.

Lemma every_class_retrains_fresh_l : forall fr, In fr frames ->
  forall (D S : Type) (fit : D -> S -> store -> fitres) h d o, o_retrain o = true ->
    (forall a, lookup a (run fit fr (h ++ [(d, o)]) []) = lookup a (train fit fr d o [])) /\
    (forall d' o' c, guard_holds (fr_guard fr) c = true -> o_retrain o' = false -> train fit fr d' o' c = c).
Proof.
  intros fr Hin D S fit h d o Hr. split.
  - apply retrain_whole_store; [apply every_frame_closed; exact Hin|exact Hr].
  - intros d' o' c. apply train_skip.
Qed.

Lemma pipeline_trains_each_once_l : forall k retrain sb ns,
  let calls := ptrain_calls (pt_seed_plan k) pt_spawn_width retrain (start_index (pt_seed_plan k) sb) ns in
  map pc_name calls = map pn_name (filter pn_trainable ns) /\
  Forall (fun c => pc_retrain c = retrain) calls /\
  (NoDup (map pn_name ns) -> NoDup (map pc_name calls)).
Proof.
  intros k retrain sb ns. cbv zeta. split; [apply ptrain_calls_names|]. split; [apply ptrain_calls_retrain|].
  intro Hnd. rewrite ptrain_calls_names. apply NoDup_map_filter. exact Hnd.
Qed.

Lemma seeds_distinct_l : forall (Seed : Type) (spawn : nat -> Seed),
  (forall i j, spawn i = spawn j -> i = j) ->
  forall k, k = KSeedLike \/ k = KSeedSequence \/ k = KSeedZero ->
  forall retrain sb ns,
    let calls := ptrain_calls (pt_seed_plan k) pt_spawn_width retrain (start_index (pt_seed_plan k) sb) ns in
    Forall (fun c => exists i, pc_rng c = CSpawn i) calls /\
    NoDup (map (fun c => match pc_rng c with CSpawn i => Some (spawn i) | CSame => None end) calls).
Proof.
  intros Seed spawn Hinj k Hk retrain sb ns. cbv zeta.
  pose proof (seeded_plan_spawns k Hk) as Hp.
  destruct seed_plan_l as [_ [_ [_ [_ [_ [Hw _]]]]]].
  set (i0 := start_index (pt_seed_plan k) sb).
  pose proof (ptrain_calls_indices (pt_seed_plan k) pt_spawn_width retrain ns i0 Hp) as Hidx.
  split.
  - eapply Forall_impl; [|exact Hidx]. cbn. intros c [j [Hj _]]. exists j. exact Hj.
  - pose proof (ptrain_calls_rng_nodup (pt_seed_plan k) pt_spawn_width retrain ns i0 Hp Hw) as Hnd.
    rewrite <- (map_map pc_rng (fun r => match r with CSpawn i => Some (spawn i) | CSame => None end)).
    apply NoDup_map_injective; [|exact Hnd].
    intros x y Hx Hy Heq.
    apply in_map_iff in Hx. destruct Hx as [cx [Hcx Hinx]].
    apply in_map_iff in Hy. destruct Hy as [cy [Hcy Hiny]].
    rewrite Forall_forall in Hidx.
    destruct (Hidx cx Hinx) as [jx [Hjx _]]. destruct (Hidx cy Hiny) as [jy [Hjy _]].
    rewrite Hjx in Hcx. rewrite Hjy in Hcy. subst x y.
    inversion Heq as [H]. apply Hinj in H. subst. reflexivity.
Qed.

(* at the point of use: the generator a component makes from its options is made from the child seed itself
   (options_rng_passthrough, generated), so distinct children give distinct generators *)
Lemma generators_distinct_at_use_l : forall (Seed Gen : Type) (spawn : nat -> Seed) (gen_of : Seed -> Gen),
  (forall i j, spawn i = spawn j -> i = j) ->
  (forall s t, gen_of s = gen_of t -> s = t) ->
  options_rng_passthrough = true ->
  forall k, k = KSeedLike \/ k = KSeedSequence \/ k = KSeedZero ->
  forall retrain sb ns,
    let calls := ptrain_calls (pt_seed_plan k) pt_spawn_width retrain (start_index (pt_seed_plan k) sb) ns in
    NoDup (map (fun c => match pc_rng c with CSpawn i => Some (gen_of (spawn i)) | CSame => None end) calls).
Proof.
  intros Seed Gen spawn gen_of Hs Hg _ k Hk retrain sb ns.
  apply (seeds_distinct_l Gen (fun i => gen_of (spawn i))); [|exact Hk].
  intros i j H. apply Hs. apply Hg. exact H.
Qed.

Lemma options_passthrough_l : options_rng_passthrough = true.
Proof. reflexivity. Qed.

Lemma pipeline_retrain_equals_fresh_l : forall (D B : Type) (fit : D -> B * child_rng -> store -> fitres) k cs h d o,
  (forall c fr, In c cs -> cp_frame c = Some fr -> In fr frames) ->
  (forall c, In c cs -> cp_store c = []) ->
  o_retrain o = true ->
  Forall2 (fun a b => cp_name a = cp_name b /\ cp_frame a = cp_frame b /\ forall x, lookup x (cp_store a) = lookup x (cp_store b))
          (prun fit (pt_seed_plan k) pt_spawn_width (h ++ [(d, o)]) cs)
          (ptrain fit (pt_seed_plan k) pt_spawn_width d o 0 cs).
Proof.
  intros D B fit k cs h d o Hfr Hempty Hr.
  rewrite prun_is_from0.
  apply (pipeline_retrain_fresh_from fit (pt_seed_plan k) pt_spawn_width cs h d o 0); [|exact Hempty|exact Hr].
  intros c fr Hin Hf. apply every_frame_closed. apply (Hfr c fr Hin Hf).
Qed.
