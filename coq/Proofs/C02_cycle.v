(* C02 -- the cycle check of build_config (modelled by [acyclic_b]) accepts exactly the wirings
   that have a rank function, i.e. no cycle; a wiring with a closed path is rejected; a pipeline
   that was built satisfies the hypotheses of the correctness theorem with the fuel the
   correspondence runs use; the runner itself raises on re-entering an in-progress node. *)
From Coq Require Import ZArith List Bool Arith Lia Permutation.
From LK Require Import Model.C02_runner Proofs.C02_basic Proofs.C02_den.
Import ListNotations.

Lemma mem_In n l : mem n l = true <-> In n l.
Proof.
  unfold mem. rewrite existsb_exists. split.
  - intros [x [Hx E]]. apply Nat.eqb_eq in E. subst. exact Hx.
  - intros H. exists n. split; [exact H|apply Nat.eqb_refl].
Qed.

Lemma sources_srcs ps body : sources (Comp ps body) = srcs ps.
Proof. reflexivity. Qed.

Definition edges_ok (rank : name -> nat) (rem : graph) : Prop :=
  forall n nd s, In (n, nd) rem -> In s (sources nd) -> In s (map fst rem) -> rank s < rank n.

Definition step (rem : graph) : graph := filter (fun nn => negb (ready rem nn)) rem.

Lemma peel_S f rem : peel (S f) rem = peel f (step rem).
Proof. reflexivity. Qed.

Lemma peel_nil f : peel f [] = [].
Proof. induction f; simpl; auto. Qed.

Lemma step_incl rem : incl (step rem) rem.
Proof. intros x H. apply filter_In in H. tauto. Qed.

(* ---- soundness: accepted => ranked ---- *)
Lemma peel_rank : forall f rem, peel f rem = [] ->
  exists rank, (forall n, rank n <= f) /\ edges_ok rank rem.
Proof.
  induction f as [|f IH]; intros rem H.
  - simpl in H. subst. exists (fun _ => 0). split; [auto|]. intros n nd s [].
  - rewrite peel_S in H. destruct (IH _ H) as [rk [Hb He]].
    exists (fun n => if mem n (map fst (step rem)) then S (rk n) else 0). split.
    + intros n. destruct (mem n (map fst (step rem))); [specialize (Hb n); lia|lia].
    + intros n nd s Hin Hs Hsn.
      destruct (ready rem (n, nd)) eqn:Er.
      * exfalso. unfold ready in Er. rewrite forallb_forall in Er. specialize (Er s Hs).
        apply negb_true_iff in Er. simpl in Er.
        assert (mem s (map fst rem) = true) by (apply mem_In; exact Hsn). congruence.
      * assert (Hin' : In (n, nd) (step rem)) by (apply filter_In; split; [exact Hin|rewrite Er; reflexivity]).
        assert (Hn : mem n (map fst (step rem)) = true) by (apply mem_In, in_map_iff; exists (n, nd); auto).
        rewrite Hn. destruct (mem s (map fst (step rem))) eqn:Es; [|lia].
        apply mem_In in Es. specialize (He n nd s Hin' Hs Es). lia.
Qed.

Lemma acyclic_sound g : acyclic_b g = true ->
  exists rank, ranked g rank /\ forall n, rank n < 2 + length g.
Proof.
  unfold acyclic_b. destruct (peel (length g) g) eqn:E; [|discriminate]. intros _.
  destruct (peel_rank _ _ E) as [rk [Hb He]].
  exists (fun n => if mem n (map fst g) then S (rk n) else 0). split.
  - intros n ps body src Hl Hs. apply lookup_in in Hl.
    assert (Hn : mem n (map fst g) = true) by (apply mem_In, in_map_iff; exists (n, Comp ps body); auto).
    rewrite Hn. destruct (mem src (map fst g)) eqn:Es; [|lia].
    apply mem_In in Es. specialize (He n (Comp ps body) src Hl Hs Es). lia.
  - intros n. destruct (mem n (map fst g)); [specialize (Hb n); lia|lia].
Qed.

(* ---- completeness: ranked => accepted ---- *)
Lemma min_rank (rank : name -> nat) : forall (l : graph), l <> [] ->
  exists x, In x l /\ forall y, In y l -> rank (fst x) <= rank (fst y).
Proof.
  induction l as [|a l IH]; intros H; [congruence|].
  destruct l as [|b l'].
  - exists a. split; [simpl; auto|]. intros y [<-|[]]. lia.
  - destruct IH as [x [Hx Hm]]; [discriminate|].
    destruct (le_lt_dec (rank (fst a)) (rank (fst x))).
    + exists a. split; [simpl; auto|]. intros y [<-|Hy]; [lia|]. specialize (Hm y Hy). lia.
    + exists x. split; [simpl; auto|]. intros y [<-|Hy]; [lia|]. apply Hm, Hy.
Qed.

Lemma filter_len_le {A} (f : A -> bool) l : length (filter f l) <= length l.
Proof. induction l as [|a l IH]; simpl; [lia|]. destruct (f a); simpl; lia. Qed.

Lemma filter_length_lt {A} (f : A -> bool) l x : In x l -> f x = false -> length (filter f l) < length l.
Proof.
  induction l as [|a l IH]; intros Hin Hf; [destruct Hin|]. destruct Hin as [<-|H]; simpl.
  - rewrite Hf. pose proof (filter_len_le f l). lia.
  - destruct (f a); simpl; [specialize (IH H Hf); lia|]. pose proof (filter_len_le f l). lia.
Qed.

Lemma peel_complete rank : forall f rem, length rem <= f -> edges_ok rank rem -> peel f rem = [].
Proof.
  induction f as [|f IH]; intros rem Hlen He.
  - destruct rem; [reflexivity|simpl in Hlen; lia].
  - rewrite peel_S. destruct rem as [|a rem0] eqn:Erem; [apply peel_nil|]. rewrite <- Erem in *.
    destruct (min_rank rank rem) as [x [Hx Hm]]; [rewrite Erem; discriminate|].
    assert (Hready : ready rem x = true).
    { unfold ready. apply forallb_forall. intros s Hs. apply negb_true_iff.
      destruct (mem s (map fst rem)) eqn:Es; [|reflexivity]. exfalso.
      apply mem_In in Es. destruct x as [n nd]. pose proof (He n nd s Hx Hs Es) as Hlt.
      apply in_map_iff in Es. destruct Es as [[s' nd'] [E Hy]]. simpl in E. subst s'.
      specialize (Hm _ Hy). simpl in Hm. lia. }
    apply IH.
    + assert (length (step rem) < length rem); [|lia].
      eapply filter_length_lt; [exact Hx|]. rewrite Hready. reflexivity.
    + intros n nd s Hin Hs Hsn. apply (He n nd s); [apply step_incl, Hin|exact Hs|].
      apply in_map_iff in Hsn. destruct Hsn as [y [E Hy]]. apply in_map_iff. exists y. split; [exact E|apply step_incl, Hy].
Qed.

Lemma lookup_of_in {A} n (x : A) l : NoDup (map fst l) -> In (n, x) l -> lookup n l = Some x.
Proof.
  induction l as [|[m y] l IH]; intros Hnd Hin; [destruct Hin|].
  simpl in *. inversion Hnd as [|? ? Hni Hnd']; subst. destruct Hin as [E|Hin].
  - inversion E; subst. rewrite Nat.eqb_refl. reflexivity.
  - destruct (Nat.eqb n m) eqn:E; [|auto]. apply Nat.eqb_eq in E. subst.
    exfalso. apply Hni. apply in_map_iff. exists (m, x). auto.
Qed.

Lemma acyclic_complete g rank : NoDup (map fst g) -> ranked g rank -> acyclic_b g = true.
Proof.
  intros Hnd Hr. unfold acyclic_b. rewrite (peel_complete rank (length g) g); [reflexivity|lia|].
  intros n nd s Hin Hs _. destruct nd as [t nl|v|ps body]; try destruct Hs.
  eapply Hr; [apply lookup_of_in; eauto|exact Hs].
Qed.

(* ---- a closed path is a cycle: no rank, hence rejected ---- *)
Inductive path (g : graph) : name -> name -> Prop :=
| path_edge n ps body src : lookup n g = Some (Comp ps body) -> In src (srcs ps) -> path g n src
| path_trans a b c : path g a b -> path g b c -> path g a c.

Lemma path_rank g rank a b : ranked g rank -> path g a b -> rank b < rank a.
Proof. intros Hr H. induction H; [eapply Hr; eauto|lia]. Qed.

Lemma cycle_not_ranked g rank n : path g n n -> ~ ranked g rank.
Proof. intros Hp Hr. pose proof (path_rank g rank n n Hr Hp). lia. Qed.

Lemma cycle_rejected_l : forall g,
  (acyclic_b g = true -> exists rank, ranked g rank /\ forall n, rank n < 2 + length g) /\
  (NoDup (map fst g) -> (exists rank, ranked g rank) -> acyclic_b g = true) /\
  (forall n, path g n n -> acyclic_b g = false).
Proof.
  intros g. split; [apply acyclic_sound|]. split.
  - intros Hnd [rank Hr]. eapply acyclic_complete; eauto.
  - intros n Hp. destruct (acyclic_b g) eqn:E; [|reflexivity].
    destruct (acyclic_sound g E) as [rank [Hr _]]. exfalso. eapply cycle_not_ranked; eauto.
Qed.

(* the runner's own check *)
Lemma reenter_raises_l : forall g inputs fuel s n r,
  stat s n = InProgress -> run g inputs (S fuel) s n r = (s, Err ECycle).
Proof. intros. simpl. unfold run_step. rewrite H. reflexivity. Qed.

(* explicit connection first, default connection otherwise *)
Lemma resolve_param_l : forall defaults p,
  p_src (resolve_param defaults p) =
    match bp_conn p with Some s => Some s | None => lookup (bp_name p) defaults end /\
  p_lazy (resolve_param defaults p) = bp_lazy p /\ p_typed (resolve_param defaults p) = bp_typed p /\
  p_nullable (resolve_param defaults p) = bp_nullable p.
Proof. intros. repeat split. Qed.

Lemma build_ranked_l : forall b g, build b = Some g ->
  g = resolve b /\ exists rank, ranked g rank /\ forall n, rank n < 2 + length g.
Proof.
  intros b g H. unfold build in H. destruct (acyclic_b (resolve b)) eqn:E; [|discriminate].
  inversion H; subst. split; [reflexivity|]. apply acyclic_sound, E.
Qed.

(* a boolean test of a proposed rank, for concrete examples *)
Definition ranked_b (g : graph) (rank : name -> nat) : bool :=
  forallb (fun nn => forallb (fun s => Nat.ltb (rank s) (rank (fst nn))) (sources (snd nn))) g.
Lemma ranked_b_sound g rank : ranked_b g rank = true -> ranked g rank.
Proof.
  unfold ranked_b. rewrite forallb_forall. intros H n ps body src Hl Hin.
  apply lookup_in in Hl. specialize (H _ Hl). simpl in H. rewrite forallb_forall in H.
  apply Nat.ltb_lt. apply H. exact Hin.
Qed.

(* ---- editing the builder between builds ---- *)
Lemma lookup_filter_other {A} n pn (l : list (nat * A)) : Nat.eqb n pn = false ->
  lookup n (filter (fun d => negb (Nat.eqb (fst d) pn)) l) = lookup n l.
Proof.
  intros Hn. induction l as [|[m y] l IH]; simpl; [reflexivity|].
  destruct (Nat.eqb m pn) eqn:Em; simpl.
  - destruct (Nat.eqb n m) eqn:E; [|exact IH]. apply Nat.eqb_eq in E. subst. congruence.
  - rewrite IH. reflexivity.
Qed.

Lemma default_edit_l : forall b pn t p,
  p_src (resolve_param (b_defaults (apply_edit b (EDefault pn t))) p) =
    match bp_conn p with
    | Some s => Some s
    | None => if Nat.eqb (bp_name p) pn then Some t else lookup (bp_name p) (b_defaults b)
    end /\
  b_nodes (apply_edit b (EDefault pn t)) = b_nodes b /\ b_aliases (apply_edit b (EDefault pn t)) = b_aliases b.
Proof.
  intros b pn t p. simpl. split; [|split; reflexivity].
  destruct (bp_conn p); [reflexivity|]. destruct (Nat.eqb (bp_name p) pn) eqn:E; [reflexivity|].
  apply lookup_filter_other, E.
Qed.

Lemma connect_edit_l : forall pn t p,
  bp_conn (set_conn pn t p) = (if Nat.eqb (bp_name p) pn then Some t else bp_conn p) /\
  bp_name (set_conn pn t p) = bp_name p /\ bp_lazy (set_conn pn t p) = bp_lazy p /\
  bp_typed (set_conn pn t p) = bp_typed p /\ bp_nullable (set_conn pn t p) = bp_nullable p /\
  bp_ty (set_conn pn t p) = bp_ty p.
Proof. intros pn t p. unfold set_conn. destruct (Nat.eqb (bp_name p) pn); repeat split. Qed.

(* ---- clear_inputs / replace_component ---- *)
Lemma clear_edit_l : forall defaults p,
  p_src (resolve_param defaults (with_conn p None)) = lookup (bp_name p) defaults /\
  bp_name (with_conn p None) = bp_name p /\ bp_lazy (with_conn p None) = bp_lazy p /\
  bp_typed (with_conn p None) = bp_typed p /\ bp_nullable (with_conn p None) = bp_nullable p /\
  bp_ty (with_conn p None) = bp_ty p.
Proof. intros defaults p. repeat split. Qed.

Lemma replace_edit_l : forall old p,
  bp_conn (keep_conn old p) = match bp_conn p with Some s => Some s | None => old_conn old (bp_name p) end /\
  bp_name (keep_conn old p) = bp_name p /\ bp_lazy (keep_conn old p) = bp_lazy p /\
  bp_typed (keep_conn old p) = bp_typed p /\ bp_nullable (keep_conn old p) = bp_nullable p /\
  bp_ty (keep_conn old p) = bp_ty p.
Proof. intros old p. unfold keep_conn. destruct (bp_conn p) eqn:E; repeat split; auto. Qed.

(* edits other than those on node c leave every other declaration alone *)
Lemma edit_node_other : forall c f l n, n <> c -> lookup n (edit_node c f l) = lookup n l.
Proof.
  intros c f l n Hn. unfold edit_node. induction l as [|[m x] l IH]; simpl; [reflexivity|].
  destruct (Nat.eqb m c) eqn:Em; simpl.
  - apply Nat.eqb_eq in Em. subst m. destruct (Nat.eqb n c) eqn:E; [apply Nat.eqb_eq in E; congruence|exact IH].
  - destruct (Nat.eqb n m); [reflexivity|exact IH].
Qed.

(* ---- every build of a builder history ---- *)
(* However the state was reached (any edits, any number of earlier builds -- build does not change the
   state), a wiring with a closed path is rejected and an accepted one has a rank. *)
Lemma history_cycle_rejected_l : forall b edits,
  let b' := fold_left apply_edit edits b in
  (forall n, path (resolve b') n n -> build b' = None) /\
  (forall g, build b' = Some g -> g = resolve b' /\ exists rank, ranked g rank).
Proof.
  intros b edits b'. split.
  - intros n Hp. unfold build. destruct (cycle_rejected_l (resolve b')) as [_ [_ H]]. rewrite (H n Hp). reflexivity.
  - intros g Hb. unfold build in Hb. destruct (acyclic_b (resolve b')) eqn:E; [|discriminate].
    inversion Hb; subst. split; [reflexivity|]. destruct (acyclic_sound _ E) as [rank [Hr _]]. exists rank. exact Hr.
Qed.
