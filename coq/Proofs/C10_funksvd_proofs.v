(* C10 -- FunkSVD: the array-updating training loop of Model/C10_funksvd.v (a transcription of
   _feature_loop / _train_feature / train) equals feature-by-feature stochastic gradient descent:
   feature f is trained on its own pair of columns, starting from the initial value, by the
   documented rule -- clamp the prediction est + u*i + trail, error = rating - prediction, both
   deltas computed from the OLD values, u += lrate*(err*i - reg*u), i += lrate*(err*u - reg*i) --
   with the trailing estimate init^2 * (features still untrained) and a running estimate that is
   clamped after each feature.  Proved for EVERY arithmetic instance (so for binary64 and for Q). *)
From Coq Require Import ZArith QArith List Bool Lia Lqa.
From LK Require Import Lib.QLib Model.C10_funksvd.
Import ListNotations.

Section Spec.
Variable Ar : arith.
Notation T := (T Ar).
Notation "a +. b" := (add Ar a b) (at level 50, left associativity).
Notation "a -. b" := (sub Ar a b) (at level 50, left associativity).
Notation "a *. b" := (mul Ar a b) (at level 40, left associativity).

(* ---- the specification: one feature = one pair of columns ---- *)
Definition cols := (list T * list T)%type.

(* the documented update of one sample *)
Definition col_sample (p : params Ar) (trail : T) (st : cols) (smp : sample Ar) : cols :=
  let '(user, item, rating, est) := smp in
  let u := get1 Ar (fst st) user in
  let i := get1 Ar (snd st) item in
  let pred := clamp_loop Ar (rng Ar p) (est +. u *. i +. trail) in
  let err := rating -. pred in
  (set1 Ar (fst st) user (u +. (err *. i -. reg_term Ar p *. u) *. lrate Ar p),
   set1 Ar (snd st) item (i +. (err *. u -. reg_term Ar p *. i) *. lrate Ar p)).

Fixpoint col_train (n : nat) (p : params Ar) (trail : T) (smps : list (sample Ar)) (st : cols) : cols :=
  match n with
  | O => st
  | S n' => col_train n' p trail smps (fold_left (col_sample p trail) smps st)
  end.

Definition col_next_est (p : params Ar) (c : cols) (smps : list (sample Ar)) : list (sample Ar) :=
  map (fun s => let '(u, i, r, e) := s in
                (u, i, r, clamp_np Ar (rng Ar p) (e +. get1 Ar (fst c) u *. get1 Ar (snd c) i))) smps.

(* feature-wise training: the list of trained column pairs, feature 0 first *)
Fixpoint train_cols (p : params Ar) (nfeat nusers nitems : nat) (todo : nat) (smps : list (sample Ar)) : list cols :=
  match todo with
  | O => []
  | S todo' =>
      let f := (nfeat - todo)%nat in
      let trail := init Ar p *. init Ar p *. of_nat Ar (nfeat - f - 1) in
      let c := col_train (iter_count Ar p) p trail smps (repeat (init Ar p) nusers, repeat (init Ar p) nitems) in
      c :: train_cols p nfeat nusers nitems todo' (col_next_est p c smps)
  end.

(* ---- arrays and their columns ---- *)
Definition colof (m : arr2 Ar) (f : nat) : list T := map (fun row => get1 Ar row f) m.
Definition wf (nfeat : nat) (m : arr2 Ar) : Prop := Forall (fun row => length row = nfeat) m.

Lemma set1_length l : forall i v, length (set1 Ar l i v) = length l.
Proof. induction l as [|x l IH]; intros [|i] v; cbn; try reflexivity. rewrite IH. reflexivity. Qed.
Lemma get1_set1_same l : forall i v, (i < length l)%nat -> get1 Ar (set1 Ar l i v) i = v.
Proof.
  unfold get1. induction l as [|x l IH]; intros [|i] v L; cbn in *; try lia; [reflexivity|].
  apply IH. lia.
Qed.
Lemma get1_set1_other l : forall i j v, i <> j -> get1 Ar (set1 Ar l i v) j = get1 Ar l j.
Proof.
  unfold get1. induction l as [|x l IH]; intros [|i] [|j] v N; cbn; try reflexivity; try congruence.
  apply IH. congruence.
Qed.

Lemma get2_colof m c : forall r, get2 Ar m r c = get1 Ar (colof m c) r.
Proof.
  unfold get2, colof, get1. induction m as [|row m IH]; intros [|r]; cbn [nth map]; try reflexivity.
  - destruct c; reflexivity.
  - destruct c; reflexivity.
  - apply IH.
Qed.

Lemma colof_set2_same f v : forall m r,
  Forall (fun row => (f < length row)%nat) m ->
  colof (set2 Ar m r f v) f = set1 Ar (colof m f) r v.
Proof.
  intros m r. revert r. induction m as [|row m IH]; intros [|r] F; cbn; try reflexivity.
  - inversion F; subst. unfold colof. cbn [map]. rewrite get1_set1_same by assumption. reflexivity.
  - inversion F; subst. unfold colof in * . cbn [map]. f_equal. apply IH. assumption.
Qed.
Lemma colof_set2_other c f v : c <> f -> forall m r, colof (set2 Ar m r c v) f = colof m f.
Proof.
  intros N. induction m as [|row m IH]; intros [|r]; cbn; try reflexivity.
  - unfold colof. cbn [map]. rewrite get1_set1_other by exact N. reflexivity.
  - unfold colof in * . cbn [map]. f_equal. apply IH.
Qed.
Lemma set2_wf n m : forall r c v, wf n m -> wf n (set2 Ar m r c v).
Proof.
  unfold wf. induction m as [|row m IH]; intros [|r] c v F; cbn; try assumption.
  - inversion F as [|? ? Hr Hm]. constructor; [rewrite set1_length; exact Hr|exact Hm].
  - inversion F as [|? ? Hr Hm]. constructor; [exact Hr|apply IH; exact Hm].
Qed.
Lemma wf_lt n f m : wf n m -> (f < n)%nat -> Forall (fun row => (f < length row)%nat) m.
Proof. unfold wf. intros F L. eapply Forall_impl; [|exact F]. intros row E. cbn in E. lia. Qed.
Lemma colof_length m f : length (colof m f) = length m.
Proof. apply map_length. Qed.

Definition proj (f : nat) (st : arr2 Ar * arr2 Ar) : cols := (colof (fst st) f, colof (snd st) f).
Definition wf2 (n : nat) (st : arr2 Ar * arr2 Ar) : Prop := wf n (fst st) /\ wf n (snd st).

(* ---- one sample ---- *)
Lemma sgd_sample_wf n p f trail st smp : wf2 n st -> wf2 n (sgd_sample Ar p f trail st smp).
Proof.
  intros [W1 W2]. destruct smp as [[[u i] r] e]. unfold sgd_sample. cbn [fst snd].
  split; apply set2_wf; assumption.
Qed.

Lemma sgd_sample_proj n p f trail st smp : wf2 n st -> (f < n)%nat ->
  proj f (sgd_sample Ar p f trail st smp) = col_sample p trail (proj f st) smp.
Proof.
  intros [W1 W2] L. destruct smp as [[[u i] r] e]. unfold sgd_sample, col_sample, proj. cbn [fst snd].
  rewrite !colof_set2_same by (eapply wf_lt; eassumption).
  rewrite !get2_colof. reflexivity.
Qed.

Lemma sgd_sample_other p f g trail st smp : f <> g ->
  proj g (sgd_sample Ar p f trail st smp) = proj g st.
Proof.
  intro N. destruct smp as [[[u i] r] e]. unfold sgd_sample, proj. cbn [fst snd].
  rewrite !colof_set2_other by exact N. reflexivity.
Qed.

(* ---- one pass, several passes ---- *)
Lemma feature_loop_wf n p f trail smps : forall st, wf2 n st -> wf2 n (feature_loop Ar p f trail smps st).
Proof.
  unfold feature_loop. induction smps as [|s smps IH]; intros st W; cbn [fold_left]; [exact W|].
  apply IH. apply sgd_sample_wf. exact W.
Qed.
Lemma feature_loop_proj n p f trail smps : forall st, wf2 n st -> (f < n)%nat ->
  proj f (feature_loop Ar p f trail smps st) = fold_left (col_sample p trail) smps (proj f st).
Proof.
  unfold feature_loop. induction smps as [|s smps IH]; intros st W L; cbn [fold_left]; [reflexivity|].
  rewrite IH by (try apply sgd_sample_wf; assumption).
  rewrite (sgd_sample_proj n) by assumption. reflexivity.
Qed.
Lemma feature_loop_other p f g trail smps : f <> g -> forall st,
  proj g (feature_loop Ar p f trail smps st) = proj g st.
Proof.
  intro N. unfold feature_loop. induction smps as [|s smps IH]; intro st; cbn [fold_left]; [reflexivity|].
  rewrite IH, sgd_sample_other by exact N. reflexivity.
Qed.

Lemma train_feature_wf n p f trail smps : forall k st, wf2 n st -> wf2 n (train_feature Ar k p f trail smps st).
Proof. induction k as [|k IH]; intros st W; cbn [train_feature]; [exact W|]. apply IH, feature_loop_wf, W. Qed.
Lemma train_feature_proj n p f trail smps : forall k st, wf2 n st -> (f < n)%nat ->
  proj f (train_feature Ar k p f trail smps st) = col_train k p trail smps (proj f st).
Proof.
  induction k as [|k IH]; intros st W L; cbn [train_feature col_train]; [reflexivity|].
  rewrite IH by (try apply feature_loop_wf; assumption).
  rewrite (feature_loop_proj n) by assumption. reflexivity.
Qed.
Lemma train_feature_other p f g trail smps : f <> g -> forall k st,
  proj g (train_feature Ar k p f trail smps st) = proj g st.
Proof.
  intro N. induction k as [|k IH]; intro st; cbn [train_feature]; [reflexivity|].
  rewrite IH, feature_loop_other by exact N. reflexivity.
Qed.

Lemma next_est_cols p f st smps : next_est Ar p f st smps = col_next_est p (proj f st) smps.
Proof.
  unfold next_est, col_next_est, proj. cbn [fst snd]. apply map_ext. intros [[[u i] r] e].
  rewrite !get2_colof. reflexivity.
Qed.

(* ---- all features ---- *)
Lemma colof_fresh n nfeat v f : (f < nfeat)%nat -> colof (fresh Ar n nfeat v) f = repeat v n.
Proof.
  intro L. unfold fresh, colof. induction n as [|n IH]; cbn [repeat map]; [reflexivity|]. rewrite IH. f_equal.
  unfold get1. clear IH. revert f L. induction nfeat as [|m IHm]; intros [|f] L; cbn; try lia; [reflexivity|].
  apply IHm. lia.
Qed.
Lemma fresh_wf n nfeat v : wf nfeat (fresh Ar n nfeat v).
Proof. unfold wf, fresh. apply Forall_forall. intros row H. apply repeat_spec in H. subst. apply repeat_length. Qed.

(* invariant of train_from: features below nfeat - todo are finished (never touched again),
   features from nfeat - todo on are still at their initial value *)
Lemma train_from_cols p nfeat nusers nitems : forall todo smps st,
  (todo <= nfeat)%nat -> wf2 nfeat st ->
  (forall g, (nfeat - todo <= g < nfeat)%nat -> proj g st = (repeat (init Ar p) nusers, repeat (init Ar p) nitems)) ->
  let r := train_from Ar p nfeat todo smps st in
  wf2 nfeat r /\
  (forall g, (g < nfeat - todo)%nat -> proj g r = proj g st) /\
  (forall j, (j < todo)%nat ->
     nth_error (train_cols p nfeat nusers nitems todo smps) j = Some (proj (nfeat - todo + j) r)).
Proof.
  induction todo as [|todo IH]; intros smps st Lt W Init; cbn zeta.
  - cbn [train_from train_cols]. split; [exact W|]. split; [reflexivity|]. intros j Hj. lia.
  - cbn [train_from train_cols]. cbv zeta.
    set (f := (nfeat - S todo)%nat).
    set (trail := init Ar p *. init Ar p *. of_nat Ar (nfeat - f - 1)).
    set (st' := train_feature Ar (iter_count Ar p) p f trail smps st).
    assert (Lf : (f < nfeat)%nat) by (unfold f; lia).
    assert (W' : wf2 nfeat st') by (apply train_feature_wf; exact W).
    assert (Pf : proj f st' = col_train (iter_count Ar p) p trail smps (repeat (init Ar p) nusers, repeat (init Ar p) nitems)).
    { unfold st'. rewrite (train_feature_proj nfeat) by assumption. rewrite Init by (unfold f; lia). reflexivity. }
    assert (Po : forall g, f <> g -> proj g st' = proj g st) by (intros g N; apply train_feature_other; exact N).
    rewrite next_est_cols, Pf.
    specialize (IH (col_next_est p (col_train (iter_count Ar p) p trail smps
                     (repeat (init Ar p) nusers, repeat (init Ar p) nitems)) smps) st').
    destruct IH as [Wr [Keep Cols]]; [lia|exact W'| |].
    + intros g Hg. rewrite Po by (unfold f; lia). apply Init. lia.
    + split; [exact Wr|]. split.
      * intros g Hg. rewrite Keep by lia. apply Po. unfold f in * . lia.
      * intros [|j] Hj.
        -- cbn [nth_error]. f_equal. rewrite Nat.add_0_r. fold f.
           rewrite Keep by (unfold f; lia). symmetry. exact Pf.
        -- cbn [nth_error]. rewrite Cols by lia. f_equal. f_equal. unfold f. lia.
Qed.

(* the loop equals feature-wise SGD: column f of the trained matrices is the f-th trained pair *)
Theorem train_is_featurewise p nfeat nusers nitems smps f : (f < nfeat)%nat ->
  nth_error (train_cols p nfeat nusers nitems nfeat smps) f =
  Some (proj f (train Ar p nfeat nusers nitems smps)).
Proof.
  intro L. unfold train.
  destruct (train_from_cols p nfeat nusers nitems nfeat smps
              (fresh Ar nusers nfeat (init Ar p), fresh Ar nitems nfeat (init Ar p))) as [_ [_ C]].
  - lia.
  - split; apply fresh_wf.
  - intros g Hg. unfold proj. cbn [fst snd]. rewrite !colof_fresh by lia. reflexivity.
  - rewrite (C f L). f_equal. f_equal. lia.
Qed.

(* entry-wise reading: user_features[u][f] is entry u of the user column of feature f *)
Corollary trained_entry p nfeat nusers nitems smps f c : (f < nfeat)%nat ->
  nth_error (train_cols p nfeat nusers nitems nfeat smps) f = Some c ->
  (forall u, get2 Ar (fst (train Ar p nfeat nusers nitems smps)) u f = get1 Ar (fst c) u) /\
  (forall i, get2 Ar (snd (train Ar p nfeat nusers nitems smps)) i f = get1 Ar (snd c) i).
Proof.
  intros L H. rewrite (train_is_featurewise p nfeat nusers nitems smps f L) in H. injection H as <-.
  split; intro; rewrite get2_colof; reflexivity.
Qed.
End Spec.

(* ---- the rational reading of the rule ---- *)
Open Scope Q_scope.

(* in exact arithmetic the update is gradient descent on the regularised squared error *)
Theorem sgd_rule_Q (p : params q_arith) (trail : Q) (uc ic : list Q) user item rating est :
  let u := get1 q_arith uc user in
  let i := get1 q_arith ic item in
  let pred := clamp_loop q_arith (rng q_arith p) (est + u * i + trail) in
  let err := rating - pred in
  (user < length uc)%nat -> (item < length ic)%nat ->
  let st' := col_sample q_arith p trail (uc, ic) (user, item, rating, est) in
  get1 q_arith (fst st') user == u + lrate q_arith p * (err * i - reg_term q_arith p * u) /\
  get1 q_arith (snd st') item == i + lrate q_arith p * (err * u - reg_term q_arith p * i) /\
  (forall u', u' <> user -> get1 q_arith (fst st') u' = get1 q_arith uc u') /\
  (forall i', i' <> item -> get1 q_arith (snd st') i' = get1 q_arith ic i').
Proof.
  intros u i pred err Lu Li st'. unfold st', col_sample. cbn [fst snd].
  rewrite !get1_set1_same by assumption. cbn [add sub mul q_arith].
  fold u i. split; [|split; [|split]].
  - unfold err, pred. cbn [add sub mul q_arith]. ring.
  - unfold err, pred. cbn [add sub mul q_arith]. ring.
  - intros u' N. apply get1_set1_other. congruence.
  - intros i' N. apply get1_set1_other. congruence.
Qed.

(* the trailing estimate is exactly the contribution of the features not trained yet, each still
   init * init *)
Theorem trail_is_untrained_Q (p : params q_arith) (nfeat f : nat) :
  init q_arith p * init q_arith p * of_nat q_arith (nfeat - f - 1)
  == Qsum (repeat (init q_arith p * init q_arith p) (nfeat - f - 1)).
Proof.
  cbn [of_nat q_arith]. induction (nfeat - f - 1)%nat as [|n IH]; cbn [repeat Qsum].
  - unfold Qofnat. cbn. ring.
  - rewrite <- IH, Qofnat_S. ring.
Qed.

(* clamping: the loop's clamp and numpy's min(max(.)) agree on a proper range *)
Theorem clamps_agree_Q (lo hi e : Q) : lo <= hi ->
  clamp_loop q_arith (Some (lo, hi)) e = clamp_np q_arith (Some (lo, hi)) e.
Proof.
  intro H. unfold clamp_loop, clamp_np. cbn [ltb q_arith].
  destruct (Qltb e lo) eqn:E1.
  - apply Qltb_lt in E1. destruct (Qltb hi lo) eqn:E2; [apply Qltb_lt in E2; lra|reflexivity].
  - reflexivity.
Qed.
