(* C06 -- facts about the reference model: weights, binary relevance as unit gains, the gain collected
   by a duplicate-free ranking is bounded by the top of the sorted gains. *)
From Coq Require Import ZArith QArith Qpower Qabs List Bool Lia Lqa Permutation Sorted Setoid Morphisms.
From LK Require Import Lib.QLib Lib.RankLib Model.C06_ranking.
Import ListNotations.
Open Scope Q_scope.

Lemma ranksum_wsum w a : ranksum w a == wsum w 1 a.
Proof. unfold ranksum. symmetry. apply wsum_bigsum. Qed.

(* ---- weights ---- *)
Lemma Qmaxq_ge_r a b : b <= Qmaxq a b.
Proof. unfold Qmaxq. destruct (Qle_bool a b) eqn:E; [lra|].
  destruct (Qlt_le_dec b a) as [L|L]; [lra|]. apply Qle_bool_iff in L. congruence. Qed.
Lemma Qmaxq_ge_l a b : a <= Qmaxq a b.
Proof. unfold Qmaxq. destruct (Qle_bool a b) eqn:E; [apply Qle_bool_iff in E; exact E|lra]. Qed.
Lemma Qmaxq_mono a a' b : a <= a' -> Qmaxq a b <= Qmaxq a' b.
Proof.
  intro L. unfold Qmaxq at 1. destruct (Qle_bool a b) eqn:E.
  - apply Qmaxq_ge_r.
  - eapply Qle_trans; [exact L|apply Qmaxq_ge_l].
Qed.

Definition disc_mono (disc : nat -> Q) : Prop := forall r, Qmaxq (disc r) 1 <= Qmaxq (disc (S r)) 1.

Lemma disc_mono_of_nondecreasing disc : (forall r, disc r <= disc (S r)) -> disc_mono disc.
Proof. intros H r. apply Qmaxq_mono, H. Qed.

Lemma dweight_pos disc r : 0 < dweight disc r.
Proof. unfold dweight. apply Qinv_lt_0_compat. pose proof (Qmaxq_ge_r (disc r) 1). lra. Qed.
Lemma dweight_nonneg disc r : 0 <= dweight disc r.
Proof. apply Qlt_le_weak, dweight_pos. Qed.
Lemma dweight_le_1 disc r : dweight disc r <= 1.
Proof.
  unfold dweight. pose proof (Qmaxq_ge_r (disc r) 1) as H.
  apply Qle_shift_inv_r; lra.
Qed.
Lemma dweight_noninc disc : disc_mono disc -> forall r, dweight disc (S r) <= dweight disc r.
Proof.
  intros M r. unfold dweight. specialize (M r).
  pose proof (Qmaxq_ge_r (disc r) 1). pose proof (Qmaxq_ge_r (disc (S r)) 1).
  set (a := Qmaxq (disc r) 1) in *. set (b := Qmaxq (disc (S r)) 1) in *.
  apply Qle_shift_inv_r; [lra|].
  assert (E : / a * b == b / a) by (unfold Qdiv; ring). rewrite E.
  apply Qle_shift_div_l; lra.
Qed.

Lemma pw_nonneg g r : 0 <= g -> 0 <= pw g r.
Proof. intro H. unfold pw. apply Qpower_0_le. exact H. Qed.
Lemma pw_noninc g : 0 <= g -> g <= 1 -> forall r, pw g (S r) <= pw g r.
Proof.
  intros H0 H1 r. unfold pw. destruct r as [|r].
  - cbn. lra.
  - replace (S (S r) - 1)%nat with (S r) by lia. replace (S r - 1)%nat with r by lia.
    rewrite Nat2Z.inj_succ. unfold Z.succ.
    destruct (Qeq_dec g 0) as [Z0|NZ].
    + rewrite Z0. destruct r as [|r].
      * cbn. lra.
      * rewrite !Qpower_0 by lia. lra.
    + rewrite Qpower_plus by exact NZ.
      pose proof (Qpower_0_le g (Z.of_nat r) H0) as P.
      setoid_replace (g ^ 1) with g by reflexivity.
      pose proof (Qmult_le_compat_r g 1 (g ^ Z.of_nat r) H1 P). lra.
Qed.
Lemma pw_1 g : pw g 1 == 1.
Proof. reflexivity. Qed.

(* ---- binary relevance = unit gains ---- *)
Definition ones (t : tlist) : tlist :=
  {| tl_items := map (fun i => (i, 1)) (tl_ids t); tl_has_gain := true |}.

Lemma tl_ids_ones t : tl_ids (ones t) = tl_ids t.
Proof. unfold tl_ids, ones. cbn. rewrite map_map. cbn. apply map_id. Qed.
Lemma tl_len_ones t : tl_len (ones t) = tl_len t.
Proof. unfold tl_len, ones. cbn. rewrite map_length. unfold tl_ids. apply map_length. Qed.
Lemma gains_ones t : map snd (tl_items (ones t)) = repeat 1 (tl_len t).
Proof.
  unfold ones, tl_len, tl_ids. cbn. rewrite !map_map. cbn.
  induction (tl_items t) as [|e l IH]; cbn; [reflexivity|]. rewrite IH. reflexivity.
Qed.
Lemma relq_gain t i : relq t i = gain_of (tl_items (ones t)) i 0.
Proof.
  unfold relq, rel, mem, ones. cbn. induction (tl_ids t) as [|j l IH]; cbn; [reflexivity|].
  destruct (Z.eqb i j); cbn; [reflexivity|exact IH].
Qed.
Lemma scores_binary_graded t L : scores_binary t L = scores_graded (ones t) L.
Proof. unfold scores_binary, scores_graded. apply map_ext. intro i. apply relq_gain. Qed.

Lemma ones_nonneg t : forall e, In e (tl_items (ones t)) -> 0 <= snd e.
Proof. unfold ones. cbn. intros e H. apply in_map_iff in H. destruct H as (i & <- & _). cbn. lra. Qed.

Lemma rel_In t i : rel t i = true <-> In i (tl_ids t).
Proof.
  unfold rel, mem. rewrite existsb_exists. split.
  - intros (j & Hj & E). apply Z.eqb_eq in E. subst. exact Hj.
  - intro H. exists i. split; [exact H|apply Z.eqb_refl].
Qed.

(* ---- counting relevant items ---- *)
Lemma ngood_Qsum t L : Qofnat (ngood t L) == Qsum (map (relq t) L).
Proof.
  unfold ngood, relq. induction L as [|i L IH]; [reflexivity|].
  cbn [filter map Qsum]. destruct (rel t i); cbn [length b2q].
  - rewrite Qofnat_S, IH. reflexivity.
  - rewrite IH. ring.
Qed.

Lemma ngood_le_length t L : (ngood t L <= length L)%nat.
Proof.
  unfold ngood. induction L as [|i L IH]; cbn; [lia|]. destruct (rel t i); cbn; lia.
Qed.

Lemma ngood_le_test t L : NoDup L -> (ngood t L <= tl_len t)%nat.
Proof.
  intro ND. unfold ngood, tl_len. rewrite <- (map_length fst (tl_items t)). fold (tl_ids t).
  apply NoDup_incl_length; [apply NoDup_filter, ND|].
  intros i Hi. apply filter_In in Hi. apply rel_In, Hi.
Qed.

Lemma ngood_set t L : NoDup L ->
  forall X, NoDup X -> (forall i, In i X <-> In i L /\ In i (tl_ids t)) -> length X = ngood t L.
Proof.
  intros ND X NX H. unfold ngood. apply Nat.le_antisymm.
  - apply NoDup_incl_length; [exact NX|]. intros i Hi. apply filter_In. apply H in Hi.
    split; [apply Hi|apply rel_In, Hi].
  - apply NoDup_incl_length; [apply NoDup_filter, ND|]. intros i Hi. apply filter_In in Hi.
    apply H. split; [apply Hi|apply rel_In, Hi].
Qed.

Lemma existsb_rel_pos t L : existsb (rel t) L = true <-> 0 < Qsum (map (relq t) L).
Proof.
  unfold relq. induction L as [|i L IH]; cbn.
  - split; [discriminate|lra].
  - assert (N : 0 <= Qsum (map (fun i => b2q (rel t i)) L)).
    { apply Qsum_nonneg. intros x Hx. apply in_map_iff in Hx. destruct Hx as (j & <- & _). destruct (rel t j); cbn; lra. }
    destruct (rel t i); cbn.
    + split; [intros _; lra|reflexivity].
    + rewrite IH. split; intro; lra.
Qed.

(* ---- the gain a duplicate-free ranking can collect ---- *)
Lemma gain_of_skip s i j g : i <> j -> gain_of ((j, g) :: s) i 0 = gain_of s i 0.
Proof. intro N. cbn. destruct (Z.eqb_spec i j); [contradiction|reflexivity]. Qed.

Lemma gain_sum_bound : forall (s : gseries) (L : list Z),
  NoDup L -> (forall e, In e s -> 0 <= snd e) ->
  Qsum (map (fun i => gain_of s i 0) L) <= Qsum (firstn (length L) (sort_desc (map snd s))).
Proof.
  induction s as [|[j g] s IH]; intros L ND NN.
  - cbn. rewrite firstn_nil. cbn. rewrite Qsum_map_zero; [lra|reflexivity].
  - assert (Hg : 0 <= g) by (apply (NN (j, g)); left; reflexivity).
    assert (NN' : forall e, In e s -> 0 <= snd e) by (intros e He; apply NN; right; exact He).
    assert (NNs : forall x, In x (map snd s) -> 0 <= x).
    { intros x Hx. apply in_map_iff in Hx. destruct Hx as (e & <- & He). apply NN', He. }
    cbn [map snd].
    destruct (in_dec Z.eq_dec j L) as [Hin|Hnot].
    + apply in_split in Hin. destruct Hin as (L1 & L2 & ->).
      pose proof (NoDup_remove_1 _ _ _ ND) as ND'. pose proof (NoDup_remove_2 _ _ _ ND) as Nj.
      specialize (IH (L1 ++ L2) ND' NN').
      assert (E : Qsum (map (fun i => gain_of ((j, g) :: s) i 0) (L1 ++ j :: L2))
                  == g + Qsum (map (fun i => gain_of s i 0) (L1 ++ L2))).
      { rewrite !map_app, !Qsum_app. cbn [map Qsum].
        rewrite (Qsum_map_ext (fun i => gain_of ((j, g) :: s) i 0) (fun i => gain_of s i 0) L1).
        2:{ intros x Hx. rewrite gain_of_skip; [reflexivity|]. intro; subst. apply Nj, in_or_app. left. exact Hx. }
        rewrite (Qsum_map_ext (fun i => gain_of ((j, g) :: s) i 0) (fun i => gain_of s i 0) L2).
        2:{ intros x Hx. rewrite gain_of_skip; [reflexivity|]. intro; subst. apply Nj, in_or_app. right. exact Hx. }
        cbn [gain_of fst snd]. rewrite Z.eqb_refl. ring. }
      rewrite E.
      assert (Len : length (L1 ++ j :: L2) = S (length (L1 ++ L2))) by (rewrite !app_length; cbn; lia).
      rewrite Len.
      eapply Qle_trans; [|apply (topsum_insert_take g (map snd s) _ Hg NNs)]. lra.
    + specialize (IH L ND NN').
      rewrite (Qsum_map_ext (fun i => gain_of ((j, g) :: s) i 0) (fun i => gain_of s i 0) L).
      2:{ intros x Hx. rewrite gain_of_skip; [reflexivity|]. intro; subst. contradiction. }
      eapply Qle_trans; [exact IH|]. apply (topsum_insert_skip g (map snd s) _ Hg NNs).
Qed.

Lemma NoDup_firstn {A} n (l : list A) : NoDup l -> NoDup (firstn n l).
Proof.
  revert l. induction n as [|n IH]; intros l ND; [constructor|].
  destruct l as [|x l]; [constructor|]. cbn. inversion ND as [|? ? Hx Hl]; subst.
  constructor; [|apply IH, Hl]. intro H. apply Hx. eapply In_firstn; eauto.
Qed.

Lemma scores_pdom t L n :
  NoDup L -> (forall e, In e (tl_items t) -> 0 <= snd e) -> (length L <= n)%nat ->
  pdom (scores_graded t L) (firstn n (sort_desc (map snd (tl_items t)))).
Proof.
  intros ND NN Len j. unfold scores_graded.
  rewrite firstn_map, firstn_firstn.
  eapply Qle_trans; [apply gain_sum_bound; [apply NoDup_firstn, ND|exact NN]|].
  apply topsum_mono.
  - intros x Hx. apply (proj1 (In_sort_desc _ _)) in Hx. apply in_map_iff in Hx. destruct Hx as (e & <- & He). apply NN, He.
  - rewrite firstn_length. lia.
Qed.

Lemma sorted_gains_nonneg t : (forall e, In e (tl_items t) -> 0 <= snd e) ->
  forall x, In x (sort_desc (map snd (tl_items t))) -> 0 <= x.
Proof.
  intros NN x Hx. apply (proj1 (In_sort_desc _ _)) in Hx. apply in_map_iff in Hx. destruct Hx as (e & <- & He). apply NN, He.
Qed.

Lemma scores_graded_nonneg t L : (forall e, In e (tl_items t) -> 0 <= snd e) ->
  forall x, In x (scores_graded t L) -> 0 <= x.
Proof.
  intros NN x Hx. unfold scores_graded in Hx. apply in_map_iff in Hx. destruct Hx as (i & <- & _).
  induction (tl_items t) as [|e s IH]; cbn; [lra|].
  destruct (Z.eqb i (fst e)); [apply NN; left; reflexivity|]. apply IH. intros e' He'. apply NN. right. exact He'.
Qed.

(* weighted gain of a duplicate-free ranking of at most n items <= weighted top-n gains *)
Lemma weighted_gain_bound (w : nat -> Q) t L n :
  (forall r, 0 <= w r) -> (forall r, w (S r) <= w r) ->
  NoDup L -> (forall e, In e (tl_items t) -> 0 <= snd e) -> (length L <= n)%nat ->
  wsum w 1 (scores_graded t L) <= wsum w 1 (firstn n (sort_desc (map snd (tl_items t)))).
Proof.
  intros W0 W1 ND NN Len. apply wsum_pdom; try assumption.
  - intros x Hx. apply In_firstn in Hx. eapply sorted_gains_nonneg; eauto.
  - apply scores_pdom; assumption.
Qed.

Lemma topk_length_le n l : (length (topk (Some n) l) <= n)%nat.
Proof. cbn. rewrite firstn_length. lia. Qed.
Lemma topk_NoDup k l : NoDup l -> NoDup (topk k l).
Proof. destruct k; cbn; [apply NoDup_firstn|auto]. Qed.

(* ---- a tabulated discount whose clamped values never decrease ---- *)
Lemma adj_le_nth tbl : adj_le tbl = true ->
  forall i, Qmaxq (nth i tbl (last tbl 1)) 1 <= Qmaxq (nth (S i) tbl (last tbl 1)) 1.
Proof.
  induction tbl as [|a tbl IH]; intros H i.
  - destruct i; cbn; lra.
  - destruct tbl as [|b tbl].
    + destruct i as [|[|i]]; cbn; lra.
    + cbn [adj_le] in H. apply andb_true_iff in H. destruct H as [H1 H2].
      change (last (a :: b :: tbl) 1) with (last (b :: tbl) 1).
      destruct i as [|i]; [cbn [nth]; apply Qle_bool_iff, H1|].
      cbn [nth]. apply (IH H2 i).
Qed.

Lemma tbl_disc_ext_mono tbl : adj_le tbl = true -> disc_mono (tbl_disc_ext tbl).
Proof.
  intros H r. unfold tbl_disc_ext. destruct r as [|r].
  - cbn [Nat.sub]. lra.
  - replace (S r - 1)%nat with r by lia. replace (S (S r) - 1)%nat with (S r) by lia.
    apply adj_le_nth, H.
Qed.

(* ---- explicit rank columns: the cutoff is positional ---- *)
Lemma first_k_ignores_rank_column_l : forall k (l : list (Z * Z)),
  topk k (rl_ids l) = rl_ids (rl_first k l).
Proof.
  intros [n|] l; unfold topk, rl_ids, rl_first; cbn; [|reflexivity].
  apply firstn_map.
Qed.

Lemma rank_cut_implicit_from : forall ids r n,
  (1 <= r)%Z ->
  rank_cut n (implicit_from r ids) = firstn (Z.to_nat (Z.of_nat n + 1 - r)) ids.
Proof.
  induction ids as [|x tl IH]; intros r n Hr.
  - cbn. now rewrite firstn_nil.
  - unfold rank_cut in *. cbn [implicit_from filter fst].
    destruct (Z.leb_spec r (Z.of_nat n)).
    + cbn [map snd]. rewrite IH by lia.
      replace (Z.to_nat (Z.of_nat n + 1 - r)) with (S (Z.to_nat (Z.of_nat n + 1 - (r + 1)))) by lia.
      reflexivity.
    + replace (Z.to_nat (Z.of_nat n + 1 - r)) with 0%nat by lia. cbn [firstn].
      specialize (IH (r + 1)%Z n ltac:(lia)).
      replace (Z.to_nat (Z.of_nat n + 1 - (r + 1))) with 0%nat in IH by lia. exact IH.
Qed.

Lemma first_k_is_positional_l :
  (forall k l, topk k (rl_ids l) = rl_ids (rl_first k l)) /\
  (forall n ids, rank_cut n (implicit_from 1 ids) = topk (Some n) ids) /\
  (let l := [(1, 11); (2, 12); (5, 13); (7, 14); (9, 15)]%Z in
   rank_cut 4 l = [11; 12]%Z /\ topk (Some 4%nat) (rl_ids l) = [11; 12; 13; 14]%Z).
Proof.
  split; [exact first_k_ignores_rank_column_l|]. split.
  - intros n ids. rewrite rank_cut_implicit_from by lia.
    replace (Z.to_nat (Z.of_nat n + 1 - 1)) with n by lia. reflexivity.
  - split; reflexivity.
Qed.
