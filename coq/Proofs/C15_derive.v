(* C15 (b) -- derived lists: (1) whatever a list has computed lazily is invisible to every list
   derived from it and to every codec; (2) derivation keeps the constructor's invariants, so the
   round-trip theorems hold of derived lists. *)
From Coq Require Import ZArith List Bool Arith String Ascii Lia.
From LK Require Import Model.C15_codec Model.C15_derive Proofs.C15_codec Proofs.C15_arrow Proofs.C15_coll.
Import ListNotations.
Open Scope string_scope.
Open Scope list_scope.

(* ---- two objects that differ only in what they have cached ---------------------------------- *)

Definition eff_ranks (il : ilist) : list Z :=
  match il_ranks il with Some r => r | None => iota1 (il_len il) end.

Record cache_equiv (a b : ilist) : Prop := {
  ce_len : il_len a = il_len b;
  ce_idty : il_idty a = il_idty b;
  ce_vocab : il_vocab a = il_vocab b;
  ce_ids : v_ids a = v_ids b;
  ce_nums : v_nums a = v_nums b;
  ce_ord : il_ordered a = il_ordered b;
  ce_ranks : eff_ranks a = eff_ranks b;
  ce_fields : il_fields a = il_fields b
}.

Lemma ce_refl a : cache_equiv a a.
Proof. constructor; reflexivity. Qed.
Lemma ce_sym a b : cache_equiv a b -> cache_equiv b a.
Proof. intros [? ? ? ? ? ? ? ?]. constructor; symmetry; assumption. Qed.
Lemma ce_trans a b c : cache_equiv a b -> cache_equiv b c -> cache_equiv a c.
Proof. intros [? ? ? ? ? ? ? ?] [? ? ? ? ? ? ? ?]. constructor; etransitivity; eassumption. Qed.

Definition opt_rel {A} (R : A -> A -> Prop) (x y : option A) : Prop :=
  match x, y with Some a, Some b => R a b | None, None => True | _, _ => False end.

Lemma v_ranks_eff il : v_ranks il = if il_ordered il then Some (eff_ranks il) else None.
Proof. reflexivity. Qed.

Lemma ce_has_ids a b : cache_equiv a b -> has_ids a = has_ids b.
Proof.
  intros [_ _ V I _ _ _ _]. unfold has_ids, v_ids in *. rewrite <- V in *.
  destruct (il_vocab a); [destruct (il_ids a), (il_ids b); reflexivity|].
  destruct (il_ids a), (il_ids b); cbn in I; try reflexivity; discriminate.
Qed.
Lemma ce_has_nums a b : cache_equiv a b -> has_nums a = has_nums b.
Proof.
  intros [_ _ V _ N _ _ _]. unfold has_nums, v_nums in *. rewrite <- V in *.
  destruct (il_vocab a); [destruct (il_nums a), (il_nums b); reflexivity|].
  destruct (il_nums a), (il_nums b); cbn in N; try reflexivity; discriminate.
Qed.
Lemma ce_v_ranks a b : cache_equiv a b -> v_ranks a = v_ranks b.
Proof. intros [_ _ _ _ _ O R _]. rewrite !v_ranks_eff, O, R. reflexivity. Qed.
Lemma ce_nums_strict a b : cache_equiv a b -> nums_strict a = nums_strict b.
Proof. intros [_ _ _ _ N _ _ _]. unfold nums_strict. rewrite N. reflexivity. Qed.

(* ---- (1a) the codecs read nothing but what cache_equiv keeps -------------------------------- *)

Lemma lZeqb_refl l : lZeqb l l = true.
Proof. apply lZeqb_eq. reflexivity. Qed.

Lemma getstate_ranks il :
  (if il_ordered il then
     match il_ranks il with
     | Some r => if lZeqb r (iota1 (il_len il)) then [] else [("ranks", SList r)]
     | None => []
     end else []) =
  (if il_ordered il then
     if lZeqb (eff_ranks il) (iota1 (il_len il)) then @nil (string * sval) else [("ranks", SList (eff_ranks il))]
   else []).
Proof.
  unfold eff_ranks. destruct (il_ordered il); [|reflexivity].
  destruct (il_ranks il); [reflexivity|]. rewrite lZeqb_refl. reflexivity.
Qed.

Lemma ce_getstate a b : cache_equiv a b -> getstate a = getstate b.
Proof.
  intro E. unfold getstate. rewrite !getstate_ranks.
  destruct E as [L T V I N O R F]. rewrite L, T, I, N, O, R, F. reflexivity.
Qed.

Lemma ce_observe a b : cache_equiv a b -> observe a = observe b.
Proof.
  intro E. unfold observe. rewrite (ce_v_ranks a b E).
  destruct E as [L T V I N O R F]. rewrite L, I, N, O, F. reflexivity.
Qed.

Lemma ce_to_df a b : cache_equiv a b -> to_df a = to_df b.
Proof.
  intro E. unfold to_df.
  rewrite (ce_has_ids a b E), (ce_has_nums a b E), (ce_nums_strict a b E), (ce_v_ranks a b E).
  destruct E as [L T V I N O R F]. rewrite T, I, F. reflexivity.
Qed.

Lemma ce_arrow_types a b ids numbers : cache_equiv a b -> arrow_types a ids numbers = arrow_types b ids numbers.
Proof.
  intro E. unfold arrow_types. rewrite (ce_has_ids a b E), (ce_has_nums a b E).
  destruct E as [L T V I N O R F]. rewrite L, T, O, F. reflexivity.
Qed.

Lemma ce_arrow_col a b nt : cache_equiv a b -> arrow_col a nt = arrow_col b nt.
Proof.
  intro E. unfold arrow_col. destruct nt as [name ty].
  rewrite (ce_nums_strict a b E), (ce_v_ranks a b E).
  destruct E as [L T V I N O R F]. rewrite L, T, I, F. reflexivity.
Qed.

Lemma ce_to_arrow_cols a b cols : cache_equiv a b -> to_arrow_cols a cols = to_arrow_cols b cols.
Proof.
  intro E. unfold to_arrow_cols. rewrite (ce_len a b E).
  replace (map (arrow_col a) cols) with (map (arrow_col b) cols); [reflexivity|].
  apply map_ext. intro nt. symmetry. apply ce_arrow_col, E.
Qed.

Lemma codecs_see_no_caches_l : forall a b, cache_equiv a b ->
  observe a = observe b /\ pickle_rt a = pickle_rt b /\ df_rt a = df_rt b /\
  (forall ids numbers, arrow_types a ids numbers = arrow_types b ids numbers) /\
  (forall cols, to_arrow_cols a cols = to_arrow_cols b cols) /\
  (forall ids numbers, arrow_rt a ids numbers = arrow_rt b ids numbers).
Proof.
  intros a b E. split; [apply ce_observe, E|].
  split; [unfold pickle_rt; rewrite (ce_getstate a b E); reflexivity|].
  split; [unfold df_rt; rewrite (ce_to_df a b E); reflexivity|].
  split; [intros; apply ce_arrow_types, E|].
  split; [intros; apply ce_to_arrow_cols, E|].
  intros ids numbers. unfold arrow_rt, to_arrow.
  rewrite (ce_arrow_types a b ids numbers E), (ce_to_arrow_cols a b _ E). reflexivity.
Qed.

(* collections: a list enters only through arrow_types (add) and to_arrow_cols (save) *)
Definition items_equiv (xs ys : list (list Z * ilist)) : Prop :=
  Forall2 (fun x y => fst x = fst y /\ cache_equiv (snd x) (snd y)) xs ys.

Lemma chunked_map {A B} (f : A -> B) n : forall fuel l, chunked fuel n (map f l) = map (map f) (chunked fuel n l).
Proof.
  induction fuel as [|fuel IH]; intro l; destruct l as [|x l]; try reflexivity.
  change (map f (x :: l)) with (f x :: map f l).
  cbn [chunked]. change (f x :: map f l) with (map f (x :: l)).
  rewrite firstn_map, skipn_map, IH. reflexivity.
Qed.

Lemma rows_equiv cols xs ys : items_equiv xs ys -> map (row_of cols) xs = map (row_of cols) ys.
Proof.
  induction 1 as [|[k a] [j b] xs ys [K E] _ IH]; [reflexivity|].
  cbn [fst snd] in *. subst j. cbn [map]. rewrite IH. f_equal.
  unfold row_of. cbn [fst snd]. rewrite (ce_to_arrow_cols a b cols E). reflexivity.
Qed.

Lemma add_all_equiv xs ys : items_equiv xs ys -> forall c c',
  k_fields c = k_fields c' -> c_schema c = c_schema c' -> items_equiv (c_lists c) (c_lists c') ->
  match add_all c xs, add_all c' ys with
  | Some d, Some d' => k_fields d = k_fields d' /\ c_schema d = c_schema d' /\ items_equiv (c_lists d) (c_lists d')
  | None, None => True
  | _, _ => False
  end.
Proof.
  induction 1 as [|[k a] [j b] xs ys [K E] _ IH]; intros c c' HK HS HL.
  - cbn. auto.
  - cbn [fst snd] in *. subst j. cbn [add_all]. unfold add. rewrite <- HK, <- HS, (ce_arrow_types a b true false E).
    destruct (negb (Nat.eqb (List.length k) (List.length (k_fields c)))); [exact I|].
    destruct (merge_types (c_schema c) (arrow_types b true false)) as [sch|]; [|exact I].
    apply IH; cbn [k_fields c_schema c_lists]; [reflexivity|reflexivity|].
    apply Forall2_app; [exact HL|]. constructor; [|constructor]. split; [reflexivity|exact E].
Qed.

Lemma Forall2_len {A B} (R : A -> B -> Prop) xs ys : Forall2 R xs ys -> List.length xs = List.length ys.
Proof. induction 1; cbn; congruence. Qed.

Lemma save_equiv batch c c' :
  k_fields c = k_fields c' -> c_schema c = c_schema c' -> items_equiv (c_lists c) (c_lists c') ->
  save_parquet batch c = save_parquet batch c'.
Proof.
  intros HK HS HL. unfold save_parquet.
  replace (save_columns c') with (save_columns c) by (unfold save_columns; rewrite HS; reflexivity).
  rewrite <- HK. set (cols := save_columns c).
  pose proof (Forall2_len _ _ _ HL) as Len.
  destruct (c_lists c) as [|x xs] eqn:Ex; destruct (c_lists c') as [|y ys] eqn:Ey; try discriminate; [reflexivity|].
  rewrite <- Ex, <- Ey in *. clear Ex Ey.
  assert (M : forall ls, map (fun ch => sequence (map (row_of cols) ch)) (chunked (List.length ls) batch ls)
                         = map (@sequence _) (chunked (List.length ls) batch (map (row_of cols) ls))).
  { intro ls. rewrite chunked_map, map_map. reflexivity. }
  rewrite !M, (rows_equiv cols _ _ HL), Len. reflexivity.
Qed.

Lemma coll_sees_no_caches_l : forall batch kf xs ys, items_equiv xs ys -> coll_rt batch kf xs = coll_rt batch kf ys.
Proof.
  intros batch kf xs ys E. unfold coll_rt.
  pose proof (add_all_equiv xs ys E (empty_coll kf) (empty_coll kf) eq_refl eq_refl (Forall2_nil _)) as H.
  destruct (add_all (empty_coll kf) xs) as [d|], (add_all (empty_coll kf) ys) as [d'|]; try contradiction; [|reflexivity].
  destruct H as [HK [HS HL]]. rewrite (save_equiv batch d d' HK HS HL). reflexivity.
Qed.

(* ---- (1b) using a list changes nothing that can be seen ------------------------------------- *)

Lemma warm_equiv w il : cache_equiv (warm_il w il) il.
Proof.
  destruct w; unfold warm_il.
  - constructor; cbn; try reflexivity.
    + unfold v_ids. cbn [il_ids il_vocab il_nums]. fold (v_ids il).
      unfold v_ids. destruct (il_ids il); [reflexivity|]. destruct (il_vocab il), (il_nums il); reflexivity.
    + unfold v_nums, v_ids. cbn [il_ids il_vocab il_nums].
      destruct (il_nums il); [reflexivity|]. destruct (il_vocab il); [|reflexivity].
      destruct (il_ids il); reflexivity.
  - constructor; cbn; try reflexivity.
    + unfold v_ids, v_nums. cbn [il_ids il_vocab il_nums].
      destruct (il_ids il); [reflexivity|]. destruct (il_vocab il); [|reflexivity].
      destruct (il_nums il); reflexivity.
    + unfold v_nums. cbn [il_ids il_vocab il_nums]. fold (v_nums il).
      unfold v_nums. destruct (il_nums il); [reflexivity|]. destruct (il_vocab il), (il_ids il); reflexivity.
  - destruct (il_ordered il) eqn:O; [|apply ce_refl].
    constructor; try reflexivity; try (cbn; rewrite O; reflexivity).
    unfold eff_ranks, v_ranks. cbn [il_ranks il_len il_ordered]. rewrite O. unfold eff_ranks. reflexivity.
Qed.

(* ---- (1c) derivation respects the equivalence ------------------------------------------------ *)

Lemma vocab_none_ids il : il_vocab il = None -> v_ids il = il_ids il.
Proof. intro V. unfold v_ids. rewrite V. destruct (il_ids il); reflexivity. Qed.
Lemma vocab_none_nums il : il_vocab il = None -> v_nums il = il_nums il.
Proof. intro V. unfold v_nums. rewrite V. destruct (il_nums il); reflexivity. Qed.

Lemma v_ids_mk len t ids nums vocab o r f :
  v_ids (mkIL len t ids nums vocab o r f) =
  match ids with Some i => Some i | None => match vocab, nums with Some v, Some n => Some (map (vterm v) n) | _, _ => None end end.
Proof. reflexivity. Qed.
Lemma v_nums_mk len t ids nums vocab o r f :
  v_nums (mkIL len t ids nums vocab o r f) =
  match nums with Some n => Some n | None => match vocab, ids with Some v, Some i => Some (map (vnumber v) i) | _, _ => None end end.
Proof. reflexivity. Qed.

Lemma derive_equiv a b ov : cache_equiv a b -> opt_rel cache_equiv (derive a ov) (derive b ov).
Proof.
  intro E. pose proof E as [L T V I N O R F].
  unfold derive. rewrite <- L, <- T, <- O, <- F.
  (* the rank part *)
  set (len := match ov_ids ov with Some i => List.length i | None => il_len a end).
  set (ord0 := match ov_ordered ov with Some b0 => b0 | None => il_ordered a end).
  set (eff := funion (as_fov (il_fields a)) (ov_fields ov)).
  set (score := match ov_scores ov with
                | Some FDrop => Some None
                | Some (FSet c) => Some (Some c)
                | None => match alookup "score" eff with
                          | Some (FSet c) => Some (Some c)
                          | Some FDrop => None
                          | None => Some None
                          end
                end).
  set (ra := if Nat.eqb len (il_len a) then il_ranks a else None).
  set (rb := if Nat.eqb len (il_len a) then il_ranks b else None).
  assert (RR : match ra with Some r => r | None => iota1 len end = match rb with Some r => r | None => iota1 len end).
  { subst ra rb. destruct (Nat.eqb len (il_len a)) eqn:El; [|reflexivity].
    apply Nat.eqb_eq in El. rewrite El. unfold eff_ranks in R. rewrite <- L in R. exact R. }
  set (rka := match ov_rank ov with
              | None => Some (ord0, ra)
              | Some r => match ov_ordered ov with
                          | Some false => Some (ord0, ra)
                          | _ => if Nat.eqb (List.length r) len then Some (true, Some r) else None
                          end
              end).
  set (rkb := match ov_rank ov with
              | None => Some (ord0, rb)
              | Some r => match ov_ordered ov with
                          | Some false => Some (ord0, rb)
                          | _ => if Nat.eqb (List.length r) len then Some (true, Some r) else None
                          end
              end).
  assert (RK : match rka, rkb with
               | Some (oa, xa), Some (ob, xb) =>
                   oa = ob /\ match xa with Some r => r | None => iota1 len end = match xb with Some r => r | None => iota1 len end
               | None, None => True
               | _, _ => False
               end).
  { subst rka rkb. destruct (ov_rank ov) as [r|]; [|split; [reflexivity|exact RR]].
    destruct (ov_ordered ov) as [[|]|]; try (split; [reflexivity|exact RR]);
      destruct (Nat.eqb (List.length r) len); try exact Logic.I; split; reflexivity. }
  destruct rka as [[oa xa]|], rkb as [[ob xb]|]; try contradiction; [|exact Logic.I].
  destruct RK as [Eo Ex]. subst ob.
  destruct score as [sc|]; [|exact Logic.I].
  destruct (mk_fields len sc eff) as [fs|]; [|exact Logic.I].
  cbn [opt_rel].
  (* the identifier part *)
  assert (Vb : il_vocab b = il_vocab a) by (symmetry; exact V).
  constructor; cbn [il_len il_idty il_vocab il_ordered il_fields]; try reflexivity.
  - rewrite V. reflexivity.
  - rewrite !v_ids_mk.
    destruct (ov_ids ov) as [i|]; [rewrite ?Vb; reflexivity|].
    destruct (ov_vocab ov) as [v|]; [|exact I].
    destruct (il_vocab a) as [v0|] eqn:Va; rewrite Vb.
    + rewrite I. destruct (v_ids b); reflexivity.
    + rewrite <- (vocab_none_ids a Va), <- (vocab_none_nums a Va).
      rewrite <- (vocab_none_ids b Vb), <- (vocab_none_nums b Vb), I, N. reflexivity.
  - rewrite !v_nums_mk.
    destruct (ov_ids ov) as [i|]; [rewrite ?Vb; reflexivity|].
    destruct (ov_vocab ov) as [v|]; [|exact N].
    destruct (il_vocab a) as [v0|] eqn:Va; rewrite Vb.
    + rewrite I. reflexivity.
    + rewrite <- (vocab_none_ids a Va), <- (vocab_none_nums a Va).
      rewrite <- (vocab_none_ids b Vb), <- (vocab_none_nums b Vb), I, N. reflexivity.
  - unfold eff_ranks. cbn [il_ranks il_len]. exact Ex.
Qed.

Lemma select_map (f : Z -> Z) idx l : select idx (map f l) = map f (select idx l).
Proof.
  unfold select. induction idx as [|i idx IH]; [reflexivity|].
  cbn [flat_map]. rewrite map_app, IH, nth_error_map. destruct (nth_error l i); reflexivity.
Qed.

Definition gi (src : ilist) (idx : list nat) : ilist :=
  {| il_len := List.length idx;
     il_idty := if Nat.eqb (List.length idx) 0 then ID32 else il_idty src;
     il_ids := option_map (select idx) (il_ids src);
     il_nums := option_map (select idx) (il_nums src);
     il_vocab := il_vocab src;
     il_ordered := il_ordered src;
     il_ranks := None;
     il_fields := norm_fields (map (fun kc => (fst kc, select_col idx (snd kc))) (il_fields src)) |}.

Lemma getitem_gi src idx :
  getitem src idx = if negb (forallb (fun i => Nat.ltb i (il_len src)) idx) then None else Some (gi src idx).
Proof. reflexivity. Qed.

Lemma gi_v_ids src idx : v_ids (gi src idx) = option_map (select idx) (v_ids src).
Proof.
  unfold v_ids, gi. cbn [il_ids il_nums il_vocab].
  destruct (il_ids src); [reflexivity|]. cbn [option_map].
  destruct (il_vocab src); [|reflexivity]. destruct (il_nums src); [|reflexivity].
  cbn [option_map]. rewrite select_map. reflexivity.
Qed.
Lemma gi_v_nums src idx : v_nums (gi src idx) = option_map (select idx) (v_nums src).
Proof.
  unfold v_nums, gi. cbn [il_ids il_nums il_vocab].
  destruct (il_nums src); [reflexivity|]. cbn [option_map].
  destruct (il_vocab src); [|reflexivity]. destruct (il_ids src); [|reflexivity].
  cbn [option_map]. rewrite select_map. reflexivity.
Qed.

Lemma getitem_equiv a b idx : cache_equiv a b -> opt_rel cache_equiv (getitem a idx) (getitem b idx).
Proof.
  intro E. pose proof E as [L T V I N O R F]. rewrite !getitem_gi, <- L.
  destruct (negb (forallb (fun i => Nat.ltb i (il_len a)) idx)); [exact Logic.I|]. cbn [opt_rel].
  constructor; try (rewrite !gi_v_ids, I; reflexivity); try (rewrite !gi_v_nums, N; reflexivity);
    unfold gi; cbn [il_len il_idty il_vocab il_ordered il_fields il_ranks]; try assumption; try reflexivity.
  - rewrite T. reflexivity.
  - rewrite F. reflexivity.
Qed.

Lemma clone_equiv a b : cache_equiv a b -> cache_equiv (clone a) (clone b).
Proof.
  intros [L T V I N O R F]. unfold clone.
  constructor; cbn [il_len il_idty il_vocab il_ordered il_fields il_ranks]; try assumption.
  - unfold eff_ranks. cbn [il_ranks il_len]. rewrite L. reflexivity.
  - rewrite F. reflexivity.
Qed.

(* a history with and without the uses of the intermediate lists *)
Lemma chain_equiv : forall ss a b, cache_equiv a b -> opt_rel cache_equiv (chain_run a ss) (chain_run b (cold ss)).
Proof.
  induction ss as [|s ss IH]; intros a b E; [exact E|].
  destruct s as [w|ov|idx|]; cbn [chain_run cold filter is_warm negb].
  - apply IH. apply (ce_trans _ a); [apply warm_equiv|exact E].
  - pose proof (derive_equiv a b ov E) as D.
    destruct (derive a ov) as [a'|], (derive b ov) as [b'|]; try contradiction; [apply IH, D|exact Logic.I].
  - pose proof (getitem_equiv a b idx E) as D.
    destruct (getitem a idx) as [a'|], (getitem b idx) as [b'|]; try contradiction; [apply IH, D|exact Logic.I].
  - apply IH, clone_equiv, E.
Qed.

Lemma caches_do_not_leak_l : forall il ss, opt_rel cache_equiv (chain_run il ss) (chain_run il (cold ss)).
Proof. intros il ss. apply chain_equiv, ce_refl. Qed.

(* ---- (2) derivation keeps the constructor's invariants ---------------------------------------- *)

Lemma warm_wf w il : wf_il il -> wf_il (warm_il w il).
Proof.
  intro W. destruct w; unfold warm_il.
  - constructor; cbn [il_len il_ids il_nums il_ranks il_fields il_vocab il_ordered];
      try apply W.
    + intros i H. apply (v_ids_length il i W H).
    + destruct (wf_some il W) as [H|H]; [left|right; exact H].
      unfold v_ids. destruct (il_ids il); [discriminate|contradiction].
  - constructor; cbn [il_len il_ids il_nums il_ranks il_fields il_vocab il_ordered];
      try apply W.
    + intros n H. apply (v_nums_length il n W H).
    + destruct (wf_some il W) as [H|H]; [left; exact H|right].
      unfold v_nums. destruct (il_nums il); [discriminate|contradiction].
  - destruct (il_ordered il) eqn:O; [|exact W].
    constructor; cbn [il_len il_ids il_nums il_ranks il_fields il_vocab il_ordered]; try apply W.
    intros r H. apply (v_ranks_length il r W H).
Qed.

(* keys of a dict union *)
Lemma fupdate_keys l k v : In k (map fst l) -> map fst (fupdate l k v) = map fst l.
Proof.
  induction l as [|[j w] l IH]; cbn; intro H; [contradiction|].
  destruct (String.eqb j k) eqn:E; [reflexivity|]. cbn. f_equal. apply IH.
  destruct H as [H|H]; [subst; rewrite String.eqb_refl in E; discriminate|exact H].
Qed.
Lemma fupdate_keys_new l k v : ~ In k (map fst l) -> map fst (fupdate l k v) = map fst l ++ [k].
Proof.
  induction l as [|[j w] l IH]; cbn; intro H; [reflexivity|].
  destruct (String.eqb j k) eqn:E.
  - apply String.eqb_eq in E. subst. exfalso. apply H. left. reflexivity.
  - cbn. f_equal. apply IH. intro H'. apply H. right. exact H'.
Qed.
Lemma fupdate_nodup l k v : NoDup (map fst l) -> NoDup (map fst (fupdate l k v)).
Proof.
  intro ND. destruct (in_dec string_dec k (map fst l)) as [H|H].
  - rewrite fupdate_keys by exact H. exact ND.
  - rewrite fupdate_keys_new by exact H. apply NoDup_app_snoc; assumption.
Qed.
Lemma funion_nodup ov : forall src, NoDup (map fst src) -> NoDup (map fst (funion src ov)).
Proof.
  unfold funion. induction ov as [|[k v] ov IH]; intros src ND; [exact ND|].
  cbn [fold_left fst snd]. apply IH, fupdate_nodup, ND.
Qed.

Lemma keep_fields_keys eff k : In k (map fst (keep_fields eff)) -> In k (map fst eff) /\ smem k reserved = false.
Proof.
  unfold keep_fields. induction eff as [|[j v] eff IH]; cbn [flat_map map fst snd]; intro H; [contradiction|].
  rewrite map_app in H. apply in_app_or in H. destruct H as [H|H].
  - destruct v as [c|]; [|contradiction]. destruct (smem j reserved) eqn:S; [contradiction|].
    destruct H as [H|[]]. cbn in H. subst. split; [left; reflexivity|exact S].
  - destruct (IH H) as [A B]. split; [right; exact A|exact B].
Qed.
Lemma keep_fields_nodup eff : NoDup (map fst eff) -> NoDup (map fst (keep_fields eff)).
Proof.
  unfold keep_fields. induction eff as [|[j v] eff IH]; cbn [flat_map map fst snd]; intro ND; [constructor|].
  inversion ND as [|? ? Hn ND']; subst. rewrite map_app.
  destruct v as [c|]; [|apply IH, ND'].
  destruct (smem j reserved); [apply IH, ND'|].
  cbn. constructor; [|apply IH, ND'].
  intro H. apply keep_fields_keys in H. apply Hn, H.
Qed.

Lemma as_fov_keys fs : map fst (as_fov fs) = map fst fs.
Proof. unfold as_fov. rewrite map_map. reflexivity. Qed.

Lemma reserved_score : smem "score" reserved = true.
Proof. reflexivity. Qed.
Lemma reserved_names k : smem k reserved = false -> smem k ["item_id"; "item_num"; "rank"] = false /\ String.eqb k "score" = false.
Proof.
  unfold smem, reserved. cbn [existsb]. intro H.
  repeat (apply orb_false_iff in H; destruct H as [? H]).
  split; [|assumption]. repeat (apply orb_false_iff; split); assumption.
Qed.

(* the field list the constructor stores *)
Lemma built_fields_wf len (sc : option ncol) (rest : list (string * ncol)) fs :
  fs = match sc with Some c => [("score", mkCol TF32 (c_vals c))] | None => [] end ++ rest ->
  NoDup (map fst rest) -> (forall k, In k (map fst rest) -> smem k reserved = false) ->
  forallb (fun kc : string * ncol => Nat.eqb (List.length (c_vals (snd kc))) len) fs = true ->
  (forall k c, In (k, c) fs -> List.length (c_vals c) = len) /\ NoDup (map fst fs) /\
  (forall k, In k (map fst fs) -> smem k ["item_id"; "item_num"; "rank"] = false) /\
  (forall c, alookup "score" fs = Some c -> c_ty c = TF32).
Proof.
  intros -> ND RS FB. split; [|split; [|split]].
  - intros k c Hin. rewrite forallb_forall in FB. apply Nat.eqb_eq. apply (FB (k, c) Hin).
  - destruct sc as [c|]; cbn; [|exact ND]. constructor; [|exact ND].
    intro H. apply RS in H. discriminate.
  - intros k H. rewrite map_app in H. apply in_app_or in H. destruct H as [H|H].
    + destruct sc; [|contradiction]. destruct H as [H|[]]. cbn in H. subst. reflexivity.
    + apply (reserved_names k (RS k H)).
  - intros c H. rewrite alookup_app in H. destruct sc as [c0|]; cbn in H.
    + inversion H; subst. reflexivity.
    + apply alookup_some_in_keys in H. apply RS in H. discriminate.
Qed.

Lemma derive_wf src ov il : wf_il src -> derive src ov = Some il -> wf_il il.
Proof.
  intros W H. unfold derive in H.
  set (len := match ov_ids ov with Some i => List.length i | None => il_len src end) in *.
  set (eff := funion (as_fov (il_fields src)) (ov_fields ov)) in *.
  destruct (match ov_rank ov with
            | None => Some (match ov_ordered ov with Some b => b | None => il_ordered src end,
                            if Nat.eqb len (il_len src) then il_ranks src else None)
            | Some r => match ov_ordered ov with
                        | Some false => Some (match ov_ordered ov with Some b => b | None => il_ordered src end,
                                              if Nat.eqb len (il_len src) then il_ranks src else None)
                        | _ => if Nat.eqb (List.length r) len then Some (true, Some r) else None
                        end
            end) as [[ord ranks]|] eqn:RK; [|discriminate].
  destruct (match ov_scores ov with
            | Some FDrop => Some None
            | Some (FSet c) => Some (Some c)
            | None => match alookup "score" eff with
                      | Some (FSet c) => Some (Some c)
                      | Some FDrop => None
                      | None => Some None
                      end
            end) as [sc|]; [|discriminate].
  destruct (mk_fields len sc eff) as [fs|] eqn:MF; [|discriminate].
  inversion H; subst il; clear H.
  assert (RL : forall r, ranks = Some r -> List.length r = len).
  { assert (R0 : forall r, (if Nat.eqb len (il_len src) then il_ranks src else None) = Some r -> List.length r = len).
    { intros r Hr. destruct (Nat.eqb len (il_len src)) eqn:El; [|discriminate].
      apply Nat.eqb_eq in El. rewrite El. apply (wf_ranklen src W r Hr). }
    intros r Hr. subst ranks.
    destruct (ov_rank ov) as [q|]; [|inversion RK; subst; apply R0; assumption].
    destruct (ov_ordered ov) as [[|]|]; try (inversion RK; subst; apply R0; assumption);
      destruct (Nat.eqb (List.length q) len) eqn:Eq; try discriminate;
      inversion RK; subst; apply Nat.eqb_eq, Eq. }
  unfold mk_fields in MF.
  set (FS := match sc with Some c => [("score", mkCol TF32 (c_vals c))] | None => [] end ++ keep_fields eff) in *.
  destruct (forallb (fun kc : string * ncol => Nat.eqb (List.length (c_vals (snd kc))) len) FS) eqn:FB; [|discriminate].
  inversion MF; subst fs; clear MF.
  assert (NDe : NoDup (map fst eff)).
  { subst eff. apply funion_nodup. rewrite as_fov_keys. apply (wf_nodup src W). }
  destruct (built_fields_wf len sc (keep_fields eff) FS eq_refl (keep_fields_nodup eff NDe)
              (fun k Hk => proj2 (keep_fields_keys eff k Hk)) FB) as [F1 [F2 [F3 F4]]].
  constructor; cbn [il_len il_ids il_nums il_ranks il_fields il_vocab il_ordered]; try assumption.
  - intros i Hi. subst len. destruct (ov_ids ov) as [j|]; [inversion Hi; reflexivity|].
    destruct (match ov_vocab ov, il_vocab src with Some _, Some _ => true | _, _ => false end);
      [apply (v_ids_length src i W Hi)|apply (wf_idlen src W i Hi)].
  - intros n Hn. subst len. destruct (ov_ids ov) as [j|]; [discriminate|].
    destruct (match ov_vocab ov, il_vocab src with Some _, Some _ => true | _, _ => false end);
      [discriminate|apply (wf_numlen src W n Hn)].
  - destruct (ov_ids ov) as [j|]; [left; discriminate|].
    destruct (ov_vocab ov) as [v|]; [destruct (il_vocab src) as [v0|] eqn:V|].
    + left. unfold v_ids. rewrite V. destruct (wf_some src W) as [X|X].
      * destruct (il_ids src); [discriminate|exfalso; apply X; reflexivity].
      * destruct (il_ids src); [discriminate|]. destruct (il_nums src); [discriminate|exfalso; apply X; reflexivity].
    + apply (wf_some src W).
    + apply (wf_some src W).
Qed.

Lemma select_length idx (l : list Z) n : List.length l = n ->
  forallb (fun i => Nat.ltb i n) idx = true -> List.length (select idx l) = List.length idx.
Proof.
  intros Hl H. unfold select. induction idx as [|i idx IH]; [reflexivity|].
  cbn [forallb] in H. apply andb_true_iff in H. destruct H as [Hi H].
  cbn [flat_map]. rewrite app_length, IH by exact H.
  apply Nat.ltb_lt in Hi. rewrite <- Hl in Hi.
  destruct (nth_error l i) eqn:E; [reflexivity|]. apply nth_error_None in E. lia.
Qed.

Lemma norm_fields_wf len fs :
  NoDup (map fst fs) -> (forall k c, In (k, c) fs -> List.length (c_vals c) = len) ->
  (forall k c, In (k, c) (norm_fields fs) -> List.length (c_vals c) = len) /\ NoDup (map fst (norm_fields fs)) /\
  (forall k, In k (map fst (norm_fields fs)) -> smem k ["item_id"; "item_num"; "rank"] = false) /\
  (forall c, alookup "score" (norm_fields fs) = Some c -> c_ty c = TF32).
Proof.
  intros ND LN. unfold norm_fields.
  set (rest := filter (fun kc : string * ncol => negb (smem (fst kc) reserved)) fs).
  assert (RS : forall k, In k (map fst rest) -> smem k reserved = false).
  { intros k H. apply in_map_iff in H. destruct H as [[j c] [E Hin]]. cbn in E. subst j.
    apply filter_In in Hin. destruct Hin as [_ P]. cbn in P. apply negb_true_iff in P. exact P. }
  apply (built_fields_wf len (alookup "score" fs) rest _ eq_refl (NoDup_filter _ fst fs ND) RS).
  apply forallb_forall. intros [k c] Hin. cbn. apply Nat.eqb_eq.
  apply in_app_or in Hin. destruct Hin as [Hin|Hin].
  - destruct (alookup "score" fs) as [c0|] eqn:E; [|contradiction]. destruct Hin as [X|[]]. inversion X; subst. cbn.
    apply (LN "score" c0). apply alookup_in, E.
  - apply filter_In in Hin. apply (LN k c), Hin.
Qed.

Lemma getitem_wf src idx il : wf_il src -> getitem src idx = Some il -> wf_il il.
Proof.
  intros W H. rewrite getitem_gi in H.
  destruct (forallb (fun i => Nat.ltb i (il_len src)) idx) eqn:FB; [|discriminate]. cbn in H. inversion H; subst il; clear H.
  set (fs := map (fun kc : string * ncol => (fst kc, select_col idx (snd kc))) (il_fields src)).
  assert (ND : NoDup (map fst fs)) by (subst fs; rewrite map_map; apply (wf_nodup src W)).
  assert (LN : forall k c, In (k, c) fs -> List.length (c_vals c) = List.length idx).
  { intros k c Hin. subst fs. apply in_map_iff in Hin. destruct Hin as [[j c0] [E Hin]]. inversion E; subst k c. cbn.
    apply (select_length idx _ (il_len src)); [apply (wf_fieldlen src W j c0 Hin)|exact FB]. }
  destruct (norm_fields_wf (List.length idx) fs ND LN) as [F1 [F2 [F3 F4]]].
  unfold gi. constructor; cbn [il_len il_ids il_nums il_ranks il_fields il_vocab il_ordered]; try assumption.
  - intros i Hi. destruct (il_ids src) as [j|] eqn:E; [|discriminate]. inversion Hi; subst.
    apply (select_length idx _ (il_len src)); [apply (wf_idlen src W j E)|exact FB].
  - intros n Hn. destruct (il_nums src) as [j|] eqn:E; [|discriminate]. inversion Hn; subst.
    apply (select_length idx _ (il_len src)); [apply (wf_numlen src W j E)|exact FB].
  - destruct (wf_some src W) as [X|X]; [left|right]; [destruct (il_ids src)|destruct (il_nums src)]; try discriminate; contradiction.
  - discriminate.
Qed.

Lemma clone_wf src : wf_il src -> wf_il (clone src).
Proof.
  intro W.
  destruct (norm_fields_wf (il_len src) (il_fields src) (wf_nodup src W) (wf_fieldlen src W)) as [F1 [F2 [F3 F4]]].
  unfold clone. constructor; cbn [il_len il_ids il_nums il_ranks il_fields il_vocab il_ordered]; try assumption; try apply W.
  discriminate.
Qed.

Lemma chain_wf_l : forall ss il il', wf_il il -> chain_run il ss = Some il' -> wf_il il'.
Proof.
  induction ss as [|s ss IH]; intros il il' W H; [inversion H; subst; exact W|].
  destruct s as [w|ov|idx|]; cbn [chain_run] in H.
  - apply (IH _ _ (warm_wf w il W) H).
  - destruct (derive il ov) as [d|] eqn:D; [|discriminate]. apply (IH _ _ (derive_wf il ov d W D) H).
  - destruct (getitem il idx) as [d|] eqn:D; [|discriminate]. apply (IH _ _ (getitem_wf il idx d W D) H).
  - apply (IH _ _ (clone_wf il W) H).
Qed.

(* ---- the statement in the property's words: whatever was done with its sources, the table made
   of a derived list carries the derived list's own columns ------------------------------------- *)

Lemma derived_arrow_roundtrip_l : forall il ss d numbers,
  wf_il il -> chain_run il ss = Some d -> il_len d <> 0 -> has_ids d = true ->
  (numbers = true -> has_nums d = true -> exists n, nums_strict d = Some n) ->
  exists t d',
    to_arrow d true numbers = Some t /\ from_arrow t = Some d' /\
    il_len d' = il_len d /\ v_ids d' = v_ids d /\
    il_ordered d' = il_ordered d /\ v_ranks d' = v_ranks d /\
    fields_equiv (il_fields d') (il_fields d) /\
    (* and the same table as the same history without any use of the intermediate lists *)
    exists c, chain_run il (cold ss) = Some c /\ to_arrow c true numbers = Some t.
Proof.
  intros il ss d numbers W H L HI HN.
  pose proof (chain_wf_l ss il d W H) as Wd.
  destruct (arrow_roundtrip_l d numbers Wd L HI HN) as [t [d' [A [B [C1 [C2 [_ [C4 [C5 [C6 _]]]]]]]]]].
  exists t, d'. repeat (split; [assumption|]).
  pose proof (caches_do_not_leak_l il ss) as E. rewrite H in E.
  destruct (chain_run il (cold ss)) as [c|]; [|contradiction]. cbn in E.
  exists c. split; [reflexivity|].
  unfold to_arrow in *. rewrite <- (ce_arrow_types d c true numbers E), <- (ce_to_arrow_cols d c _ E). exact A.
Qed.

(* non-vacuity: a list whose identifiers are computed from its vocabulary, used, given scores and
   explicit ranks with a tie, subset *)
Definition ex_src : ilist := mkIL 3 6 None (Some [2%Z; 0%Z; 1%Z]) (Some [10%Z; 11%Z; 12%Z]) false None
  [("count", mkCol 5 [3%Z; 4%Z; 5%Z])].
Definition ex_steps : list step :=
  [SWarm WIds; SWarm WRanks;
   SDerive (mkOv None 6 None None (Some (FSet (mkCol TF32 [1065353216%Z; 0%Z; 1073741824%Z]))) (Some [1%Z; 2%Z; 2%Z]) [("count", FDrop); ("w", FSet (mkCol 2 [7%Z; 8%Z; 9%Z]))]);
   SWarm WNums; SGet [0; 2]].

Lemma ex_src_wf : wf_il ex_src.
Proof.
  constructor; cbn.
  - intros i H. discriminate.
  - intros n H. inversion H. reflexivity.
  - right. discriminate.
  - intros r H. discriminate.
  - intros k c [H|[]]; inversion H; reflexivity.
  - repeat constructor; cbn; intuition.
  - intros k [H|[]]; subst; reflexivity.
  - intros c H. discriminate.
Qed.

Lemma ex_chain_l :
  option_map observe (chain_run ex_src ex_steps) =
  Some (mkObs 2 (Some [12%Z; 11%Z]) (Some [2%Z; 1%Z]) true (Some [1%Z; 2%Z])
          [("score", mkCol TF32 [1065353216%Z; 1073741824%Z]); ("w", mkCol 2 [7%Z; 9%Z])]) /\
  option_map observe (chain_run ex_src (cold ex_steps)) = option_map observe (chain_run ex_src ex_steps).
Proof. split; vm_compute; reflexivity. Qed.
