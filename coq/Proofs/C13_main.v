(* C13 -- main lemmas: a built pipeline's configuration reloads to an equivalent configuration with
   the same serialisation and hash and without warning; a recorded hash that disagrees warns. *)
From Coq Require Import String Ascii List Bool Arith Lia Permutation Sorted.
From LK Require Import Lib.StrDict Lib.StrDictFacts Model.C13_json Gen.C13_shape Model.C13_config
  Proofs.C13_acyclic Proofs.C13_wf Proofs.C13_fromconfig Proofs.C13_roundtrip Proofs.C13_buildwf.
Import ListNotations.
Open Scope string_scope.
Open Scope list_scope.

Lemma clear_with_hash c h : clear_hash (with_hash c h) = clear_hash c.
Proof. reflexivity. Qed.
Lemma preimage_with_hash c h : preimage (with_hash c h) = preimage c.
Proof. reflexivity. Qed.

Section Main.
  Variable sig : string -> list string.
  Variable norm : string -> option obj -> option (option obj).
  Variable H : string -> string.
  Variable set_of : list string -> list string.
  Hypothesis set_of_spec : forall l, NoDup (set_of l) /\ (forall x, In x (set_of l) <-> In x l).

  Lemma build_inv b c : build sig H b = OK c ->
    build_config sig H b true = OK c /\ pipeline_resolves c = true /\ m_hash (cf_meta c) = Some (H (preimage c)).
  Proof.
    unfold build. destruct (build_config sig H b true) as [c'|e] eqn:E; [|discriminate].
    destruct (pipeline_resolves c') eqn:P; [|discriminate]. intros [= <-]. repeat split; try assumption.
    unfold build_config in E. destruct (acyclic_b _); [|discriminate]. injection E as <-.
    rewrite preimage_with_hash. reflexivity.
  Qed.

  Lemma warn_of_hashed c : m_hash (cf_meta c) = Some (H (preimage c)) -> warn_of H c = false.
  Proof. intro E. unfold warn_of. rewrite E, String.eqb_refl. reflexivity. Qed.

  (* Pipeline.from_config(p.config) / p.clone() for a pipeline p built from a well-formed builder *)
  Theorem roundtrip_l b c : bwf norm b -> build sig H b = OK c ->
    let c' := reloaded H set_of c in
    reload sig norm H set_of c = OK (c', false) /\
    cequiv c' c /\
    (forall ex, serialize ex c' = serialize ex c) /\
    m_name (cf_meta c') = b_name b /\ m_version (cf_meta c') = b_version b /\
    m_hash (cf_meta c') = m_hash (cf_meta c) /\
    cf_components c' = cf_components c /\ cf_aliases c' = cf_aliases c /\ cf_default c' = cf_default c /\
    cf_literals c' = cf_literals c /\ Forall2 input_equiv (cf_inputs c') (cf_inputs c).
  Proof.
    intros W B. destruct (build_inv b c B) as [BC [P Hh]].
    pose proof (build_config_wf sig norm H b true c W BC) as CW.
    pose proof (reloaded_equiv norm H set_of set_of_spec c CW Hh) as Q.
    cbv zeta. split; [|split; [exact Q|split]].
    - rewrite (reload_cwf sig norm H set_of set_of_spec c CW P). rewrite (warn_of_hashed c Hh). reflexivity.
    - intro ex. apply (reloaded_serialize norm H set_of set_of_spec ex c CW Hh).
    - destruct Q as [Q1 Q2 Q3 Q4 Q5 Q6]. rewrite Q1.
      assert (Hn : m_name (cf_meta c) = b_name b /\ m_version (cf_meta c) = b_version b).
      { unfold build_config in BC. destruct (acyclic_b _); [|discriminate]. injection BC as <-. split; reflexivity. }
      destruct Hn. repeat split; assumption.
  Qed.

  Theorem clone_equal_l b c : bwf norm b -> build sig H b = OK c ->
    exists c', reload sig norm H set_of c = OK (c', false) /\
      (forall ex, serialize ex c' = serialize ex c) /\ m_hash (cf_meta c') = m_hash (cf_meta c) /\
      m_name (cf_meta c') = m_name (cf_meta c) /\ m_version (cf_meta c') = m_version (cf_meta c).
  Proof.
    intros W B. destruct (roundtrip_l b c W B) as [R [Q [S [_ [_ [Hh _]]]]]].
    exists (reloaded H set_of c). split; [exact R|split; [exact S|split; [exact Hh|]]].
    destruct Q as [Q1 _ _ _ _ _]. rewrite Q1. split; reflexivity.
  Qed.

  (* the rebuilt builder holds the same node table (names, kinds, code, settings; type sets up to order) *)
  Theorem rebuilt_nodes_l b c : bwf norm b -> build sig H b = OK c ->
    exists b' w, from_config sig norm H set_of c = OK (b', w) /\ w = false /\
      b_name b' = b_name b /\ b_version b' = b_version b /\
      forall n, match dget n (b_nodes b), dget n (b_nodes b') with
                | Some (KInput a), Some (KInput a') => Permutation a a'
                | Some k, Some k' => k = k'
                | None, None => True
                | _, _ => False
                end.
  Proof.
    intros W B. destruct (build_inv b c B) as [BC [P Hh]].
    pose proof (build_config_wf sig norm H b true c W BC) as CW.
    exists (rebuilt set_of c), (warn_of H c). split; [apply (from_config_cwf sig norm H set_of set_of_spec c CW)|].
    split; [apply warn_of_hashed; exact Hh|].
    unfold build_config in BC. change validate_after_defaults with true in BC. cbv iota in BC.
    destruct (acyclic_b _); [|discriminate]. change literals_sorted with true in BC. change aliases_sorted with true in BC.
    cbv iota in BC. injection BC as <-. cbn [rebuilt with_hash cf_meta m_name m_version b_name b_version b_nodes].
    split; [reflexivity|split; [reflexivity|]]. intro n.
    pose proof (bw_nodes _ _ W) as NDN.
    assert (NDR : NoDup (keys (rebuilt_nodes set_of (with_hash
       {| cf_meta := {| m_name := b_name b; m_version := b_version b; m_hash := None |};
          cf_inputs := node_inputs (b_nodes b);
          cf_components := node_components (resolved_edges sig b) (b_nodes b);
          cf_aliases := sort_kv (b_aliases b); cf_default := norm_default (b_default b);
          cf_literals := sort_kv (node_literals (b_nodes b)) |} (Some (H (preimage
       {| cf_meta := {| m_name := b_name b; m_version := b_version b; m_hash := None |};
          cf_inputs := node_inputs (b_nodes b);
          cf_components := node_components (resolved_edges sig b) (b_nodes b);
          cf_aliases := sort_kv (b_aliases b); cf_default := norm_default (b_default b);
          cf_literals := sort_kv (node_literals (b_nodes b)) |}))))))).
    { rewrite keys_rebuilt_nodes. apply (cw_names _ _ CW). }
    set (RN := rebuilt_nodes _ _) in *.
    (* membership in the rebuilt table *)
    assert (Hfwd : forall k, In (n, k) (b_nodes b) ->
              exists k', In (n, k') RN /\ match k, k' with
                                          | KInput a, KInput a' => Permutation a a'
                                          | _, _ => k = k' end).
    { intros k Hin. unfold RN, rebuilt_nodes. cbn [with_hash cf_inputs cf_literals cf_components].
      destruct k as [ts|e v|code s].
      - exists (KInput (set_of ts)). split.
        + rewrite in_app_iff. left. rewrite in_map_iff. exists {| i_name := n; i_types := Some ts |}. split; [reflexivity|].
          unfold node_inputs. rewrite in_flat_map. exists (n, KInput ts). split; [exact Hin|left; reflexivity].
        + symmetry. apply (set_of_perm set_of set_of_spec).
          pose proof (bw_node_ok _ _ W) as F. rewrite Forall_forall in F. apply (F _ Hin).
      - exists (KLit e v). split; [|reflexivity]. rewrite !in_app_iff. right. left. rewrite in_map_iff.
        exists (n, {| l_enc := e; l_value := v |}). split; [reflexivity|].
        eapply Permutation_in; [symmetry; apply sort_kv_perm|].
        unfold node_literals. rewrite in_flat_map. exists (n, KLit e v). split; [exact Hin|left; reflexivity].
      - exists (KComp code s). split; [|reflexivity]. rewrite !in_app_iff. right. right. rewrite in_map_iff.
        eexists (n, {| c_code := code; c_config := s; c_inputs := _ |}). split; [reflexivity|].
        unfold node_components. rewrite in_flat_map. exists (n, KComp code s). split; [exact Hin|left; reflexivity]. }
    destruct (dget n (b_nodes b)) as [k|] eqn:E1.
    - destruct (Hfwd k (dget_in _ _ _ E1)) as [k' [Hin' Hrel]].
      rewrite (in_dget _ _ _ NDR Hin'). destruct k, k'; try discriminate; try exact Hrel.
    - destruct (dget n RN) as [k'|] eqn:E2; [|exact I].
      apply dget_some_in_keys in E2. unfold RN in E2. rewrite keys_rebuilt_nodes in E2.
      apply dget_none in E1. apply E1.
      pose proof (names_perm (resolved_edges sig b) (b_nodes b)) as NP.
      eapply Permutation_in; [exact NP|]. unfold config_names in E2. cbn [with_hash cf_inputs cf_literals cf_components] in E2.
      rewrite !in_app_iff in *. destruct E2 as [X|[X|X]]; [left; exact X| |right; right; exact X].
      right. left. eapply Permutation_in; [apply sort_kv_keys_perm|exact X].
  Qed.

  (* a recorded hash that is not the hash of the content raises the warning, and only then *)
  Theorem tampered_l c : cwf norm c ->
    exists b', from_config sig norm H set_of c = OK (b', warn_of H c) /\
      (forall h, m_hash (cf_meta c) = Some h -> (warn_of H c = true <-> h <> H (preimage c))) /\
      (m_hash (cf_meta c) = None -> warn_of H c = false).
  Proof.
    intro CW. exists (rebuilt set_of c). split; [apply (from_config_cwf sig norm H set_of set_of_spec c CW)|].
    unfold warn_of. split.
    - intros h E. rewrite E. rewrite negb_true_iff. split.
      + intros Hne X. subst. rewrite String.eqb_refl in Hne. discriminate.
      + intro Hne. apply String.eqb_neq. congruence.
    - intros ->. reflexivity.
  Qed.
End Main.
