(* C20 -- which draws a position has seen.  The resampling is instrumented with, for every position,
   the list of columns drawn for it so far (latest first); erasing the histories gives back the
   model (resample_h_erase), and the histories satisfy: everything but the head hit an observed
   cell, at most budget+1 draws, and the head is observed only when the budget was used up. *)
From Coq Require Import ZArith List Bool Lia.
From LK Require Import Gen.C20_shape Model.C20_sampling Proofs.C20_key Proofs.C20_resample.
Import ListNotations.
Open Scope Z_scope.

Definition hd0 (h : list Z) : Z := hd 0 h.
Definition push (cols : list Z) (hs : list (list Z)) : list (list Z) :=
  map (fun ch => fst ch :: snd ch) (combine cols hs).

Fixpoint resample_h (m : mat) (w : weighting) (fuel : nat) (budget : Z) (rows : list Z) (hs : list (list Z)) (ds : list Z)
  : res (list (list Z) * list Z * list Z) :=
  let hits := check_negatives m rows (map hd0 hs) in
  if existsb (fun b => b) hits then
    if budget_positive budget then
      match fuel with
      | O => OutOfDraws
      | S fuel' =>
        let rows' := select hits rows in
        match draw_columns m w (length rows') ds with
        | Ok (cols', ds1) =>
          match resample_h m w fuel' (budget_next budget) rows' (push cols' (select hits hs)) ds1 with
          | Ok (new, warns, ds2) => Ok (scatter hits hs new, warns, ds2)
          | ErrValue => ErrValue
          | OutOfDraws => OutOfDraws
          end
        | ErrValue => ErrValue
        | OutOfDraws => OutOfDraws
        end
      end
    else if warn_on_exhaustion then Ok (hs, [count_true hits], ds) else Ok (hs, [], ds)
  else Ok (hs, [], ds).

Definition erase (r : res (list (list Z) * list Z * list Z)) : res (list Z * list Z * list Z) :=
  match r with
  | Ok (hs, warns, rest) => Ok (map hd0 hs, warns, rest)
  | ErrValue => ErrValue
  | OutOfDraws => OutOfDraws
  end.

Lemma map_scatter {A B} (f : A -> B) (mask : list bool) : forall xs new,
  map f (scatter mask xs new) = scatter mask (map f xs) (map f new).
Proof.
  induction mask as [|b mk IH]; intros xs new; [destruct xs; reflexivity|].
  destruct xs as [|x r]; [destruct b; reflexivity|].
  destruct b; cbn; [destruct new; cbn; rewrite IH; reflexivity|rewrite IH; reflexivity].
Qed.

Lemma select_length_eq {A B} (mask : list bool) : forall (xs : list A) (ys : list B),
  length xs = length ys -> length (select mask xs) = length (select mask ys).
Proof.
  induction mask as [|b mk IH]; intros xs ys L; [reflexivity|].
  destruct xs, ys; try discriminate; [reflexivity|]. injection L as L. cbn. destruct b; cbn; rewrite (IH _ _ L); reflexivity.
Qed.

Lemma map_hd0_push cols : forall hs, length cols = length hs -> map hd0 (push cols hs) = cols.
Proof.
  unfold push. induction cols as [|c cols IH]; intros hs L; destruct hs; try discriminate; [reflexivity|].
  injection L as L. cbn. rewrite IH by exact L. reflexivity.
Qed.

Lemma push_length cols hs : length cols = length hs -> length (push cols hs) = length hs.
Proof. intro L. unfold push. rewrite map_length, combine_length. lia. Qed.

Lemma resample_h_erase m w : forall fuel budget rows hs ds,
  length hs = length rows ->
  resample m w fuel budget rows (map hd0 hs) ds = erase (resample_h m w fuel budget rows hs ds).
Proof.
  induction fuel as [|fuel IH]; intros budget rows hs ds L; cbn [resample resample_h];
    destruct (existsb (fun b => b) (check_negatives m rows (map hd0 hs))); try reflexivity.
  - destruct (budget_positive budget); [reflexivity|]. destruct warn_on_exhaustion; reflexivity.
  - destruct (budget_positive budget); [|destruct warn_on_exhaustion; reflexivity].
    destruct (draw_columns m w _ ds) as [[cols' ds1]| |] eqn:Ed; try reflexivity.
    destruct (draw_columns_spec _ _ _ _ _ _ Ed) as [d [_ [Ld Ec]]].
    set (hits := check_negatives m rows (map hd0 hs)) in *.
    assert (length cols' = length (select hits hs)) as Lc.
    { rewrite Ec, map_length, Ld. apply select_length_eq. symmetry; exact L. }
    assert (length (push cols' (select hits hs)) = length (select hits rows)) as Lp.
    { rewrite push_length by exact Lc. apply select_length_eq. exact L. }
    specialize (IH (budget_next budget) (select hits rows) (push cols' (select hits hs)) ds1 Lp).
    rewrite map_hd0_push in IH by exact Lc. rewrite IH.
    destruct (resample_h m w fuel _ _ _ ds1) as [[[new wn] ds2]| |]; cbn [erase]; try reflexivity.
    rewrite map_scatter. reflexivity.
Qed.

(* ---- pointwise masks ---- *)
Fixpoint maskf {R X} (f : R -> X -> bool) (rows : list R) (xs : list X) : list bool :=
  match rows, xs with r :: rs, x :: xr => f r x :: maskf f rs xr | _, _ => [] end.

Lemma check_maskf m : forall rows hs,
  check_negatives m rows (map hd0 hs) = maskf (fun r h => hit m r (hd0 h)) rows hs.
Proof.
  induction rows as [|r rows IH]; intros hs; [reflexivity|]. destruct hs as [|h hs]; [reflexivity|].
  cbn [map]. rewrite check_cons. cbn [maskf]. rewrite IH. reflexivity.
Qed.

Lemma select_Forall2 {R X} (f : R -> X -> bool) (Q : R -> X -> Prop) : forall rows xs,
  Forall2 Q rows xs ->
  Forall2 (fun r x => Q r x /\ f r x = true) (select (maskf f rows xs) rows) (select (maskf f rows xs) xs).
Proof.
  induction 1 as [|r x rows xs Hq _ IH]; [constructor|]. cbn. destruct (f r x) eqn:E; [constructor; auto|exact IH].
Qed.

Lemma scatter_Forall2 {R X} (f : R -> X -> bool) (Q : R -> X -> Prop) : forall rows xs new,
  Forall2 (fun r x => f r x = false -> Q r x) rows xs ->
  Forall2 Q (select (maskf f rows xs) rows) new ->
  Forall2 Q rows (scatter (maskf f rows xs) xs new).
Proof.
  intros rows xs new H. revert new. induction H as [|r x rows xs Hq _ IH]; intros new Hn; [constructor|].
  cbn in *. destruct (f r x) eqn:E.
  - inversion Hn; subst. constructor; [assumption|apply IH; assumption].
  - constructor; [auto|apply IH; assumption].
Qed.

Lemma maskf_all_false {R X} (f : R -> X -> bool) (Q : R -> X -> Prop) : forall rows xs,
  Forall2 Q rows xs -> existsb (fun b => b) (maskf f rows xs) = false ->
  Forall2 (fun r x => Q r x /\ f r x = false) rows xs.
Proof.
  induction 1 as [|r x rows xs Hq _ IH]; intro E; [constructor|]. cbn in E. apply orb_false_iff in E.
  destruct E as [E1 E2]. constructor; auto.
Qed.

Lemma push_Forall2 {R} (Q : R -> list Z -> Prop) (Q' : R -> list Z -> Prop) (P : Z -> Prop) : forall rows hs cols,
  Forall2 Q rows hs -> length cols = length hs -> Forall P cols ->
  (forall r h c, Q r h -> P c -> Q' r (c :: h)) ->
  Forall2 Q' rows (push cols hs).
Proof.
  intros rows hs cols H. revert cols. unfold push.
  induction H as [|r h rows hs Hq _ IH]; intros cols L Hp Hstep; destruct cols as [|c cols]; try discriminate; [constructor|].
  injection L as L. inversion Hp; subst. cbn. constructor; [apply Hstep; assumption|apply IH; assumption].
Qed.

Lemma Forall2_imp {A B} (Q Q' : A -> B -> Prop) : (forall a b, Q a b -> Q' a b) ->
  forall l l', Forall2 Q l l' -> Forall2 Q' l l'.
Proof. intros H l l' F. induction F; constructor; auto. Qed.

Lemma Forall2_len {A B} (Q : A -> B -> Prop) l l' : Forall2 Q l l' -> length l = length l'.
Proof. induction 1; cbn; congruence. Qed.

Section History.
  Variable m : mat.
  Variable w : weighting.
  Variable P : Z -> Prop.          (* anything true of every column a draw can stand for, e.g. the range *)

  Definition pre (k : nat) (r : Z) (h : list Z) : Prop :=
    length h = k /\ Forall (fun c => hit m r c = true) (tl h) /\ Forall P h.
  Definition post (k : nat) (b : Z) (r : Z) (h : list Z) : Prop :=
    (k <= length h <= k + Z.to_nat b)%nat /\ Forall (fun c => hit m r c = true) (tl h) /\
    (hit m r (hd0 h) = true -> length h = (k + Z.to_nat b)%nat) /\ Forall P h.

  Lemma resample_h_post : forall fuel b rows hs ds out warns rest k,
    (1 <= k)%nat ->
    resample_h m w fuel b rows hs ds = Ok (out, warns, rest) ->
    Forall2 (pre k) rows hs -> Forall (fun d => P (col_of m w d)) ds ->
    Forall2 (post k b) rows out.
  Proof.
    induction fuel as [|fuel IH]; intros b rows hs ds out warns rest k Hk H Hpre Hd; cbn [resample_h] in H;
      rewrite check_maskf in H;
      destruct (existsb (fun b => b) (maskf (fun r h => hit m r (hd0 h)) rows hs)) eqn:Ex.
    - unfold budget_positive in H. destruct (b >? 0) eqn:Eb; [discriminate|]. unfold warn_on_exhaustion in H. inversion H; subst.
      eapply Forall2_imp; [|exact Hpre]. intros r h [L [T F]]. unfold post. replace (Z.to_nat b) with 0%nat by lia.
      repeat split; try lia; assumption.
    - inversion H; subst. apply (maskf_all_false (fun r h => hit m r (hd0 h))) with (Q := pre k) in Ex; [|exact Hpre].
      eapply Forall2_imp; [|exact Ex]. intros r h [[L [T F]] Hh]. unfold post. repeat split; try lia; try assumption.
      intro C. congruence.
    - unfold budget_positive in H. destruct (b >? 0) eqn:Eb.
      + destruct (draw_columns m w _ ds) as [[cols' ds1]| |] eqn:Ed; try discriminate.
        destruct (resample_h m w fuel _ _ _ ds1) as [[[new wn] ds2]| |] eqn:Er; try discriminate.
        inversion H; subst. destruct (draw_columns_spec _ _ _ _ _ _ Ed) as [d [-> [Ld ->]]].
        apply Forall_app in Hd. destruct Hd as [Hd1 Hd2].
        set (f := fun r h => hit m r (hd0 h)) in *.
        pose proof (select_Forall2 f (pre k) rows hs Hpre) as Hsel.
        assert (length (map (col_of m w) d) = length (select (maskf f rows hs) hs)) as Lc.
        { rewrite map_length, Ld. apply select_length_eq. eapply Forall2_len; exact Hpre. }
        assert (Forall2 (pre (S k)) (select (maskf f rows hs) rows) (push (map (col_of m w) d) (select (maskf f rows hs) hs))) as Hpre'.
        { eapply push_Forall2 with (P := P); [exact Hsel|exact Lc|rewrite Forall_map; exact Hd1|].
          intros r h c [[L [T F]] Hh] Pc. unfold pre. cbn [length tl]. repeat split; [lia| |constructor; assumption].
          destruct h as [|c0 h]; [cbn in L; lia|]. cbn in Hh, T. constructor; assumption. }
        specialize (IH _ _ _ _ _ _ _ (S k) ltac:(lia) Er Hpre' Hd2).
        apply scatter_Forall2.
        * eapply Forall2_imp; [|exact Hpre]. intros r h [L [T F]] Hh. unfold post. repeat split; try lia; try assumption.
          intro C. unfold f in Hh. congruence.
        * eapply Forall2_imp; [|exact IH]. intros r h [L [T [E F]]]. unfold post, budget_next in *.
          assert (Z.to_nat (b - 1) = (Z.to_nat b - 1)%nat) as Eq by lia. assert (1 <= Z.to_nat b)%nat by lia.
          repeat split; try lia; try assumption. intro C. specialize (E C). lia.
      + unfold warn_on_exhaustion in H. inversion H; subst.
        eapply Forall2_imp; [|exact Hpre]. intros r h [L [T F]]. unfold post. replace (Z.to_nat b) with 0%nat by lia.
        repeat split; try lia; assumption.
    - inversion H; subst. apply (maskf_all_false (fun r h => hit m r (hd0 h))) with (Q := pre k) in Ex; [|exact Hpre].
      eapply Forall2_imp; [|exact Ex]. intros r h [[L [T F]] Hh]. unfold post. repeat split; try lia; try assumption.
      intro C. congruence.
  Qed.
End History.

(* a single requested row: the call fails exactly when its first draw and its next `budget` draws all hit *)
Lemma single_row_failure m w r : forall fuel b c ds out warns rest,
  resample m w fuel b [r] [c] ds = Ok (out, warns, rest) ->
  (warns <> [] <-> hit m r c = true /\ Forall (fun d => hit m r (col_of m w d) = true) (firstn (Z.to_nat b) ds)).
Proof.
  induction fuel as [|fuel IH]; intros b c ds out warns rest H; cbn [resample] in H;
    rewrite check_cons in H; cbn [check_negatives combine map existsb] in H; rewrite orb_false_r in H;
    destruct (hit m r c) eqn:Hh.
  - unfold budget_positive in H. destruct (b >? 0) eqn:Eb; [discriminate|]. unfold warn_on_exhaustion in H. inversion H; subst.
    replace (Z.to_nat b) with 0%nat by lia. cbn. split; [intros _; split; [reflexivity|constructor]|intros _; discriminate].
  - inversion H; subst. split; [intro C; congruence|intros [C _]; discriminate].
  - unfold budget_positive in H. destruct (b >? 0) eqn:Eb.
    + cbn [select length] in H. destruct (draw_columns m w 1 ds) as [[cols' ds1]| |] eqn:Ed; try discriminate.
      destruct (draw_columns_spec _ _ _ _ _ _ Ed) as [d [-> [Ld ->]]].
      destruct d as [|d0 [|? ?]]; try discriminate. cbn [map] in H.
      destruct (resample m w fuel _ [r] [col_of m w d0] ds1) as [[[new wn] ds2]| |] eqn:Er; try discriminate.
      inversion H; subst. specialize (IH _ _ _ _ _ _ Er). unfold budget_next in IH.
      replace (Z.to_nat b) with (S (Z.to_nat (b - 1))) by lia. cbn [app firstn]. rewrite IH. split.
      * intros [A B]. split; [reflexivity|constructor; assumption].
      * intros [_ F]. inversion F; subst. split; assumption.
    + unfold warn_on_exhaustion in H. inversion H; subst.
      replace (Z.to_nat b) with 0%nat by lia. cbn. split; [intros _; split; [reflexivity|constructor]|intros _; discriminate].
  - inversion H; subst. split; [intro C; congruence|intros [C _]; discriminate].
Qed.
