(* C15 (b) -- collections through the native layout, and generic keys through __reduce__. *)
From Coq Require Import ZArith List Bool Arith String Ascii Lia.
From LK Require Import Model.C15_codec Proofs.C15_codec Proofs.C15_arrow.
Import ListNotations.
Open Scope string_scope.
Open Scope list_scope.

(* ---- schema merging (ListILC._add) ------------------------------------------------------------ *)

Definition types_sub (a b : list (string * nat)) : Prop := forall k t, alookup k a = Some t -> alookup k b = Some t.

Lemma types_sub_refl a : types_sub a a.
Proof. intros k t H. exact H. Qed.
Lemma types_sub_trans a b c : types_sub a b -> types_sub b c -> types_sub a c.
Proof. intros H1 H2 k t H. apply H2, H1, H. Qed.

Lemma alookup_snoc_new {V} k j (v : V) l : alookup j l = None -> alookup k (l ++ [(j, v)]) =
  match alookup k l with Some x => Some x | None => if String.eqb j k then Some v else None end.
Proof. intros _. rewrite alookup_app. reflexivity. Qed.

Lemma NoDup_app_snoc {A} (l : list A) x : NoDup l -> ~ In x l -> NoDup (l ++ [x]).
Proof.
  induction l as [|y l IH]; intros ND H; simpl.
  - constructor; [intros []|constructor].
  - inversion ND as [|? ? Hn ND']; subst. constructor.
    + intro X. apply in_app_or in X. destruct X as [X|[X|[]]]; [apply Hn, X|subst; apply H; left; reflexivity].
    + apply IH; [exact ND'|]. intro X. apply H. right. exact X.
Qed.

Lemma merge_types_spec ts : forall sch sch',
  merge_types sch ts = Some sch' ->
  types_sub sch sch' /\
  (forall k t, In (k, t) ts -> alookup k sch' = Some t) /\
  (NoDup (map fst sch) -> NoDup (map fst sch')) /\
  (forall k, In k (map fst sch') -> In k (map fst sch) \/ In k (map fst ts)).
Proof.
  induction ts as [|[n t] ts IH]; intros sch sch' H; simpl in H.
  - inversion H; subst. split; [apply types_sub_refl|]. split; [intros ? ? []|]. split; [tauto|]. intros k Hk. left. exact Hk.
  - destruct (alookup n sch) as [t'|] eqn:E.
    + destruct (Nat.eqb t t') eqn:Et; [|discriminate]. apply Nat.eqb_eq in Et. subst t'.
      destruct (IH _ _ H) as [S [A [N K]]].
      split; [exact S|]. split; [|split; [exact N|]].
      * intros k u [X|X]; [inversion X; subst; apply S, E|apply A, X].
      * intros k Hk. destruct (K k Hk) as [X|X]; [left; exact X|right; right; exact X].
    + destruct (IH _ _ H) as [S [A [N K]]].
      assert (S0 : types_sub sch (sch ++ [(n, t)])).
      { intros k u Hk. rewrite alookup_app, Hk. reflexivity. }
      split; [apply (types_sub_trans _ _ _ S0 S)|]. split; [|split].
      * intros k u [X|X]; [|apply A, X]. inversion X; subst. apply S.
        rewrite alookup_app, E. cbn. rewrite String.eqb_refl. reflexivity.
      * intro ND. apply N. rewrite map_app. cbn [map fst].
        apply NoDup_app_snoc; [exact ND|apply alookup_none_notin, E].
      * intros k Hk. destruct (K k Hk) as [X|X]; [|right; right; exact X].
        rewrite map_app in X. apply in_app_or in X. destruct X as [X|[X|[]]]; [left; exact X|right; left; exact X].
Qed.

Lemma merge_types_ok cols ts : forall sch,
  types_sub sch cols -> (forall k t, In (k, t) ts -> alookup k cols = Some t) ->
  exists sch', merge_types sch ts = Some sch' /\ types_sub sch' cols.
Proof.
  induction ts as [|[n t] ts IH]; intros sch S A; simpl.
  - exists sch. split; [reflexivity|exact S].
  - destruct (alookup n sch) as [t'|] eqn:E.
    + assert (t' = t) by (pose proof (S _ _ E) as X; rewrite (A n t) in X by (left; reflexivity); congruence).
      subst t'. rewrite Nat.eqb_refl. apply IH; [exact S|]. intros k u H. apply A. right. exact H.
    + apply IH.
      * intros k u H. rewrite alookup_app in H. destruct (alookup k sch) as [x|] eqn:Ek.
        { inversion H; subst. apply S, Ek. }
        cbn in H. destruct (String.eqb n k) eqn:Enk; [|discriminate].
        apply String.eqb_eq in Enk. subst k. inversion H; subst. apply A. left. reflexivity.
      * intros k u H. apply A. right. exact H.
Qed.

(* ---- what add_all establishes -------------------------------------------------------------------- *)

Lemma add_spec c key il c' : add c key il = Some c' ->
  k_fields c' = k_fields c /\ c_lists c' = c_lists c ++ [(key, il)] /\
  List.length key = List.length (k_fields c) /\
  merge_types (c_schema c) (arrow_types il true false) = Some (c_schema c').
Proof.
  unfold add. destruct (Nat.eqb (List.length key) (List.length (k_fields c))) eqn:E; [|discriminate]. cbn [negb].
  destruct (merge_types (c_schema c) (arrow_types il true false)) as [sch|] eqn:M; [|discriminate].
  intro H. inversion H; subst. cbn. apply Nat.eqb_eq in E. repeat split; assumption.
Qed.

Lemma add_all_spec items : forall c c',
  add_all c items = Some c' ->
  k_fields c' = k_fields c /\ c_lists c' = c_lists c ++ items /\
  types_sub (c_schema c) (c_schema c') /\
  (NoDup (map fst (c_schema c)) -> NoDup (map fst (c_schema c'))) /\
  (forall key il, In (key, il) items ->
     List.length key = List.length (k_fields c) /\
     forall k t, In (k, t) (arrow_types il true false) -> alookup k (c_schema c') = Some t) /\
  (forall k, In k (map fst (c_schema c')) ->
     In k (map fst (c_schema c)) \/ exists key il, In (key, il) items /\ In k (map fst (arrow_types il true false))).
Proof.
  induction items as [|[key il] items IH]; intros c c' H; simpl in H.
  - inversion H; subst. rewrite app_nil_r. repeat split; try tauto; try apply types_sub_refl.
    + destruct H0.
    + destruct H0.
  - destruct (add c key il) as [c1|] eqn:A; [|discriminate].
    destruct (add_spec _ _ _ _ A) as [K1 [L1 [Len1 M1]]].
    destruct (merge_types_spec _ _ _ M1) as [S1 [A1 [N1 Ks1]]].
    destruct (IH _ _ H) as [K2 [L2 [S2 [N2 [A2 Ks2]]]]].
    split; [congruence|]. split; [rewrite L2, L1, <- app_assoc; reflexivity|].
    split; [apply (types_sub_trans _ _ _ S1 S2)|]. split; [intro ND; apply N2, N1, ND|]. split.
    + intros key' il' [X|X].
      * inversion X; subst. split; [exact Len1|]. intros k t Hk. apply S2, A1, Hk.
      * destruct (A2 key' il' X) as [Y Z]. split; [congruence|exact Z].
    + intros k Hk. destruct (Ks2 k Hk) as [X|[key' [il' [X Y]]]].
      * destruct (Ks1 k X) as [Z|Z]; [left; exact Z|right]. exists key, il. split; [left; reflexivity|exact Z].
      * right. exists key', il'. split; [right; exact X|exact Y].
Qed.

(* ---- batches --------------------------------------------------------------------------------------- *)

Lemma sequence_app {A} (a b : list (option A)) :
  sequence (a ++ b) = match sequence a, sequence b with Some x, Some y => Some (x ++ y) | _, _ => None end.
Proof.
  induction a as [|[x|] a IH]; simpl.
  - destruct (sequence b); reflexivity.
  - rewrite IH. destruct (sequence a), (sequence b); reflexivity.
  - reflexivity.
Qed.

Lemma chunked_sequence {A B} (f : A -> option B) n : forall fuel l r,
  sequence (map f l) = Some r ->
  exists rs, sequence (map (fun ch => sequence (map f ch)) (chunked fuel n l)) = Some rs /\ List.concat rs = r.
Proof.
  induction fuel as [|fuel IH]; intros l r H.
  - destruct l as [|x l].
    + simpl in H. inversion H; subst. exists []. split; reflexivity.
    + exists [r]. split; [|simpl; apply app_nil_r].
      change (chunked 0 n (x :: l)) with [x :: l].
      change (map (fun ch => sequence (map f ch)) [x :: l]) with [sequence (map f (x :: l))].
      rewrite H. reflexivity.
  - destruct l as [|x l].
    + simpl in H. inversion H; subst. exists []. split; reflexivity.
    + cbn [chunked]. set (l0 := x :: l) in *.
      rewrite <- (firstn_skipn n l0), map_app, sequence_app in H.
      destruct (sequence (map f (firstn n l0))) as [ra|] eqn:Ea; [|discriminate].
      destruct (sequence (map f (skipn n l0))) as [rb|] eqn:Eb; [|discriminate].
      inversion H; subst r.
      destruct (IH _ _ Eb) as [rs [Hrs Hc]].
      exists (ra :: rs). split; [|simpl; rewrite Hc; reflexivity].
      change (map (fun ch => sequence (map f ch)) (firstn n l0 :: chunked fuel n (skipn n l0)))
        with (sequence (map f (firstn n l0)) :: map (fun ch => sequence (map f ch)) (chunked fuel n (skipn n l0))).
      rewrite Ea. cbn [sequence]. rewrite Hrs. reflexivity.
Qed.

(* ---- one row --------------------------------------------------------------------------------------- *)

Definition tbl (cols : list (string * nat)) (il : ilist) : atable :=
  if Nat.eqb (il_len il) 0 then (0, map (fun nt => (fst nt, mkACol (snd nt) [])) cols)
  else (il_len il, arrow_cols il cols).

(* what a reloaded list must look like, given the stored column names *)
Definition list_equiv (cols : list (string * nat)) (il il' : ilist) : Prop :=
  il_vocab il' = None /\
  if Nat.eqb (il_len il) 0 then
    il_len il' = 0 /\ v_ids il' = Some [] /\ il_ordered il' = amem "rank" cols
  else
    il_len il' = il_len il /\ v_ids il' = v_ids il /\ v_nums il' = None /\ il_ordered il' = il_ordered il /\
    v_ranks il' = v_ranks il /\ fields_equiv (il_fields il') (il_fields il).

Lemma il_ids_of_v il i : il_vocab il = None -> v_ids il = Some i -> il_ids il = Some i.
Proof. unfold v_ids. intros V H. destruct (il_ids il); [exact H|]. rewrite V in H. discriminate. Qed.

Section Rows.
Variable cols : list (string * nat).
Hypothesis ND : NoDup (map fst cols).
Hypothesis Hid : In "item_id" (map fst cols).
Hypothesis Hnonum : ~ In "item_num" (map fst cols).

(* the list fits the columns *)
Definition fits (il : ilist) : Prop :=
  wf_il il /\ has_ids il = true /\ forall k t, In (k, t) (arrow_types il true false) -> alookup k cols = Some t.

Lemma fits_cols_ok il : fits il -> il_len il <> 0 -> cols_ok il cols.
Proof.
  intros [W [HI A]] L.
  assert (E0 : Nat.eqb (il_len il) 0 = false) by (apply Nat.eqb_neq, L).
  constructor.
  - exact ND.
  - exact Hid.
  - apply (has_ids_v il W HI).
  - intro H. contradiction.
  - intro O. apply (alookup_some_in_keys "rank" cols TI32). apply A.
    unfold arrow_types. rewrite E0, HI, O. cbn [andb app]. right. left. reflexivity.
  - intros k Hk. apply in_map_iff in Hk. destruct Hk as [[j c] [E Hin]]. cbn [fst] in E. subst j.
    apply (alookup_some_in_keys k cols (c_ty c)). apply A.
    unfold arrow_types. rewrite E0, HI. cbn [andb app]. right.
    apply in_or_app. right. apply in_map_iff. exists (k, c). split; [reflexivity|exact Hin].
Qed.

Lemma row_ok il : fits il ->
  to_arrow_cols il cols = Some (tbl cols il) /\
  exists il', from_arrow (tbl cols il) = Some il' /\ list_equiv cols il il' /\
    (forall k t, In (k, t) (arrow_types il' true false) -> alookup k cols = Some t).
Proof.
  intros Fi. pose proof Fi as [W [HI A]]. unfold tbl, list_equiv.
  destruct (Nat.eqb (il_len il) 0) eqn:E0.
  - apply Nat.eqb_eq in E0.
    destruct (from_arrow_empty il cols E0 Hid ND) as [il' [H1 [H2 [H3 [H4 [H5 [H6 _]]]]]]].
    split; [exact H1|]. exists il'. split; [exact H2|]. split; [repeat split; assumption|].
    intros k t Hk. unfold arrow_types in Hk. rewrite H3 in Hk. destruct Hk.
  - apply Nat.eqb_neq in E0. pose proof (fits_cols_ok il Fi E0) as C.
    split; [apply to_arrow_cols_ok; assumption|].
    destruct (from_arrow_ok il cols W C E0) as [il' [Hf [H1 [Hty [H2 [H3 [H4 [H5 [H6 [H7 H8]]]]]]]]]].
    exists il'. split; [exact Hf|]. split.
    + split; [exact H7|]. repeat split; try assumption.
      * rewrite H3. rewrite amem_alookup. rewrite (alookup_notin _ _ Hnonum). reflexivity.
      * apply H6.
      * apply H6.
      * apply H6.
    + (* the reloaded list's own Arrow types are among the stored columns *)
      destruct (has_ids_v il W HI) as [i Hi].
      assert (Ii : il_ids il' = Some i) by (apply il_ids_of_v; [exact H7|rewrite H2; exact Hi]).
      assert (HI' : has_ids il' = true) by (unfold has_ids; rewrite Ii; reflexivity).
      assert (E0' : Nat.eqb (il_len il') 0 = false) by (rewrite H1; apply Nat.eqb_neq, E0).
      assert (E0i : Nat.eqb (il_len il) 0 = false) by (apply Nat.eqb_neq, E0).
      intros k t Hk. unfold arrow_types in Hk. rewrite E0', HI' in Hk. cbn [andb app] in Hk.
      destruct Hk as [Hk|Hk].
      { inversion Hk; subst. rewrite Hty. apply A. unfold arrow_types. rewrite E0i, HI. left. reflexivity. }
      apply in_app_or in Hk. destruct Hk as [Hk|Hk].
      { destruct (il_ordered il') eqn:O; [|contradiction]. destruct Hk as [Hk|[]]. inversion Hk; subst.
        apply A. unfold arrow_types. rewrite E0i, HI. rewrite <- H4. cbn [andb app]. right. left. reflexivity. }
      apply in_map_iff in Hk. destruct Hk as [[j c] [E Hin]]. cbn [fst snd] in E. inversion E; subst.
      destruct H6 as [N1 [N2 Eq]].
      pose proof (in_alookup k c _ N1 Hin) as Lk. rewrite Eq in Lk.
      apply A. unfold arrow_types. rewrite E0i, HI. cbn [andb app]. right.
      apply in_or_app. right. apply in_map_iff. exists (k, c). split; [reflexivity|apply alookup_in, Lk].
Qed.

Lemma rows_ok items :
  (forall key il, In (key, il) items -> fits il) ->
  sequence (map (row_of cols) items) = Some (map (fun kil => (fst kil, tbl cols (snd kil))) items).
Proof.
  intro H. apply sequence_map_some. intros [key il] Hin. unfold row_of. cbn [fst snd].
  destruct (row_ok il (H key il Hin)) as [-> _]. reflexivity.
Qed.

Lemma load_rows_ok kf items : forall c0,
  k_fields c0 = kf -> types_sub (c_schema c0) cols ->
  (forall key il, In (key, il) items -> fits il /\ List.length key = List.length kf) ->
  exists c', load_rows c0 (map (fun kil => (fst kil, tbl cols (snd kil))) items) = Some c' /\
    k_fields c' = kf /\
    exists ls, c_lists c' = c_lists c0 ++ ls /\ map fst ls = map fst items /\
      Forall2 (list_equiv cols) (map snd items) (map snd ls).
Proof.
  induction items as [|[key il] items IH]; intros c0 K S H.
  - exists c0. split; [reflexivity|]. split; [exact K|]. exists []. rewrite app_nil_r. repeat split; constructor.
  - destruct (H key il (or_introl eq_refl)) as [Fi Lk].
    destruct (row_ok il Fi) as [_ [il' [Hf [Heq Hty]]]].
    cbn [map load_rows fst snd]. rewrite Hf.
    destruct (merge_types_ok cols (arrow_types il' true false) (c_schema c0) S Hty) as [sch' [M S']].
    unfold add. rewrite K, Lk, Nat.eqb_refl. cbn [negb]. rewrite M.
    set (c1 := mkColl kf (c_lists c0 ++ [(key, il')]) sch').
    destruct (IH c1 eq_refl S') as [c' [Hl [K' [ls [L' [F' Q']]]]]].
    { intros key2 il2 Hin. apply H. right. exact Hin. }
    exists c'. split; [exact Hl|]. split; [exact K'|].
    exists ((key, il') :: ls). split; [rewrite L'; unfold c1; cbn [c_lists]; rewrite <- app_assoc; reflexivity|].
    split; [cbn [map fst]; rewrite F'; reflexivity|]. cbn [map snd]. constructor; assumption.
Qed.

End Rows.

(* ---- the collection --------------------------------------------------------------------------------- *)

Lemma all_empty_schema items : forall c c',
  add_all c items = Some c' -> (forall key il, In (key, il) items -> il_len il = 0) -> c_schema c' = c_schema c.
Proof.
  induction items as [|[key il] items IH]; intros c c' H E; simpl in H.
  - inversion H; reflexivity.
  - destruct (add c key il) as [c1|] eqn:A; [|discriminate].
    destruct (add_spec _ _ _ _ A) as [_ [_ [_ M]]].
    unfold arrow_types in M. rewrite (E key il (or_introl eq_refl)) in M. cbn in M. inversion M as [M'].
    rewrite (IH _ _ H) by (intros k i Hin; apply (E k i); right; exact Hin). symmetry. exact M'.
Qed.

Lemma collection_roundtrip_l : forall batch kf items c,
  add_all (empty_coll kf) items = Some c -> items <> [] ->
  (forall key il, In (key, il) items -> wf_il il /\ has_ids il = true) ->
  exists t c',
    save_parquet batch c = SFile t /\ load_parquet (SFile t) = Some c' /\
    k_fields c' = kf /\ map fst (c_lists c') = map fst items /\
    Forall2 (list_equiv (p_cols t)) (map snd items) (map snd (c_lists c')) /\
    amem "rank" (p_cols t) = amem "rank" (c_schema c).
Proof.
  intros batch kf items c H NE Hw.
  destruct (add_all_spec _ _ _ H) as [K [Ls [_ [N [A Ks]]]]]. cbn [empty_coll k_fields c_lists c_schema app] in *.
  specialize (N (NoDup_nil _)).
  set (cols := save_columns c).
  (* the columns: distinct, with item_id, without item_num, and covering every list *)
  assert (Hnonum0 : ~ In "item_num" (map fst (c_schema c))).
  { intro Hin. destruct (Ks _ Hin) as [[]|[key [il [Hin' Hk]]]].
    destruct (Hw key il Hin') as [W HI]. unfold arrow_types in Hk.
    destruct (Nat.eqb (il_len il) 0); [destruct Hk|]. rewrite HI in Hk. cbn [andb app map fst] in Hk.
    destruct Hk as [Hk|Hk]; [discriminate|]. rewrite map_app in Hk. apply in_app_or in Hk. destruct Hk as [Hk|Hk].
    - destruct (il_ordered il); [destruct Hk as [Hk|[]]; discriminate|destruct Hk].
    - rewrite map_map in Hk. cbn [fst] in Hk. pose proof (wf_names il W _ Hk) as X. discriminate. }
  assert (Hcols : NoDup (map fst cols) /\ In "item_id" (map fst cols) /\ ~ In "item_num" (map fst cols) /\
                  (forall k t, alookup k (c_schema c) = Some t -> alookup k cols = Some t) /\
                  amem "rank" cols = amem "rank" (c_schema c)).
  { unfold cols, save_columns. destruct (c_schema c) as [|p sch] eqn:Es.
    - split; [constructor; [intros []|constructor]|]. split; [left; reflexivity|]. split; [intros [X|[]]; discriminate|].
      split; [intros k t X; discriminate|reflexivity].
    - rewrite <- Es in *. split; [exact N|]. split; [|split; [exact Hnonum0|split; [tauto|reflexivity]]].
      (* some list contributed a column, and every contributing list carries identifiers *)
      assert (Hp : In (fst p) (map fst (c_schema c))) by (rewrite Es; left; reflexivity).
      destruct (Ks _ Hp) as [[]|[key [il [Hin' Hk]]]].
      destruct (Hw key il Hin') as [W HI].
      apply (alookup_some_in_keys "item_id" _ (il_idty il)).
      apply (proj2 (A key il Hin')).
      unfold arrow_types in *. destruct (Nat.eqb (il_len il) 0); [destruct Hk|]. rewrite HI. left. reflexivity. }
  destruct Hcols as [NDc [Hid [Hnn [Sub Hrank]]]].
  assert (Hfits : forall key il, In (key, il) items -> fits cols il /\ List.length key = List.length kf).
  { intros key il Hin. destruct (Hw key il Hin) as [W HI]. destruct (A key il Hin) as [Lk At].
    split; [|exact Lk]. split; [exact W|]. split; [exact HI|]. intros k t Hk. apply Sub, At, Hk. }
  (* save *)
  pose proof (rows_ok cols NDc Hid Hnn items (fun key il Hin => proj1 (Hfits key il Hin))) as Hrows.
  destruct (chunked_sequence (row_of cols) batch (List.length (c_lists c)) (c_lists c) _ (eq_ind_r (fun l => sequence (map (row_of cols) l) = _) Hrows Ls))
    as [rs [Hrs Hcat]].
  unfold save_parquet. fold cols. destruct (c_lists c) as [|p ls] eqn:El; [subst items; contradiction|].
  rewrite <- El in *. rewrite Hrs, Hcat.
  eexists.
  assert (S0 : types_sub (c_schema (empty_coll kf)) cols) by (intros k0 t0 X; discriminate).
  destruct (load_rows_ok cols NDc Hid Hnn kf items (empty_coll kf) eq_refl S0 Hfits)
    as [c' [Hl [K' [ls' [L' [F' Q']]]]]].
  exists c'. split; [reflexivity|]. cbn [load_parquet p_keys p_rows p_cols]. rewrite K. split; [rewrite Ls; exact Hl|].
  split; [exact K'|]. cbn [empty_coll c_lists app] in L'. rewrite L'. split; [exact F'|]. split; [exact Q'|exact Hrank].
Qed.

(* a collection without lists leaves no file; the finding recorded for it *)
Lemma no_lists_no_file_l : forall batch kf, load_parquet (save_parquet batch (empty_coll kf)) = None.
Proof. reflexivity. Qed.

(* the finding: the ordering flag of an empty list is not stored *)
Definition il_ord : ilist := mkIL 1 6 (Some [7%Z]) None None true None [].
Definition il_empty_unord : ilist := mkIL 0 1 (Some []) None None false None [].
Lemma empty_flag_refuted_l :
  match coll_rt 5000 ["user_id"] [([1%Z], il_ord); ([2%Z], il_empty_unord)] with
  | Some c => map (fun kl => il_ordered (snd kl)) (c_lists c) = [true; true]
  | None => False
  end.
Proof. vm_compute. reflexivity. Qed.

(* ---- keys -------------------------------------------------------------------------------------------- *)

Definition key_in_cache (c : kcache) (k : key) : Prop := cache_get (key_names k) c = Some (key_ty k).

Lemma key_reduce_id_l : forall c k, key_in_cache c k -> rebuild_key c (reduce_key k) = (k, c).
Proof.
  intros c [t fs vs] H. unfold key_in_cache in H. cbn [key_names key_ty] in H.
  unfold rebuild_key, reduce_key, create_key, create_key_type. cbn [fst snd key_names key_vals]. rewrite H. reflexivity.
Qed.

Lemma lseqb_refl a : lseqb a a = true.
Proof. induction a as [|x a IH]; simpl; [reflexivity|]. rewrite String.eqb_refl. exact IH. Qed.

Lemma cache_get_snoc fs c t : cache_get fs c = None -> cache_get fs (c ++ [(fs, t)]) = Some t.
Proof.
  induction c as [|[gs u] c IH]; simpl; intro H.
  - rewrite lseqb_refl. reflexivity.
  - destruct (lseqb gs fs); [discriminate|]. apply IH, H.
Qed.

(* in any process: the rebuilt key has the same field names and values, its type is the process's
   type for those names, and is registered afterwards *)
Lemma key_rebuild_any_l : forall c k,
  let (k', c') := rebuild_key c (reduce_key k) in
  key_names k' = key_names k /\ key_vals k' = key_vals k /\ key_in_cache c' k' /\
  (cache_get (key_names k) c <> None -> c' = c).
Proof.
  intros c [t fs vs]. unfold rebuild_key, reduce_key, create_key, create_key_type, key_in_cache.
  cbn [fst snd key_names key_vals].
  destruct (cache_get fs c) as [u|] eqn:E; cbn [key_names key_vals key_ty].
  - repeat split; try reflexivity. exact E.
  - repeat split; try reflexivity; [apply cache_get_snoc, E|intro X; contradiction].
Qed.
