(* C13 -- the configuration (hence its serialisation and hash) does not depend on the order in which
   a component's connections, the aliases or the default connections were declared, nor on the
   iteration order of the input type sets. *)
From Coq Require Import String Ascii List Bool Arith Lia Permutation Sorted.
From LK Require Import Lib.StrDict Lib.StrDictFacts Model.C13_json Gen.C13_shape Model.C13_config
  Proofs.C13_acyclic Proofs.C13_wf Proofs.C13_fromconfig Proofs.C13_roundtrip Proofs.C13_buildwf Proofs.C13_main.
Import ListNotations.
Open Scope string_scope.
Open Scope list_scope.

Definition opt_perm {A} (a b : option (list A)) : Prop :=
  match a, b with Some x, Some y => Permutation x y | None, None => True | _, _ => False end.
Lemma opt_perm_sym {A} (a b : option (list A)) : opt_perm a b -> opt_perm b a.
Proof. destruct a, b; cbn; auto. apply Permutation_sym. Qed.

Definition node_equiv (x y : string * kind) : Prop :=
  fst x = fst y /\
  match snd x, snd y with
  | KInput a, KInput a' => Permutation a a'
  | k, k' => k = k'
  end.

Record bequiv (b b' : builder) : Prop := {
  be_name : b_name b = b_name b';
  be_version : b_version b = b_version b';
  be_default : b_default b = b_default b';
  be_nodes : Forall2 node_equiv (b_nodes b) (b_nodes b');
  be_edges : forall n, opt_perm (dget n (b_edges b)) (dget n (b_edges b'));
  be_aliases : Permutation (b_aliases b) (b_aliases b');
  be_defaults : forall p, dget p (b_defaults b) = dget p (b_defaults b') }.

Definition or_nil (o : option (dict string)) : dict string := match o with Some e => e | None => [] end.

Lemma perm_keys {A} (e e' : dict A) : Permutation e e' -> Permutation (keys e) (keys e').
Proof. apply Permutation_map. Qed.
Lemma perm_dmem {A} (e e' : dict A) i : Permutation e e' -> dmem i e = dmem i e'.
Proof.
  intro P. destruct (dmem i e) eqn:E1, (dmem i e') eqn:E2; try reflexivity.
  - apply dmem_in in E1. apply dmem_false in E2. exfalso. apply E2. eapply Permutation_in; [apply perm_keys; exact P|exact E1].
  - apply dmem_in in E2. apply dmem_false in E1. exfalso. apply E1. eapply Permutation_in; [apply perm_keys; symmetry; exact P|exact E2].
Qed.

Lemma resolve_one_perm D D' e e' i :
  Permutation e e' -> dget i D = dget i D' -> Permutation (resolve_one D e i) (resolve_one D' e' i).
Proof.
  intros P Ed. unfold resolve_one. rewrite <- (perm_dmem e e' i P), <- Ed.
  destruct (dmem i e) eqn:Em; cbn [negb]; [exact P|].
  destruct (dget i D) as [t|]; [|exact P].
  assert (Em' : dmem i e' = false) by (rewrite <- (perm_dmem e e' i P); exact Em).
  apply dmem_false in Em, Em'. rewrite (dset_fresh _ _ _ Em), (dset_fresh _ _ _ Em'). apply Permutation_app_tail. exact P.
Qed.
Lemma fold_resolve_one_perm D D' l : (forall p, dget p D = dget p D') -> forall e e',
  Permutation e e' -> Permutation (fold_left (resolve_one D) l e) (fold_left (resolve_one D') l e').
Proof.
  intro Ed. induction l as [|i l IH]; intros e e' P; cbn [fold_left]; [exact P|].
  apply IH. apply resolve_one_perm; [exact P|apply Ed].
Qed.

Lemma classic_comp n (nodes : dict kind) :
  (exists code s, In (n, KComp code s) nodes) \/ (forall code s, ~ In (n, KComp code s) nodes).
Proof.
  induction nodes as [|[n' k'] nodes IH]; [right; intros ? ? []|].
  destruct IH as [[code [s Hin]]|Hno]; [left; exists code, s; right; exact Hin|].
  destruct (string_dec n n') as [->|Hne].
  - destruct k' as [ts|e v|code s].
    + right. intros code s [X|X]; [discriminate|apply (Hno code s X)].
    + right. intros code s [X|X]; [discriminate|apply (Hno code s X)].
    + left. exists code, s. left. reflexivity.
  - right. intros code s [X|X]; [congruence|apply (Hno code s X)].
Qed.

Section Order.
  Variable sig : string -> list string.
  Variable norm : string -> option obj -> option (option obj).
  Variable H : string -> string.

  Lemma resolved_get_other D : forall nodes E n,
    (forall code s, ~ In (n, KComp code s) nodes) -> dget n (fold_left (resolve_node sig D) nodes E) = dget n E.
  Proof.
    induction nodes as [|[n' k'] nodes IH]; intros E n Hn; cbn [fold_left]; [reflexivity|].
    rewrite IH by (intros code s X; apply (Hn code s); right; exact X).
    unfold resolve_node. cbn [fst snd]. destruct k' as [ts|e v|code s]; try reflexivity.
    apply dget_dset_other. intro X. subst. apply (Hn code s). left. reflexivity.
  Qed.

  Lemma resolved_nodup D : forall nodes E, NoDup (keys E) -> NoDup (keys (fold_left (resolve_node sig D) nodes E)).
  Proof.
    induction nodes as [|nk nodes IH]; intros E N; cbn [fold_left]; [exact N|].
    apply IH. unfold resolve_node. destruct (snd nk); try exact N. apply nodup_keys_dset. exact N.
  Qed.

  Lemma comp_nodes_same l l' : Forall2 node_equiv l l' -> forall n code s, In (n, KComp code s) l <-> In (n, KComp code s) l'.
  Proof.
    induction 1 as [|[a k] [a' k'] l l' [E1 E2] _ IH]; intros n code s; [tauto|]. cbn [fst snd] in *. subst a'.
    cbn [In]. rewrite IH. split; intros [X|X]; auto; left; injection X as -> ->.
    - destruct k'; try discriminate; try (subst; reflexivity). congruence.
    - destruct k; try discriminate; try (subst; reflexivity); congruence.
  Qed.
  Lemma keys_equiv l l' : Forall2 node_equiv l l' -> keys l = keys l'.
  Proof. induction 1 as [|x y l l' [E _] _ IH]; [reflexivity|]. unfold keys in *. cbn [map]. rewrite E, IH. reflexivity. Qed.

  Lemma rel_subgraph (g g' : graph) : (forall n, opt_perm (dget n g) (dget n g')) -> NoDup (keys g') -> subgraph g' g.
  Proof.
    intros R N. split.
    - intros n ins' t Hin Ht. pose proof (in_dget _ _ _ N Hin) as E. specialize (R n). rewrite E in R.
      destruct (dget n g) as [ins|] eqn:Eg; [|destruct R]. exists ins. split; [apply dget_in; exact Eg|].
      eapply Permutation_in; [apply Permutation_map; symmetry; exact R|exact Ht].
    - intros n Hn. apply dmem_in in Hn. unfold dmem in Hn. specialize (R n).
      destruct (dget n g') eqn:E'; [|discriminate]. destruct (dget n g) eqn:Eg; [|destruct R].
      eapply dget_some_in_keys. exact Eg.
  Qed.

  Lemma node_inputs_equiv l l' : Forall2 node_equiv l l' -> Forall2 input_equiv (node_inputs l) (node_inputs l').
  Proof.
    induction 1 as [|[a k] [a' k'] l l' [E1 E2] _ IH]; [constructor|]. cbn [fst snd] in *. subst a'.
    unfold node_inputs in *. cbn [flat_map fst snd].
    destruct k, k'; try discriminate; cbn [app]; try exact IH.
    constructor; [|exact IH]. split; [reflexivity|exact E2].
  Qed.
  Lemma node_literals_equiv l l' : Forall2 node_equiv l l' -> node_literals l = node_literals l'.
  Proof.
    induction 1 as [|[a k] [a' k'] l l' [E1 E2] _ IH]; [reflexivity|]. cbn [fst snd] in *. subst a'.
    unfold node_literals in *. cbn [flat_map fst snd].
    destruct k, k'; try discriminate; cbn [app]; try exact IH. injection E2 as -> ->. rewrite IH. reflexivity.
  Qed.
  Lemma node_components_equiv (R R' : graph) l l' : Forall2 node_equiv l l' ->
    (forall n code s, In (n, KComp code s) l -> sort_kv (or_nil (dget n R)) = sort_kv (or_nil (dget n R'))) ->
    node_components R l = node_components R' l'.
  Proof.
    induction 1 as [|[a k] [a' k'] l l' [E1 E2] _ IH]; intro Hs; [reflexivity|]. cbn [fst snd] in *. subst a'.
    assert (IH' : node_components R l = node_components R' l') by (apply IH; intros n code s X; apply (Hs n code s); right; exact X).
    destruct k as [ts|e v|code s], k' as [ts'|e' v'|code' s']; try discriminate.
    - change (node_components R ((a, KInput ts) :: l)) with (node_components R l).
      change (node_components R' ((a, KInput ts') :: l')) with (node_components R' l'). exact IH'.
    - change (node_components R ((a, KLit e v) :: l)) with (node_components R l).
      change (node_components R' ((a, KLit e' v') :: l')) with (node_components R' l'). exact IH'.
    - injection E2 as <- <-.
      change (node_components R ((a, KComp code s) :: l))
        with ((a, {| c_code := code; c_config := s; c_inputs := sort_kv (or_nil (dget a R)) |}) :: node_components R l).
      change (node_components R' ((a, KComp code s) :: l'))
        with ((a, {| c_code := code; c_config := s; c_inputs := sort_kv (or_nil (dget a R')) |}) :: node_components R' l').
      rewrite (Hs a code s (or_introl eq_refl)), IH'. reflexivity.
  Qed.

  Theorem order_free_l b b' ih : bwf norm b -> bwf norm b' -> bequiv b b' ->
    match build_config sig H b ih, build_config sig H b' ih with
    | OK c, OK c' => cequiv c c' /\ (forall ex, serialize ex c = serialize ex c') /\ m_hash (cf_meta c) = m_hash (cf_meta c')
    | Err e, Err e' => e = e'
    | _, _ => False
    end.
  Proof.
    intros W W' Q.
    set (R := resolved_edges sig b). set (R' := resolved_edges sig b').
    pose proof (bw_nodes _ _ W) as NDN. pose proof (bw_nodes _ _ W') as NDN'.
    (* the resolved wiring of every node agrees up to order *)
    assert (HR : forall n, opt_perm (dget n R) (dget n R')).
    { intro n. unfold R, R', resolved_edges.
      destruct (classic_comp n (b_nodes b)) as [[code [s Hin]]|Hno].
      - pose proof (proj1 (comp_nodes_same _ _ (be_nodes _ _ Q) n code s) Hin) as Hin'.
        rewrite (resolved_get sig norm H _ _ _ n code s NDN Hin), (resolved_get sig norm H _ _ _ n code s NDN' Hin').
        cbn [opt_perm]. apply fold_resolve_one_perm; [apply (be_defaults _ _ Q)|].
        pose proof (be_edges _ _ Q n) as Pe. destruct (dget n (b_edges b)), (dget n (b_edges b')); cbn in Pe; try tauto. constructor.
      - rewrite (resolved_get_other _ _ _ n Hno).
        rewrite (resolved_get_other _ _ _ n); [apply (be_edges _ _ Q)|].
        intros code s X. apply (Hno code s). apply (comp_nodes_same _ _ (be_nodes _ _ Q)). exact X. }
    assert (NR : NoDup (keys R)) by (apply resolved_nodup; apply (bw_edges_nodup _ _ W)).
    assert (NR' : NoDup (keys R')) by (apply resolved_nodup; apply (bw_edges_nodup _ _ W')).
    assert (Hac : acyclic_b R = acyclic_b R').
    { destruct (acyclic_b R) eqn:E1, (acyclic_b R') eqn:E2; try reflexivity.
      - rewrite <- E2. symmetry. apply (acyclic_b_subgraph R' R); [apply rel_subgraph; assumption|exact E1].
      - rewrite <- E1. apply (acyclic_b_subgraph R R'); [apply rel_subgraph; [intro n; apply opt_perm_sym; apply HR|exact NR]|exact E2]. }
    unfold build_config. change validate_after_defaults with true. cbv iota. fold R R'. rewrite <- Hac.
    destruct (acyclic_b R) eqn:Eac; [|reflexivity].
    change aliases_sorted with true. change literals_sorted with true. cbv iota.
    set (c0 := {| cf_meta := {| m_name := b_name b |}; cf_inputs := _; cf_components := node_components R _ |}).
    set (c0' := {| cf_meta := {| m_name := b_name b' |}; cf_inputs := _; cf_components := node_components R' _ |}).
    assert (E0 : cequiv c0 c0').
    { constructor; cbn [c0 c0' cf_meta cf_inputs cf_components cf_aliases cf_default cf_literals].
      - rewrite (be_name _ _ Q), (be_version _ _ Q). reflexivity.
      - apply node_inputs_equiv. apply (be_nodes _ _ Q).
      - apply node_components_equiv; [apply (be_nodes _ _ Q)|]. intros n code s Hin.
        pose proof (HR n) as P.
        assert (Nw : NoDup (keys (or_nil (dget n R)))).
        { unfold R, resolved_edges. rewrite (resolved_get sig norm H _ _ _ n code s NDN Hin). cbn [or_nil]. apply fold_resolve_one_keys.
          destruct (dget n (b_edges b)) as [e|] eqn:Eg; [|constructor].
          apply dget_in in Eg. pose proof (bw_edges_ok _ _ W) as F. rewrite Forall_forall in F. apply (F _ Eg). }
        destruct (dget n R) as [w|], (dget n R') as [w'|]; cbn [opt_perm] in P; try tauto.
        cbn [or_nil] in *. unfold sort_kv. apply sort_by_perm_eq; assumption.
      - unfold sort_kv. apply sort_by_perm_eq; [apply (bw_al_nodup _ _ W)|apply (be_aliases _ _ Q)].
      - rewrite (be_default _ _ Q). reflexivity.
      - rewrite (node_literals_equiv _ _ (be_nodes _ _ Q)). reflexivity. }
    assert (NT : Forall (fun i => forall ts, i_types i = Some ts -> NoDup ts) (cf_inputs c0)).
    { cbn [c0 cf_inputs]. unfold node_inputs. rewrite Forall_forall. intros i Hi. rewrite in_flat_map in Hi.
      destruct Hi as [[n k] [Hin Hx]]. cbn [fst snd] in Hx. destruct k as [ts0|e v|code s]; [|destruct Hx|destruct Hx].
      destruct Hx as [<-|[]]. cbn [i_types]. intros ts [= <-].
      pose proof (bw_node_ok _ _ W) as F. rewrite Forall_forall in F. apply (F _ Hin). }
    assert (Epre : preimage c0 = preimage c0').
    { unfold preimage, serialize. f_equal. apply cequiv_json.
      - destruct E0 as [A1 A2 A3 A4 A5 A6]. constructor; cbn [clear_hash cf_meta cf_inputs cf_components cf_aliases cf_default cf_literals]; try assumption.
      - exact NT. }
    destruct ih.
    - assert (E1 : cequiv (with_hash c0 (Some (H (preimage c0)))) (with_hash c0' (Some (H (preimage c0'))))).
      { destruct E0 as [A1 A2 A3 A4 A5 A6]. constructor; cbn [with_hash cf_meta cf_inputs cf_components cf_aliases cf_default cf_literals]; try assumption.
        rewrite A1, Epre. reflexivity. }
      split; [exact E1|split].
      + intro ex. unfold serialize. f_equal. apply cequiv_json; [exact E1|exact NT].
      + cbn [with_hash cf_meta m_hash]. rewrite Epre. reflexivity.
    - split; [exact E0|split].
      + intro ex. unfold serialize. f_equal. apply cequiv_json; [exact E0|exact NT].
      + destruct E0 as [A1 _ _ _ _ _]. rewrite A1. reflexivity.
  Qed.
End Order.
