(* C17 -- sorted association lists, the sweep over table rows, and correctness of the placement
   code: _expand_and_align_list_array, scalar placement, fixed-size vector re-ordering. *)
From Coq Require Import ZArith List Bool Arith Lia.
From LK Require Import Model.C17_attributes.
Import ListNotations.

Definition keys {A} (ps : list (nat * A)) : list nat := map fst ps.
Definition join {A} (o : option (option A)) : option A := match o with Some x => x | None => None end.

(* ---------------------------------------------------------------- lookups *)
Lemma lookupn_notin {A} r (ps : list (nat * A)) : ~ In r (keys ps) -> lookupn r ps = None.
Proof.
  induction ps as [|[k v] t IH]; cbn [lookupn keys map fst In]; [reflexivity|].
  intro H. destruct (Nat.eqb_spec r k) as [->|NE]; [exfalso; apply H; left; reflexivity|].
  apply IH. intro I. apply H. right. exact I.
Qed.

Lemma lookupn_in {A} r (ps : list (nat * A)) v : lookupn r ps = Some v -> In (r, v) ps.
Proof.
  induction ps as [|[k w] t IH]; cbn [lookupn]; [discriminate|].
  destruct (Nat.eqb_spec r k) as [->|NE]; [intro E; injection E as <-; left; reflexivity|].
  intro E. right. apply IH. exact E.
Qed.

Lemma lookupn_nodup {A} r (ps : list (nat * A)) v : NoDup (keys ps) -> In (r, v) ps -> lookupn r ps = Some v.
Proof.
  induction ps as [|[k w] t IH]; cbn [lookupn keys map fst In]; [intros _ []|].
  intros ND [E|I].
  - injection E as -> ->. rewrite Nat.eqb_refl. reflexivity.
  - apply NoDup_cons_iff in ND. destruct ND as [NI ND].
    destruct (Nat.eqb_spec r k) as [->|NE]; [exfalso; apply NI; apply (in_map fst) in I; exact I|].
    apply IH; assumption.
Qed.

Lemma memn_in r ks : memn r ks = true <-> In r ks.
Proof.
  unfold memn. rewrite existsb_exists. split.
  - intros [x [I E]]. apply Nat.eqb_eq in E. subst. exact I.
  - intro I. exists r. split; [exact I|apply Nat.eqb_refl].
Qed.

Lemma memn_ext r ks ks' : (In r ks <-> In r ks') -> memn r ks = memn r ks'.
Proof.
  intro H. destruct (memn r ks) eqn:A; destruct (memn r ks') eqn:B; try reflexivity.
  - apply memn_in in A. apply H in A. apply memn_in in A. congruence.
  - apply memn_in in B. apply H in B. apply memn_in in B. congruence.
Qed.

(* ---------------------------------------------------------------- sorting by row *)
Inductive ssorted {A} : list (nat * A) -> Prop :=
| ss_nil : ssorted []
| ss_cons p l : (forall q, In q l -> fst p < fst q) -> ssorted l -> ssorted (p :: l).

Lemma in_insert_row {A} (p : nat * A) l x : In x (insert_row p l) <-> x = p \/ In x l.
Proof.
  induction l as [|q t IH]; cbn [insert_row In]; [intuition|].
  destruct (fst p <=? fst q); cbn [In]; [intuition|]. rewrite IH. intuition.
Qed.

Lemma insert_ssorted {A} (p : nat * A) l : ssorted l -> ~ In (fst p) (keys l) -> ssorted (insert_row p l).
Proof.
  induction 1 as [|q t Hq Ht IH]; intro NI; cbn [insert_row].
  - constructor; [intros q []|constructor].
  - cbn [keys map In] in NI. destruct (Nat.leb_spec (fst p) (fst q)) as [LE|GT].
    + constructor; [|constructor; assumption].
      intros x [<-|I]; [lia|]. specialize (Hq x I). lia.
    + constructor.
      * intros x I. apply in_insert_row in I. destruct I as [->|I]; [lia|apply Hq; exact I].
      * apply IH. intro I. apply NI. right. exact I.
Qed.

Lemma in_sort_rows {A} (ps : list (nat * A)) x : In x (sort_rows ps) <-> In x ps.
Proof.
  induction ps as [|p t IH]; cbn [sort_rows fold_right In]; [reflexivity|].
  fold (sort_rows t). rewrite in_insert_row, IH. intuition.
Qed.

Lemma keys_sort_rows {A} (ps : list (nat * A)) r : In r (keys (sort_rows ps)) <-> In r (keys ps).
Proof.
  unfold keys. rewrite !in_map_iff. split; intros [x [E I]]; exists x; (split; [exact E|]); [apply (proj1 (in_sort_rows _ _))|apply (proj2 (in_sort_rows _ _))]; exact I.
Qed.

Lemma sort_rows_ssorted {A} (ps : list (nat * A)) : NoDup (keys ps) -> ssorted (sort_rows ps).
Proof.
  induction ps as [|p t IH]; cbn [sort_rows fold_right keys map]; intro ND; [constructor|].
  apply NoDup_cons_iff in ND. destruct ND as [NI ND]. fold (sort_rows t).
  apply insert_ssorted; [apply IH; exact ND|]. intro I. apply NI. apply (proj1 (keys_sort_rows _ _)). exact I.
Qed.

Lemma ssorted_nodup {A} (ps : list (nat * A)) : ssorted ps -> NoDup (keys ps).
Proof.
  induction 1 as [|p l Hp Hl IH]; cbn [keys map]; constructor; [|exact IH].
  intro I. apply in_map_iff in I. destruct I as [q [E I]]. specialize (Hp q I). lia.
Qed.

Lemma lookupn_sort_rows {A} r (ps : list (nat * A)) : NoDup (keys ps) -> lookupn r (sort_rows ps) = lookupn r ps.
Proof.
  intro ND. destruct (lookupn r ps) as [v|] eqn:L.
  - apply lookupn_nodup; [apply ssorted_nodup; apply sort_rows_ssorted; exact ND|].
    apply (proj2 (in_sort_rows _ _)). apply lookupn_in. exact L.
  - apply lookupn_notin. intro I. apply (proj1 (keys_sort_rows _ _)) in I.
    apply in_map_iff in I. destruct I as [[k v] [E I]]. cbn in E. subst k.
    rewrite (lookupn_nodup r ps v ND I) in L. discriminate.
Qed.

(* ---------------------------------------------------------------- the sweep over rows b, b+1, ... *)
Definition lower_bounded {A} (b : nat) (ps : list (nat * A)) : Prop := forall k, In k (keys ps) -> b <= k.

Lemma sweep_head {A} b k (v : A) t :
  ssorted ((k, v) :: t) -> lower_bounded b ((k, v) :: t) ->
  (k = b /\ lookupn b ((k, v) :: t) = Some v /\ ssorted t /\ lower_bounded (S b) t /\
     forall r, S b <= r -> lookupn r ((k, v) :: t) = lookupn r t) \/
  (b < k /\ lookupn b ((k, v) :: t) = None /\ lower_bounded (S b) ((k, v) :: t)).
Proof.
  intros SS LB. inversion SS as [|p l Hp Hl]; subst.
  assert (BK : b <= k) by (apply LB; left; reflexivity).
  destruct (Nat.eq_dec k b) as [->|NE].
  - left. split; [reflexivity|]. cbn [lookupn]. rewrite Nat.eqb_refl. split; [reflexivity|]. split; [exact Hl|].
    split.
    + intros x I. apply in_map_iff in I. destruct I as [q [E I]]. specialize (Hp q I). cbn [fst] in Hp. lia.
    + intros r Hr. destruct (Nat.eqb_spec r b); [lia|reflexivity].
  - right. split; [lia|]. split.
    + apply lookupn_notin. cbn [keys map fst]. intros [E|I]; [lia|].
      apply in_map_iff in I. destruct I as [q [E I]]. specialize (Hp q I). cbn [fst] in Hp. lia.
    + intros x [E|I]; [cbn in E; lia|].
      apply in_map_iff in I. destruct I as [q [E I]]. specialize (Hp q I). cbn [fst] in Hp. lia.
Qed.

Definition get_list {A} (r : nat) (ps : list (nat * list A)) : list A :=
  match lookupn r ps with Some l => l | None => [] end.

(* the value buffer is the concatenation of the per-row lists in row order *)
Lemma sweep_values {A} m : forall b (ps : list (nat * list A)),
  ssorted ps -> lower_bounded b ps -> (forall k, In k (keys ps) -> k < b + m) ->
  concat (map snd ps) = flat_map (fun r => get_list r ps) (seq b m).
Proof.
  induction m as [|m IH]; intros b ps SS LB UB.
  - destruct ps as [|[k v] t]; [reflexivity|]. exfalso.
    assert (b <= k) by (apply LB; left; reflexivity). assert (k < b + 0) by (apply UB; left; reflexivity). lia.
  - cbn [seq flat_map]. destruct ps as [|[k v] t].
    + cbn [map concat]. unfold get_list at 1. cbn [lookupn app].
      rewrite <- (IH (S b) [] ss_nil); [reflexivity|intros x []|intros x []].
    + destruct (sweep_head b k v t SS LB) as [[-> [L [St [LBt EXT]]]]|[LT [L LB']]].
      * unfold get_list at 1. rewrite L. cbn [map snd concat]. f_equal.
        rewrite (IH (S b) t St LBt).
        -- rewrite !flat_map_concat_map. f_equal. apply map_ext_in. intros r Hr. apply in_seq in Hr. unfold get_list. rewrite EXT by lia. reflexivity.
        -- intros x I. assert (x < b + S m) by (apply UB; right; exact I). lia.
      * unfold get_list at 1. rewrite L. cbn [app].
        apply (IH (S b) ((k, v) :: t) SS LB'). intros x I. specialize (UB x I). lia.
Qed.

(* replace_with_mask fills the masked rows with the row-sorted values *)
Lemma sweep_replace {A} m : forall b (ps : list (nat * option A)),
  ssorted ps -> lower_bounded b ps -> (forall k, In k (keys ps) -> k < b + m) ->
  replace_with_mask (map (fun r => memn r (keys ps)) (seq b m)) (map snd ps)
  = map (fun r => join (lookupn r ps)) (seq b m).
Proof.
  induction m as [|m IH]; intros b ps SS LB UB; [reflexivity|].
  cbn [seq map]. destruct ps as [|[k v] t].
  - cbn [keys map memn existsb replace_with_mask lookupn join]. f_equal.
    apply (IH (S b) [] ss_nil); [intros x []|intros x []].
  - destruct (sweep_head b k v t SS LB) as [[-> [L [St [LBt EXT]]]]|[LT [L LB']]].
    + assert (M : memn b (keys ((b, v) :: t)) = true) by (apply memn_in; left; reflexivity).
      rewrite M, L. cbn [map snd replace_with_mask join]. f_equal.
      transitivity (map (fun r => join (lookupn r t)) (seq (S b) m)).
      * rewrite <- (IH (S b) t St LBt).
        -- f_equal. apply map_ext_in. intros r Hr. apply in_seq in Hr. apply memn_ext. cbn [keys map fst In]. split; [|auto].
           intros [E|I]; [lia|exact I].
        -- intros x I. assert (x < b + S m) by (apply UB; right; exact I). lia.
      * apply map_ext_in. intros r Hr. apply in_seq in Hr. rewrite EXT by lia. reflexivity.
    + assert (M : memn b (keys ((k, v) :: t)) = false).
      { destruct (memn b (keys ((k, v) :: t))) eqn:E; [|reflexivity]. apply memn_in in E. specialize (LB' b E). lia. }
      rewrite M, L. cbn [replace_with_mask join]. f_equal.
      apply (IH (S b) ((k, v) :: t) SS LB'). intros x I. specialize (UB x I). lia.
Qed.

(* when every row is covered the row-sorted payloads are the column itself *)
Lemma sweep_full {A} m : forall b (ps : list (nat * A)),
  ssorted ps -> lower_bounded b ps -> (forall k, In k (keys ps) -> k < b + m) ->
  (forall r, b <= r < b + m -> In r (keys ps)) ->
  map Some (map snd ps) = map (fun r => lookupn r ps) (seq b m).
Proof.
  induction m as [|m IH]; intros b ps SS LB UB FULL.
  - destruct ps as [|[k v] t]; [reflexivity|]. exfalso.
    assert (b <= k) by (apply LB; left; reflexivity). assert (k < b + 0) by (apply UB; left; reflexivity). lia.
  - cbn [seq map]. destruct ps as [|[k v] t]; [exfalso; apply (FULL b); lia|].
    destruct (sweep_head b k v t SS LB) as [[-> [L [St [LBt EXT]]]]|[LT [L LB']]].
    + rewrite L. cbn [map snd]. f_equal. rewrite (IH (S b) t St LBt).
      * apply map_ext_in. intros r Hr. apply in_seq in Hr. rewrite EXT by lia. reflexivity.
      * intros x I. assert (x < b + S m) by (apply UB; right; exact I). lia.
      * intros r Hr. assert (I : In r (keys ((b, v) :: t))) by (apply FULL; lia).
        destruct I as [E|I]; [cbn in E; lia|exact I].
    + exfalso. assert (I : In b (keys ((k, v) :: t))) by (apply FULL; lia). specialize (LB' b I). lia.
Qed.

(* ---------------------------------------------------------------- offsets and slices *)
Fixpoint sum (l : list nat) : nat := match l with [] => 0 | x :: t => x + sum t end.

Lemma cumsum_nth l : forall a r, r <= length l -> nth r (cumsum_from a l) 0 = a + sum (firstn r l).
Proof.
  induction l as [|x t IH]; intros a r H; cbn [length] in H.
  - assert (r = 0) by lia. subst. cbn. lia.
  - destruct r as [|r]; cbn [cumsum_from nth firstn sum]; [lia|]. rewrite IH by lia. lia.
Qed.

Lemma sum_lengths {A} (g : nat -> list A) l : sum (map (fun r => length (g r)) l) = length (flat_map g l).
Proof. induction l as [|x t IH]; cbn [map sum flat_map]; [reflexivity|]. rewrite app_length, IH. reflexivity. Qed.

Lemma firstn_map_seq {B} (f : nat -> B) n r : r <= n -> firstn r (map f (seq 0 n)) = map f (seq 0 r).
Proof.
  intro H. rewrite firstn_map. f_equal. replace n with (r + (n - r)) by lia. rewrite seq_app, firstn_app.
  rewrite seq_length, Nat.sub_diag. cbn [firstn]. rewrite app_nil_r. apply firstn_all2. rewrite seq_length. lia.
Qed.

Lemma slice_flat_map {A} (g : nat -> list A) n r : r < n ->
  slice (flat_map g (seq 0 n))
        (sum (firstn r (map (fun k => length (g k)) (seq 0 n))))
        (sum (firstn (S r) (map (fun k => length (g k)) (seq 0 n)))) = g r.
Proof.
  intro H. rewrite !firstn_map_seq by lia. rewrite !sum_lengths.
  assert (E1 : flat_map g (seq 0 (S r)) = flat_map g (seq 0 r) ++ g r).
  { rewrite seq_S, flat_map_app. cbn [flat_map plus]. rewrite app_nil_r. reflexivity. }
  assert (E2 : flat_map g (seq 0 n) = flat_map g (seq 0 r) ++ g r ++ flat_map g (seq (S r) (n - S r))).
  { replace n with (r + S (n - S r)) at 1 by lia. rewrite seq_app, flat_map_app. cbn [seq flat_map plus]. reflexivity. }
  rewrite E1, E2, app_length. unfold slice.
  replace (length (flat_map g (seq 0 r)) + length (g r) - length (flat_map g (seq 0 r))) with (length (g r)) by lia.
  rewrite skipn_app, skipn_all, Nat.sub_diag. cbn [skipn app].
  rewrite firstn_app, firstn_all, Nat.sub_diag. cbn [firstn]. apply app_nil_r.
Qed.

(* ---------------------------------------------------------------- valid pairs *)
Lemma keys_valid_pairs {A} rows (lists : list (option (list A))) r :
  In r (keys (valid_pairs rows lists)) -> In r rows.
Proof.
  revert lists. induction rows as [|k t IH]; intros [|l ls]; cbn; try (intros []).
  unfold valid_pairs. cbn [combine flat_map snd fst]. intro I. unfold keys in I. rewrite map_app in I. apply in_app_or in I.
  destruct I as [I|I].
  - destruct l; cbn in I; [destruct I as [E|[]]; left; exact E|destruct I].
  - right. apply (IH ls). exact I.
Qed.

Lemma valid_pairs_nodup {A} rows (lists : list (option (list A))) : NoDup rows -> NoDup (keys (valid_pairs rows lists)).
Proof.
  revert lists. induction rows as [|k t IH]; intros [|l ls] ND; try constructor.
  apply NoDup_cons_iff in ND. destruct ND as [NI ND].
  unfold valid_pairs. cbn [combine flat_map snd fst]. unfold keys. rewrite map_app.
  destruct l as [l|]; cbn [map fst app]; [|apply (IH ls ND)].
  constructor; [|apply (IH ls ND)]. intro I. apply NI. apply (keys_valid_pairs t ls). exact I.
Qed.

Lemma lookupn_valid_pairs {A} rows (lists : list (option (list A))) r :
  NoDup rows -> lookupn r (valid_pairs rows lists) = join (lookupn r (combine rows lists)).
Proof.
  revert lists. induction rows as [|k t IH]; intros [|l ls] ND; try reflexivity.
  apply NoDup_cons_iff in ND. destruct ND as [NI ND].
  unfold valid_pairs. cbn [combine flat_map snd fst lookupn].
  destruct (Nat.eqb_spec r k) as [->|NE].
  - destruct l as [l|]; cbn [app lookupn join]; [rewrite Nat.eqb_refl; reflexivity|].
    apply lookupn_notin. intro I. apply NI. apply (keys_valid_pairs t ls). exact I.
  - destruct l as [l|]; cbn [app lookupn]; [destruct (Nat.eqb_spec r k); [congruence|]|]; apply (IH ls ND).
Qed.

Lemma nth_map_seq {B} (f : nat -> B) n r d : r < n -> nth r (map f (seq 0 n)) d = f r.
Proof.
  intro H. rewrite (nth_indep _ d (f 0)) by (rewrite map_length, seq_length; exact H).
  rewrite map_nth, seq_nth by exact H. reflexivity.
Qed.

(* ---------------------------------------------------------------- expand_align_correct *)
Theorem expand_align_correct_l {A} n rows (lists : list (option (list A))) :
  NoDup rows -> Forall (fun r => r < n) rows ->
  la_decode (expand_align n rows lists) = map (fun r => join (lookupn r (combine rows lists))) (seq 0 n).
Proof.
  intros ND LT. unfold la_decode, expand_align. cbn [la_null la_offsets la_values].
  set (ps := sort_rows (valid_pairs rows lists)).
  assert (NDV : NoDup (keys (valid_pairs rows lists))) by (apply valid_pairs_nodup; exact ND).
  assert (SS : ssorted ps) by (apply sort_rows_ssorted; exact NDV).
  assert (UB : forall k, In k (keys ps) -> k < 0 + n).
  { intros k I. apply (proj1 (keys_sort_rows _ _)) in I. apply keys_valid_pairs in I. rewrite Forall_forall in LT. apply LT. exact I. }
  rewrite map_length, seq_length. apply map_ext_in. intros r Hr. apply in_seq in Hr.
  rewrite nth_map_seq by lia.
  rewrite <- (lookupn_valid_pairs rows lists r ND), <- (lookupn_sort_rows r _ NDV). fold ps.
  destruct (lookupn r ps) as [l|] eqn:L.
  - assert (M : memn r (map fst ps) = true).
    { apply memn_in. apply lookupn_in in L. apply (in_map fst) in L. exact L. }
    rewrite M. cbn [negb]. f_equal.
    rewrite !cumsum_nth by (rewrite map_length, seq_length; lia). cbn [plus].
    rewrite (sweep_values n 0 ps SS ltac:(intros x _; lia) UB).
    replace (map (fun r0 => match lookupn r0 ps with Some l0 => length l0 | None => 0 end) (seq 0 n))
      with (map (fun k => length (get_list k ps)) (seq 0 n))
      by (apply map_ext; intro k; unfold get_list; destruct (lookupn k ps); reflexivity).
    rewrite (slice_flat_map (fun k => get_list k ps) n r ltac:(lia)).
    unfold get_list. rewrite L. reflexivity.
  - assert (M : memn r (map fst ps) = false).
    { destruct (memn r (map fst ps)) eqn:E; [|reflexivity]. apply memn_in in E.
      apply in_map_iff in E. destruct E as [[k v] [E I]]. cbn in E. subst k.
      rewrite (lookupn_nodup r ps v (ssorted_nodup ps SS) I) in L. discriminate. }
    rewrite M. reflexivity.
Qed.

(* ---------------------------------------------------------------- scalar placement *)
Lemma keys_combine {A} rows (vals : list A) : length vals = length rows -> keys (combine rows vals) = rows.
Proof.
  revert vals. induction rows as [|k t IH]; intros [|v vs] H; cbn in *; try reflexivity; try discriminate.
  f_equal. apply IH. lia.
Qed.

Theorem place_scalar_correct_l n rows (vals : list elem) :
  NoDup rows -> Forall (fun r => r < n) rows -> length vals = length rows ->
  place_scalar n rows vals = map (fun r => join (lookupn r (combine rows vals))) (seq 0 n).
Proof.
  intros ND LT LEN. unfold place_scalar.
  set (ps := sort_rows (combine rows vals)).
  assert (NDK : NoDup (keys (combine rows vals))) by (rewrite keys_combine by exact LEN; exact ND).
  assert (SS : ssorted ps) by (apply sort_rows_ssorted; exact NDK).
  assert (KE : forall r, In r (keys ps) <-> In r rows).
  { intro r. unfold ps. rewrite keys_sort_rows, keys_combine by exact LEN. reflexivity. }
  replace (map (fun r => memn r rows) (seq 0 n)) with (map (fun r => memn r (keys ps)) (seq 0 n)).
  2:{ apply map_ext. intro r. apply memn_ext. apply KE. }
  assert (UB : forall k, In k (keys ps) -> k < 0 + n).
  { intros k I. apply KE in I. rewrite Forall_forall in LT. cbn [plus]. apply LT. exact I. }
  pose proof (sweep_replace n 0 ps SS ltac:(intros x _; lia) UB) as SR.
  etransitivity; [exact SR|].
  apply map_ext. intro r. unfold ps. rewrite lookupn_sort_rows by exact NDK. reflexivity.
Qed.

(* ---------------------------------------------------------------- fixed-size vectors, every row covered *)
Theorem place_fixed_correct_l {A} n rows (vecs : list (option (list A))) :
  NoDup rows -> Forall (fun r => r < n) rows -> length vecs = length rows ->
  forallb (fun r => memn r rows) (seq 0 n) = true -> forallb is_some vecs = true ->
  map Some (map snd (sort_rows (valid_pairs rows vecs))) = map (fun r => join (lookupn r (combine rows vecs))) (seq 0 n).
Proof.
  intros ND LT LEN FULL VAL.
  set (ps := sort_rows (valid_pairs rows vecs)).
  assert (NDV : NoDup (keys (valid_pairs rows vecs))) by (apply valid_pairs_nodup; exact ND).
  assert (SS : ssorted ps) by (apply sort_rows_ssorted; exact NDV).
  assert (LK : forall r, lookupn r ps = join (lookupn r (combine rows vecs))).
  { intro r. unfold ps. rewrite lookupn_sort_rows by exact NDV. apply lookupn_valid_pairs. exact ND. }
  rewrite (sweep_full n 0 ps SS ltac:(intros x _; lia)).
  - apply map_ext. exact LK.
  - intros k I. apply (proj1 (keys_sort_rows _ _)) in I. apply keys_valid_pairs in I. rewrite Forall_forall in LT. cbn [plus]. apply LT. exact I.
  - intros r Hr. rewrite forallb_forall in FULL. assert (M : memn r rows = true) by (apply FULL; apply in_seq; lia).
    apply memn_in in M.
    (* the row has a vector, and it is valid *)
    destruct (lookupn r ps) as [v|] eqn:L; [apply lookupn_in in L; apply (in_map fst) in L; exact L|].
    exfalso. rewrite LK in L.
    assert (EX : exists o, lookupn r (combine rows vecs) = Some o /\ In o vecs).
    { clear -M LEN. revert vecs LEN. induction rows as [|k t IH]; intros [|v vs] LEN; cbn in *; try contradiction; try discriminate.
      destruct (Nat.eqb_spec r k) as [->|NE]; [exists v; split; [reflexivity|left; reflexivity]|].
      destruct M as [E|M]; [congruence|]. destruct (IH M vs ltac:(lia)) as [o [E I]]. exists o. split; [exact E|right; exact I]. }
    destruct EX as [o [E I]]. rewrite E in L. cbn [join] in L. subst o.
    rewrite forallb_forall in VAL. specialize (VAL None I). discriminate.
Qed.
