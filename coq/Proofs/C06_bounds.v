(* C06 -- normalised metrics lie in [0, 1]; the ideal DCG is an upper bound of every duplicate-free
   ranking's DCG. *)
From Coq Require Import ZArith QArith Qpower Qabs List Bool Lia Lqa Permutation Sorted Setoid Morphisms.
From LK Require Import Lib.QLib Lib.RankLib Model.C06_ranking Proofs.C06_model.
Import ListNotations.
Open Scope Q_scope.

Definition valid_k (k : option nat) : Prop := k <> Some 0%nat.
Definition nonneg_gains (t : tlist) : Prop := forall e, In e (tl_items t) -> 0 <= snd e.

Lemma exc_in_eq lo hi a b : exc_eq a b -> exc_in lo hi b -> exc_in lo hi a.
Proof.
  destruct a as [e|[|x|x]], b as [e'|[|y|y]]; cbn; try tauto.
  intros E [H1 H2]. rewrite E. split; assumption.
Qed.

Lemma np_div_in_unit a b : 0 <= a -> a <= b -> 0 < b -> exc_in 0 1 (Ret (np_div a b)).
Proof.
  intros Ha Hab Hb. unfold np_div. destruct (Qeq_bool b 0) eqn:E.
  - apply Qeq_bool_iff in E. lra.
  - cbn. split.
    + apply Qle_shift_div_l; lra.
    + apply Qle_shift_div_r; lra.
Qed.

Lemma firstn_repeat {A} (x : A) n m : firstn n (repeat x m) = repeat x (Nat.min n m).
Proof.
  revert m. induction n as [|n IH]; intros [|m]; cbn; try reflexivity. rewrite IH. reflexivity.
Qed.

Lemma bigsum_pos r n F : (forall i, 0 < F i) -> (0 < n)%nat -> 0 < bigsum r n F.
Proof.
  intros HF Hn. destruct n as [|n]; [lia|]. clear Hn. revert r.
  induction n as [|n IH]; intro r.
  - unfold bigsum. cbn. specialize (HF r). lra.
  - rewrite bigsum_S. specialize (IH (S r)). specialize (HF r). lra.
Qed.

Lemma bigsum_nonneg r n F : (forall i, 0 <= F i) -> 0 <= bigsum r n F.
Proof.
  intros HF. revert r. induction n as [|n IH]; intro r; [unfold bigsum; cbn; lra|].
  rewrite bigsum_S. specialize (IH (S r)). specialize (HF r). lra.
Qed.

(* ---- recall ---- *)
Lemma recall_in_unit k recs t :
  trunc_ok k recs = true -> NoDup (il_ids recs) -> tl_len t <> 0%nat -> valid_k k ->
  exc_in 0 1 (recall_model k recs t).
Proof.
  intros OK ND NE VK. unfold recall_model, with_topk, trunc_ok, valid_k in *.
  set (L := topk k (il_ids recs)).
  assert (G1 : (ngood t L <= length L)%nat) by apply ngood_le_length.
  assert (G2 : (ngood t L <= tl_len t)%nat) by (apply ngood_le_test, topk_NoDup, ND).
  assert (B : forall d, (ngood t L <= d)%nat -> (0 < d)%nat ->
              exc_in 0 1 (Ret (np_div (Qofnat (ngood t L)) (Qofnat d)))).
  { intros d Hd Pd. apply np_div_in_unit.
    - apply Qofnat_nonneg.
    - unfold Qofnat. rewrite <- Zle_Qle. lia.
    - apply Qofnat_pos. exact Pd. }
  destruct k as [n|]; cbn [recall_denom].
  - rewrite OK. subst L. cbn [topk] in *. apply B.
    + rewrite firstn_length in G1. lia.
    + assert (n <> 0%nat) by congruence. lia.
  - subst L. cbn [topk] in *. apply B; lia.
Qed.

(* ---- DCG: the ideal is an upper bound ---- *)
Lemma ideal_gains_bound disc k t L :
  disc_mono disc -> nonneg_gains t -> NoDup L -> valid_k k ->
  (match k with Some n => length L <= n | None => True end)%nat ->
  dcg_of disc (scores_graded t L) <= dcg_of disc (ideal_gains k (map snd (tl_items t))).
Proof.
  intros DM NN ND VK Len. unfold dcg_of. rewrite !ranksum_wsum.
  set (S0 := sort_desc (map snd (tl_items t))).
  assert (W : forall n, (length L <= n)%nat ->
     wsum (dweight disc) 1 (scores_graded t L) <= wsum (dweight disc) 1 (firstn n S0)).
  { intros n Hn. apply weighted_gain_bound; try assumption.
    - apply dweight_nonneg. - apply dweight_noninc, DM. }
  unfold ideal_gains. fold S0. destruct k as [n|].
  - destruct (Nat.eqb_spec n 0) as [->|Hn]; [exfalso; apply VK; reflexivity|]. apply W, Len.
  - specialize (W (length L + length S0)%nat ltac:(lia)). rewrite firstn_all2 in W by lia. exact W.
Qed.

Lemma ideal_pos disc k t :
  nonneg_gains t -> valid_k k -> (exists e, In e (tl_items t) /\ 0 < snd e) ->
  0 < dcg_of disc (ideal_gains k (map snd (tl_items t))).
Proof.
  intros NN VK (e & He & Pe). unfold dcg_of. rewrite ranksum_wsum.
  set (S0 := sort_desc (map snd (tl_items t))).
  assert (NS : forall x, In x S0 -> 0 <= x) by (apply sorted_gains_nonneg, NN).
  assert (InS : In (snd e) S0) by (apply In_sort_desc, in_map, He).
  pose proof (sort_desc_desc (map snd (tl_items t))) as D. fold S0 in D.
  assert (H : forall l, (l = S0 \/ exists n, n <> 0%nat /\ l = firstn n S0) -> 0 < wsum (dweight disc) 1 l).
  { intros l Hl. destruct S0 as [|h S'] eqn:ES; [contradiction|].
    assert (Hh : 0 < h).
    { apply StronglySorted_inv in D. destruct D as [_ F]. destruct InS as [E0|I]; [rewrite E0; exact Pe|].
      rewrite Forall_forall in F. specialize (F _ I). unfold Qge' in F. lra. }
    assert (P : forall rest, (forall x, In x rest -> 0 <= x) -> 0 < wsum (dweight disc) 1 (h :: rest)).
    { intros rest Hr. cbn [wsum]. pose proof (wsum_nonneg (dweight disc) 2 rest (dweight_nonneg disc) Hr).
      pose proof (dweight_pos disc 1). pose proof (Qmult_lt_0_compat h (dweight disc 1) Hh H0). lra. }
    destruct Hl as [->|(n & Hn & ->)].
    - apply P. intros x Hx. apply NS. right. exact Hx.
    - destruct n as [|n]; [contradiction|]. cbn [firstn]. apply P.
      intros x Hx. apply NS. right. eapply In_firstn; eauto. }
  apply H. unfold ideal_gains. fold S0. destruct k as [n|]; [|left; reflexivity].
  destruct (Nat.eqb_spec n 0) as [->|Hn]; [exfalso; apply VK; reflexivity|].
  right. exists n. split; [exact Hn|reflexivity].
Qed.

Lemma dcg_nonneg disc t L : nonneg_gains t -> 0 <= dcg_of disc (scores_graded t L).
Proof.
  intro NN. unfold dcg_of. rewrite ranksum_wsum. apply wsum_nonneg; [apply dweight_nonneg|].
  apply scores_graded_nonneg, NN.
Qed.

Lemma topk_len_ok k l : (match k with Some n => length (topk k l) <= n | None => True end)%nat.
Proof. destruct k; [apply topk_length_le|exact I]. Qed.

Lemma ndcg_graded_in_unit disc k recs t :
  trunc_ok k recs = true -> NoDup (il_ids recs) -> tl_has_gain t = true -> nonneg_gains t ->
  disc_mono disc -> valid_k k -> (exists e, In e (tl_items t) /\ 0 < snd e) ->
  exc_in 0 1 (ndcg_model disc true k recs t).
Proof.
  intros OK ND HG NN DM VK PG. unfold ndcg_model.
  assert (E : forall f, with_topk k recs f = f (topk k (il_ids recs))).
  { intro f. unfold with_topk, trunc_ok in *. destruct k; [rewrite OK|]; reflexivity. }
  rewrite E, HG. apply np_div_in_unit.
  - apply dcg_nonneg, NN.
  - apply ideal_gains_bound; try assumption; [apply topk_NoDup, ND|apply topk_len_ok].
  - apply ideal_pos; assumption.
Qed.

(* ---- binary metrics are the graded ones on unit gains ---- *)
Lemma dcg_of_repeat_1 disc c : dcg_of disc (repeat 1 c) == bigsum 1 c (dweight disc).
Proof. unfold dcg_of. rewrite ranksum_wsum. apply wsum_repeat_1. Qed.

Lemma ideal_gains_ones k m : ideal_gains k (repeat 1 m) = repeat 1 (ideal_count k m).
Proof.
  unfold ideal_gains, ideal_count. rewrite sort_desc_repeat. destruct k as [n|]; [|reflexivity].
  destruct (Nat.eqb n 0); [reflexivity|]. apply firstn_repeat.
Qed.

Lemma res_eq_np_div_r a b b' : b == b' -> res_eq (np_div a b) (np_div a b').
Proof.
  intro Hb. unfold np_div.
  destruct (Qeq_bool b 0) eqn:E; destruct (Qeq_bool b' 0) eqn:E'; cbn; auto.
  - apply Qeq_bool_iff in E. apply Qeq_bool_neq in E'. apply E'. rewrite <- Hb. exact E.
  - apply Qeq_bool_iff in E'. apply Qeq_bool_neq in E. apply E. rewrite Hb. exact E'.
  - rewrite Hb. reflexivity.
Qed.

Lemma ndcg_binary_as_graded disc k recs t :
  exc_eq (ndcg_model disc false k recs t) (ndcg_model disc true k recs (ones t)).
Proof.
  unfold ndcg_model, with_topk.
  assert (B : forall L, exc_eq
    (Ret (np_div (dcg_of disc (scores_binary t L)) (bigsum 1 (ideal_count k (tl_len t)) (dweight disc))))
    (if tl_has_gain (ones t)
     then Ret (np_div (dcg_of disc (scores_graded (ones t) L))
                 (dcg_of disc (ideal_gains k (map snd (tl_items (ones t))))))
     else Raise EKey)).
  { intro L. cbn [ones tl_has_gain]. cbn [exc_eq]. rewrite scores_binary_graded.
    apply res_eq_np_div_r. rewrite gains_ones, ideal_gains_ones, dcg_of_repeat_1. reflexivity. }
  destruct k as [n|]; [destruct (il_ordered recs); [apply B|reflexivity]|apply B].
Qed.

Lemma dcg_binary_as_graded disc k recs t :
  dcg_model disc false k recs t = dcg_model disc true k recs (ones t).
Proof.
  unfold dcg_model, with_topk. cbn [ones tl_has_gain].
  destruct k as [n|]; [destruct (il_ordered recs)|]; try reflexivity; rewrite scores_binary_graded; reflexivity.
Qed.

Lemma ndcg_binary_in_unit disc k recs t :
  trunc_ok k recs = true -> NoDup (il_ids recs) -> tl_len t <> 0%nat -> disc_mono disc -> valid_k k ->
  exc_in 0 1 (ndcg_model disc false k recs t).
Proof.
  intros OK ND NE DM VK. eapply exc_in_eq; [apply ndcg_binary_as_graded|].
  apply (ndcg_graded_in_unit disc k recs (ones t) OK ND eq_refl (ones_nonneg t) DM VK).
  unfold tl_len in NE. unfold ones, tl_ids. cbn. destruct (tl_items t) as [|e l]; [contradiction|].
  exists (fst e, 1). split; [left; reflexivity|cbn; lra].
Qed.

(* ---- normalised RBP ---- *)
Lemma rbp_sum_wsum g t L : rbp_sum g t L == wsum (pw g) 1 (scores_graded (ones t) L).
Proof. unfold rbp_sum. rewrite ranksum_wsum. fold (scores_binary t L). rewrite scores_binary_graded. reflexivity. Qed.

Lemma rbp_max_wsum g t L :
  rbp_max g t L == wsum (pw g) 1 (firstn (length L) (sort_desc (map snd (tl_items (ones t))))).
Proof.
  unfold rbp_max. rewrite gains_ones, sort_desc_repeat, firstn_repeat, wsum_repeat_1.
  rewrite Nat.min_comm. reflexivity.
Qed.

Lemma rbp_sum_le_max g t L : 0 <= g -> g <= 1 -> NoDup L -> rbp_sum g t L <= rbp_max g t L.
Proof.
  intros G0 G1 ND. rewrite rbp_sum_wsum, rbp_max_wsum.
  apply weighted_gain_bound; try assumption; try lia.
  - intro r. apply pw_nonneg, G0.
  - apply pw_noninc; assumption.
  - apply ones_nonneg.
Qed.

Lemma rbp_sum_nonneg g t L : 0 <= g -> 0 <= rbp_sum g t L.
Proof.
  intro G0. rewrite rbp_sum_wsum. apply wsum_nonneg; [intro r; apply pw_nonneg, G0|].
  apply scores_graded_nonneg, ones_nonneg.
Qed.

Lemma rbp_max_pos g t L : 0 <= g -> tl_len t <> 0%nat -> L <> [] -> 0 < rbp_max g t L.
Proof.
  intros G0 NE NL. unfold rbp_max.
  destruct (Nat.min (tl_len t) (length L)) as [|c] eqn:E.
  - destruct L; [contradiction|]. cbn [length] in E. lia.
  - rewrite bigsum_S. pose proof (bigsum_nonneg 2 c (pw g) (fun i => pw_nonneg g i G0)).
    setoid_replace (pw g 1) with 1 by reflexivity. lra.
Qed.

Lemma rbp_norm_in_unit g k recs t :
  trunc_ok k recs = true -> NoDup (il_ids recs) -> tl_len t <> 0%nat -> 0 <= g -> g <= 1 ->
  topk k (il_ids recs) <> [] ->
  exc_in 0 1 (rbp_model g true k recs t).
Proof.
  intros OK ND NE G0 G1 NL. unfold rbp_model.
  assert (E : forall f, with_topk k recs f = f (topk k (il_ids recs))).
  { intro f. unfold with_topk, trunc_ok in *. destruct k; [rewrite OK|]; reflexivity. }
  rewrite E. destruct (Nat.eqb_spec (tl_len t) 0) as [Z0|_]; [contradiction|].
  apply np_div_in_unit.
  - apply rbp_sum_nonneg, G0.
  - apply rbp_sum_le_max; try assumption. apply topk_NoDup, ND.
  - apply rbp_max_pos; assumption.
Qed.
