(* C16 -- the representation invariant of an item list and its preservation by the constructor. *)
From Coq Require Import ZArith List Bool Arith Lia.
From LK Require Import Model.C16_itemlist Proofs.C16_base.
Import ListNotations.
Open Scope Z_scope.

Definition env_ok (env : envt) : Prop := Forall (@NoDup Z) env.
Definition nonull (vs : list val) : Prop := Forall (fun v => v <> VNull) vs.

Record wf (env : envt) (l : ilist) : Prop := mk_wf {
  wf_ids : forall i, ids l = Some i -> length i = len l;
  wf_nums : forall n, nums l = Some n -> length n = len l;
  wf_some : ids l <> None \/ nums l <> None;
  wf_fields : Forall (fun f => length (snd f) = len l /\ nonull (snd f)) (fields l);
  wf_norank : lookup F_RANK (fields l) = None;          (* ranks are never stored as a field *)
  wf_keys : NoDup (map fst (fields l));                 (* _fields is a dictionary *)
  wf_ranks : forall r, ranks l = Some r -> r = seq1 (len l);
  wf_corr : forall i n v, ids l = Some i -> nums l = Some n -> vocab l = Some v -> n = vnums (venv env v) i
}.

(* what a caller owes: arrays are real arrays (a 1-D shape [n] has n entries), identifiers and
   numbers given together agree with the vocabulary in force, a vocabulary attached to a list that
   was built from both without one agrees with them, a supplied rank column is 1..n *)
Definition arr_wf (x : arr) : Prop := forall n, a_shape x = [n] -> length (a_data x) = n.
Definition zarr_wf (z : zarr) : Prop := forall n, z_shape z = [n] -> length (z_data z) = n.
Definition farg_wf (d : farg) : Prop := match d with FArr x => arr_wf x | FFalse => True end.

Record args_ok (env : envt) (src : option ilist) (a : cargs) : Prop := mk_args_ok {
  ao_ids : forall z, c_ids a = Some z -> zarr_wf z;
  ao_nums : forall z, c_nums a = Some z -> zarr_wf z;
  ao_fields : Forall (fun f => farg_wf (snd f)) (c_fields a);
  ao_keys : NoDup (map fst (c_fields a));               (* keyword arguments have distinct names *)
  ao_scores : forall x, c_scores a = SArr x -> arr_wf x;
  ao_both : forall zi zn v, c_ids a = Some zi -> c_nums a = Some zn -> vocab0 src a = Some v ->
            z_data zn = vnums (venv env v) (z_data zi);
  ao_attach : forall s v i n, src = Some s -> vocab s = None -> c_vocab a = Some v ->
              c_ids a = None -> c_nums a = None -> ids s = Some i -> nums s = Some n ->
              n = vnums (venv env v) i;
  ao_rank : forall x n, lookup F_RANK (c_fields a) = Some (FArr x) -> a_shape x = [n] ->
            map val_Z (a_data x) = seq1 n
}.

Lemma np1_wf vs : arr_wf (np1 vs).
Proof. intros n H. cbn in H. injection H as <-. reflexivity. Qed.
Lemma znp1_wf zs : zarr_wf (znp1 zs).
Proof. intros n H. cbn in H. injection H as <-. reflexivity. Qed.

Lemma to_np_nonull vs : nonull (map to_np vs).
Proof. unfold nonull. apply Forall_forall. intros v H. apply in_map_iff in H. destruct H as [w [<- _]]. destruct w; discriminate. Qed.
Lemma to_np_id vs : nonull vs -> map to_np vs = vs.
Proof.
  induction 1 as [|v r Hv Hr IH]; cbn [map]; [reflexivity|]. rewrite IH. destruct v; try reflexivity. congruence.
Qed.
Lemma pick_nonull sigma vs : nonull vs -> nonull (pick VNaN sigma vs).
Proof.
  intro H. unfold nonull, pick. apply Forall_forall. intros v Hv. apply in_map_iff in Hv. destruct Hv as [k [<- _]].
  destruct (nth_in_or_default k vs VNaN) as [I|E]; [|rewrite E; discriminate].
  unfold nonull in H. rewrite Forall_forall in H. apply H. exact I.
Qed.

(* ---------------------------------------------------------------- identifiers and numbers *)
Lemma ids_len_data z n : zarr_wf z -> ids_len z = Ok n -> length (if (n =? 0)%nat then [] else z_data z) = n.
Proof.
  unfold ids_len. intros W.
  destruct (z_shape z) as [|m r] eqn:HS; cbn beta iota; [discriminate|].
  destruct m as [|m']; cbn beta iota.
  - intro E. injection E as <-. reflexivity.
  - destruct r; [|discriminate]. destruct (z_badtype z); [discriminate|].
    intro E. injection E as <-. cbn [Nat.eqb]. apply W. exact HS.
Qed.

Lemma nums_len_data z known n : zarr_wf z -> nums_len z known = Ok n ->
  length (if (n =? 0)%nat then [] else z_data z) = n /\ (forall m, known = Some m -> n = m).
Proof.
  unfold nums_len. intros W. destruct (z_shape z) as [|m r] eqn:HS; cbn beta iota; [discriminate|].
  destruct m as [|m]; cbn beta iota.
  - destruct (check_1d [0%nat] known) eqn:C; [|discriminate]. intro E. injection E as <-.
    split; [reflexivity|]. intros k ->. apply check_1d_some in C. congruence.
  - destruct (check_1d (S m :: r) known) eqn:C; [|discriminate]. intro E. injection E as <-.
    split.
    + cbn [Nat.eqb]. destruct known as [k|].
      * apply check_1d_some in C. injection C as E1 E2. subst r. apply W. exact HS.
      * cbn [check_1d] in C. destruct r; [apply W; exact HS|]. cbn in C. discriminate.
    + intros k ->. apply check_1d_some in C. congruence.
Qed.

(* the state after the item_ids and item_nums blocks *)
Definition st_ok (env : envt) (src : option ilist) (a : cargs) (st : st1) : Prop :=
  exists n, snd st = Some n /\
    (forall i, fst (fst st) = Some i -> length i = n) /\
    (forall m, snd (fst st) = Some m -> length m = n) /\
    (fst (fst st) <> None \/ snd (fst st) <> None) /\
    (forall s, src = Some s -> c_ids a = None -> n = len s) /\
    (forall i m, fst (fst st) = Some i -> snd (fst st) = Some m ->
       (forall v, vocab0 src a = Some v -> m = vnums (venv env v) i) \/
       (c_ids a = None /\ c_nums a = None /\ exists s, src = Some s /\ ids s = Some i /\ nums s = Some m)).

Lemma base_state_src s a : base_state (Some s) a = (ids s, nums s, Some (len s)).
Proof. reflexivity. Qed.
Lemma base_state_none a :
  base_state None a = if is_some (c_ids a) || is_some (c_nums a) then (None, None, None) else (Some [], Some [], Some 0%nat).
Proof. unfold base_state, empty_call. destruct (c_ids a), (c_nums a); reflexivity. Qed.

Lemma steps_ok env src a s1 s2 :
  (forall s, src = Some s -> wf env s) -> args_ok env src a ->
  ids_step src a (base_state src a) = Ok s1 -> nums_step src a s1 = Ok s2 -> st_ok env src a s2.
Proof.
  intros Wsrc AO. unfold ids_step, nums_step.
  destruct (c_ids a) as [zi|] eqn:CI; destruct (c_nums a) as [zn|] eqn:CN.
  - (* both given *)
    destruct (ids_len zi) as [ni|] eqn:LI; cbn [bind]; [|discriminate].
    intro E1. injection E1 as <-. cbn [fst snd].
    destruct (nums_len zn (Some ni)) as [nn|] eqn:LN; cbn [bind]; [|discriminate].
    intro E2. injection E2 as <-. cbn [fst snd is_some negb andb].
    rewrite andb_false_r.
    pose proof (ids_len_data zi ni (ao_ids _ _ _ AO zi CI) LI) as DI.
    destruct (nums_len_data zn (Some ni) nn (ao_nums _ _ _ AO zn CN) LN) as [DN EQ].
    specialize (EQ ni eq_refl). subst nn.
    exists ni. cbn [fst snd]. split; [reflexivity|]. split; [intros i E; injection E as <-; exact DI|].
    split; [intros m E; injection E as <-; exact DN|]. split; [left; discriminate|].
    split; [intros s _ Hc; congruence|].
    intros i m Ei Em. injection Ei as <-. injection Em as <-. left. intros v Hv.
    destruct (Nat.eqb_spec ni 0); [reflexivity|]. apply (ao_both _ _ _ AO zi zn v CI CN Hv).
  - (* identifiers only *)
    destruct (ids_len zi) as [ni|] eqn:LI; cbn [bind]; [|discriminate].
    intro E1. injection E1 as <-. intro E2. injection E2 as <-.
    pose proof (ids_len_data zi ni (ao_ids _ _ _ AO zi CI) LI) as DI.
    assert (NN : (if is_some (src_of src nums) then None else snd (fst (base_state src a))) = @None (list Z)).
    { destruct src as [s|]; cbn [src_of is_some].
      - rewrite base_state_src. cbn [fst snd]. destruct (nums s); reflexivity.
      - rewrite base_state_none, CI. reflexivity. }
    rewrite NN. exists ni. cbn [fst snd]. split; [reflexivity|].
    split; [intros i E; injection E as <-; exact DI|]. split; [intros m E; discriminate|].
    split; [left; discriminate|]. split; [intros s _ Hc; congruence|].
    intros i m _ Em. discriminate.
  - (* numbers only *)
    intro E1. injection E1 as <-.
    destruct (nums_len zn (snd (base_state src a))) as [nn|] eqn:LN; cbn [bind]; [|discriminate].
    intro E2. injection E2 as <-. cbn [is_some negb andb]. rewrite andb_true_r.
    destruct (nums_len_data zn _ nn (ao_nums _ _ _ AO zn CN) LN) as [DN EQ].
    assert (II : (if is_some (src_of src ids) then None else fst (fst (base_state src a))) = @None (list Z)).
    { destruct src as [s|]; cbn [src_of is_some].
      - rewrite base_state_src. cbn [fst snd]. destruct (ids s); reflexivity.
      - rewrite base_state_none, CI, CN. reflexivity. }
    rewrite II. exists nn. cbn [fst snd]. split; [reflexivity|].
    split; [intros i E; discriminate|]. split; [intros m E; injection E as <-; exact DN|].
    split; [right; discriminate|].
    split; [intros s -> _; apply EQ; reflexivity|].
    intros i m Ei. discriminate.
  - (* neither *)
    intro E1. injection E1 as <-. intro E2. injection E2 as <-.
    destruct src as [s|].
    + specialize (Wsrc s eq_refl). rewrite base_state_src. cbn [fst snd].
      exists (len s). split; [reflexivity|]. split; [apply (wf_ids _ _ Wsrc)|]. split; [apply (wf_nums _ _ Wsrc)|].
      split; [apply (wf_some _ _ Wsrc)|]. split; [intros s' E _; injection E as <-; reflexivity|].
      intros i m Ei Em. right. split; [exact CI|]. split; [exact CN|]. exists s. auto.
    + rewrite base_state_none, CI, CN. cbn [is_some orb fst snd]. exists 0%nat. split; [reflexivity|].
      split; [intros i E; injection E as <-; reflexivity|]. split; [intros i E; injection E as <-; reflexivity|].
      split; [left; discriminate|]. split; [intros s E; discriminate|].
      intros i m Ei Em. injection Ei as <-. injection Em as <-. left. intros v _. reflexivity.
Qed.

Lemma phase1_ok env src a k :
  env_ok env -> (forall s, src = Some s -> wf env s) -> args_ok env src a -> phase1 env src a = Ok k ->
  (forall i, k_ids k = Some i -> length i = k_len k) /\
  (forall n, k_nums k = Some n -> length n = k_len k) /\
  (k_ids k <> None \/ k_nums k <> None) /\
  (forall r, k_ranks k = Some r -> r = seq1 (k_len k)) /\
  (forall i n v, k_ids k = Some i -> k_nums k = Some n -> vocab0 src a = Some v -> n = vnums (venv env v) i).
Proof.
  intros EO Wsrc AO. unfold phase1.
  destruct (ids_step src a (base_state src a)) as [s1|] eqn:S1; cbn [bind]; [|discriminate].
  destruct (nums_step src a s1) as [s2|] eqn:S2; cbn [bind]; [|discriminate].
  destruct (steps_ok env src a s1 s2 Wsrc AO S1 S2) as [n [Hn [Hi [Hm [Hs [Hl Hc]]]]]].
  destruct s2 as [[i2 n2] l2]. cbn [fst snd] in *. subst l2.
  destruct (vocab_step env src a i2 n2) as [[i3 n3]|] eqn:S3; cbn [bind]; [|discriminate].
  intro E. injection E as <-. cbn [k_len k_ids k_nums k_ranks fst snd].
  (* ranks *)
  assert (HR : forall r, ranks_step src n = Some r -> r = seq1 n).
  { unfold ranks_step. destruct src as [s|]; [|discriminate]. intros r.
    destruct (ranks s) as [r0|] eqn:R; cbn [is_some andb]; [|discriminate].
    destruct (Nat.eqb_spec n (len s)) as [E|E]; cbn [negb]; [|discriminate].
    intro H. injection H as <-. rewrite E. apply (wf_ranks _ _ (Wsrc s eq_refl)). exact R. }
  (* vocabulary step *)
  unfold vocab_step in S3.
  assert (KEEP : (i3, n3) = (i2, n2) ->
     (forall i, i3 = Some i -> length i = n) /\ (forall m, n3 = Some m -> length m = n) /\ (i3 <> None \/ n3 <> None)).
  { intro E. injection E as -> ->. auto. }
  destruct src as [s|].
  2:{ injection S3 as <- <-. destruct (KEEP eq_refl) as [A [B C]]. repeat split; auto.
      intros i m v Ei Em Hv. destruct (Hc i m Ei Em) as [H|[_ [_ [s [Hs' _]]]]]; [auto|discriminate]. }
  pose proof (Wsrc s eq_refl) as Ws.
  destruct (c_vocab a) as [v'|] eqn:CV.
  2:{ injection S3 as <- <-. destruct (KEEP eq_refl) as [A [B C]]. repeat split; auto.
      intros i m v Ei Em Hv. destruct (Hc i m Ei Em) as [H|[_ [_ [s' [Hs' [Hi' Hm']]]]]]; [auto|].
      injection Hs' as <-. unfold vocab0 in Hv. rewrite CV in Hv. cbn [src_of] in Hv.
      apply (wf_corr _ _ Ws i m v Hi' Hm' Hv). }
  destruct (vocab s) as [v0|] eqn:VS.
  2:{ injection S3 as <- <-. destruct (KEEP eq_refl) as [A [B C]]. repeat split; auto.
      intros i m v Ei Em Hv. destruct (Hc i m Ei Em) as [H|[CI [CN [s' [Hs' [Hi' Hm']]]]]]; [auto|].
      injection Hs' as <-. unfold vocab0 in Hv. rewrite CV in Hv. injection Hv as <-.
      apply (ao_attach _ _ _ AO s v' i m eq_refl VS CV CI CN Hi' Hm'). }
  destruct (negb (v' =? v0)%nat && negb (is_some (c_ids a)) && negb (is_some (c_nums a))) eqn:TR.
  - (* replaced: identifiers kept, numbers dropped *)
    apply andb_true_iff in TR. destruct TR as [TR CN]. apply andb_true_iff in TR. destruct TR as [_ CI].
    destruct (c_ids a) eqn:CI'; [discriminate|]. destruct (c_nums a) eqn:CN'; [discriminate|].
    specialize (Hl s eq_refl eq_refl).
    destruct i2 as [i|].
    + injection S3 as <- <-. repeat split; auto; try discriminate. left; discriminate.
    + destruct (nums s) as [ns|] eqn:NS; [|discriminate].
      destruct (vids (venv env v0) ns) as [i|] eqn:VI; cbn [bind] in S3; [|discriminate].
      injection S3 as <- <-. repeat split; auto; try discriminate.
      * intros i' E. injection E as <-. rewrite (vids_length _ _ _ VI), Hl. apply (wf_nums _ _ Ws). exact NS.
      * left; discriminate.
  - injection S3 as <- <-. destruct (KEEP eq_refl) as [A [B C]]. repeat split; auto.
    intros i m v Ei Em Hv. destruct (Hc i m Ei Em) as [H|[CI [CN [s' [Hs' [Hi' Hm']]]]]]; [auto|].
    injection Hs' as <-. unfold vocab0 in Hv. rewrite CV in Hv. injection Hv as <-.
    rewrite CI, CN in TR. cbn [is_some negb andb] in TR. rewrite !andb_true_r in TR.
    apply negb_false_iff in TR. apply Nat.eqb_eq in TR. subst v0.
    apply (wf_corr _ _ Ws i m v' Hi' Hm' VS).
Qed.

(* ---------------------------------------------------------------- fields *)
Definition fentry_ok (n : nat) (f : fname * list val) : Prop := length (snd f) = n /\ nonull (snd f).

Lemma other_fields_ok n eff fs :
  Forall (fun f => farg_wf (snd f)) eff -> other_fields n eff = Ok fs -> Forall (fentry_ok n) fs.
Proof.
  intro W. revert fs. induction W as [|[f d] r Hd Hr IH]; intros fs; cbn [other_fields].
  - intro E. injection E as <-. constructor.
  - destruct (Nat.eqb f F_SCORE || Nat.eqb f F_RANK); [apply IH|].
    destruct d as [|x]; [apply IH|].
    destruct (array_is_null x); [apply IH|].
    destruct (check_1d (a_shape x) (Some n)) eqn:C; [|discriminate].
    destruct (other_fields n r) as [rest|]; cbn [bind]; [|discriminate].
    intro E. injection E as <-. constructor; [|apply IH; reflexivity].
    split; cbn [snd]; [|apply to_np_nonull]. rewrite map_length. apply Hd. apply check_1d_some. exact C.
Qed.

Lemma other_fields_norank n eff fs : other_fields n eff = Ok fs -> lookup F_RANK fs = None.
Proof.
  revert fs. induction eff as [|[f d] r IH]; intros fs; cbn [other_fields].
  - intro E. injection E as <-. reflexivity.
  - destruct (Nat.eqb f F_SCORE || Nat.eqb f F_RANK) eqn:K; [apply IH|].
    destruct d as [|x]; [apply IH|].
    destruct (array_is_null x); [apply IH|].
    destruct (check_1d (a_shape x) (Some n)); [|discriminate].
    destruct (other_fields n r) as [rest|]; cbn [bind]; [|discriminate].
    intro E. injection E as <-. cbn [lookup]. apply orb_false_iff in K. destruct K as [_ K].
    rewrite Nat.eqb_sym, K. apply IH. reflexivity.
Qed.

(* the kept fields are a sub-dictionary of the effective ones, without score and rank *)
Lemma other_fields_keys n eff fs : other_fields n eff = Ok fs ->
  (forall f, In f (map fst fs) -> In f (map fst eff) /\ f <> F_SCORE /\ f <> F_RANK) /\
  (NoDup (map fst eff) -> NoDup (map fst fs)).
Proof.
  revert fs. induction eff as [|[f d] r IH]; intros fs; cbn [other_fields].
  - intro E. injection E as <-. split; [intros f []|intros _; constructor].
  - assert (SKIP : other_fields n r = Ok fs ->
       (forall f0, In f0 (map fst fs) -> In f0 (map fst ((f, d) :: r)) /\ f0 <> F_SCORE /\ f0 <> F_RANK) /\
       (NoDup (map fst ((f, d) :: r)) -> NoDup (map fst fs))).
    { intro E. destruct (IH _ E) as [A B]. split.
      - intros f0 I. destruct (A f0 I) as [A1 A2]. split; [right; exact A1|exact A2].
      - cbn [map fst]. intro ND. apply NoDup_cons_iff in ND. apply B. apply ND. }
    destruct (Nat.eqb f F_SCORE || Nat.eqb f F_RANK) eqn:K; [exact SKIP|].
    destruct d as [|x]; [exact SKIP|].
    destruct (array_is_null x); [exact SKIP|].
    destruct (check_1d (a_shape x) (Some n)); [|discriminate].
    destruct (other_fields n r) as [rest|]; cbn [bind]; [|discriminate].
    intro E. injection E as <-. destruct (IH _ eq_refl) as [A B]. cbn [map fst].
    apply orb_false_iff in K. destruct K as [K1 K2]. apply Nat.eqb_neq in K1. apply Nat.eqb_neq in K2.
    split.
    + intros f0 [<-|I]; [split; [left; reflexivity|split; assumption]|].
      destruct (A f0 I) as [A1 A2]. split; [right; exact A1|exact A2].
    + intro ND. apply NoDup_cons_iff in ND. destruct ND as [NI ND]. constructor; [|apply B; exact ND].
      intro I. apply NI. apply (A f I).
Qed.

Lemma eff_fields_keys env src a :
  (forall s, src = Some s -> wf env s) -> args_ok env src a -> NoDup (map fst (eff_fields src a)).
Proof.
  intros Wsrc AO. unfold eff_fields. destruct src as [s|]; [|apply (ao_keys _ _ _ AO)].
  apply dict_union_nodup. rewrite map_map. cbn [fst]. apply (wf_keys _ _ (Wsrc s eq_refl)).
Qed.

Lemma score_field_keys n sc scf : score_field n sc = Ok scf -> scf = [] \/ exists d, scf = [(F_SCORE, d)].
Proof.
  unfold score_field. destruct sc as [[sh d]|]; [destruct (check_1d sh (Some n)); [|discriminate]|];
    intro E; injection E as <-; [right; eexists; reflexivity|left; reflexivity].
Qed.

Lemma score_field_norank n sc scf : score_field n sc = Ok scf -> lookup F_RANK scf = None.
Proof.
  unfold score_field. destruct sc as [[sh d]|]; [destruct (check_1d sh (Some n)); [|discriminate]|];
    intro E; injection E as <-; reflexivity.
Qed.

Lemma eff_fields_wf env src a :
  (forall s, src = Some s -> wf env s) -> args_ok env src a -> Forall (fun f => farg_wf (snd f)) (eff_fields src a).
Proof.
  intros Wsrc AO. unfold eff_fields. destruct src as [s|]; [|apply (ao_fields _ _ _ AO)].
  apply dict_union_forall; [|apply (ao_fields _ _ _ AO)].
  apply Forall_forall. intros f Hf. apply in_map_iff in Hf. destruct Hf as [g [<- _]]. cbn [snd farg_wf]. apply np1_wf.
Qed.

Lemma score_ok n eff a sc scf :
  Forall (fun f => farg_wf (snd f)) eff -> (forall x, c_scores a = SArr x -> arr_wf x) ->
  score_arr n eff a = Ok sc -> score_field n sc = Ok scf -> Forall (fentry_ok n) scf.
Proof.
  intros We Ws. unfold score_arr, score_field.
  destruct (c_scores a) as [| |v|x] eqn:CS.
  - destruct (lookup F_SCORE eff) as [[|x]|] eqn:L.
    + intro E. injection E as <-. cbn [check_1d]. unfold shape_eqb. destruct (list_eq_dec Nat.eq_dec [] [n]); [discriminate|]. discriminate.
    + intro E. injection E as <-. destruct (check_1d (a_shape x) (Some n)) eqn:C; [|discriminate].
      intro E. injection E as <-. constructor; [|constructor]. split; cbn [snd]; [|apply to_np_nonull].
      rewrite map_length. apply lookup_in in L. rewrite Forall_forall in We. apply (We _ L). apply check_1d_some. exact C.
    + intro E. injection E as <-. intro E. injection E as <-. constructor.
  - intro E. injection E as <-. intro E. injection E as <-. constructor.
  - destruct (has_key F_SCORE (c_fields a)); [discriminate|]. intro E. injection E as <-.
    destruct (check_1d [n] (Some n)); [|discriminate]. intro E. injection E as <-.
    constructor; [|constructor]. split; cbn [snd]; [apply repeat_length|].
    unfold nonull. apply Forall_forall. intros w Hw. apply repeat_spec in Hw. subst w. destruct v; discriminate.
  - destruct (has_key F_SCORE (c_fields a)); [discriminate|]. intro E. injection E as <-.
    destruct (check_1d (a_shape x) (Some n)) eqn:C; [|discriminate]. intro E. injection E as <-.
    constructor; [|constructor]. split; cbn [snd]; [|apply to_np_nonull].
    rewrite map_length. apply (Ws x eq_refl). apply check_1d_some. exact C.
Qed.

Lemma rank_phase_ok a ord0 r0 n rk :
  (forall x m, lookup F_RANK (c_fields a) = Some (FArr x) -> a_shape x = [m] -> map val_Z (a_data x) = seq1 m) ->
  (forall r, r0 = Some r -> r = seq1 n) ->
  rank_phase a ord0 r0 n = Ok rk -> forall r, snd rk = Some r -> r = seq1 n.
Proof.
  intros AR H0. unfold rank_phase.
  destruct (lookup F_RANK (c_fields a)) as [d|] eqn:L.
  2:{ intro E. injection E as <-. exact H0. }
  assert (G : match d with
              | FFalse => Err EType
              | FArr x => if check_1d (a_shape x) (Some n) then Ok (true, Some (map val_Z (a_data x))) else Err EType
              end = Ok rk -> forall r, snd rk = Some r -> r = seq1 n).
  { destruct d as [|x]; [discriminate|]. destruct (check_1d (a_shape x) (Some n)) eqn:C; [|discriminate].
    intro E. injection E as <-. cbn [snd]. intros r E. injection E as <-. apply (AR x n eq_refl). apply check_1d_some. exact C. }
  destruct (c_ordered a) as [[|]|]; try exact G.
  intro E. injection E as <-. exact H0.
Qed.

(* ---------------------------------------------------------------- the constructor keeps the invariant *)
Theorem construct_wf env src a l :
  env_ok env -> (forall s, src = Some s -> wf env s) -> args_ok env src a ->
  construct env src a = Ok l -> wf env l.
Proof.
  intros EO Wsrc AO. unfold construct.
  destruct (phase1 env src a) as [k|] eqn:P1; cbn [bind]; [|discriminate].
  destruct (score_arr (k_len k) (eff_fields src a) a) as [sc|] eqn:SC; cbn [bind]; [|discriminate].
  destruct (rank_phase a (ordered0 src a) (k_ranks k) (k_len k)) as [rk|] eqn:RK; cbn [bind]; [|discriminate].
  destruct (score_field (k_len k) sc) as [scf|] eqn:SF; cbn [bind]; [|discriminate].
  destruct (other_fields (k_len k) (eff_fields src a)) as [others|] eqn:OF; cbn [bind]; [|discriminate].
  intro E. injection E as <-.
  destruct (phase1_ok env src a k EO Wsrc AO P1) as [Hi [Hn [Hs [Hr Hc]]]].
  pose proof (eff_fields_wf env src a Wsrc AO) as We.
  constructor; cbn [len ids nums vocab ordered ranks fields]; auto.
  - apply Forall_app. split.
    + apply (score_ok _ _ _ _ _ We (ao_scores _ _ _ AO) SC SF).
    + apply (other_fields_ok _ _ _ We OF).
  - rewrite lookup_app, (score_field_norank _ _ _ SF). apply (other_fields_norank _ _ _ OF).
  - destruct (other_fields_keys _ _ _ OF) as [KA KB]. specialize (KB (eff_fields_keys env src a Wsrc AO)).
    destruct (score_field_keys _ _ _ SF) as [->|[d ->]]; cbn [app map fst]; [exact KB|].
    constructor; [|exact KB]. intro I. destruct (KA _ I) as [_ [NS _]]. congruence.
  - apply (rank_phase_ok _ _ _ _ _ (ao_rank _ _ _ AO) Hr RK).
Qed.
