(* C01 -- missing attribute values, per-record presence of attributes in the statistics, rational time bounds. *)
From Coq Require Import ZArith QArith Qround List Bool Arith Lia Sorting.Permutation.
From LK Require Import Model.C01_dataset Proofs.C01_vocab Proofs.C01_refine1 Proofs.C01_refine2 Proofs.C01_views Proofs.C01_main.
Import ListNotations.
Open Scope Z_scope.

(* ---- the time window on an integer column with rational bounds ---- *)
Lemma qle_bool_false a b : Qle_bool a b = false <-> (b < a)%Q.
Proof.
  split.
  - intro E. apply Qnot_le_lt. intro C. apply Qle_bool_iff in C. congruence.
  - intro L. destruct (Qle_bool a b) eqn:E; [|reflexivity]. apply Qle_bool_iff in E. exfalso. exact (Qlt_not_le _ _ L E).
Qed.

Lemma in_window_spec_l lo hi z :
  in_window lo hi (Some z) = true <->
  (forall l, lo = Some l -> (l <= inject_Z z)%Q) /\ (forall h, hi = Some h -> (inject_Z z < h)%Q).
Proof.
  unfold in_window. destruct lo as [l|], hi as [h|].
  - rewrite andb_true_iff, negb_true_iff, Qle_bool_iff, qle_bool_false. split.
    + intros [A B]. split; intros q E; inversion E; subst; assumption.
    + intros [A B]. split; [apply A|apply B]; reflexivity.
  - rewrite andb_true_r, Qle_bool_iff. split.
    + intros A. split; intros q E; inversion E; subst; assumption.
    + intros [A _]. apply A. reflexivity.
  - rewrite andb_true_l, negb_true_iff, qle_bool_false. split.
    + intros B. split; intros q E; inversion E; subst; assumption.
    + intros [_ B]. apply B. reflexivity.
  - split; [intros _; split; intros q E; discriminate|reflexivity].
Qed.

Lemma in_window_null_l lo hi : (lo <> None \/ hi <> None) -> in_window lo hi None = false.
Proof. unfold in_window. destruct lo, hi; try reflexivity. intros [H|H]; contradiction. Qed.

Lemma in_window_open_l t : in_window None None t = true.
Proof. reflexivity. Qed.

Lemma qle_ceiling_b l z : Qle_bool l (inject_Z z) = (Qceiling l <=? z).
Proof.
  apply eq_true_iff_eq. rewrite Qle_bool_iff, Z.leb_le. split.
  - intro H. apply Qceiling_resp_le in H. rewrite Qceiling_Z in H. exact H.
  - intro H. eapply Qle_trans; [apply Qle_ceiling|]. rewrite <- Zle_Qle. exact H.
Qed.

(* an integer timestamp is classified by the bounds rounded UP (not truncated) *)
Lemma in_window_ceiling_l lo hi z :
  in_window lo hi (Some z) =
  match lo with Some l => Qceiling l <=? z | None => true end && match hi with Some h => z <? Qceiling h | None => true end.
Proof.
  unfold in_window. destruct lo as [l|], hi as [h|]; rewrite ?qle_ceiling_b, ?Z.ltb_antisym; reflexivity.
Qed.

Lemma truncation_differs_l :
  in_window (Some (21 # 2)%Q) None (Some 10) = false /\ in_window (Some (inject_Z (Qfloor (21 # 2)))) None (Some 10) = true /\
  in_window None (Some (21 # 2)%Q) (Some 10) = true /\ in_window None (Some (inject_Z (Qfloor (21 # 2)))) (Some 10) = false.
Proof. repeat split; reflexivity. Qed.

(* ---- statistics: counts by presence ---- *)
Definition has_value {A} (o : option A) : bool := match o with Some _ => true | None => false end.
Definition key_num (c : cls) (r : rec) : nat := match c with User => r_u r | Item => r_i r end.
Definition key_id (c : cls) (r : irow) : id := match c with User => uid_of r | Item => iid_of r end.
Definition cls_vocab (c : cls) (d : dataset) : vocab := match c with User => d_users d | Item => d_items d end.

Lemma perm_filter_length {A} (f : A -> bool) l l' : Permutation l l' -> length (filter f l) = length (filter f l').
Proof.
  induction 1 as [|x l l' _ IH|x y l|l l' l'' _ IH1 _ IH2]; cbn [filter]; [reflexivity| | |congruence].
  - destruct (f x); cbn [length]; rewrite IH; reflexivity.
  - destruct (f x), (f y); reflexivity.
Qed.

Lemma somes_length {A B} (g : A -> option B) l : length (somes (map g l)) = length (filter (fun r => has_value (g r)) l).
Proof. induction l as [|x r IH]; [reflexivity|]. cbn [map somes filter]. destruct (g x); cbn [has_value length somes]; rewrite IH; reflexivity. Qed.

Lemma filter_map_length {A B} (f : B -> bool) (g : A -> B) l : length (filter f (map g l)) = length (filter (fun x => f (g x)) l).
Proof. induction l as [|x r IH]; [reflexivity|]. cbn [map filter]. destruct (f (g x)); cbn [length]; rewrite IH; reflexivity. Qed.

Lemma filter_filter' {A} (f g : A -> bool) l : filter f (filter g l) = filter (fun x => g x && f x) l.
Proof. induction l as [|x r IH]; [reflexivity|]. cbn [filter]. destruct (g x); cbn [filter andb]; rewrite IH; reflexivity. Qed.

Lemma stats_of_mine s c d n :
  st_records (stats_of s c d n) = length (filter (fun r => Nat.eqb (key_num c r) n) (d_tbl d)) /\
  st_ratings (stats_of s c d n) = length (filter (fun r => Nat.eqb (key_num c r) n && has_value (rating2_of (r_a r))) (d_tbl d)).
Proof.
  unfold stats_of. cbn [st_records st_ratings]. split; [destruct c; reflexivity|].
  rewrite (somes_length (fun r => rating2_of (r_a r))), filter_filter'. destruct c; reflexivity.
Qed.

Lemma stats_counts_l s ar ops d c :
  build (final s ar ops) = Ok d ->
  let spec := k_recs (s_run s (s_init ar) ops) in
  forall n, (n < length (cls_vocab c d))%nat ->
    let e := term (cls_vocab c d) n in
    st_records (stats_of s c d n) = length (filter (fun r => Z.eqb (key_id c r) e) spec) /\
    st_ratings (stats_of s c d n) = length (filter (fun r => Z.eqb (key_id c r) e && has_value (rating2_of (snd r))) spec) /\
    (st_ratings (stats_of s c d n) <= st_records (stats_of s c d n))%nat.
Proof.
  intros H spec n Ln e. destruct (views_denote_input_l s ar ops d H) as [PP _]. cbv zeta in PP. fold spec in PP.
  destruct (final_refines s ar ops) as [Hi [Hr _]]. destruct (build_wfd _ _ Hi H) as [W _].
  destruct (stats_of_mine s c d n) as [E1 E2].
  assert (forall r, In r (d_tbl d) -> Z.eqb (key_id c (dec_with d r_a r)) e = Nat.eqb (key_num c r) n) as K.
  { intros r Hin. pose proof (w_valid d W) as V. rewrite Forall_forall in V. destruct (V r Hin) as [Vu Vi].
    subst e. unfold dec_with, term. destruct c; cbn [key_id key_num cls_vocab uid_of iid_of fst snd] in *.
    - destruct (Nat.eqb_spec (r_u r) n) as [->|Ne]; [apply Z.eqb_refl|]. apply Z.eqb_neq. intro C. apply Ne.
      apply (nth_inj (d_users d)); [apply (w_nu d W)|exact Vu|exact Ln|exact C].
    - destruct (Nat.eqb_spec (r_i r) n) as [->|Ne]; [apply Z.eqb_refl|]. apply Z.eqb_neq. intro C. apply Ne.
      apply (nth_inj (d_items d)); [apply (w_ni d W)|exact Vi|exact Ln|exact C]. }
  split; [|split].
  - rewrite E1, (perm_filter_length _ _ _ PP), filter_map_length. f_equal. apply filter_ext_in'. intros r Hin. symmetry. apply K. exact Hin.
  - rewrite E2, (perm_filter_length _ _ _ PP), filter_map_length. f_equal. apply filter_ext_in'. intros r Hin.
    rewrite (K r Hin). reflexivity.
  - rewrite E1, E2. clear. induction (d_tbl d) as [|x t IH]; [cbn; lia|]. cbn [filter].
    destruct (Nat.eqb (key_num c x) n); cbn [andb]; [destruct (has_value _)|]; cbn [length]; lia.
Qed.
