(* C15 (b) -- association-list lemmas, item-list pickling and data-frame round trips. *)
From Coq Require Import ZArith List Bool Arith String Ascii Lia.
From LK Require Import Model.C15_codec.
Import ListNotations.
Open Scope string_scope.
Open Scope list_scope.

(* ---- association lists -------------------------------------------------------------------- *)

Lemma alookup_app {V} k (a b : list (string * V)) :
  alookup k (a ++ b) = match alookup k a with Some v => Some v | None => alookup k b end.
Proof.
  induction a as [|[j v] a IH]; simpl; [reflexivity|]. destruct (String.eqb j k); [reflexivity|exact IH].
Qed.

Lemma alookup_notin {V} k (l : list (string * V)) : ~ In k (map fst l) -> alookup k l = None.
Proof.
  induction l as [|[j v] l IH]; simpl; intro H; [reflexivity|].
  destruct (String.eqb j k) eqn:E.
  - apply String.eqb_eq in E. subst. exfalso. apply H. left. reflexivity.
  - apply IH. intro H'. apply H. right. exact H'.
Qed.

Lemma alookup_in {V} k (l : list (string * V)) v : alookup k l = Some v -> In (k, v) l.
Proof.
  induction l as [|[j w] l IH]; simpl; intro H; [discriminate|].
  destruct (String.eqb j k) eqn:E.
  - apply String.eqb_eq in E. inversion H; subst. left. reflexivity.
  - right. apply IH, H.
Qed.

Lemma alookup_some_in_keys {V} k (l : list (string * V)) v : alookup k l = Some v -> In k (map fst l).
Proof. intro H. apply alookup_in in H. apply in_map_iff. exists (k, v). split; [reflexivity|exact H]. Qed.

Lemma in_alookup {V} k v (l : list (string * V)) : NoDup (map fst l) -> In (k, v) l -> alookup k l = Some v.
Proof.
  induction l as [|[j w] l IH]; simpl; intros ND H; [contradiction|].
  inversion ND as [|? ? Hn ND']; subst.
  destruct H as [H|H].
  - inversion H; subst. rewrite String.eqb_refl. reflexivity.
  - destruct (String.eqb j k) eqn:E.
    + apply String.eqb_eq in E. subst. exfalso. apply Hn. apply in_map_iff. exists (k, v). split; [reflexivity|exact H].
    + apply IH; assumption.
Qed.

Lemma alookup_none_notin {V} k (l : list (string * V)) : alookup k l = None -> ~ In k (map fst l).
Proof.
  induction l as [|[j w] l IH]; simpl; [intros _ []|]. intros H [E|E].
  - subst. rewrite String.eqb_refl in H. discriminate.
  - destruct (String.eqb j k); [discriminate|]. exact (IH H E).
Qed.

(* filter by a predicate on the key *)
Lemma alookup_filter_key {V} (p : string -> bool) k (l : list (string * V)) :
  alookup k (filter (fun kv => p (fst kv)) l) = if p k then alookup k l else None.
Proof.
  induction l as [|[j v] l IH]; simpl; [destruct (p k); reflexivity|].
  destruct (p j) eqn:Pj; simpl.
  - destruct (String.eqb j k) eqn:E; [apply String.eqb_eq in E; subst; rewrite Pj; reflexivity|exact IH].
  - destruct (String.eqb j k) eqn:E; [apply String.eqb_eq in E; subst; rewrite IH, Pj; reflexivity|exact IH].
Qed.

(* filter by a predicate on the whole entry, keys distinct *)
Lemma alookup_filter {V} (p : string * V -> bool) k (l : list (string * V)) :
  NoDup (map fst l) ->
  alookup k (filter p l) = match alookup k l with Some v => if p (k, v) then Some v else None | None => None end.
Proof.
  induction l as [|[j v] l IH]; simpl; intro ND; [reflexivity|].
  inversion ND as [|? ? Hn ND']; subst.
  destruct (String.eqb j k) eqn:E.
  - apply String.eqb_eq in E. subst j.
    destruct (p (k, v)) eqn:P; simpl; [rewrite String.eqb_refl; reflexivity|].
    rewrite IH by exact ND'. rewrite (alookup_notin k l Hn). reflexivity.
  - destruct (p (j, v)); simpl; [rewrite E|]; apply IH, ND'.
Qed.

(* a map that keeps the keys *)
Lemma alookup_map {V W} (g : string -> V -> W) k (l : list (string * V)) :
  alookup k (map (fun kv => (fst kv, g (fst kv) (snd kv))) l) = option_map (g k) (alookup k l).
Proof.
  induction l as [|[j v] l IH]; simpl; [reflexivity|].
  destruct (String.eqb j k) eqn:E; [apply String.eqb_eq in E; subst; reflexivity|exact IH].
Qed.

Lemma map_fst_keymap {V W} (g : string -> V -> W) (l : list (string * V)) :
  map fst (map (fun kv => (fst kv, g (fst kv) (snd kv))) l) = map fst l.
Proof. rewrite map_map. reflexivity. Qed.

Lemma NoDup_filter {A} (p : A -> bool) (f : A -> string) l : NoDup (map f l) -> NoDup (map f (filter p l)).
Proof.
  induction l as [|x l IH]; simpl; intro ND; [constructor|].
  inversion ND as [|? ? Hn ND']; subst.
  destruct (p x); simpl; [|apply IH, ND'].
  constructor; [|apply IH, ND'].
  intro H. apply Hn. apply in_map_iff in H. destruct H as [y [E Hy]]. apply filter_In in Hy.
  apply in_map_iff. exists y. split; [exact E|apply Hy].
Qed.

Lemma filter_all {A} (p : A -> bool) l : (forall x, In x l -> p x = true) -> filter p l = l.
Proof.
  induction l as [|x l IH]; simpl; intro H; [reflexivity|].
  rewrite (H x) by (left; reflexivity). f_equal. apply IH. intros y Hy. apply H. right. exact Hy.
Qed.

Lemma amem_alookup {V} k (l : list (string * V)) : amem k l = match alookup k l with Some _ => true | None => false end.
Proof. reflexivity. Qed.

Lemma lZeqb_eq a b : lZeqb a b = true <-> a = b.
Proof.
  revert b. induction a as [|x a IH]; destruct b as [|y b]; simpl; split; intro H; try discriminate; try reflexivity.
  - apply andb_true_iff in H. destruct H as [H1 H2]. apply Z.eqb_eq in H1. apply IH in H2. subst. reflexivity.
  - inversion H; subst. rewrite Z.eqb_refl. apply IH. reflexivity.
Qed.

(* ---- what "equal" means for two item lists -------------------------------------------------- *)

(* same fields: the same names (each once) bound to the same arrays (dtype and every element) *)
Definition fields_equiv (f g : list (string * ncol)) : Prop :=
  NoDup (map fst f) /\ NoDup (map fst g) /\ forall k, alookup k f = alookup k g.

Definition obs_equiv (a b : ilobs) : Prop :=
  o_len a = o_len b /\ o_ids a = o_ids b /\ o_nums a = o_nums b /\ o_ordered a = o_ordered b /\
  o_ranks a = o_ranks b /\ fields_equiv (o_fields a) (o_fields b).

(* invariants the ItemList constructor establishes *)
Definition user_cols : list string := ["user_id"; "user_num"].
Record wf_il (il : ilist) : Prop := {
  wf_idlen : forall i, il_ids il = Some i -> List.length i = il_len il;
  wf_numlen : forall n, il_nums il = Some n -> List.length n = il_len il;
  wf_some : il_ids il <> None \/ il_nums il <> None;
  wf_ranklen : forall r, il_ranks il = Some r -> List.length r = il_len il;
  wf_fieldlen : forall k c, In (k, c) (il_fields il) -> List.length (c_vals c) = il_len il;
  wf_nodup : NoDup (map fst (il_fields il));
  wf_names : forall k, In k (map fst (il_fields il)) -> smem k ["item_id"; "item_num"; "rank"] = false;
  wf_score : forall c, alookup "score" (il_fields il) = Some c -> c_ty c = TF32
}.

Lemma iota1_length n : List.length (iota1 n) = n.
Proof. unfold iota1. rewrite map_length, seq_length. reflexivity. Qed.

Lemma v_ids_length il i : wf_il il -> v_ids il = Some i -> List.length i = il_len il.
Proof.
  intros W H. unfold v_ids in H. destruct (il_ids il) as [j|] eqn:E.
  - inversion H; subst. apply (wf_idlen il W), E.
  - destruct (il_vocab il); [|discriminate]. destruct (il_nums il) as [n|] eqn:En; [|discriminate].
    inversion H; subst. rewrite map_length. apply (wf_numlen il W), En.
Qed.
Lemma v_nums_length il n : wf_il il -> v_nums il = Some n -> List.length n = il_len il.
Proof.
  intros W H. unfold v_nums in H. destruct (il_nums il) as [j|] eqn:E.
  - inversion H; subst. apply (wf_numlen il W), E.
  - destruct (il_vocab il); [|discriminate]. destruct (il_ids il) as [i|] eqn:Ei; [|discriminate].
    inversion H; subst. rewrite map_length. apply (wf_idlen il W), Ei.
Qed.
Lemma v_ranks_length il r : wf_il il -> v_ranks il = Some r -> List.length r = il_len il.
Proof.
  intros W H. unfold v_ranks in H. destruct (il_ordered il); [|discriminate].
  destruct (il_ranks il) as [q|] eqn:E; inversion H; subst; [apply (wf_ranklen il W), E|apply iota1_length].
Qed.
Lemma nums_strict_v il n : nums_strict il = Some n -> v_nums il = Some n.
Proof.
  unfold nums_strict. destruct (v_nums il) as [m|]; [|discriminate].
  destruct (existsb _ m); [discriminate|]. intro H. exact H.
Qed.
Lemma has_ids_v il : wf_il il -> has_ids il = true -> exists i, v_ids il = Some i.
Proof.
  intros W H. unfold has_ids in H. unfold v_ids.
  destruct (il_ids il) as [i|] eqn:Ei; [eexists; reflexivity|].
  destruct (il_vocab il) as [v|]; [|discriminate].
  destruct (il_nums il) as [n|] eqn:En; [eexists; reflexivity|].
  destruct (wf_some il W) as [X|X]; congruence.
Qed.
Lemma no_ids_v il : has_ids il = false -> v_ids il = None.
Proof. unfold has_ids, v_ids. destruct (il_ids il); [discriminate|]. destruct (il_vocab il); [discriminate|reflexivity]. Qed.
Lemma no_nums_v il : has_nums il = false -> v_nums il = None.
Proof. unfold has_nums, v_nums. destruct (il_nums il); [discriminate|]. destruct (il_vocab il); [discriminate|reflexivity]. Qed.

(* ---- pickling -------------------------------------------------------------------------------- *)

Definition fstate (fs : list (string * ncol)) : state :=
  map (fun kc => (String.append "field_" (fst kc), SCol (snd kc))) fs.

Lemma alookup_fstate_other key fs :
  (forall k, String.eqb (String.append "field_" k) key = false) -> alookup key (fstate fs) = None.
Proof.
  intro H. induction fs as [|[k c] fs IH]; [reflexivity|].
  unfold fstate. cbn [map alookup fst snd]. rewrite H. exact IH.
Qed.

Lemma state_fields_fstate fs : state_fields (fstate fs) = fs.
Proof.
  induction fs as [|[k c] fs IH]; [reflexivity|].
  unfold state_fields, fstate in *. cbn [map flat_map fst snd].
  change (prefix "field_" (String.append "field_" k)) with (prefix "" k).
  replace (prefix "" k) with true by (destruct k; reflexivity).
  change (sdrop 6 (String.append "field_" k)) with k.
  cbn [app]. f_equal. exact IH.
Qed.

Lemma state_fields_app a b : state_fields (a ++ b) = state_fields a ++ state_fields b.
Proof. unfold state_fields. apply flat_map_app. Qed.

Lemma pickle_id_l : forall il,
  exists il', pickle_rt il = Some il' /\ observe il' = observe il /\ il_vocab il' = None.
Proof.
  intro il. unfold pickle_rt, getstate.
  set (P1 := match v_ids il with Some i => [("ids", SIds (il_idty il) i)] | None => [] end).
  set (P2 := match v_nums il with Some n => [("numbers", SList n)] | None => [] end).
  set (P3 := if il_ordered il then
               match il_ranks il with
               | Some r => if lZeqb r (iota1 (il_len il)) then [] else [("ranks", SList r)]
               | None => []
               end else []).
  fold (fstate (il_fields il)).
  set (st := [("ordered", SBool (il_ordered il)); ("len", SNat (il_len il))] ++ P1 ++ P2 ++ P3 ++ fstate (il_fields il)).
  assert (Hids : alookup "ids" st = match v_ids il with Some i => Some (SIds (il_idty il) i) | None => None end).
  { subst st P1 P2 P3. cbn [app alookup]. change (String.eqb "ordered" "ids") with false. change (String.eqb "len" "ids") with false. cbv iota.
    destruct (v_ids il); [reflexivity|]. cbn [app].
    rewrite !alookup_app.
    replace (alookup "ids" (match v_nums il with Some n => [("numbers", SList n)] | None => [] end)) with (@None sval) by (destruct (v_nums il); reflexivity).
    match goal with |- context [alookup "ids" (if ?b then ?x else ?y)] =>
      replace (alookup "ids" (if b then x else y)) with (@None sval)
        by (destruct b; [destruct (il_ranks il) as [r|]; [destruct (lZeqb r _)|]|]; reflexivity) end.
    apply alookup_fstate_other. intro k. reflexivity. }
  assert (Hnums : alookup "numbers" st = match v_nums il with Some n => Some (SList n) | None => None end).
  { subst st P1 P2 P3. cbn [app alookup]. change (String.eqb "ordered" "numbers") with false. change (String.eqb "len" "numbers") with false. cbv iota.
    rewrite !alookup_app.
    replace (alookup "numbers" (match v_ids il with Some i => [("ids", SIds (il_idty il) i)] | None => [] end)) with (@None sval) by (destruct (v_ids il); reflexivity).
    destruct (v_nums il); [reflexivity|]. cbn [alookup].
    match goal with |- context [alookup "numbers" (if ?b then ?x else ?y)] =>
      replace (alookup "numbers" (if b then x else y)) with (@None sval)
        by (destruct b; [destruct (il_ranks il) as [r|]; [destruct (lZeqb r _)|]|]; reflexivity) end.
    apply alookup_fstate_other. intro k. reflexivity. }
  assert (Hranks : alookup "ranks" st =
                   if il_ordered il then
                     match il_ranks il with
                     | Some r => if lZeqb r (iota1 (il_len il)) then None else Some (SList r)
                     | None => None
                     end else None).
  { subst st P1 P2 P3. cbn [app alookup]. change (String.eqb "ordered" "ranks") with false. change (String.eqb "len" "ranks") with false. cbv iota.
    rewrite !alookup_app.
    replace (alookup "ranks" (match v_ids il with Some i => [("ids", SIds (il_idty il) i)] | None => [] end)) with (@None sval) by (destruct (v_ids il); reflexivity).
    replace (alookup "ranks" (match v_nums il with Some n => [("numbers", SList n)] | None => [] end)) with (@None sval) by (destruct (v_nums il); reflexivity).
    destruct (il_ordered il); [|apply alookup_fstate_other; intro k; reflexivity].
    destruct (il_ranks il) as [r|]; [|apply alookup_fstate_other; intro k; reflexivity].
    destruct (lZeqb r (iota1 (il_len il))); [apply alookup_fstate_other; intro k; reflexivity|reflexivity]. }
  assert (Hf : state_fields st = il_fields il).
  { subst st. rewrite !state_fields_app, state_fields_fstate.
    replace (state_fields P1) with (@nil (string * ncol)) by (subst P1; destruct (v_ids il); reflexivity).
    replace (state_fields P2) with (@nil (string * ncol)) by (subst P2; destruct (v_nums il); reflexivity).
    replace (state_fields P3) with (@nil (string * ncol))
      by (subst P3; destruct (il_ordered il); [destruct (il_ranks il) as [r|]; [destruct (lZeqb r _)|]|]; reflexivity).
    reflexivity. }
  unfold setstate.
  replace (alookup "ordered" st) with (Some (SBool (il_ordered il))) by reflexivity.
  replace (alookup "len" st) with (Some (SNat (il_len il))) by reflexivity.
  eexists. split; [reflexivity|]. split; [|reflexivity].
  unfold observe, v_ids, v_nums, v_ranks. cbn [il_len il_ids il_nums il_vocab il_ordered il_ranks il_fields].
  rewrite Hids, Hnums, Hranks, Hf.
  f_equal.
  - fold (v_ids il). destruct (v_ids il); reflexivity.
  - fold (v_nums il). destruct (v_nums il); reflexivity.
  - destruct (il_ordered il); [|reflexivity].
    destruct (il_ranks il) as [r|]; [|reflexivity].
    destruct (lZeqb r (iota1 (il_len il))) eqn:E; [|reflexivity].
    apply lZeqb_eq in E. subst r. reflexivity.
Qed.

(* ---- the constructor, as the converters use it ------------------------------------------------ *)

Lemma smem_reserved_names il k :
  wf_il il -> In k (map fst (il_fields il)) -> String.eqb k "score" = false -> smem k reserved = false.
Proof.
  intros W H S. pose proof (wf_names il W k H) as N. unfold smem, reserved in *. cbn [existsb] in *.
  rewrite S. repeat (apply orb_false_iff in N; destruct N as [? N]).
  repeat (apply orb_false_iff; split); assumption.
Qed.

Lemma alookup_wf_none il k : wf_il il -> smem k ["item_id"; "item_num"; "rank"] = true -> alookup k (il_fields il) = None.
Proof.
  intros W H. apply alookup_notin. intro Hin. rewrite (wf_names il W k Hin) in H. discriminate.
Qed.

(* the non-score fields, as to_df emits them *)
Definition others (il : ilist) := filter (fun kc : string * ncol => negb (String.eqb (fst kc) "score")) (il_fields il).

Lemma others_names il k : In k (map fst (others il)) -> In k (map fst (il_fields il)) /\ String.eqb k "score" = false.
Proof.
  intro H. apply in_map_iff in H. destruct H as [[j c] [E Hin]]. simpl in E. subst j.
  apply filter_In in Hin. destruct Hin as [Hin P]. simpl in P. apply negb_true_iff in P.
  split; [apply in_map_iff; exists (k, c); split; [reflexivity|exact Hin]|exact P].
Qed.

Lemma alookup_others il k : alookup k (others il) = if String.eqb k "score" then None else alookup k (il_fields il).
Proof.
  unfold others. rewrite (alookup_filter_key (fun j => negb (String.eqb j "score"))).
  destruct (String.eqb k "score"); reflexivity.
Qed.

(* the field part of what construct builds from [score?] ++ [rank?] ++ others *)
Lemma rebuilt_fields_equiv il (sc : list (string * ncol)) :
  wf_il il ->
  sc = match alookup "score" (il_fields il) with Some c => [("score", mkCol TF32 (c_vals c))] | None => [] end ->
  fields_equiv (sc ++ others il) (il_fields il).
Proof.
  intros W ->. split; [|split].
  - destruct (alookup "score" (il_fields il)) as [c|]; simpl.
    + constructor; [|apply NoDup_filter, (wf_nodup il W)].
      intro H. apply others_names in H. destruct H as [_ H]. discriminate.
    + apply NoDup_filter, (wf_nodup il W).
  - apply (wf_nodup il W).
  - intro k. rewrite alookup_app, alookup_others.
    destruct (alookup "score" (il_fields il)) as [c|] eqn:E; cbn [app alookup].
    + rewrite (String.eqb_sym "score" k). destruct (String.eqb k "score") eqn:Ek.
      * apply String.eqb_eq in Ek. subst k. rewrite E.
        pose proof (wf_score il W c E) as T. destruct c as [t vs]. cbn [c_ty c_vals] in *. subst t. reflexivity.
      * reflexivity.
    + destruct (String.eqb k "score") eqn:Ek; [|reflexivity].
      apply String.eqb_eq in Ek. subst k. symmetry. exact E.
Qed.

(* ---- data frames ------------------------------------------------------------------------------ *)

Definition df_idcols (il : ilist) (i n : option (list Z)) : frame :=
  match i with Some x => [("item_id", mkCol (il_idty il) x)] | None => [] end ++
  match n with Some x => [("item_num", mkCol TI32 x)] | None => [] end.
Definition df_rest (il : ilist) : frame :=
  match alookup "score" (il_fields il) with Some c => [("score", c)] | None => [] end
  ++ match v_ranks il with Some r => [("rank", mkCol TI32 r)] | None => [] end
  ++ others il.

Lemma to_df_shape il df : wf_il il -> to_df il = Some df ->
  exists i n, df = df_idcols il i n ++ df_rest il /\
    (i = None -> n <> None) /\
    (forall x, i = Some x -> v_ids il = Some x) /\ (i = None -> v_ids il = None) /\
    (forall x, n = Some x -> v_nums il = Some x) /\ (n = None -> v_nums il = None).
Proof.
  intros W H. unfold to_df in H.
  destruct (has_ids il) eqn:HI.
  - destruct (has_ids_v il W HI) as [i Ei]. rewrite Ei in H.
    destruct (has_nums il) eqn:HN.
    + destruct (nums_strict il) as [n|] eqn:En; [|discriminate].
      cbn [app] in H. inversion H; subst. exists (Some i), (Some n).
      split; [reflexivity|]. repeat split; try congruence.
      intros x Hx. inversion Hx; subst. apply nums_strict_v, En.
    + cbn [app] in H. inversion H; subst. exists (Some i), None.
      split; [reflexivity|]. repeat split; try congruence. intros _. apply no_nums_v, HN.
  - destruct (has_nums il) eqn:HN.
    + destruct (nums_strict il) as [n|] eqn:En; [|discriminate].
      cbn [app] in H. inversion H; subst. exists None, (Some n).
      split; [reflexivity|]. repeat split; try congruence.
      * intros _. apply no_ids_v, HI.
      * intros x Hx. inversion Hx; subst. apply nums_strict_v, En.
    + simpl in H. discriminate.
Qed.

Lemma df_rest_lookup_id il k : wf_il il -> smem k ["item_id"; "item_num"] = true -> alookup k (df_rest il) = None.
Proof.
  intros W H. unfold df_rest. rewrite !alookup_app.
  assert (K : smem k ["item_id"; "item_num"; "rank"] = true).
  { unfold smem in *. cbn [existsb] in *. apply orb_true_iff in H. destruct H as [H|H]; [rewrite H; reflexivity|].
    apply orb_true_iff in H. destruct H as [H|H]; [rewrite H; apply orb_true_r|discriminate]. }
  assert (Ks : String.eqb "score" k = false).
  { destruct (String.eqb "score" k) eqn:E; [|reflexivity]. apply String.eqb_eq in E. subst k. discriminate. }
  assert (Kr : String.eqb "rank" k = false).
  { destruct (String.eqb "rank" k) eqn:E; [|reflexivity]. apply String.eqb_eq in E. subst k. discriminate. }
  replace (alookup k (match alookup "score" (il_fields il) with Some c => [("score", c)] | None => [] end)) with (@None ncol)
    by (destruct (alookup "score" (il_fields il)); cbn [alookup]; rewrite ?Ks; reflexivity).
  replace (alookup k (match v_ranks il with Some r => [("rank", mkCol TI32 r)] | None => [] end)) with (@None ncol)
    by (destruct (v_ranks il); cbn [alookup]; rewrite ?Kr; reflexivity).
  rewrite alookup_others. destruct (String.eqb k "score"); [reflexivity|apply alookup_wf_none; assumption].
Qed.

Lemma df_rest_keep il :
  wf_il il ->
  (forall k, In k (map fst (il_fields il)) -> smem k user_cols = false) ->
  filter (fun kc : string * ncol => negb (smem (fst kc) ["item_id"; "item_num"; "user_id"; "user_num"])) (df_rest il) = df_rest il.
Proof.
  intros W U. apply filter_all. intros [k c] Hin. simpl. apply negb_true_iff.
  unfold df_rest in Hin. apply in_app_or in Hin. destruct Hin as [Hin|Hin].
  { destruct (alookup "score" (il_fields il)); [|contradiction]. destruct Hin as [E|[]]. inversion E; subst. reflexivity. }
  apply in_app_or in Hin. destruct Hin as [Hin|Hin].
  { destruct (v_ranks il); [|contradiction]. destruct Hin as [E|[]]. inversion E; subst. reflexivity. }
  assert (Hk : In k (map fst (others il))) by (apply in_map_iff; exists (k, c); split; [reflexivity|exact Hin]).
  apply others_names in Hk. destruct Hk as [Hk _].
  pose proof (wf_names il W k Hk) as N. pose proof (U k Hk) as N'.
  unfold smem, user_cols in *. cbn [existsb] in *.
  repeat (apply orb_false_iff in N; destruct N as [? N]).
  repeat (apply orb_false_iff in N'; destruct N' as [? N']).
  repeat (apply orb_false_iff; split); assumption.
Qed.

Lemma forallb_len_rest il :
  wf_il il -> forallb (fun kc : string * ncol => Nat.eqb (List.length (c_vals (snd kc))) (il_len il)) (df_rest il) = true.
Proof.
  intro W. apply forallb_forall. intros [k c] Hin. simpl. apply Nat.eqb_eq.
  unfold df_rest in Hin. apply in_app_or in Hin. destruct Hin as [Hin|Hin].
  { destruct (alookup "score" (il_fields il)) as [c'|] eqn:E; [|contradiction]. destruct Hin as [X|[]]. inversion X; subst.
    apply (wf_fieldlen il W "score"). apply alookup_in, E. }
  apply in_app_or in Hin. destruct Hin as [Hin|Hin].
  { destruct (v_ranks il) as [r|] eqn:E; [|contradiction]. destruct Hin as [X|[]]. inversion X; subst. simpl.
    apply (v_ranks_length il r W E). }
  unfold others in Hin. apply filter_In in Hin. apply (wf_fieldlen il W k c), Hin.
Qed.

Lemma df_rest_rank il : wf_il il -> alookup "rank" (df_rest il) = option_map (mkCol TI32) (v_ranks il).
Proof.
  intro W. unfold df_rest. rewrite !alookup_app.
  replace (alookup "rank" (match alookup "score" (il_fields il) with Some c => [("score", c)] | None => [] end)) with (@None ncol)
    by (destruct (alookup "score" (il_fields il)); reflexivity).
  destruct (v_ranks il); [reflexivity|]. cbn [alookup option_map].
  rewrite alookup_others. cbn. apply alookup_wf_none; [exact W|reflexivity].
Qed.

Lemma df_rest_score il : alookup "score" (df_rest il) = alookup "score" (il_fields il).
Proof.
  unfold df_rest. rewrite !alookup_app.
  destruct (alookup "score" (il_fields il)) eqn:E; [cbn; reflexivity|]. cbn [alookup].
  replace (alookup "score" (match v_ranks il with Some r => [("rank", mkCol TI32 r)] | None => [] end)) with (@None ncol)
    by (destruct (v_ranks il); reflexivity).
  rewrite alookup_others. reflexivity.
Qed.

Lemma df_rest_unreserved il : wf_il il ->
  filter (fun kc : string * ncol => negb (smem (fst kc) reserved)) (df_rest il) = others il.
Proof.
  intro W. unfold df_rest. rewrite !filter_app.
  replace (filter _ (match alookup "score" (il_fields il) with Some c => [("score", c)] | None => [] end)) with (@nil (string * ncol))
    by (destruct (alookup "score" (il_fields il)); reflexivity).
  replace (filter _ (match v_ranks il with Some r => [("rank", mkCol TI32 r)] | None => [] end)) with (@nil (string * ncol))
    by (destruct (v_ranks il); reflexivity).
  cbn [app]. apply filter_all. intros [k c] Hin. simpl. apply negb_true_iff.
  assert (Hk : In k (map fst (others il))) by (apply in_map_iff; exists (k, c); split; [reflexivity|exact Hin]).
  apply others_names in Hk. destruct Hk as [Hk Hs]. apply (smem_reserved_names il k W Hk Hs).
Qed.

Lemma df_roundtrip_l : forall il df,
  wf_il il ->
  (forall k, In k (map fst (il_fields il)) -> smem k user_cols = false) ->
  to_df il = Some df ->
  exists il', from_df df = Some il' /\ obs_equiv (observe il') (observe il) /\ il_vocab il' = None.
Proof.
  intros il df W U H.
  destruct (to_df_shape il df W H) as [i [n [-> [Hsome [Hi [Hi' [Hn Hn']]]]]]].
  unfold from_df.
  assert (Li : alookup "item_id" (df_idcols il i n ++ df_rest il) = option_map (mkCol (il_idty il)) i).
  { rewrite alookup_app. unfold df_idcols. destruct i, n; cbn; try reflexivity; apply (df_rest_lookup_id il "item_id" W); reflexivity. }
  assert (Ln : alookup "item_num" (df_idcols il i n ++ df_rest il) = option_map (mkCol TI32) n).
  { rewrite alookup_app. unfold df_idcols. destruct i, n; cbn; try reflexivity; apply (df_rest_lookup_id il "item_num" W); reflexivity. }
  rewrite Li, Ln.
  assert (F : filter (fun kc : string * ncol => negb (smem (fst kc) ["item_id"; "item_num"; "user_id"; "user_num"]))
                (df_idcols il i n ++ df_rest il) = df_rest il).
  { rewrite filter_app, (df_rest_keep il W U). unfold df_idcols. destruct i, n; reflexivity. }
  rewrite F.
  assert (Len : match option_map c_vals (option_map (mkCol (il_idty il)) i), option_map c_vals (option_map (mkCol TI32) n) with
                | Some a, Some b => if Nat.eqb (List.length a) (List.length b) then Some (List.length a) else None
                | Some a, None => Some (List.length a)
                | None, Some b => Some (List.length b)
                | None, None => None
                end = Some (il_len il)).
  { destruct i as [a|], n as [b|]; cbn.
    - rewrite (v_ids_length il a W (Hi a eq_refl)), (v_nums_length il b W (Hn b eq_refl)), Nat.eqb_refl. reflexivity.
    - rewrite (v_ids_length il a W (Hi a eq_refl)). reflexivity.
    - rewrite (v_nums_length il b W (Hn b eq_refl)). reflexivity.
    - exfalso. apply (Hsome eq_refl). reflexivity. }
  unfold construct. rewrite Len, (forallb_len_rest il W).
  eexists. split; [reflexivity|]. split; [|reflexivity].
  unfold obs_equiv, observe. cbn [o_len o_ids o_nums o_ordered o_ranks o_fields].
  unfold v_ids at 1, v_nums at 1, v_ranks at 1. cbn [il_len il_ids il_nums il_vocab il_ordered il_ranks il_fields].
  rewrite amem_alookup, (df_rest_rank il W), (df_rest_score il), (df_rest_unreserved il W).
  split; [reflexivity|]. split; [|split; [|split; [|split]]].
  - destruct i as [a|]; cbn; [symmetry; apply Hi; reflexivity|].
    destruct (option_map c_vals (option_map (mkCol TI32) n)); symmetry; apply Hi'; reflexivity.
  - destruct n as [b|]; cbn; [symmetry; apply Hn; reflexivity|].
    destruct (option_map c_vals (option_map (mkCol (il_idty il)) i)); symmetry; apply Hn'; reflexivity.
  - unfold v_ranks. destruct (il_ordered il); reflexivity.
  - unfold v_ranks. destruct (il_ordered il); reflexivity.
  - apply (rebuilt_fields_equiv il _ W). reflexivity.
Qed.

(* to_df refuses exactly when there is nothing to identify the rows, or an identifier is unknown
   to the vocabulary (numbers() with missing="error") *)
Lemma to_df_none_l : forall il, wf_il il ->
  to_df il = None -> has_nums il = true /\ nums_strict il = None.
Proof.
  intros il W H. unfold to_df in H.
  destruct (has_ids il) eqn:HI.
  - destruct (has_ids_v il W HI) as [i Ei]. rewrite Ei in H.
    destruct (has_nums il) eqn:HN; [|discriminate].
    destruct (nums_strict il); [discriminate|]. split; reflexivity.
  - destruct (has_nums il) eqn:HN.
    + destruct (nums_strict il); [discriminate|]. split; reflexivity.
    + exfalso. unfold has_ids in HI. unfold has_nums in HN.
      destruct (il_ids il) eqn:A; [discriminate|]. destruct (il_nums il) eqn:B; [discriminate|].
      destruct (wf_some il W); congruence.
Qed.
