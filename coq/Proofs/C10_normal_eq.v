(* C10 -- the regularised (weighted) least-squares problem and its normal equations, over an
   arbitrary real field (MathComp matrices).  ssreflect style, kept apart from the list/Q
   development; Proofs/C10_ls.v proves the same direction again on the executable list model.

     objw x  = sum_i w_i ((M x - v)_i)^2 + c |x|^2          (w_i >= 0, c >= 0)
     Aw      = M^T diag(w) M + c I,      yw = M^T diag(w) v

   normal_eq_minimises_w : Aw x = yw -> objw x <= objw (x + d)                 for every d
   minimiser_normal_eq_w : (forall d, objw x <= objw (x + d)) -> Aw x = yw
   normal_eq_unique_w    : 0 < c -> Aw x = yw -> Aw x' = yw -> x = x'
   strict_minimiser_w    : 0 < c -> Aw x = yw -> d != 0 -> objw x < objw (x + d)
   the unweighted statements are the instance w = 1; the implicit-feedback system of the code
   (O^T O + c I) + O^T diag(e) O,  O^T ((1 + e) o p)  is the instance w = 1 + e, v = p. *)
From mathcomp Require Import all_ssreflect all_algebra.
From mathcomp Require Import ring.
Set Implicit Arguments. Unset Strict Implicit. Unset Printing Implicit Defensive.
Import Order.TTheory GRing.Theory Num.Theory.
Local Open Scope ring_scope.

Section NormalEq.
Variable R : realFieldType.

Definition dot k (a b : 'cV[R]_k) : R := \sum_i a i 0 * b i 0.

Lemma dotC k (a b : 'cV[R]_k) : dot a b = dot b a.
Proof. by apply: eq_bigr => i _; rewrite mulrC. Qed.
Lemma dotDl k (a b c : 'cV[R]_k) : dot (a + b) c = dot a c + dot b c.
Proof. by rewrite -big_split; apply: eq_bigr => i _; rewrite mxE mulrDl. Qed.
Lemma dotDr k (a b c : 'cV[R]_k) : dot a (b + c) = dot a b + dot a c.
Proof. by rewrite dotC dotDl !(dotC a). Qed.
Lemma dotNl k (a b : 'cV[R]_k) : dot (- a) b = - dot a b.
Proof. by rewrite -sumrN; apply: eq_bigr => i _; rewrite mxE mulNr. Qed.
Lemma dotNr k (a b : 'cV[R]_k) : dot a (- b) = - dot a b.
Proof. by rewrite dotC dotNl dotC. Qed.
Lemma dotZr k (c : R) (a b : 'cV[R]_k) : dot a (c *: b) = c * dot a b.
Proof. by rewrite mulr_sumr; apply: eq_bigr => i _; rewrite mxE mulrCA. Qed.
Lemma dotZl k (c : R) (a b : 'cV[R]_k) : dot (c *: a) b = c * dot a b.
Proof. by rewrite dotC dotZr dotC. Qed.
Lemma dot0r k (a : 'cV[R]_k) : dot a 0 = 0.
Proof. by rewrite /dot big1 // => i _; rewrite mxE mulr0. Qed.
Lemma dot_ge0 k (a : 'cV[R]_k) : 0 <= dot a a.
Proof. by apply: sumr_ge0 => i _; rewrite -expr2 sqr_ge0. Qed.
Lemma dotBr k (a b c0 : 'cV[R]_k) : dot a (b - c0) = dot a b - dot a c0.
Proof. by rewrite dotDr dotNr. Qed.
Lemma sqr_ge0' (x : R) : 0 <= x * x.
Proof. by rewrite -expr2 sqr_ge0. Qed.

Lemma dot_eq0 k (a : 'cV[R]_k) : dot a a = 0 -> a = 0.
Proof.
move=> a0; apply/colP => i; rewrite mxE.
have H := psumr_eq0P (P := predT) (F := fun i => a i 0 * a i 0) (fun i _ => sqr_ge0' (a i 0)) a0.
by have /eqP := H i isT; rewrite mulf_eq0 orbb => /eqP.
Qed.

Lemma dot_gt0 k (a : 'cV[R]_k) : a != 0 -> 0 < dot a a.
Proof.
move=> an0; rewrite lt_def dot_ge0 andbT.
by apply: contra an0 => /eqP /dot_eq0 ->.
Qed.

Lemma dot_mulmx m n (M : 'M[R]_(m,n)) (a : 'cV[R]_n) (b : 'cV[R]_m) :
  dot (M *m a) b = dot a (M^T *m b).
Proof.
rewrite /dot.
under eq_bigr => i _ do rewrite mxE mulr_suml.
under [RHS]eq_bigr => j _ do rewrite mxE mulr_sumr.
rewrite exchange_big /=; apply: eq_bigr => j _; apply: eq_bigr => i _.
by rewrite mxE; ring.
Qed.

(* ------------------------------------------------------------------------------------------ *)
Section Weighted.
Variables m n : nat.
Variable M : 'M[R]_(m, n).
Variable v : 'cV[R]_m.
Variable w : 'cV[R]_m.
Variable c : R.
Hypothesis w_ge0 : forall i, 0 <= w i 0.
Hypothesis c_ge0 : 0 <= c.

Definition W : 'M[R]_m := diag_mx w^T.
(* weighted inner product  sum_i w_i a_i b_i *)
Definition dw (a b : 'cV[R]_m) : R := dot a (W *m b).

Lemma dwE a b : dw a b = \sum_i w i 0 * (a i 0 * b i 0).
Proof.
rewrite /dw /dot; apply: eq_bigr => i _.
by rewrite /W mul_diag_mx !mxE mulrCA.
Qed.
Lemma dw_ge0 a : 0 <= dw a a.
Proof. by rewrite dwE; apply: sumr_ge0 => i _; rewrite mulr_ge0 ?sqr_ge0'. Qed.
Lemma dwC a b : dw a b = dw b a.
Proof. by rewrite !dwE; apply: eq_bigr => i _; ring. Qed.
Lemma dwDl a b d : dw (a + b) d = dw a d + dw b d.
Proof. by rewrite /dw dotDl. Qed.
Lemma dwDr a b d : dw a (b + d) = dw a b + dw a d.
Proof. by rewrite dwC dwDl !(dwC a). Qed.

Definition objw (x : 'cV[R]_n) : R := dw (M *m x - v) (M *m x - v) + c * dot x x.
Definition Aw : 'M[R]_n := M^T *m W *m M + c%:M.
Definition yw : 'cV[R]_n := M^T *m W *m v.

(* the quadratic part: |M d|_w^2 + c |d|^2 = d . (Aw d) *)
Definition quad (d : 'cV[R]_n) : R := dw (M *m d) (M *m d) + c * dot d d.
Lemma quad_ge0 d : 0 <= quad d.
Proof. by rewrite addr_ge0 ?dw_ge0 // mulr_ge0 ?dot_ge0. Qed.

Lemma gradw x d : dot d (Aw *m x - yw) = dw (M *m d) (M *m x - v) + c * dot d x.
Proof.
rewrite /Aw /yw /dw mulmxDl mul_scalar_mx -!mulmxA dotBr dotDr dotZr.
rewrite mulmxBr dotBr !dot_mulmx; ring.
Qed.

Lemma objw_shift x d :
  objw (x + d) = objw x + quad d + 2%:R * dot d (Aw *m x - yw).
Proof.
rewrite gradw /objw /quad mulmxDr (addrAC (M *m x)).
set r := M *m x - v; set e := M *m d.
rewrite !dwDl !dwDr !dotDl !dotDr (dwC (M *m x) e) (dwC (- v) e) (dotC x d).
by ring.
Qed.

Theorem normal_eq_minimises_w x d : Aw *m x = yw -> objw x <= objw (x + d).
Proof.
move=> Ax; rewrite objw_shift Ax subrr dot0r mulr0 addr0.
by rewrite ler_addl quad_ge0.
Qed.

(* converse: a minimiser satisfies the normal equations *)
Lemma quadZ t d : quad (t *: d) = t * t * quad d.
Proof.
rewrite /quad -scalemxAr /dw -scalemxAr !(dotZl, dotZr) mulrDr !mulrA.
by rewrite [c * t * t]mulrC [c * t]mulrC mulrA.
Qed.

Theorem minimiser_normal_eq_w x : (forall d, objw x <= objw (x + d)) -> Aw *m x = yw.
Proof.
move=> xmin; set g := Aw *m x - yw.
suff g0 : g = 0 by apply/eqP; rewrite -subr_eq0; apply/eqP.
apply: dot_eq0; apply/eqP; rewrite eq_le dot_ge0 andbT leNgt; apply/negP.
set gg := dot g g => gpos.
set q := quad g; have q0 : 0 <= q := quad_ge0 g.
have q1 : 0 < q + 1 by rewrite ltr_paddl ?ltr01.
pose t := gg / (q + 1).
have tpos : 0 < t by rewrite divr_gt0.
have := xmin (- t *: g); rewrite objw_shift quadZ -/g dotZl -/q -/gg -addrA ler_addl.
have -> : - t * - t * q + 2%:R * (- t * gg) = t * (t * q - 2%:R * gg) by ring.
rewrite pmulr_rge0 // subr_ge0 => H.
have tq : t * q < gg.
  by rewrite /t -mulrA gtr_pmulr // mulrC ltr_pdivr_mulr // mul1r ltr_addl ltr01.
have := le_lt_trans H tq.
by rewrite mulr_natl mulr2n gtr_addl ltNge (ltW gpos).
Qed.

Theorem normal_eq_iff_minimiser_w x : Aw *m x = yw <-> (forall d, objw x <= objw (x + d)).
Proof.
split; first by move=> Ax d; apply: normal_eq_minimises_w.
exact: minimiser_normal_eq_w.
Qed.

(* positive definiteness and uniqueness when the ridge is positive *)
Section Positive.
Hypothesis c_gt0 : 0 < c.

Lemma quad_gt0 d : d != 0 -> 0 < quad d.
Proof. by move=> dn0; rewrite ltr_paddl ?dw_ge0 // mulr_gt0 ?dot_gt0. Qed.

Lemma quad_Aw d : dot d (Aw *m d) = quad d.
Proof.
rewrite /Aw /quad /dw mulmxDl mul_scalar_mx -!mulmxA dotDr dotZr.
by rewrite dot_mulmx.
Qed.

Theorem Aw_posdef d : d != 0 -> 0 < dot d (Aw *m d).
Proof. by move=> dn0; rewrite quad_Aw quad_gt0. Qed.

Theorem strict_minimiser_w x d : Aw *m x = yw -> d != 0 -> objw x < objw (x + d).
Proof.
move=> Ax dn0; rewrite objw_shift Ax subrr dot0r mulr0 addr0.
by rewrite ltr_addl quad_gt0.
Qed.

Theorem normal_eq_unique_w x x' : Aw *m x = yw -> Aw *m x' = yw -> x = x'.
Proof.
move=> Ax Ax'; apply/eqP; rewrite -subr_eq0; apply/negPn/negP => dn0.
have := Aw_posdef dn0; rewrite mulmxBr Ax Ax' subrr dot0r.
by rewrite ltxx.
Qed.

Theorem minimiser_unique_w x x' :
  (forall d, objw x <= objw (x + d)) -> (forall d, objw x' <= objw (x' + d)) -> x = x'.
Proof.
by move=> /minimiser_normal_eq_w Ax /minimiser_normal_eq_w Ax'; apply: normal_eq_unique_w.
Qed.
End Positive.
End Weighted.

(* ------------------------------------------------------------------------------------------ *)
(* explicit feedback: the unweighted problem is the instance w = 1 *)
Section Unweighted.
Variables m n : nat.
Variable M : 'M[R]_(m, n).
Variable v : 'cV[R]_m.
Variable c : R.

Definition obj (x : 'cV[R]_n) : R := dot (M *m x - v) (M *m x - v) + c * dot x x.
Definition A : 'M[R]_n := M^T *m M + c%:M.
Definition y : 'cV[R]_n := M^T *m v.

Let w1 : 'cV[R]_m := const_mx 1.
Lemma w1_ge0 i : 0 <= w1 i 0. Proof. by rewrite mxE ler01. Qed.
Lemma W_w1 : W w1 = 1%:M. Proof. by rewrite /W /w1 trmx_const diag_const_mx. Qed.
Lemma obj_w1 x : obj x = objw M v w1 c x.
Proof. by rewrite /obj /objw /dw W_w1 mul1mx. Qed.
Lemma A_w1 : A = Aw M w1 c. Proof. by rewrite /A /Aw W_w1 mulmx1. Qed.
Lemma y_w1 : y = yw M v w1. Proof. by rewrite /y /yw W_w1 mulmx1. Qed.

Theorem normal_eq_minimises x d : 0 <= c -> A *m x = y -> obj x <= obj (x + d).
Proof. by move=> c0; rewrite A_w1 y_w1 !obj_w1; apply: normal_eq_minimises_w => // i; apply: w1_ge0. Qed.

Theorem normal_eq_iff_minimiser x : 0 <= c ->
  (A *m x = y <-> forall d, obj x <= obj (x + d)).
Proof.
move=> c0; rewrite A_w1 y_w1.
have H := @normal_eq_iff_minimiser_w _ _ M v w1 c w1_ge0 c0 x.
by split=> [/H K d|K]; [rewrite !obj_w1; apply: K | apply/H => d; rewrite -!obj_w1].
Qed.

Theorem A_posdef d : 0 < c -> d != 0 -> 0 < dot d (A *m d).
Proof. by move=> c0 dn0; rewrite A_w1; apply: Aw_posdef => //; apply: w1_ge0. Qed.

Theorem normal_eq_unique x x' : 0 < c -> A *m x = y -> A *m x' = y -> x = x'.
Proof. by move=> c0; rewrite A_w1 y_w1; apply: normal_eq_unique_w => //; apply: w1_ge0. Qed.

Theorem minimiser_unique x x' : 0 < c ->
  (forall d, obj x <= obj (x + d)) -> (forall d, obj x' <= obj (x' + d)) -> x = x'.
Proof.
move=> c0 /(normal_eq_iff_minimiser x (ltW c0)) Ax /(normal_eq_iff_minimiser x' (ltW c0)) Ax'.
exact: normal_eq_unique Ax Ax'.
Qed.
End Unweighted.

(* ------------------------------------------------------------------------------------------ *)
(* implicit feedback (Hu, Koren, Volinsky): all rows O of the other side, preference p_i,
   confidence 1 + e_i (e_i = weight * rating on observed entries, 0 elsewhere).  The code
   precomputes O^T O + c I once per half-step and adds the correction O^T diag(e) O per row;
   its right-hand side is O^T ((1 + e) o p). *)
Section Implicit.
Variables m n : nat.
Variable O : 'M[R]_(m, n).
Variables p e : 'cV[R]_m.
Variable c : R.
Hypothesis e_ge0 : forall i, 0 <= e i 0.

Definition conf : 'cV[R]_m := const_mx 1 + e.
Definition A_code : 'M[R]_n := (O^T *m O + c%:M) + O^T *m diag_mx e^T *m O.
Definition y_code : 'cV[R]_n := O^T *m (\col_i (conf i 0 * p i 0)).

Lemma conf_ge0 i : 0 <= conf i 0.
Proof. by rewrite !mxE addr_ge0 ?ler01. Qed.

Lemma implicit_A : A_code = Aw O conf c.
Proof.
rewrite /A_code /Aw /W /conf [(_ + e)^T]linearD /= trmx_const [diag_mx (_ + _)]linearD /=.
by rewrite diag_const_mx mulmxDr mulmx1 mulmxDl addrAC.
Qed.

Lemma implicit_y : y_code = yw O p conf.
Proof.
rewrite /y_code /yw /W -mulmxA; congr (_ *m _).
by apply/colP => i; rewrite mul_diag_mx !mxE.
Qed.

(* the system solved by the code is the normal-equation system of the confidence-weighted
   objective  sum_i (1 + e_i) (p_i - (O x)_i)^2 + c |x|^2 *)
Theorem implicit_normal_eq_iff_minimiser x : 0 <= c ->
  (A_code *m x = y_code <-> forall d, objw O p conf c x <= objw O p conf c (x + d)).
Proof. by move=> c0; rewrite implicit_A implicit_y; apply: normal_eq_iff_minimiser_w => //; apply: conf_ge0. Qed.

Theorem implicit_normal_eq_unique x x' : 0 < c ->
  A_code *m x = y_code -> A_code *m x' = y_code -> x = x'.
Proof. by move=> c0; rewrite implicit_A implicit_y; apply: normal_eq_unique_w => //; apply: conf_ge0. Qed.

Lemma objw_implicit x :
  objw O p conf c x = \sum_i (1 + e i 0) * ((O *m x - p) i 0 * (O *m x - p) i 0) + c * dot x x.
Proof. by rewrite /objw dwE; congr (_ + _); apply: eq_bigr => i _; rewrite !mxE. Qed.
End Implicit.
End NormalEq.
