(* C17 -- a concrete history satisfying the hypotheses of the read-back theorem. *)
From Coq Require Import ZArith List Bool Lia.
From LK Require Import Model.C17_attributes Proofs.C17_align Proofs.C17_read.
Import ListNotations.
Local Open Scope nat_scope.

Ltac nodup_tac := repeat (constructor; [cbn; intuition discriminate|]); constructor.

Lemma c17_nonvacuous_l :
  let ops := [OEntities [30; 10; 20]%Z;
              OScalar 0 [20; 10]%Z [Some 5; Some 7]%Z;
              OVector 1 [30; 10; 20]%Z 2 [Some [Some 1; Some 2]; Some [Some 3; None]; Some [Some 0; Some 0]]%Z (Some [8; 9]%Z);
              OEntities [5; 40]%Z;
              OList 2 [40; 10]%Z [Some [Some 1; Some 1]; Some []]%Z;
              OSparse 3 [5; 30]%Z 4 [[(1%nat, 6%Z); (3%nat, 2%Z)]; []] None;
              OVector 4 [40; 5]%Z 1 [Some [Some 9]; None]%Z None;
              OScalar 0 [10]%Z [Some 1]%Z] in
  let t := fst (run empty_table ops) in
  Forall op_wf ops /\ snd (run empty_table ops) = [None; None; None; None; None; None; None; Some ENotImpl] /\
  t_rows t = [10; 20; 30; 5; 40]%Z /\
  sel_ok t (Some [40; 20; 5; 10]%Z) (Some [4; 1; 3; 0]) /\
  In (0, SupScalar [20; 10]%Z [Some 5; Some 7]%Z) (history empty_table ops) /\
  query t 0 (Some [40; 20; 5; 10]%Z) = Ok (VScalar [None; Some 5; None; Some 7]%Z [(20, Some 5); (10, Some 7)]%Z [(20, Some 5); (10, Some 7)]%Z [20; 10]%Z) /\
  (exists a, find_attr t 1 = Some a /\ read_vectors t (a_col a) (Some [4; 1; 3; 0]) = [None; Some [Some 0; Some 0]; None; Some [Some 3; None]]%Z) /\
  (exists a, find_attr t 4 = Some a /\ read_vectors t (a_col a) None = [None; None; None; None; Some [Some 9]]%Z).
Proof.
  cbv zeta. split; [|split; [|split; [|split; [|split; [|split; [|split]]]]]].
  - repeat constructor; cbn; try nodup_tac; try lia;
      try (intros v E; first [injection E as <-; reflexivity | discriminate]).
  - vm_compute. reflexivity.
  - vm_compute. reflexivity.
  - vm_compute. reflexivity.
  - vm_compute. left. reflexivity.
  - vm_compute. reflexivity.
  - eexists. split; vm_compute; reflexivity.
  - eexists. split; vm_compute; reflexivity.
Qed.
