(* C16 -- copies with fields replaced or removed, the meaning of selectors, and the concrete
   non-vacuity run. *)
From Coq Require Import ZArith List Bool Arith Lia.
From LK Require Import Model.C16_itemlist Proofs.C16_base Proofs.C16_wf Proofs.C16_ops Proofs.C16_rows.
Import ListNotations.
Open Scope Z_scope.

Lemma coherent_means_l env l : coherent env l ->
  (forall i, get_ids env l = Ok i -> length i = len l) /\
  (forall v i n, vocab l = Some v -> get_ids env l = Ok i -> get_nums env l MNegative = Ok n -> n = map (vnum (venv env v)) i) /\
  (forall n, get_nums env l MNegative = Ok n -> get_nums env l MError = if has_neg n then Err EKey else Ok n) /\
  (forall v2 i m, get_ids env l = Ok i -> alt_nums env l v2 m = apply_missing m (map (vnum (venv env v2)) i)) /\
  (forall f vs, get_field l f = Some vs -> length vs = len l) /\
  get_ranks l = if ordered l then Some (seq1 (len l)) else None.
Proof.
  intros [A B C D E F G]. repeat split; auto.
Qed.

Lemma reachable_wf_l env ops : env_ok env -> ops_ok env [] ops -> Forall (wf env) (run env [] ops).
Proof. intros EO OK. apply (run_wf env ops [] EO (Forall_nil _) OK). Qed.

(* ---------------------------------------------------------------- selectors *)
Lemma mask_pos_in m : forall b k, In k (mask_pos m b) <-> (b <= k)%nat /\ nth (k - b) m false = true.
Proof.
  induction m as [|x r IH]; intros b k; cbn [mask_pos].
  - split; [intros []|]. intros [_ H]. destruct (k - b)%nat; discriminate.
  - assert (R : In k (mask_pos r (S b)) <-> (S b <= k)%nat /\ nth (k - S b) r false = true) by apply IH.
    destruct x; cbn [In]; rewrite R; split.
    + intros [<-|[H1 H2]]; [split; [lia|]; rewrite Nat.sub_diag; reflexivity|].
      split; [lia|]. replace (k - b)%nat with (S (k - S b)) by lia. exact H2.
    + intros [H1 H2]. destruct (Nat.eq_dec b k) as [->|NE]; [left; reflexivity|right].
      split; [lia|]. replace (k - b)%nat with (S (k - S b)) in H2 by lia. exact H2.
    + intros [H1 H2]. split; [lia|]. replace (k - b)%nat with (S (k - S b)) by lia. exact H2.
    + intros [H1 H2]. destruct (Nat.eq_dec b k) as [->|NE]; [rewrite Nat.sub_diag in H2; discriminate|].
      split; [lia|]. replace (k - b)%nat with (S (k - S b)) in H2 by lia. exact H2.
Qed.

Lemma norm_idx_val n i k : norm_idx n i = Ok k -> Z.of_nat k = if i <? 0 then i + Z.of_nat n else i.
Proof.
  unfold norm_idx.
  destruct ((0 <=? i) && (i <? Z.of_nat n)) eqn:A.
  - apply andb_true_iff in A. destruct A as [A B]. apply Z.leb_le in A.
    intro E. injection E as <-. destruct (Z.ltb_spec i 0); lia.
  - destruct ((i <? 0) && (- Z.of_nat n <=? i)) eqn:B; [|discriminate].
    apply andb_true_iff in B. destruct B as [B C]. rewrite B. apply Z.ltb_lt in B. apply Z.leb_le in C.
    intro E. injection E as <-. lia.
Qed.

Lemma norm_idxs_val n ix sigma : norm_idxs n ix = Ok sigma ->
  forall j, (j < length ix)%nat ->
    Z.of_nat (nth j sigma O) = let i := nth j ix 0 in if i <? 0 then i + Z.of_nat n else i.
Proof.
  revert sigma. induction ix as [|i r IH]; intros sigma; cbn [norm_idxs length].
  - intros _ j H. lia.
  - destruct (norm_idx n i) as [k|] eqn:A; cbn [bind]; [|discriminate].
    destruct (norm_idxs n r) as [ks|] eqn:B; cbn [bind]; [|discriminate].
    intro E. injection E as <-. intros [|j] H; cbn [nth].
    + apply (norm_idx_val _ _ _ A).
    + apply (IH ks eq_refl). lia.
Qed.

Lemma range_list_seq fuel c : range_list fuel (Z.of_nat c) (Z.of_nat (c + fuel)) 1 = seq c fuel.
Proof.
  revert c. induction fuel as [|f IH]; intro c; cbn [range_list seq]; [reflexivity|].
  cbn [Z.ltb Z.compare]. destruct (Z.ltb_spec (Z.of_nat c) (Z.of_nat (c + S f))); [|lia].
  rewrite Nat2Z.id. f_equal.
  replace (Z.of_nat c + 1) with (Z.of_nat (S c)) by lia. replace (c + S f)%nat with (S c + f)%nat by lia. apply IH.
Qed.

Lemma selectors_mean_l n :
  (forall m, length m = n -> exists sigma, sel_idx n (SMask m) = Ok sigma /\
     forall k, In k sigma <-> nth k m false = true) /\
  (forall ix sigma, sel_idx n (SIdx ix) = Ok sigma ->
     length sigma = length ix /\ forall j, (j < length ix)%nat ->
       Z.of_nat (nth j sigma O) = let i := nth j ix 0 in if i <? 0 then i + Z.of_nat n else i) /\
  sel_idx n (SSlice None None None) = Ok (seq 0 n).
Proof.
  split; [|split].
  - intros m H. cbn [sel_idx]. rewrite H, Nat.eqb_refl. cbn [orb]. eexists. split; [reflexivity|].
    intro k. rewrite mask_pos_in. rewrite Nat.sub_0_r. split; [intros [_ X]; exact X|intro X; split; [lia|exact X]].
  - intros ix sigma H. cbn [sel_idx] in H. split; [apply (norm_idxs_length _ _ _ H)|apply (norm_idxs_val _ _ _ H)].
  - cbn [sel_idx]. unfold slice_idx. cbn [Z.eqb Z.ltb Z.compare]. f_equal.
    apply (range_list_seq n 0).
Qed.

(* ---------------------------------------------------------------- copies *)
Lemma other_fields_lookup_gen n eff o f :
  NoDup (map fst eff) -> other_fields n eff = Ok o -> f <> F_SCORE -> f <> F_RANK ->
  lookup f o = match lookup f eff with
               | Some (FArr x) => if array_is_null x then None else Some (map to_np (a_data x))
               | _ => None
               end.
Proof.
  intros ND H NS NR. revert o ND H. induction eff as [|[f0 d] r IH]; intros o ND; cbn [other_fields lookup].
  - intro E. injection E as <-. reflexivity.
  - cbn [map fst] in ND. apply NoDup_cons_iff in ND. destruct ND as [NI ND].
    assert (GONE : forall o', other_fields n r = Ok o' -> f = f0 -> lookup f o' = None).
    { intros o' E ->. apply lookup_notin. intro I. apply NI. apply (proj1 (other_fields_keys _ _ _ E) _ I). }
    destruct (Nat.eqb_spec f f0) as [EQ|NE].
    + subst f0. destruct (Nat.eqb_spec f F_SCORE); [congruence|]. destruct (Nat.eqb_spec f F_RANK); [congruence|]. cbn [orb].
      destruct d as [|x]; [intro E; apply (GONE _ E eq_refl)|].
      destruct (array_is_null x); [intro E; apply (GONE _ E eq_refl)|].
      destruct (check_1d (a_shape x) (Some n)); [|discriminate].
      destruct (other_fields n r) as [rest|]; cbn [bind]; [|discriminate].
      intro E. injection E as <-. cbn [lookup]. rewrite Nat.eqb_refl. reflexivity.
    + destruct (Nat.eqb f0 F_SCORE || Nat.eqb f0 F_RANK); [apply IH; exact ND|].
      destruct d as [|x]; [apply IH; exact ND|].
      destruct (array_is_null x); [apply IH; exact ND|].
      destruct (check_1d (a_shape x) (Some n)); [|discriminate].
      destruct (other_fields n r) as [rest|] eqn:R; cbn [bind]; [|discriminate].
      intro E. injection E as <-. cbn [lookup]. destruct (Nat.eqb_spec f f0); [congruence|].
      apply (IH rest ND eq_refl).
Qed.

Lemma copy_keeps_rows_l env s a l :
  env_ok env -> wf env s -> args_ok env (Some s) a ->
  c_ids a = None -> c_nums a = None -> construct env (Some s) a = Ok l ->
  len l = len s /\
  (forall i, get_ids env s = Ok i -> get_ids env l = Ok i) /\
  ((c_vocab a = None \/ c_vocab a = vocab s) -> forall n, raw_nums env s = Ok n -> raw_nums env l = Ok n) /\
  (forall f, f <> F_SCORE -> f <> F_RANK ->
     get_field l f = match lookup f (c_fields a) with
                     | Some FFalse => None
                     | Some (FArr x) => if array_is_null x then None else Some (map to_np (a_data x))
                     | None => get_field s f
                     end) /\
  (c_scores a = SNone -> lookup F_SCORE (c_fields a) = None -> get_field l F_SCORE = get_field s F_SCORE) /\
  (c_scores a = SFalse -> get_field l F_SCORE = None).
Proof.
  intros EO W AO CI CN. unfold construct.
  destruct (phase1 env (Some s) a) as [k|] eqn:P1; cbn [bind]; [|discriminate].
  destruct (score_arr (k_len k) (eff_fields (Some s) a) a) as [sc|] eqn:SC; cbn [bind]; [|discriminate].
  destruct (rank_phase a (ordered0 (Some s) a) (k_ranks k) (k_len k)) as [rk|] eqn:RK; cbn [bind]; [|discriminate].
  destruct (score_field (k_len k) sc) as [scf|] eqn:SF; cbn [bind]; [|discriminate].
  destruct (other_fields (k_len k) (eff_fields (Some s) a)) as [others|] eqn:OF; cbn [bind]; [|discriminate].
  intro E. injection E as <-.
  (* phase 1 with neither identifiers nor numbers given *)
  assert (K : k_len k = len s /\
              (forall i, get_ids env s = Ok i ->
                 match k_ids k with Some i' => Ok i' | None =>
                   match vocab0 (Some s) a with None => Err ERuntime | Some v =>
                     match k_nums k with Some n => vids (venv env v) n | None => Err ERuntime end end end = Ok i) /\
              ((c_vocab a = None \/ c_vocab a = vocab s) -> k_ids k = ids s /\ k_nums k = nums s /\ vocab0 (Some s) a = vocab s)).
  { revert P1. unfold phase1, ids_step, nums_step. rewrite CI, CN, base_state_src. cbn [bind fst snd].
    unfold vocab_step, vocab0. rewrite CI, CN. cbn [is_some negb andb src_of].
    destruct (c_vocab a) as [v|] eqn:CV.
    - destruct (vocab s) as [v0|] eqn:VS.
      + rewrite !andb_true_r. destruct (Nat.eqb_spec v v0) as [->|NE]; cbn [negb].
        * intro E. injection E as <-. cbn [k_len k_ids k_nums fst snd]. split; [reflexivity|]. split.
          -- intros i. unfold get_ids. rewrite VS. auto.
          -- intros _. auto.
        * destruct (ids s) as [i0|] eqn:I.
          -- intro E. injection E as <-. cbn [k_len k_ids k_nums fst snd]. split; [reflexivity|]. split.
             ++ intros i. unfold get_ids. rewrite I. auto.
             ++ intros [H|H]; congruence.
          -- destruct (nums s) as [ns|] eqn:N; [|discriminate].
             destruct (vids (venv env v0) ns) as [i0|] eqn:VI; cbn [bind]; [|discriminate].
             intro E. injection E as <-. cbn [k_len k_ids k_nums fst snd]. split; [reflexivity|]. split.
             ++ intros i. unfold get_ids. rewrite I, VS, N, VI. auto.
             ++ intros [H|H]; congruence.
      + intro E. injection E as <-. cbn [k_len k_ids k_nums fst snd]. split; [reflexivity|]. split.
        * intros i. unfold get_ids. rewrite VS. destruct (ids s); [auto|discriminate].
        * intros [H|H]; congruence.
    - intro E. injection E as <-. cbn [k_len k_ids k_nums fst snd]. split; [reflexivity|]. split.
      + intros i. unfold get_ids. auto.
      + intros _. auto. }
  destruct K as [KL [KI KN]].
  cbn [len]. split; [exact KL|]. split; [|split; [|split; [|split]]].
  - intros i G. unfold get_ids. cbn [ids vocab nums]. apply KI. exact G.
  - intros H n. destruct (KN H) as [A [B C]]. unfold raw_nums. cbn [ids vocab nums]. rewrite A, B, C. auto.
  - (* fields other than score *)
    intros f NS NR. unfold get_field. cbn [fields]. rewrite lookup_app.
    assert (L0 : lookup f scf = None).
    { destruct (score_field_keys _ _ _ SF) as [->|[d ->]]; cbn [lookup]; [reflexivity|]. destruct (Nat.eqb_spec f F_SCORE); [congruence|reflexivity]. }
    rewrite L0.
    rewrite (other_fields_lookup_gen _ _ _ f (eff_fields_keys env (Some s) a ltac:(intros s' Es; injection Es as <-; exact W) AO) OF NS NR).
    unfold eff_fields. rewrite (lookup_dict_union f _ _ (ao_keys _ _ _ AO)).
    destruct (lookup f (c_fields a)) as [[|x]|] eqn:LF; [reflexivity|reflexivity|].
    rewrite (lookup_map (fun vs => FArr (np1 vs))).
    destruct (lookup f (fields s)) as [vs|] eqn:LS; cbn [option_map]; [|reflexivity].
    cbn [array_is_null np1 a_kind is_arrow andb a_data]. f_equal. apply to_np_id.
    apply lookup_in in LS. pose proof (wf_fields _ _ W) as WF. rewrite Forall_forall in WF. apply (WF _ LS).
  - (* score kept *)
    intros CS L. unfold get_field. cbn [fields]. rewrite lookup_app.
    revert SC SF. unfold score_arr, score_field, eff_fields. rewrite CS, (lookup_dict_union _ _ _ (ao_keys _ _ _ AO)), L.
    rewrite (lookup_map (fun vs => FArr (np1 vs))).
    destruct (lookup F_SCORE (fields s)) as [vs|] eqn:LS; cbn [option_map np1 a_shape a_data].
    + intro E. injection E as <-. destruct (check_1d [length vs] (Some (k_len k))); [|discriminate].
      intro E. injection E as <-. cbn [lookup F_SCORE Nat.eqb]. f_equal. apply to_np_id.
      apply lookup_in in LS. pose proof (wf_fields _ _ W) as WF. rewrite Forall_forall in WF. apply (WF _ LS).
    + intro E. injection E as <-. intro E. injection E as <-. cbn [lookup]. apply (other_fields_noscore _ _ _ OF).
  - (* score removed *)
    intros CS. unfold get_field. cbn [fields]. rewrite lookup_app.
    revert SC SF. unfold score_arr, score_field. rewrite CS. intro E. injection E as <-. intro E. injection E as <-.
    cbn [lookup]. apply (other_fields_noscore _ _ _ OF).
Qed.

(* ---------------------------------------------------------------- a concrete run *)
Lemma c16_nonvacuous_l :
  let env := [[10; 11; 12; 13]; [13; 12; 99; 10]] in
  let f1 := {| a_kind := KNumpy; a_shape := [3%nat]; a_data := [VZ 4; VZ 8; VNaN] |} in
  let a0 := {| c_ids := Some (znp1 [11; 99; 13]); c_nums := None; c_vocab := Some 0%nat; c_ordered := Some true;
               c_scores := SArr f1; c_fields := [(2%nat, FArr f1)] |} in
  let a1 := {| c_ids := None; c_nums := None; c_vocab := Some 1%nat; c_ordered := None; c_scores := SFalse; c_fields := [] |} in
  let ops := [ONew a0; ONums 0 MNegative; OCopy 0 a1; OSub 1 (SSlice None None (Some (-1))); ODf 2 true false; OClone 0] in
  env_ok env /\ ops_ok env [] ops /\
  map (observe env) (run env [] ops) <> [] /\ length (run env [] ops) = 5%nat /\
  map (fun l => get_nums env l MNegative) (run env [] ops) =
    [Ok [1; -1; 3]; Ok [-1; 2; 0]; Ok [0; 2; -1]; Ok [0; 2; -1]; Ok [1; -1; 3]].
Proof.
  cbv zeta. split; [|split; [|split; [|split]]].
  - repeat (constructor; [repeat (constructor; [cbn; intuition discriminate|]); constructor|]). constructor.
  - cbn [ops_ok].
    split; [|split; [exact I|split; [|split; [exact I|split; [exact I|split; [exact I|exact I]]]]]].
    + cbn [op_ok]. constructor; cbn.
      * intros z E. injection E as <-. apply znp1_wf.
      * discriminate.
      * repeat constructor. intros n E. cbn in E. injection E as <-. reflexivity.
      * repeat constructor. intros [].
      * intros x E. injection E as <-. intros n E. cbn in E. injection E as <-. reflexivity.
      * discriminate.
      * discriminate.
      * discriminate.
    + cbn [op_ok]. intros s E. vm_compute in E. injection E as <-.
      constructor; try (cbn; intros; discriminate); try (cbn; constructor).
      intros s0 v i n E1 E2. injection E1 as <-. cbn in E2. discriminate.
  - vm_compute. discriminate.
  - vm_compute. reflexivity.
  - vm_compute. reflexivity.
Qed.
