(* C05 -- temporal splitting and filter_interactions(min_time, max_time): complementary time
   predicates; independence from the process time zone; soundness/completeness of the boolean
   checkers that tie the library contracts (shuffle, choice, argsort) to each observed run. *)
From Coq Require Import ZArith QArith List Bool Lia Permutation Arith PeanoNat.
From LK Require Import Lib.SplitLib Gen.C05_holdout Model.C05_split Proofs.C05_records Proofs.C05_holdout.
Import ListNotations.

(* ---- the two comparisons used by the splitter are complementary ------------------------------------------ *)
Lemma Qlt_b_lt a b : Qlt_b a b = true <-> (a < b)%Q.
Proof. unfold Qlt_b, Qlt. apply Z.ltb_lt. Qed.
Lemma Qle_b_le a b : Qle_b a b = true <-> (a <= b)%Q.
Proof. unfold Qle_b, Qle. apply Z.leb_le. Qed.
Lemma Qlt_b_compl a b : Qlt_b a b = negb (Qle_b b a).
Proof. unfold Qlt_b, Qle_b. rewrite Z.leb_antisym, negb_involutive. reflexivity. Qed.

Definition in_train (t : Q) (r : rec) : Prop := (tq r < t)%Q.
Definition in_test (t : Q) (t2 : option Q) (r : rec) : Prop :=
  (t <= tq r)%Q /\ match t2 with None => True | Some e => (tq r < e)%Q end.

Lemma time_fold_spec recs t t2 :
  f_train (time_fold recs t t2) = filter (fun r => Qlt_b (tq r) t) recs /\
  Permutation (test_recs (time_fold recs t t2))
              (filter (fun r => Qle_b t (tq r) && match t2 with None => true | Some e => Qlt_b (tq r) e end) recs) /\
  (forall r, In r (f_train (time_fold recs t t2)) <-> In r recs /\ in_train t r) /\
  (forall r, In r (test_recs (time_fold recs t t2)) <-> In r recs /\ in_test t t2 r).
Proof.
  split; [reflexivity|]. assert (Permutation (test_recs (time_fold recs t t2))
    (filter (fun r => Qle_b t (tq r) && match t2 with None => true | Some e => Qlt_b (tq r) e end) recs)) as P
    by (unfold test_recs, time_fold; cbn [f_test]; apply group_by_user_flat).
  split; [exact P|]. split.
  - intro r. unfold time_fold. cbn [f_train]. rewrite filter_In, Qlt_b_lt. reflexivity.
  - intro r. split.
    + intro H. apply (Permutation_in _ P) in H. apply filter_In in H. destruct H as [H B]. split; [exact H|].
      apply andb_true_iff in B. destruct B as [B1 B2]. split; [apply Qle_b_le; exact B1|].
      destruct t2; [apply Qlt_b_lt; exact B2|exact I].
    + intros [H [B1 B2]]. apply (Permutation_in _ (Permutation_sym P)). apply filter_In. split; [exact H|].
      apply andb_true_iff. split; [apply Qle_b_le; exact B1|]. destruct t2; [apply Qlt_b_lt; exact B2|reflexivity].
Qed.

(* without an upper bound the pair is an exact partition *)
Lemma time_fold_partition recs t :
  Permutation (f_train (time_fold recs t None) ++ test_recs (time_fold recs t None)) recs.
Proof.
  destruct (time_fold_spec recs t None) as [E [P _]]. rewrite E.
  eapply Permutation_trans; [apply Permutation_app_head; exact P|].
  rewrite (filter_ext_in' (fun r => Qle_b t (tq r) && true) (fun r => Qle_b t (tq r))) by (intros; apply andb_true_r).
  rewrite (filter_ext_in' (fun r => Qlt_b (tq r) t) (fun r => negb (Qle_b t (tq r)))) by (intros; apply Qlt_b_compl).
  apply filter_partition_perm.
Qed.
(* with an upper bound: training, test and "at or after the bound" partition the records *)
Lemma time_fold_partition_bounded recs t e : (t <= e)%Q ->
  Permutation (f_train (time_fold recs t (Some e)) ++ test_recs (time_fold recs t (Some e)) ++
               filter (fun r => Qle_b e (tq r)) recs) recs.
Proof.
  intro Le. destruct (time_fold_spec recs t (Some e)) as [E [P _]]. rewrite E.
  eapply Permutation_trans; [apply Permutation_app_head; apply Permutation_app_tail; exact P|].
  eapply Permutation_trans; [|apply (filter_partition_perm (fun r => Qle_b t (tq r)) recs)].
  rewrite (filter_ext_in' (fun r => Qlt_b (tq r) t) (fun r => negb (Qle_b t (tq r)))) by (intros; apply Qlt_b_compl).
  apply Permutation_app_head.
  (* within t <= time: before e or not *)
  assert (forall l : list rec, Permutation (filter (fun r => Qle_b t (tq r) && Qlt_b (tq r) e) l ++ filter (fun r => Qle_b e (tq r)) l)
                               (filter (fun r => Qle_b t (tq r)) l)) as X.
  { induction l as [|r l IH]; [constructor|]. cbn [filter].
    destruct (Qle_b e (tq r)) eqn:B2.
    - assert (Qle_b t (tq r) = true) as B1.
      { apply Qle_b_le. apply Qle_b_le in B2. eapply Qle_trans; [exact Le|exact B2]. }
      rewrite B1. rewrite Qlt_b_compl, B2. cbn [negb andb]. apply Permutation_sym. apply Permutation_cons_app. apply Permutation_sym. exact IH.
    - rewrite Qlt_b_compl, B2. cbn [negb]. rewrite andb_true_r. destruct (Qle_b t (tq r)); [cbn [app]; constructor|]; exact IH. }
  apply X.
Qed.

Definition next_cut (cuts : list Q) (endt : option Q) (j : nat) : option Q :=
  match nth_error cuts (S j) with Some e => Some e | None => endt end.
Lemma time_folds_nth recs cuts endt j t : nth_error cuts j = Some t ->
  nth_error (time_folds recs cuts endt) j = Some (time_fold recs t (next_cut cuts endt j)).
Proof.
  revert j. induction cuts as [|c cuts IH]; intros j E; [destruct j; discriminate|].
  destruct j as [|j]; cbn [nth_error] in E.
  - inversion E; subst. cbn [time_folds nth_error]. unfold next_cut. cbn [nth_error]. destruct cuts; reflexivity.
  - cbn [time_folds nth_error]. rewrite (IH j E). reflexivity.
Qed.
Lemma time_folds_length recs cuts endt : length (time_folds recs cuts endt) = length cuts.
Proof. induction cuts as [|c cuts IH]; cbn [time_folds length]; [reflexivity|]. rewrite IH. reflexivity. Qed.

(* ---- the local time zone --------------------------------------------------------------------------------------- *)
(* cut-offs whose meaning does not involve the process zone: UNIX seconds, and wall-clock times against a
   timestamp-typed column (the representation of the stored times) *)
Definition zone_free (c : colrep) (x : cutoff) : Prop :=
  match x with CNum _ => True | CWall _ => c = ColTs end.
Lemma conv_zone_free c x off1 off2 : zone_free c x -> conv c off1 x = conv c off2 x.
Proof. destruct x as [s|s]; cbn [zone_free]; intro H; [destruct c; reflexivity|subst; reflexivity]. Qed.
Lemma split_global_time_zone_free c recs cuts endt off1 off2 :
  Forall (zone_free c) cuts -> match endt with None => True | Some e => zone_free c e end ->
  split_global_time c off1 recs cuts endt = split_global_time c off2 recs cuts endt.
Proof.
  intros Hc He. unfold split_global_time.
  assert (map (conv c off1) cuts = map (conv c off2) cuts) as E1.
  { induction Hc as [|x l Hx _ IH]; [reflexivity|]. cbn [map]. rewrite IH, (conv_zone_free c x off1 off2 Hx). reflexivity. }
  assert (option_map (conv c off1) endt = option_map (conv c off2) endt) as E2.
  { destruct endt as [e|]; [|reflexivity]. cbn [option_map]. rewrite (conv_zone_free c e off1 off2 He). reflexivity. }
  rewrite E1, E2. reflexivity.
Qed.

Lemma filter_window_spec c off recs mn mx l : filter_window c off recs mn mx = Some l ->
  (c = ColNone -> l = recs) /\
  (c <> ColNone -> forall r, In r l <-> In r recs /\
     match mn with None => True | Some a => (conv c off a <= tq r)%Q end /\
     match mx with None => True | Some b => (tq r < conv c off b)%Q end).
Proof.
  intro E. split.
  - intro C. subst c. cbn [filter_window] in E. destruct mn, mx; try discriminate. inversion E. reflexivity.
  - intros C r. assert (l = filter (fun r => match mn with None => true | Some a => Qle_b (conv c off a) (tq r) end &&
                                         match mx with None => true | Some b => Qlt_b (tq r) (conv c off b) end) recs) as El.
    { destruct c; cbn [filter_window] in E; try contradiction; inversion E; reflexivity. }
    subst l. rewrite filter_In, andb_true_iff.
    destruct mn, mx; rewrite ?Qle_b_le, ?Qlt_b_lt; tauto.
Qed.

(* ---- checkers for what the libraries returned -------------------------------------------------------------------- *)
Lemma adj_sorted_head col a l : adj_sorted_b col (a :: l) = true -> forall x, In x l -> (nth a col 0 <= nth x col 0)%Z.
Proof.
  revert a. induction l as [|b l IH]; intros a H x Hx; [destruct Hx|].
  cbn [adj_sorted_b] in H. apply andb_true_iff in H. destruct H as [H1 H2]. apply Z.leb_le in H1.
  destruct Hx as [E|Hx]; [subst; exact H1|]. specialize (IH b H2 x Hx). lia.
Qed.
Lemma adj_sorted_tail col a l : adj_sorted_b col (a :: l) = true -> adj_sorted_b col l = true.
Proof. destruct l as [|b l]; [reflexivity|]. cbn [adj_sorted_b]. intro H. apply andb_true_iff in H. tauto. Qed.
Lemma adj_sorted_all col l : adj_sorted_b col l = true ->
  forall i j, (i < j < length l)%nat -> (nth (nth i l 0%nat) col 0 <= nth (nth j l 0%nat) col 0)%Z.
Proof.
  induction l as [|a l IH]; intros H i j Hij; [cbn [length] in Hij; lia|].
  destruct j as [|j]; [lia|]. cbn [length] in Hij. destruct i as [|i].
  - cbn [nth]. apply (adj_sorted_head col a l H). apply nth_In. lia.
  - cbn [nth]. apply IH; [exact (adj_sorted_tail col a l H)|lia].
Qed.
Lemma adj_sorted_complete col l :
  (forall i j, (i < j < length l)%nat -> (nth (nth i l 0%nat) col 0 <= nth (nth j l 0%nat) col 0)%Z) -> adj_sorted_b col l = true.
Proof.
  induction l as [|a l IH]; intro H; [reflexivity|]. destruct l as [|b l]; [reflexivity|].
  cbn [adj_sorted_b]. apply andb_true_iff. split.
  - apply Z.leb_le. apply (H 0%nat 1%nat). cbn [length]. lia.
  - apply IH. intros i j Hij. apply (H (S i) (S j)). cbn [length] in *. lia.
Qed.
Lemma argsort_ok_b_iff col o : argsort_ok_b col o = true <-> argsort_ok (fun _ => o) col.
Proof.
  unfold argsort_ok_b, argsort_ok. rewrite andb_true_iff, is_perm_b_iff. split.
  - intros [P S]. split; [exact P|]. intros i j Hij. apply adj_sorted_all; [exact S|].
    rewrite (Permutation_length P), seq_length. exact Hij.
  - intros [P S]. split; [exact P|]. apply adj_sorted_complete. intros i j Hij. apply S.
    rewrite (Permutation_length P), seq_length in Hij. exact Hij.
Qed.
Lemma choice_ok_b_iff len n draw : choice_ok_b len n draw = true <-> valid_idx len draw /\ Z.of_nat (length draw) = n.
Proof. unfold choice_ok_b. rewrite andb_true_iff, valid_idx_b_iff, Z.eqb_eq. reflexivity. Qed.
Lemma np_choice_ok draw a n :
  ((0 <= n <= a)%Z -> valid_idx (Z.to_nat a) draw /\ Z.of_nat (length draw) = n) -> choice_ok_at (np_choice draw) a n.
Proof.
  intro H. unfold choice_ok_at, np_choice. destruct ((0 <=? n) && (n <=? a))%Z eqn:B.
  - apply andb_true_iff in B. destruct B as [B1 B2]. apply Z.leb_le in B1. apply Z.leb_le in B2.
    destruct (H (conj B1 B2)) as [V L]. split; [lia|]. split; assumption.
  - apply andb_false_iff in B. destruct B as [B|B]; apply Z.leb_gt in B; lia.
Qed.
