(* C06 -- the value of every ranking metric is a function of the first k recommendations alone:
   what is recommended after position k (and how long the list goes on) never influences it. *)
From Coq Require Import ZArith QArith List Bool Lia.
From LK Require Import Lib.QLib Lib.RankLib Model.C06_ranking Gen.C06_metrics Proofs.C06_gen Proofs.C06_main.
Import ListNotations.

Lemma with_topk_tail k recs recs' f :
  il_ordered recs = il_ordered recs' -> topk k (il_ids recs) = topk k (il_ids recs') ->
  with_topk k recs f = with_topk k recs' f.
Proof.
  unfold with_topk, topk. destruct k as [n|]; intros Ho Ht.
  - rewrite Ho, Ht. reflexivity.
  - rewrite Ht. reflexivity.
Qed.

Lemma topk_shared_prefix n (p a b : list Z) :
  (n <= length p)%nat -> topk (Some n) (p ++ a) = topk (Some n) (p ++ b).
Proof.
  intro Hn. unfold topk. rewrite !firstn_app.
  replace (n - length p)%nat with 0%nat by lia. reflexivity.
Qed.

Lemma tail_irrelevant_l : forall k recs recs' t,
  il_ordered recs = il_ordered recs' -> topk k (il_ids recs) = topk k (il_ids recs') ->
  hit_measure_list k recs t = hit_measure_list k recs' t /\
  precision_measure_list k recs t = precision_measure_list k recs' t /\
  recall_measure_list k recs t = recall_measure_list k recs' t /\
  exc_eq (recip_measure_list k recs t) (recip_measure_list k recs' t) /\
  (forall g nrm, exc_eq (rbp_measure_list k g nrm recs t) (rbp_measure_list k g nrm recs' t)) /\
  (forall disc graded,
     exc_eq (dcg_measure_list k disc graded recs t) (dcg_measure_list k disc graded recs' t)) /\
  (forall disc graded,
     exc_eq (ndcg_measure_list k disc graded recs t) (ndcg_measure_list k disc graded recs' t)) /\
  (forall counts, pop_measure_list k (pop_item_ranks counts) recs t =
                  pop_measure_list k (pop_item_ranks counts) recs' t).
Proof.
  intros k recs recs' t Ho Ht.
  assert (W : forall f, with_topk k recs f = with_topk k recs' f)
    by (intro f; apply with_topk_tail; assumption).
  repeat split.
  - rewrite !(proj1 (hit_eq_definition_l _ _ _)). unfold hit_model. rewrite W. reflexivity.
  - rewrite !precision_eq_definition_l. unfold precision_model. apply W.
  - rewrite !recall_eq_definition_l. unfold recall_model. apply W.
  - eapply exc_eq_trans; [apply (proj1 (recip_eq_definition_l k recs t))|].
    apply exc_eq_sym. eapply exc_eq_trans; [apply (proj1 (recip_eq_definition_l k recs' t))|].
    unfold recip_model. rewrite W. apply exc_eq_refl.
  - intros g nrm. eapply exc_eq_trans; [apply rbp_eq_definition_l|].
    apply exc_eq_sym. eapply exc_eq_trans; [apply rbp_eq_definition_l|].
    unfold rbp_model. rewrite W. apply exc_eq_refl.
  - intros disc graded. eapply exc_eq_trans; [apply dcg_eq_definition_l|].
    apply exc_eq_sym. eapply exc_eq_trans; [apply dcg_eq_definition_l|].
    unfold dcg_model. rewrite W. apply exc_eq_refl.
  - intros disc graded. eapply exc_eq_trans; [apply ndcg_eq_definition_l|].
    apply exc_eq_sym. eapply exc_eq_trans; [apply ndcg_eq_definition_l|].
    unfold ndcg_model. rewrite W. apply exc_eq_refl.
  - intro counts. rewrite !(proj1 (pop_eq_definition_l _ _ _ _)). unfold pop_model. apply W.
Qed.

(* the hypotheses are met by two ordered lists that share their first n entries and continue differently,
   and dropped as soon as the cutoff reaches into the differing part *)
Lemma tail_irrelevant_shared_prefix_l : forall n p a b,
  (n <= length p)%nat ->
  let recs := {| il_ordered := true; il_ids := p ++ a |} in
  let recs' := {| il_ordered := true; il_ids := p ++ b |} in
  il_ordered recs = il_ordered recs' /\ topk (Some n) (il_ids recs) = topk (Some n) (il_ids recs').
Proof. intros n p a b Hn. cbn. split; [reflexivity|apply topk_shared_prefix; exact Hn]. Qed.
