(* C01 -- the sort by (row number, column number): a sorted permutation (stands for Arrow's sort_by). *)
From Coq Require Import ZArith List Bool Arith Lia Sorting.Sorted Sorting.Permutation.
From LK Require Import Model.C01_dataset.
Import ListNotations.

Definition rle (a b : rec) : Prop := rec_le a b = true.

Lemma rec_le_spec a b : rec_le a b = true <-> (r_u a < r_u b \/ (r_u a = r_u b /\ r_i a <= r_i b))%nat.
Proof.
  unfold rec_le. rewrite orb_true_iff, andb_true_iff, Nat.ltb_lt, Nat.eqb_eq, Nat.leb_le. tauto.
Qed.
Lemma rle_total a b : rle a b \/ rle b a.
Proof. unfold rle. rewrite !rec_le_spec. lia. Qed.
Lemma rle_trans a b c : rle a b -> rle b c -> rle a c.
Proof. unfold rle. rewrite !rec_le_spec. lia. Qed.
Lemma rec_le_false a b : rec_le a b = false -> rle b a.
Proof. intro H. destruct (rle_total a b) as [C|C]; [unfold rle in C; congruence|exact C]. Qed.

Lemma insert_rec_perm x l : Permutation (x :: l) (insert_rec x l).
Proof.
  induction l as [|y r IH]; cbn; [reflexivity|]. destruct (rec_le x y); [reflexivity|].
  rewrite perm_swap. constructor. exact IH.
Qed.
Lemma sort_recs_perm l : Permutation l (sort_recs l).
Proof. induction l as [|x r IH]; cbn; [constructor|]. rewrite <- insert_rec_perm. constructor. exact IH. Qed.

Lemma insert_rec_hdrel a x l : HdRel rle a l -> rle a x -> HdRel rle a (insert_rec x l).
Proof.
  destruct l as [|z r]; cbn; intros H L; [constructor; exact L|].
  destruct (rec_le x z); constructor; [exact L|inversion H; assumption].
Qed.
Lemma insert_rec_sorted x l : Sorted rle l -> Sorted rle (insert_rec x l).
Proof.
  induction 1 as [|y r Hs IH Hh]; cbn; [repeat constructor|].
  destruct (rec_le x y) eqn:E.
  - constructor; [constructor; assumption|constructor; exact E].
  - constructor; [exact IH|apply insert_rec_hdrel; [exact Hh|apply rec_le_false; exact E]].
Qed.
Lemma sort_recs_sorted l : StronglySorted rle (sort_recs l).
Proof.
  apply Sorted_StronglySorted; [intros a b c; apply rle_trans|].
  induction l as [|x r IH]; cbn; [constructor|apply insert_rec_sorted; exact IH].
Qed.

Lemma sort_recs_length l : length (sort_recs l) = length l.
Proof. symmetry. apply Permutation_length, sort_recs_perm. Qed.
Lemma sort_recs_In x l : In x (sort_recs l) <-> In x l.
Proof. split; apply Permutation_in; [symmetry|]; apply sort_recs_perm. Qed.

(* sorted by (u, i) implies sorted by u *)
Definition by_key {A} (k : A -> nat) (a b : A) : Prop := (k a <= k b)%nat.
Lemma sorted_by_user l : StronglySorted rle l -> StronglySorted (by_key r_u) l.
Proof.
  induction 1 as [|x r Hr IH Hall]; constructor; [exact IH|].
  eapply Forall_impl; [|exact Hall]. intros y H. unfold rle in H. apply rec_le_spec in H. unfold by_key. lia.
Qed.
