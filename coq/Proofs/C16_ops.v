(* C16 -- what a well-formed list shows to its readers, and preservation of the invariant by every
   operation of the interpreter. *)
From Coq Require Import ZArith List Bool Arith Lia.
From LK Require Import Model.C16_itemlist Proofs.C16_base Proofs.C16_wf.
Import ListNotations.
Open Scope Z_scope.

(* ---------------------------------------------------------------- the property, per list *)
Record coherent (env : envt) (l : ilist) : Prop := mk_coherent {
  co_len_ids : forall i, get_ids env l = Ok i -> length i = len l;
  co_len_nums : forall n m, get_nums env l m = Ok n -> length n = len l;
  co_corr : forall v i n, vocab l = Some v -> get_ids env l = Ok i -> get_nums env l MNegative = Ok n ->
            n = vnums (venv env v) i;
  co_missing : forall n, get_nums env l MNegative = Ok n ->
               get_nums env l MError = if has_neg n then Err EKey else Ok n;
  co_alt : forall v2 i m, get_ids env l = Ok i -> alt_nums env l v2 m = apply_missing m (vnums (venv env v2) i);
  co_fields : forall f vs, get_field l f = Some vs -> length vs = len l;
  co_ranks : get_ranks l = if ordered l then Some (seq1 (len l)) else None
}.

Lemma apply_missing_length m ns r : apply_missing m ns = Ok r -> r = ns.
Proof. destruct m; cbn [apply_missing]; [destruct (has_neg ns); [discriminate|]|]; intro E; injection E as <-; reflexivity. Qed.

(* identifiers and raw numbers of a well-formed list correspond through its vocabulary *)
Lemma raw_corr env l v i n :
  env_ok env -> wf env l -> vocab l = Some v -> get_ids env l = Ok i -> raw_nums env l = Ok n ->
  n = vnums (venv env v) i.
Proof.
  intros EO W V. unfold get_ids, raw_nums. rewrite V.
  destruct (ids l) as [i0|] eqn:I; destruct (nums l) as [n0|] eqn:N.
  - intros E1 E2. injection E1 as <-. injection E2 as <-. apply (wf_corr _ _ W i0 n0 v I N V).
  - intros E1 E2. injection E1 as <-. injection E2 as <-. reflexivity.
  - intros E1 E2. injection E2 as <-. symmetry. apply vnums_vids; [apply env_nodup; exact EO|exact E1].
  - discriminate.
Qed.

Lemma get_ids_length env l i : wf env l -> get_ids env l = Ok i -> length i = len l.
Proof.
  intros W. unfold get_ids. destruct (ids l) as [i0|] eqn:I.
  - intro E. injection E as <-. apply (wf_ids _ _ W). exact I.
  - destruct (vocab l) as [v|]; [|discriminate]. destruct (nums l) as [ns|] eqn:N; [|discriminate].
    intro E. rewrite (vids_length _ _ _ E). apply (wf_nums _ _ W). exact N.
Qed.

Lemma raw_nums_length env l n : wf env l -> raw_nums env l = Ok n -> length n = len l.
Proof.
  intros W. unfold raw_nums. destruct (nums l) as [n0|] eqn:N.
  - intro E. injection E as <-. apply (wf_nums _ _ W). exact N.
  - destruct (vocab l) as [v|]; [|discriminate]. destruct (ids l) as [i|] eqn:I; [|discriminate].
    intro E. injection E as <-. rewrite vnums_length. apply (wf_ids _ _ W). exact I.
Qed.

Lemma same_vocab_eq a b : same_vocab a b = true -> a = Some b.
Proof. destruct a as [x|]; cbn [same_vocab]; [|discriminate]. intro E. apply Nat.eqb_eq in E. congruence. Qed.

Theorem coherent_of_wf env l : env_ok env -> wf env l -> coherent env l.
Proof.
  intros EO W. constructor.
  - intros i. apply get_ids_length. exact W.
  - intros n m. unfold get_nums. destruct (raw_nums env l) as [r|] eqn:R; cbn [bind]; [|discriminate].
    intro E. apply apply_missing_length in E. subst. apply (raw_nums_length env l r W R).
  - intros v i n V I. unfold get_nums. destruct (raw_nums env l) as [r|] eqn:R; cbn [bind apply_missing]; [|discriminate].
    intro E. injection E as <-. apply (raw_corr env l v i r EO W V I R).
  - intros n. unfold get_nums. destruct (raw_nums env l) as [r|]; cbn [bind apply_missing]; [|discriminate].
    intro E. injection E as <-. reflexivity.
  - intros v2 i m I. unfold alt_nums. destruct (same_vocab (vocab l) v2) eqn:SV.
    + apply same_vocab_eq in SV. unfold get_nums.
      destruct (raw_nums env l) as [r|] eqn:R; cbn [bind].
      * rewrite (raw_corr env l v2 i r EO W SV I R). reflexivity.
      * exfalso. revert I R. unfold get_ids, raw_nums. rewrite SV.
        destruct (ids l), (nums l); try discriminate.
    + rewrite I. reflexivity.
  - intros f vs. unfold get_field. intro L. apply lookup_in in L.
    pose proof (wf_fields _ _ W) as F. rewrite Forall_forall in F. apply (F _ L).
  - unfold get_ranks. destruct (ordered l); [|reflexivity]. destruct (ranks l) as [r|] eqn:R; [|reflexivity].
    rewrite (wf_ranks _ _ W r R). reflexivity.
Qed.

(* ---------------------------------------------------------------- the lazy readers *)
Lemma force_ids_wf env l : env_ok env -> wf env l -> wf env (fst (force_ids env l)).
Proof.
  intros EO W. unfold force_ids. destruct (get_ids env l) as [i|] eqn:G; cbn [fst]; [|exact W].
  constructor; cbn [set_ids len ids nums vocab ordered ranks fields]; try apply W.
  - intros i' E. injection E as <-. apply (get_ids_length env l i W G).
  - left. discriminate.
  - intros i' n v E N V. injection E as <-. apply (raw_corr env l v i n EO W V G). unfold raw_nums. rewrite N. reflexivity.
Qed.

Lemma force_nums_wf env l m : env_ok env -> wf env l -> wf env (fst (force_nums env l m)).
Proof.
  intros EO W. unfold force_nums. destruct (raw_nums env l) as [n|] eqn:G; cbn [fst]; [|exact W].
  constructor; cbn [set_nums len ids nums vocab ordered ranks fields]; try apply W.
  - intros n' E. injection E as <-. apply (raw_nums_length env l n W G).
  - right. discriminate.
  - intros i n' v I E V. injection E as <-. apply (raw_corr env l v i n EO W V); [|exact G]. unfold get_ids. rewrite I. reflexivity.
Qed.

Lemma force_ranks_wf env l : wf env l -> wf env (force_ranks l).
Proof.
  intros W. unfold force_ranks. destruct (ordered l); [|exact W]. destruct (ranks l) eqn:R; [exact W|].
  constructor; cbn [set_ranks len ids nums vocab ordered ranks fields]; try apply W.
  intros r E. injection E as <-. reflexivity.
Qed.

(* the readers never change what a list shows *)
Definition same_view (env : envt) (l l' : ilist) : Prop :=
  len l' = len l /\ vocab l' = vocab l /\ ordered l' = ordered l /\ fields l' = fields l /\
  get_ids env l' = get_ids env l /\ raw_nums env l' = raw_nums env l /\ get_ranks l' = get_ranks l.

Lemma same_view_refl env l : same_view env l l.
Proof. repeat split. Qed.
Lemma same_view_trans env a b c : same_view env a b -> same_view env b c -> same_view env a c.
Proof. unfold same_view. intuition congruence. Qed.

Lemma same_view_observe env l l' : same_view env l l' -> observe env l' = observe env l.
Proof.
  intros [A [B [C [D [E [F G]]]]]]. unfold observe.
  assert (GN : forall m, get_nums env l' m = get_nums env l m) by (intro m; unfold get_nums; rewrite F; reflexivity).
  assert (AL : forall v m, alt_nums env l' v m = alt_nums env l v m).
  { intros v m. unfold alt_nums. rewrite B, GN, E. reflexivity. }
  rewrite A, B, C, E, !GN, G. f_equal.
  - apply map_ext. intro v. rewrite !AL. reflexivity.
  - apply map_ext. intro f. unfold get_field. rewrite D. reflexivity.
Qed.

Lemma force_ids_view env l : wf env l -> same_view env l (fst (force_ids env l)).
Proof.
  intro W. unfold force_ids. destruct (get_ids env l) as [i|] eqn:G; cbn [fst]; [|apply same_view_refl].
  repeat split; cbn [set_ids len ids nums vocab ordered ranks fields].
  - unfold get_ids at 1. cbn [set_ids ids]. symmetry. exact G.
  - unfold raw_nums. cbn [set_ids nums vocab ids]. destruct (nums l) as [n|] eqn:N; [reflexivity|].
    revert G. unfold get_ids. rewrite N. destruct (ids l) as [i0|]; [intro E; injection E as <-; reflexivity|].
    destruct (vocab l); discriminate.
Qed.

Lemma force_nums_view env l m : wf env l -> same_view env l (fst (force_nums env l m)).
Proof.
  intro W. unfold force_nums. destruct (raw_nums env l) as [n|] eqn:G; cbn [fst]; [|apply same_view_refl].
  repeat split; cbn [set_nums len ids nums vocab ordered ranks fields].
  - unfold get_ids. cbn [set_nums nums vocab ids]. destruct (ids l) as [i|] eqn:I; [reflexivity|].
    revert G. unfold raw_nums. rewrite I. destruct (nums l) as [n0|]; [intro E; injection E as <-; reflexivity|].
    destruct (vocab l); discriminate.
  - unfold raw_nums at 1. cbn [set_nums nums]. symmetry. exact G.
Qed.

Lemma force_ranks_view env l : same_view env l (force_ranks l).
Proof.
  unfold force_ranks. destruct (ordered l) eqn:O; [|apply same_view_refl].
  destruct (ranks l) eqn:R; [apply same_view_refl|].
  repeat split. unfold get_ranks. cbn [set_ranks ordered ranks len]. rewrite O, R. reflexivity.
Qed.

(* ---------------------------------------------------------------- subsetting, clone *)
Lemma subset_args_ok env l sigma :
  wf env l -> Forall (fun k => (k < len l)%nat) sigma -> args_ok env None (subset_args l sigma).
Proof.
  intros W B. constructor; cbn [subset_args c_ids c_nums c_fields c_scores c_vocab].
  - intros z E. destruct (ids l); [|discriminate]. injection E as <-. apply znp1_wf.
  - intros z E. destruct (nums l); [|discriminate]. injection E as <-. apply znp1_wf.
  - apply Forall_forall. intros f Hf. apply in_map_iff in Hf. destruct Hf as [g [<- _]]. cbn [snd farg_wf]. apply np1_wf.
  - rewrite map_map. cbn [fst]. apply (wf_keys _ _ W).
  - discriminate.
  - intros zi zn v Ei En V. unfold vocab0 in V. cbn [subset_args c_vocab] in V.
    destruct (vocab l) as [v0|] eqn:VL; cbn [src_of] in V; [|discriminate]. injection V as <-.
    destruct (ids l) as [i|] eqn:I; [|discriminate]. destruct (nums l) as [n|] eqn:N; [|discriminate].
    cbn [option_map] in Ei, En. injection Ei as <-. injection En as <-. cbn [znp1 z_data].
    rewrite (wf_corr _ _ W i n v0 I N VL). unfold vnums.
    apply pick_map. rewrite (wf_ids _ _ W i I). exact B.
  - discriminate.
  - intros x n L. exfalso. rewrite (lookup_map (fun vs => FArr (np1 (pick VNaN sigma vs)))), (wf_norank _ _ W) in L. discriminate.
Qed.

Lemma subset_wf env l s l' : env_ok env -> wf env l -> subset env l s = Ok l' -> wf env l'.
Proof.
  intros EO W. unfold subset. destruct (sel_idx (len l) s) as [sigma|] eqn:S; cbn [bind]; [|discriminate].
  apply construct_wf; [exact EO|discriminate|].
  apply subset_args_ok; [exact W|]. apply (sel_idx_bound _ _ _ S).
Qed.

Lemma clone_args_ok env l : wf env l -> args_ok env None (clone_args l).
Proof.
  intros W. constructor; cbn [clone_args c_ids c_nums c_fields c_scores c_vocab].
  - intros z E. destruct (ids l); [|discriminate]. injection E as <-. apply znp1_wf.
  - intros z E. destruct (nums l); [|discriminate]. injection E as <-. apply znp1_wf.
  - apply Forall_forall. intros f Hf. apply in_map_iff in Hf. destruct Hf as [g [<- _]]. cbn [snd farg_wf]. apply np1_wf.
  - rewrite map_map. cbn [fst]. apply (wf_keys _ _ W).
  - discriminate.
  - intros zi zn v Ei En V. unfold vocab0 in V. cbn [clone_args c_vocab] in V.
    destruct (vocab l) as [v0|] eqn:VL; cbn [src_of] in V; [|discriminate]. injection V as <-.
    destruct (ids l) as [i|] eqn:I; [|discriminate]. destruct (nums l) as [n|] eqn:N; [|discriminate].
    cbn [option_map] in Ei, En. injection Ei as <-. injection En as <-. cbn [znp1 z_data].
    apply (wf_corr _ _ W i n v0 I N VL).
  - discriminate.
  - intros x n L. exfalso. rewrite (lookup_map (fun vs => FArr (np1 vs))), (wf_norank _ _ W) in L. discriminate.
Qed.

Lemma clone_wf env l l' : env_ok env -> wf env l -> clone env l = Ok l' -> wf env l'.
Proof.
  intros EO W. unfold clone. apply construct_wf; [exact EO|discriminate|apply clone_args_ok; exact W].
Qed.

(* ---------------------------------------------------------------- conversions *)
(* a table read from a well-formed list: its identifier and number columns correspond *)
Definition table_ok (env : envt) (voc : option nat) (t : table) : Prop :=
  (forall i n v, t_ids t = Some i -> t_nums t = Some n -> voc = Some v -> n = vnums (venv env v) i) /\
  (forall r, t_rank t = Some r -> r = seq1 (length r)) /\
  lookup F_RANK (t_fields t) = None /\ NoDup (map fst (t_fields t)).

Lemma table_args_ok env t voc k : table_ok env voc t -> args_ok env None (table_args t voc k).
Proof.
  intros [TC [TR [TN TK]]]. constructor; cbn [table_args c_ids c_nums c_fields c_scores c_vocab].
  - intros z E. destruct (t_ids t); [|discriminate]. injection E as <-. apply znp1_wf.
  - intros z E. destruct (t_nums t); [|discriminate]. injection E as <-. apply znp1_wf.
  - apply Forall_app. split.
    + destruct (t_rank t); constructor; [|constructor]. cbn [snd farg_wf]. intros n E. cbn in E. injection E as <-. apply map_length.
    + apply Forall_forall. intros f Hf. apply in_map_iff in Hf. destruct Hf as [g [<- _]]. cbn [snd farg_wf].
      intros n E. cbn in E. injection E as <-. reflexivity.
  - rewrite map_app, map_map. cbn [fst]. destruct (t_rank t); cbn [map fst app]; [|exact TK].
    constructor; [|exact TK]. intro I. apply lookup_notin_conv in I. congruence.
  - discriminate.
  - intros zi zn v Ei En V. unfold vocab0 in V. cbn [table_args c_vocab src_of] in V.
    destruct voc as [v0|]; [|discriminate]. injection V as <-.
    destruct (t_ids t) as [i|] eqn:I; [|discriminate]. destruct (t_nums t) as [n|] eqn:N; [|discriminate].
    cbn [option_map] in Ei, En. injection Ei as <-. injection En as <-. cbn [znp1 z_data].
    apply (TC i n v0 eq_refl eq_refl eq_refl).
  - discriminate.
  - intros x n L E. destruct (t_rank t) as [r|] eqn:R.
    + cbn [app lookup F_RANK Nat.eqb] in L. injection L as <-. cbn [a_shape a_data] in *. injection E as <-.
      rewrite map_map. cbn [val_Z]. rewrite map_id. apply TR. reflexivity.
    + exfalso. cbn [app] in L.
      rewrite (lookup_map (fun vs => FArr {| a_kind := k; a_shape := [length vs]; a_data := vs |})), TN in L. discriminate.
Qed.

Lemma to_df_spec env l wi wn l' rt :
  env_ok env -> wf env l -> to_df env l wi wn = (l', rt) ->
  wf env l' /\ same_view env l l' /\ forall t, rt = Ok t -> table_ok env (vocab l) t.
Proof.
  intros EO W. unfold to_df.
  set (want_i := wi && (is_some (ids l) || is_some (vocab l))).
  set (want_n := wn && (is_some (nums l) || is_some (vocab l))).
  (* identifiers *)
  assert (S1 : exists l1 ri, (if want_i then let '(l0, r) := force_ids env l in (l0, res_map Some r) else (l, Ok None)) = (l1, ri)
                /\ wf env l1 /\ same_view env l l1 /\ forall i, ri = Ok (Some i) -> get_ids env l1 = Ok i).
  { destruct want_i.
    - pose proof (force_ids_wf env l EO W) as W1. pose proof (force_ids_view env l W) as V1.
      unfold force_ids in *. destruct (get_ids env l) as [i|] eqn:G; cbn [fst res_map] in *.
      + eexists _, _. split; [reflexivity|]. split; [exact W1|]. split; [exact V1|].
        intros i' E. injection E as <-. reflexivity.
      + eexists _, _. split; [reflexivity|]. split; [exact W1|]. split; [exact V1|]. discriminate.
    - exists l, (Ok None). split; [reflexivity|]. split; [exact W|]. split; [apply same_view_refl|]. discriminate. }
  destruct S1 as [l1 [ri [-> [W1 [V1 I1]]]]].
  destruct ri as [ci|e]; [|intro E; injection E as <- <-; split; [exact W1|split; [exact V1|discriminate]]].
  assert (S2 : exists l2 rn, (if want_n then let '(l0, r) := force_nums env l1 MError in (l0, res_map Some r) else (l1, Ok None)) = (l2, rn)
                /\ wf env l2 /\ same_view env l1 l2 /\ forall n, rn = Ok (Some n) -> raw_nums env l2 = Ok n).
  { destruct want_n.
    - pose proof (force_nums_wf env l1 MError EO W1) as W2. pose proof (force_nums_view env l1 MError W1) as V2.
      unfold force_nums in *. destruct (raw_nums env l1) as [n|] eqn:G; cbn [fst res_map] in *.
      + eexists _, _. split; [reflexivity|]. split; [exact W2|]. split; [exact V2|].
        intros n' E. destruct V2 as [_ [_ [_ [_ [_ [V2 _]]]]]]. rewrite V2, G.
        cbn [apply_missing] in E. destruct (has_neg n); [discriminate|]. cbn [res_map] in E. injection E as <-. reflexivity.
      + eexists _, _. split; [reflexivity|]. split; [exact W2|]. split; [exact V2|]. discriminate.
    - exists l1, (Ok None). split; [reflexivity|]. split; [exact W1|]. split; [apply same_view_refl|]. discriminate. }
  destruct S2 as [l2 [rn [-> [W2 [V2 N2]]]]].
  destruct rn as [cn|e]; [|intro E; injection E as <- <-; split; [exact W2|split; [eapply same_view_trans; eassumption|discriminate]]].
  destruct (negb (is_some ci) && negb (is_some cn)).
  { intro E. injection E as <- <-. split; [exact W2|split; [eapply same_view_trans; eassumption|discriminate]]. }
  intro E. injection E as <- <-.
  pose proof (force_ranks_wf env l2 W2) as W3. pose proof (force_ranks_view env l2) as V3.
  split; [exact W3|]. split; [eapply same_view_trans; [|exact V3]; eapply same_view_trans; eassumption|].
  intros t E. injection E as <-. split; [|split; [|split]]; cbn [t_ids t_nums t_rank t_fields]; [| |apply (wf_norank _ _ W3)|apply (wf_keys _ _ W3)].
  - intros i n v Ei En Vv. subst ci cn.
    assert (VL : vocab l2 = Some v) by (destruct V1 as [_ [B1 _]]; destruct V2 as [_ [B2 _]]; congruence).
    apply (raw_corr env l2 v i n EO W2 VL); [|apply N2; reflexivity].
    destruct V2 as [_ [_ [_ [_ [V2 _]]]]]. rewrite V2. apply I1. reflexivity.
  - intros r E. pose proof (co_ranks _ _ (coherent_of_wf env _ EO W3)) as CR. rewrite E in CR.
    destruct (ordered (force_ranks l2)); [|discriminate]. injection CR as ->. rewrite seq1_length. reflexivity.
Qed.

Lemma via_df_wf env l wi wn l' r :
  env_ok env -> wf env l -> via_df env l wi wn = (l', r) ->
  wf env l' /\ same_view env l l' /\ forall x, r = Ok x -> wf env x.
Proof.
  intros EO W. unfold via_df. destruct (to_df env l wi wn) as [l1 rt] eqn:T.
  destruct (to_df_spec env l wi wn l1 rt EO W T) as [W1 [V1 TO]].
  intro E. injection E as <- <-. split; [exact W1|]. split; [exact V1|].
  intros x. destruct rt as [t|e]; cbn [bind]; [|discriminate].
  apply construct_wf; [exact EO|discriminate|]. apply table_args_ok. apply TO. reflexivity.
Qed.

Lemma to_arrow_spec env l wi wn l' rt :
  env_ok env -> wf env l -> to_arrow env l wi wn = (l', rt) ->
  wf env l' /\ same_view env l l' /\ forall t, rt = Ok t -> table_ok env (vocab l) t.
Proof.
  intros EO W. unfold to_arrow. destruct (len l =? 0)%nat.
  { intro E. injection E as <- <-. split; [exact W|]. split; [apply same_view_refl|].
    intros t E. injection E as <-. split; [|split; [|split]]; cbn; try discriminate; [reflexivity|constructor]. }
  set (want_i := wi && (is_some (ids l) || is_some (vocab l))).
  set (want_n := wn && (is_some (nums l) || is_some (vocab l))).
  assert (S1 : exists l1 ri, (if want_i then let '(l0, r) := force_ids env l in (l0, res_map Some r) else (l, Ok None)) = (l1, ri)
                /\ wf env l1 /\ same_view env l l1 /\ forall i, ri = Ok (Some i) -> get_ids env l1 = Ok i).
  { destruct want_i.
    - pose proof (force_ids_wf env l EO W) as W1. pose proof (force_ids_view env l W) as V1.
      unfold force_ids in *. destruct (get_ids env l) as [i|] eqn:G; cbn [fst res_map] in *.
      + eexists _, _. split; [reflexivity|]. split; [exact W1|]. split; [exact V1|].
        intros i' E. injection E as <-. reflexivity.
      + eexists _, _. split; [reflexivity|]. split; [exact W1|]. split; [exact V1|]. discriminate.
    - exists l, (Ok None). split; [reflexivity|]. split; [exact W|]. split; [apply same_view_refl|]. discriminate. }
  destruct S1 as [l1 [ri [-> [W1 [V1 I1]]]]].
  destruct ri as [ci|e]; [|intro E; injection E as <- <-; split; [exact W1|split; [exact V1|discriminate]]].
  assert (S2 : exists l2 rn, (if want_n then let '(l0, r) := force_nums env l1 MError in (l0, res_map Some r) else (l1, Ok None)) = (l2, rn)
                /\ wf env l2 /\ same_view env l1 l2 /\ forall n, rn = Ok (Some n) -> raw_nums env l2 = Ok n).
  { destruct want_n.
    - pose proof (force_nums_wf env l1 MError EO W1) as W2. pose proof (force_nums_view env l1 MError W1) as V2.
      unfold force_nums in *. destruct (raw_nums env l1) as [n|] eqn:G; cbn [fst res_map] in *.
      + eexists _, _. split; [reflexivity|]. split; [exact W2|]. split; [exact V2|].
        intros n' E. destruct V2 as [_ [_ [_ [_ [_ [V2 _]]]]]]. rewrite V2, G.
        cbn [apply_missing] in E. destruct (has_neg n); [discriminate|]. cbn [res_map] in E. injection E as <-. reflexivity.
      + eexists _, _. split; [reflexivity|]. split; [exact W2|]. split; [exact V2|]. discriminate.
    - exists l1, (Ok None). split; [reflexivity|]. split; [exact W1|]. split; [apply same_view_refl|]. discriminate. }
  destruct S2 as [l2 [rn [-> [W2 [V2 N2]]]]].
  destruct rn as [cn|e]; [|intro E; injection E as <- <-; split; [exact W2|split; [eapply same_view_trans; eassumption|discriminate]]].
  intro E. injection E as <- <-.
  pose proof (force_ranks_wf env l2 W2) as W3. pose proof (force_ranks_view env l2) as V3.
  split; [exact W3|]. split; [eapply same_view_trans; [|exact V3]; eapply same_view_trans; eassumption|].
  intros t E. injection E as <-. split; [|split; [|split]]; cbn [t_ids t_nums t_rank t_fields]; [| |apply (wf_norank _ _ W3)|apply (wf_keys _ _ W3)].
  - intros i n v Ei En Vv. subst ci cn.
    assert (VL : vocab l2 = Some v) by (destruct V1 as [_ [B1 _]]; destruct V2 as [_ [B2 _]]; congruence).
    apply (raw_corr env l2 v i n EO W2 VL); [|apply N2; reflexivity].
    destruct V2 as [_ [_ [_ [_ [V2 _]]]]]. rewrite V2. apply I1. reflexivity.
  - intros r E. pose proof (co_ranks _ _ (coherent_of_wf env _ EO W3)) as CR. rewrite E in CR.
    destruct (ordered (force_ranks l2)); [|discriminate]. injection CR as ->. rewrite seq1_length. reflexivity.
Qed.

Lemma via_arrow_wf env l wi wn l' r :
  env_ok env -> wf env l -> via_arrow env l wi wn = (l', r) ->
  wf env l' /\ same_view env l l' /\ forall x, r = Ok x -> wf env x.
Proof.
  intros EO W. unfold via_arrow. destruct (to_arrow env l wi wn) as [l1 rt] eqn:T.
  destruct (to_arrow_spec env l wi wn l1 rt EO W T) as [W1 [V1 TO]].
  intro E. injection E as <- <-. split; [exact W1|]. split; [exact V1|].
  intros x. destruct rt as [t|e]; cbn [bind]; [|discriminate].
  destruct (negb (is_some (t_ids t)) && negb (is_some (t_nums t))); [discriminate|].
  apply construct_wf; [exact EO|discriminate|]. apply table_args_ok. apply TO. reflexivity.
Qed.

(* ---------------------------------------------------------------- to_arrow(columns=...) *)
Definition has_id (cols : list col) : bool := existsb (fun c => match c with CId => true | _ => false end) cols.
Definition has_num (cols : list col) : bool := existsb (fun c => match c with CNum => true | _ => false end) cols.
Definition has_name (f : fname) (cols : list col) : bool :=
  existsb (fun c => match c with CName g => Nat.eqb g f | _ => false end) cols.

(* whatever the order of the columns: the readers only fill caches, and each part of the table holds
   what its name says (for the list the conversion started from) *)
Lemma arrow_cols_gen env l0 : env_ok env -> forall cols l t0 l' rt,
  wf env l -> same_view env l0 l -> arrow_cols env l cols t0 = (l', rt) ->
  wf env l' /\ same_view env l0 l' /\
  forall t, rt = Ok t ->
    (if has_id cols then exists i, get_ids env l0 = Ok i /\ t_ids t = Some i else t_ids t = t_ids t0) /\
    (if has_num cols then exists n, get_nums env l0 MError = Ok n /\ t_nums t = Some n else t_nums t = t_nums t0) /\
    (if has_name F_RANK cols then t_rank t = get_ranks l0 else t_rank t = t_rank t0) /\
    (forall f, f <> F_RANK ->
       lookup f (t_fields t) = if has_name f cols && is_some (get_field l0 f) then get_field l0 f else lookup f (t_fields t0)) /\
    (NoDup (map fst (t_fields t0)) -> NoDup (map fst (t_fields t))) /\
    (lookup F_RANK (t_fields t0) = None -> lookup F_RANK (t_fields t) = None).
Proof.
  intros EO. induction cols as [|c r IH]; intros l t0 l' rt W V; cbn [arrow_cols].
  - intro E. injection E as <- <-. split; [exact W|]. split; [exact V|].
    intros t E. injection E as <-. cbn. repeat split; auto.
  - destruct c as [| |f].
    + (* item_id *)
      pose proof (force_ids_wf env l EO W) as W1. pose proof (force_ids_view env l W) as V1.
      unfold force_ids in *. destruct (get_ids env l) as [i|e] eqn:G; cbn [fst] in *.
      * intro E. destruct (IH _ (t_put_ids t0 i) _ _ W1 (same_view_trans _ _ _ _ V V1) E) as [W2 [V2 S]].
        split; [exact W2|]. split; [exact V2|]. intros t Et. destruct (S t Et) as [A [B [C [D [N R]]]]].
        cbn [has_id has_num has_name existsb orb]. fold (has_id r). fold (has_num r). fold (has_name F_RANK r).
        split; [|split; [exact B|split; [exact C|split; [|split; [exact N|exact R]]]]].
        -- assert (G0 : get_ids env l0 = Ok i) by (destruct V as [_ [_ [_ [_ [Vi _]]]]]; rewrite <- Vi; exact G).
           destruct (has_id r); [exact A|]. exists i. split; [exact G0|]. rewrite A. reflexivity.
        -- intros f NF. cbn [existsb orb]. fold (has_name f r). apply D. exact NF.
      * intro E. injection E as <- <-. split; [exact W1|]. split; [eapply same_view_trans; eassumption|]. discriminate.
    + (* item_num *)
      pose proof (force_nums_wf env l MError EO W) as W1. pose proof (force_nums_view env l MError W) as V1.
      unfold force_nums in *. destruct (raw_nums env l) as [n|e] eqn:G; cbn [fst] in *.
      * destruct (apply_missing MError n) as [n'|e] eqn:AM.
        -- intro E. destruct (IH _ (t_put_nums t0 n') _ _ W1 (same_view_trans _ _ _ _ V V1) E) as [W2 [V2 S]].
           split; [exact W2|]. split; [exact V2|]. intros t Et. destruct (S t Et) as [A [B [C [D [N R]]]]].
           cbn [has_id has_num has_name existsb orb]. fold (has_id r). fold (has_num r). fold (has_name F_RANK r).
           split; [exact A|split; [|split; [exact C|split; [|split; [exact N|exact R]]]]].
           ++ assert (G0 : get_nums env l0 MError = Ok n').
              { unfold get_nums. destruct V as [_ [_ [_ [_ [_ [Vn _]]]]]]. rewrite <- Vn, G. cbn [bind]. exact AM. }
              destruct (has_num r); [exact B|]. exists n'. split; [exact G0|]. rewrite B. reflexivity.
           ++ intros f NF. cbn [existsb orb]. fold (has_name f r). apply D. exact NF.
        -- intro E. injection E as <- <-. split; [exact W1|]. split; [eapply same_view_trans; eassumption|]. discriminate.
      * intro E. injection E as <- <-. split; [exact W1|]. split; [eapply same_view_trans; eassumption|]. discriminate.
    + destruct (Nat.eqb f F_RANK) eqn:FR.
      * (* rank *)
        apply Nat.eqb_eq in FR. subst f.
        pose proof (force_ranks_wf env l W) as W1. pose proof (force_ranks_view env l) as V1.
        intro E. destruct (IH _ (t_put_rank t0 (get_ranks (force_ranks l))) _ _ W1 (same_view_trans _ _ _ _ V V1) E) as [W2 [V2 S]].
        split; [exact W2|]. split; [exact V2|]. intros t Et. destruct (S t Et) as [A [B [C [D [N R]]]]].
        cbn [has_id has_num has_name existsb orb]. fold (has_id r). fold (has_num r). fold (has_name F_RANK r).
        rewrite Nat.eqb_refl. cbn [orb].
        split; [exact A|split; [exact B|split; [|split; [|split; [exact N|exact R]]]]].
        -- destruct (has_name F_RANK r); [exact C|]. rewrite C. cbn [t_put_rank t_rank].
           destruct V as [_ [_ [_ [_ [_ [_ Vr]]]]]]. destruct V1 as [_ [_ [_ [_ [_ [_ Vr1]]]]]]. congruence.
        -- intros f NF. cbn [existsb orb]. fold (has_name f r).
           assert (FE : Nat.eqb F_RANK f = false) by (apply Nat.eqb_neq; congruence). rewrite FE. cbn [orb]. apply D. exact NF.
      * (* a field *)
        apply Nat.eqb_neq in FR.
        assert (GF : get_field l f = get_field l0 f) by (unfold get_field; destruct V as [_ [_ [_ [Vf _]]]]; rewrite Vf; reflexivity).
        intro E.
        destruct (IH _ (match get_field l f with Some vs => t_put_field t0 f vs | None => t0 end) _ _ W V E) as [W2 [V2 S]].
        split; [exact W2|]. split; [exact V2|]. intros t Et. destruct (S t Et) as [A [B [C [D [N R]]]]].
        cbn [has_id has_num has_name existsb orb]. fold (has_id r). fold (has_num r). fold (has_name F_RANK r).
        assert (FE : Nat.eqb f F_RANK = false) by (apply Nat.eqb_neq; exact FR). rewrite FE. cbn [orb].
        split; [|split; [|split; [|split; [|split]]]].
        -- destruct (has_id r); [exact A|]. rewrite A. destruct (get_field l f); reflexivity.
        -- destruct (has_num r); [exact B|]. rewrite B. destruct (get_field l f); reflexivity.
        -- destruct (has_name F_RANK r); [exact C|]. rewrite C. destruct (get_field l f); reflexivity.
        -- intros g NG. cbn [existsb orb]. fold (has_name g r). rewrite (D g NG).
           destruct (Nat.eqb f g) eqn:FG.
           ++ apply Nat.eqb_eq in FG. subst g. cbn [orb]. rewrite <- GF.
              destruct (get_field l f) as [vs|] eqn:GL; cbn [is_some]; rewrite ?andb_true_r, ?andb_false_r; [|reflexivity].
              destruct (has_name f r); [reflexivity|]. cbn [t_put_field t_fields]. rewrite lookup_dict_set, Nat.eqb_refl. reflexivity.
           ++ cbn [orb]. destruct (has_name g r && is_some (get_field l0 g)); [reflexivity|].
              destruct (get_field l f); [|reflexivity]. cbn [t_put_field t_fields]. rewrite lookup_dict_set.
              rewrite Nat.eqb_sym, FG. reflexivity.
        -- intro ND. apply N. destruct (get_field l f); [|exact ND]. cbn [t_put_field t_fields]. apply dict_set_nodup. exact ND.
        -- intro NR. apply R. destruct (get_field l f); [|exact NR]. cbn [t_put_field t_fields]. rewrite lookup_dict_set.
           assert (FE2 : Nat.eqb F_RANK f = false) by (apply Nat.eqb_neq; congruence). rewrite FE2. exact NR.
Qed.

Lemma arrow_cols_table_ok env l cols l' t (kv : bool) :
  env_ok env -> wf env l -> arrow_cols env l cols t_none = (l', Ok t) ->
  table_ok env (if kv then vocab l else None) t.
Proof.
  intros EO W E. destruct (arrow_cols_gen env l EO cols l t_none l' (Ok t) W (same_view_refl env l) E) as [_ [_ S]].
  destruct (S t eq_refl) as [A [B [C [_ [N R]]]]]. split; [|split; [|split]].
  - intros i n v Ei En Ev. destruct kv; [|discriminate].
    destruct (has_id cols); [|rewrite A in Ei; discriminate]. destruct A as [i' [GI Ei']].
    destruct (has_num cols); [|rewrite B in En; discriminate]. destruct B as [n' [GN En']].
    assert (i' = i) by congruence. assert (n' = n) by congruence. subst i' n'.
    revert GN. unfold get_nums. destruct (raw_nums env l) as [rn|] eqn:RN; cbn [bind]; [|discriminate].
    intro AM. apply apply_missing_length in AM. subst rn. apply (raw_corr env l v i n EO W Ev GI RN).
  - intros r Er. destruct (has_name F_RANK cols); [|rewrite C in Er; discriminate].
    rewrite C in Er. pose proof (co_ranks _ _ (coherent_of_wf env l EO W)) as CR. rewrite Er in CR.
    destruct (ordered l); [|discriminate]. injection CR as ->. rewrite seq1_length. reflexivity.
  - apply R. reflexivity.
  - apply N. constructor.
Qed.

Lemma empty_cols_table_ok env voc cols : forall t, table_ok env voc t ->
  (forall i, t_ids t = Some i -> i = []) -> (forall n, t_nums t = Some n -> n = []) -> table_ok env voc (empty_cols cols t).
Proof.
  unfold table_ok. induction cols as [|c r IH]; intros t T HI HN; cbn [empty_cols]; [exact T|].
  destruct T as [TC [TR [TN TK]]].
  destruct c as [| |f].
  - apply IH; cbn [t_put_ids t_ids t_nums t_rank t_fields].
    + split; [|split; [exact TR|split; [exact TN|exact TK]]].
      intros i n v Ei En Ev. injection Ei as <-. rewrite (HN n En). reflexivity.
    + intros i Ei. injection Ei as <-. reflexivity.
    + exact HN.
  - apply IH; cbn [t_put_nums t_ids t_nums t_rank t_fields].
    + split; [|split; [exact TR|split; [exact TN|exact TK]]].
      intros i n v Ei En Ev. injection En as <-. rewrite (HI i Ei). reflexivity.
    + exact HI.
    + intros n En. injection En as <-. reflexivity.
  - destruct (Nat.eqb f F_RANK) eqn:FR.
    + apply IH; cbn [t_put_rank t_ids t_nums t_rank t_fields]; [|exact HI|exact HN].
      split; [exact TC|split; [|split; [exact TN|exact TK]]]. intros r0 Er. injection Er as <-. reflexivity.
    + apply IH; cbn [t_put_field t_ids t_nums t_rank t_fields]; [|exact HI|exact HN].
      split; [exact TC|split; [exact TR|split]].
      * rewrite lookup_dict_set. rewrite Nat.eqb_sym, FR. exact TN.
      * apply dict_set_nodup. exact TK.
Qed.

Lemma via_arrow_cols_wf env l cols kv l' r :
  env_ok env -> wf env l -> via_arrow_cols env l cols kv = (l', r) ->
  wf env l' /\ same_view env l l' /\ forall x, r = Ok x -> wf env x.
Proof.
  intros EO W. unfold via_arrow_cols. destruct (len l =? 0)%nat.
  - intro E. injection E as <- <-. split; [exact W|]. split; [apply same_view_refl|].
    intros x. cbn [bind]. destruct (negb _ && negb _); [discriminate|].
    apply construct_wf; [exact EO|discriminate|]. apply table_args_ok. apply empty_cols_table_ok.
    + split; [|split; [|split]]; cbn; try discriminate; [reflexivity|constructor].
    + discriminate.
    + discriminate.
  - destruct (arrow_cols env l cols t_none) as [l1 rt] eqn:T.
    destruct (arrow_cols_gen env l EO cols l t_none l1 rt W (same_view_refl env l) T) as [W1 [V1 _]].
    intro E. injection E as <- <-. split; [exact W1|]. split; [exact V1|].
    intros x. destruct rt as [t|e]; cbn [bind]; [|discriminate].
    destruct (negb _ && negb _); [discriminate|].
    apply construct_wf; [exact EO|discriminate|]. apply table_args_ok. apply (arrow_cols_table_ok env l cols l1 t kv EO W T).
Qed.

(* ---------------------------------------------------------------- operation sequences *)
Definition op_ok (env : envt) (ls : list ilist) (o : op) : Prop :=
  match o with
  | ONew a => args_ok env None a
  | OCopy k a => forall s, nth_error ls (k mod (length ls)) = Some s -> args_ok env (Some s) a
  | _ => True
  end.
Fixpoint ops_ok (env : envt) (ls : list ilist) (ops : list op) : Prop :=
  match ops with
  | [] => True
  | o :: r => op_ok env ls o /\ ops_ok env (fst (step env ls o)) r
  end.

Lemma push_wf env ls r : Forall (wf env) ls -> (forall l, r = Ok l -> wf env l) -> Forall (wf env) (fst (push ls r)).
Proof.
  intros H Hr. unfold push. destruct r as [l|e]; cbn [fst]; [|exact H].
  apply Forall_app. split; [exact H|]. constructor; [apply Hr; reflexivity|constructor].
Qed.

Theorem step_wf env ls o :
  env_ok env -> Forall (wf env) ls -> op_ok env ls o -> Forall (wf env) (fst (step env ls o)).
Proof.
  intros EO H OK.
  assert (NTH : forall k l, nth_error ls k = Some l -> wf env l).
  { intros k l E. rewrite Forall_forall in H. apply H. eapply nth_error_In. exact E. }
  destruct o as [a|k a|k s|k|k m|k|k v m|k|k wi wn|k wi wn|k cols kv]; cbn [step op_ok] in *.
  - apply push_wf; [exact H|]. intros l E. apply (construct_wf env None a l EO); [discriminate|exact OK|exact E].
  - destruct (nth_error ls (k mod length ls)) as [s|] eqn:N; [|exact H].
    apply push_wf; [exact H|]. intros l E.
    apply (construct_wf env (Some s) a l EO); [intros s' Es; injection Es as <-; apply (NTH _ _ N)|apply OK; reflexivity|exact E].
  - destruct (nth_error ls (k mod length ls)) as [l|] eqn:N; [|exact H].
    apply push_wf; [exact H|]. intros l' E. apply (subset_wf env l s l' EO (NTH _ _ N) E).
  - destruct (nth_error ls (k mod length ls)) as [l|] eqn:N; [|exact H].
    pose proof (force_ids_wf env l EO (NTH _ _ N)) as W. destruct (force_ids env l) as [l' r]. cbn [fst] in *.
    apply forall_update; assumption.
  - destruct (nth_error ls (k mod length ls)) as [l|] eqn:N; [|exact H].
    pose proof (force_nums_wf env l m EO (NTH _ _ N)) as W. destruct (force_nums env l m) as [l' r]. cbn [fst] in *.
    apply forall_update; assumption.
  - destruct (nth_error ls (k mod length ls)) as [l|] eqn:N; [|exact H].
    cbn [fst]. apply forall_update; [apply force_ranks_wf; apply (NTH _ _ N)|exact H].
  - destruct (nth_error ls (k mod length ls)) as [l|] eqn:N; [|exact H].
    destruct (same_vocab (vocab l) v).
    + pose proof (force_nums_wf env l m EO (NTH _ _ N)) as W. destruct (force_nums env l m) as [l' r]. cbn [fst] in *.
      apply forall_update; assumption.
    + pose proof (force_ids_wf env l EO (NTH _ _ N)) as W. destruct (force_ids env l) as [l' r]. cbn [fst] in *.
      apply forall_update; assumption.
  - destruct (nth_error ls (k mod length ls)) as [l|] eqn:N; [|exact H].
    apply push_wf; [exact H|]. intros l' E. apply (clone_wf env l l' EO (NTH _ _ N) E).
  - destruct (nth_error ls (k mod length ls)) as [l|] eqn:N; [|exact H].
    destruct (via_df env l wi wn) as [l' r] eqn:V.
    destruct (via_df_wf env l wi wn l' r EO (NTH _ _ N) V) as [W1 [_ WR]].
    apply push_wf; [apply forall_update; assumption|exact WR].
  - destruct (nth_error ls (k mod length ls)) as [l|] eqn:N; [|exact H].
    destruct (via_arrow env l wi wn) as [l' r] eqn:V.
    destruct (via_arrow_wf env l wi wn l' r EO (NTH _ _ N) V) as [W1 [_ WR]].
    apply push_wf; [apply forall_update; assumption|exact WR].
  - destruct (nth_error ls (k mod length ls)) as [l|] eqn:N; [|exact H].
    destruct (via_arrow_cols env l cols kv) as [l' r] eqn:V.
    destruct (via_arrow_cols_wf env l cols kv l' r EO (NTH _ _ N) V) as [W1 [_ WR]].
    apply push_wf; [apply forall_update; assumption|exact WR].
Qed.

Theorem run_wf env ops : forall ls,
  env_ok env -> Forall (wf env) ls -> ops_ok env ls ops -> Forall (wf env) (run env ls ops).
Proof.
  induction ops as [|o r IH]; intros ls EO H OK; cbn [run]; [exact H|].
  destruct OK as [O1 O2]. apply IH; [exact EO| |exact O2]. apply step_wf; assumption.
Qed.
