(* C03 -- the model pipeline satisfies the specification; length precedence; candidates; fallback
   merge; query forms.  The facts about topn_len / argtopn_plan are proved about the GENERATED
   definitions (Gen/C03_len.v), so they are re-checked against the source on every run. *)
From Coq Require Import ZArith QArith List Bool Lia Lqa Sorted Permutation.
From LK Require Import Lib.QLib Lib.PyInt Lib.TopN Gen.C03_len Model.C03_pipeline Proofs.C03_argtopn Proofs.C03_checker.
Import ListNotations.
Open Scope Z_scope.

(* ---- generated length resolution ---- *)
Definition config_default (config_n : pyv) : Z :=
  match config_n with Some c => if c =? 0 then -1 else c | None => -1 end.

Lemma topn_len_runtime k config_n : topn_len (Some k) config_n = Some (Take (Some k) true).
Proof. reflexivity. Qed.
Lemma topn_len_config config_n : topn_len None config_n = Some (Take (Some (config_default config_n)) true).
Proof.
  unfold topn_len, config_default. destruct config_n as [c|]; cbn; [|reflexivity].
  destruct (c =? 0); reflexivity.
Qed.
Definition resolve (run_n config_n : pyv) : Z :=
  match run_n with Some k => k | None => config_default config_n end.
Lemma topn_len_resolve run_n config_n : topn_len run_n config_n = Some (Take (Some (resolve run_n config_n)) true).
Proof. destruct run_n; [apply topn_len_runtime|apply topn_len_config]. Qed.
Lemma resolved_resolve run_n config_n : resolved run_n config_n = Some (resolve run_n config_n).
Proof. unfold resolved. rewrite topn_len_resolve. reflexivity. Qed.

(* all three plans are "the first want_len of the sorted NaN-free rows" *)
Lemma argtopn_rows_firstn l k :
  let valid := filter has_score l in
  argtopn_rows l k = Some (firstn (want_len k (length valid)) (sort_desc skey valid)).
Proof.
  intro valid. unfold argtopn_rows. fold valid. rewrite argtopn_plan_cases. unfold want_len.
  destruct (k =? 0) eqn:E0.
  - apply Z.eqb_eq in E0. subst. reflexivity.
  - apply Z.eqb_neq in E0. destruct ((0 <=? k) && (k <? Z.of_nat (length valid))) eqn:E.
    + apply andb_true_iff in E. destruct E as [E1 E2]. apply Z.leb_le in E1. apply Z.ltb_lt in E2.
      destruct (k <? 0) eqn:E3; [apply Z.ltb_lt in E3; lia|].
      f_equal. f_equal. lia.
    + destruct (k <? 0) eqn:E3.
      * rewrite <- (sort_desc_length skey valid). rewrite firstn_all. reflexivity.
      * apply Z.ltb_ge in E3. apply andb_false_iff in E. destruct E as [E|E].
        { apply Z.leb_gt in E. lia. }
        apply Z.ltb_ge in E. rewrite Nat.min_r by lia.
        rewrite <- (sort_desc_length skey valid). rewrite firstn_all. reflexivity.
Qed.

Lemma want_len_le k m : (want_len k m <= m)%nat.
Proof. unfold want_len. destruct (k <? 0); lia. Qed.

Lemma NoDup_map_filter {A B} (f : A -> B) (p : A -> bool) l : NoDup (map f l) -> NoDup (map f (filter p l)).
Proof.
  induction l as [|x l IH]; simpl; intro H; [constructor|].
  inversion H as [|? ? Hn Hd]; subst. destruct (p x); simpl; [|auto].
  constructor; [|auto]. intro Hi. apply Hn. apply in_map_iff in Hi. destruct Hi as [y [E Hy]].
  apply in_map_iff. exists y. split; [exact E|]. apply filter_In in Hy. tauto.
Qed.

(* the first m of the sorted scorable rows satisfy every clause *)
Lemma firstn_sorted_spec cand scores k :
  NoDup (map fst scores) -> (forall p, In p scores -> In (fst p) cand) ->
  let valid := filter has_score scores in
  rec_spec cand scores k (firstn (want_len k (length valid)) (sort_desc skey valid)).
Proof.
  intros Hnd Hc valid.
  assert (Hsc : scorable cand scores = valid).
  { unfold scorable, valid. apply filter_ext_in. intros p Hp.
    rewrite (proj2 (memZ_In _ _) (Hc p Hp)). destruct (has_score p); reflexivity. }
  set (m := want_len k (length valid)).
  assert (Hin : forall p, In p (firstn m (sort_desc skey valid)) -> In p scores /\ has_score p = true).
  { intros p Hp. apply In_firstn in Hp. apply sort_desc_in in Hp. unfold valid in Hp.
    apply filter_In in Hp. exact Hp. }
  unfold rec_spec. repeat split.
  - intros i s Hi. apply Hin in Hi. exact (Hc _ (proj1 Hi)).
  - apply NoDup_map_firstn. apply sort_desc_NoDup_map. apply NoDup_map_filter. exact Hnd.
  - intros i s Hi. apply Hin in Hi. apply (has_score_some i s). exact (proj2 Hi).
  - apply StronglySorted_firstn. apply sort_desc_sorted.
  - intros i s Hi. apply Hin in Hi. exact (proj1 Hi).
  - rewrite Hsc. rewrite firstn_length, sort_desc_length. fold m. pose proof (want_len_le k (length valid)). lia.
  - intros j t Hj Hcj Hn i s Hi Hlt.
    assert (Hv : In (j, Some t) (sort_desc skey valid)).
    { apply sort_desc_in. unfold valid. apply filter_In. split; [exact Hj|reflexivity]. }
    rewrite <- (firstn_skipn m) in Hv. apply in_app_or in Hv. destruct Hv as [Hv|Hv].
    + apply Hn. apply in_map_iff. exists (j, Some t). split; [reflexivity|exact Hv].
    + pose proof (topn_dominates skey m valid _ _ Hi Hv) as D. unfold skey in D; simpl in D. lra.
Qed.

Lemma score_items_fst sc q l : map fst (score_items sc q l) = l.
Proof. unfold score_items. rewrite map_map. simpl. apply map_id. Qed.
Lemma score_items_in sc q l p : In p (score_items sc q l) -> In (fst p) l.
Proof. unfold score_items. rewrite in_map_iff. intros [x [<- H]]. exact H. Qed.

Lemma select_candidates_NoDup ds q : NoDup (ds_items ds) -> NoDup (select_candidates ds q).
Proof. intro H. unfold select_candidates. destruct (q_items q); [apply NoDup_filter|]; exact H. Qed.

Lemma candidates_NoDup ds q supplied :
  NoDup (ds_items ds) -> (forall l, supplied = Some l -> NoDup l) -> NoDup (candidates ds q supplied).
Proof.
  intros H1 H2. unfold candidates. destruct supplied as [l|]; [apply H2; reflexivity|].
  apply select_candidates_NoDup. exact H1.
Qed.

Lemma pipeline_ok_l (sc : scorer) ds i supplied config_n run_n :
  NoDup (ds_items ds) -> (forall l, supplied = Some l -> NoDup l) ->
  let q := lookup_history ds i in
  let cand := candidates ds q supplied in
  let k := resolve run_n config_n in
  exists out,
    rec_pipeline sc ds i supplied config_n run_n = Ok (out, true) /\
    rec_ok_b cand (score_items sc q cand) k out = true.
Proof.
  intros H1 H2 q cand k.
  unfold rec_pipeline, topn_ranker. fold q. fold cand. rewrite topn_len_resolve. fold k.
  rewrite argtopn_rows_firstn. eexists. split; [reflexivity|].
  apply rec_ok_sound_complete_l. apply firstn_sorted_spec.
  - rewrite score_items_fst. apply candidates_NoDup; assumption.
  - apply score_items_in.
Qed.

(* ---- candidates ---- *)
Lemma candidates_exact_l ds i supplied :
  let q := lookup_history ds i in
  (forall l, supplied = Some l -> candidates ds q supplied = l) /\
  (supplied = None -> forall x, In x (candidates ds q supplied) <-> In x (ds_items ds) /\ ~ In x (history_ids q)) /\
  (* whose history: the query's own when it carries one, else the training row of a known user *)
  q_items q = match q_items (create i), q_user (create i) with
              | Some h, _ => Some h
              | None, Some u => row_items ds u
              | None, None => None
              end.
Proof.
  intro q. split; [|split].
  - intros l ->. reflexivity.
  - intros -> x. unfold candidates, select_candidates, history_ids. destruct (q_items q) as [h|].
    + rewrite filter_In, negb_true_iff, memZ_nIn. tauto.
    + simpl. tauto.
  - unfold q, lookup_history. destruct (create i) as [[u|] [h|]]; reflexivity.
Qed.

(* ---- run-time length overrides the configured one ---- *)
Lemma runtime_n_overrides_l (sc : scorer) ds i supplied config_n config_n' k :
  resolved (Some k) config_n = Some k /\
  resolved None config_n = Some (config_default config_n) /\
  rec_pipeline sc ds i supplied config_n (Some k) = rec_pipeline sc ds i supplied config_n' (Some k).
Proof.
  split; [|split].
  - rewrite resolved_resolve. reflexivity.
  - rewrite resolved_resolve. reflexivity.
  - unfold rec_pipeline, topn_ranker. rewrite !topn_len_runtime. reflexivity.
Qed.

(* ---- fallback merge ---- *)
Lemma score_of_score_items (f : scorer) q l x : In x l -> score_of x (score_items f q l) = f q x.
Proof.
  unfold score_of, score_items. induction l as [|y l IH]; simpl; [contradiction|].
  intros [->|H].
  - rewrite Z.eqb_refl. reflexivity.
  - destruct (y =? x) eqn:E; simpl.
    + apply Z.eqb_eq in E. subst. reflexivity.
    + auto.
Qed.
Lemma rows_of_rows r : rows (of_rows r) = r.
Proof.
  unfold rows, of_rows. simpl. induction r as [|[i s] r IH]; simpl; [reflexivity|]. rewrite IH. reflexivity.
Qed.
Definition merged (sc f : scorer) (q : query) (x : Z) : option Q :=
  match sc q x with Some v => Some v | None => f q x end.

Lemma merge_map (s g : Z -> option Q) l :
  combine (map fst (map (fun i => (i, s i)) l))
    (map (fun p : Z * option Q => match snd p with Some v => Some v | None => g (fst p) end)
         (combine (map fst (map (fun i => (i, s i)) l)) (map snd (map (fun i => (i, s i)) l))))
  = map (fun x => (x, match s x with Some v => Some v | None => g x end)) l.
Proof. induction l as [|x l IH]; simpl; [reflexivity|]. rewrite IH. reflexivity. Qed.

Lemma predict_merge_l (sc f : scorer) ds i supplied :
  let q := lookup_history ds i in
  let cand := candidates ds q supplied in
  rows (pred_pipeline sc (Some f) ds i supplied) = map (fun x => (x, merged sc f q x)) cand /\
  rows (pred_pipeline sc None ds i supplied) = score_items sc q cand.
Proof.
  intros q cand. unfold pred_pipeline. fold q. fold cand. split; [|apply rows_of_rows].
  unfold fallback_scorer.
  change (snd (of_rows (score_items sc q cand))) with (Some (map snd (score_items sc q cand))).
  cbv iota beta.
  destruct (existsb is_nan (map snd (score_items sc q cand))) eqn:E; cbn [negb].
  - change (snd (of_rows (score_items f q cand))) with (Some (map snd (score_items f q cand))).
    cbv iota beta. rewrite rows_of_rows. unfold rows. cbn [fst snd of_rows].
    unfold score_items at 1 2 3. rewrite (merge_map (sc q) (fun x => score_of x (score_items f q cand))).
    apply map_ext_in. intros x Hx. unfold merged. destruct (sc q x); [reflexivity|].
    rewrite score_of_score_items by exact Hx. reflexivity.
  - rewrite rows_of_rows. unfold score_items. apply map_ext_in. intros x Hx.
    unfold merged. destruct (sc q x) eqn:Ex; [reflexivity|]. exfalso.
    assert (T : existsb is_nan (map snd (map (fun i0 : Z => (i0, sc q i0)) cand)) = true).
    { apply existsb_exists. exists None. split; [|reflexivity].
      apply in_map_iff. exists (x, None). split; [reflexivity|]. apply in_map_iff. exists x. rewrite Ex. auto. }
    unfold score_items in E. congruence.
Qed.

(* item-wise statement on arbitrary lists (not only those produced by the model scorers) *)
Lemma fallback_itemwise_l ids ps bids bs :
  length ps = length ids ->
  let out := fallback_scorer (ids, Some ps) (bids, Some bs) in
  fst out = ids /\
  exists os, snd out = Some os /\ length os = length ids /\
    forall k i p, nth_error ids k = Some i -> nth_error ps k = Some p ->
      nth_error os k = Some (match p with Some v => Some v | None => score_of i (combine bids bs) end).
Proof.
  intros Hl out. unfold out, fallback_scorer. clear out. cbn [fst snd].
  destruct (existsb is_nan ps) eqn:E; cbn [negb fst snd].
  - split; [reflexivity|]. eexists. split; [reflexivity|]. split.
    + rewrite map_length, combine_length. lia.
    + clear E. revert ps Hl. induction ids as [|x ids IH]; intros ps Hl k i p Hi Hp.
      * destruct k; discriminate.
      * destruct ps as [|y ps]; [discriminate|]. destruct k; simpl in *.
        { inversion Hi; inversion Hp; subst. reflexivity. }
        apply IH; auto.
  - split; [reflexivity|]. exists ps. split; [reflexivity|]. split; [exact Hl|].
    intros k i p Hi Hp. rewrite Hp. f_equal. destruct p; [reflexivity|]. exfalso.
    assert (T : existsb is_nan ps = true).
    { apply existsb_exists. exists None. split; [eapply nth_error_In; eauto|reflexivity]. }
    congruence.
Qed.

(* ---- query forms ---- *)
Lemma lookup_forms ds u :
  lookup_history ds (QQuery {| q_user := Some u; q_items := None |}) = lookup_history ds (QId u) /\
  lookup_history ds (QQuery {| q_user := Some u; q_items := row_items ds u |}) = lookup_history ds (QId u).
Proof.
  split; [reflexivity|]. unfold lookup_history. simpl. destruct (row_items ds u); reflexivity.
Qed.

Lemma query_forms_agree_l (sc : scorer) (fb : option scorer) ds u supplied config_n run_n :
  let bare := QId u in
  let qid := QQuery {| q_user := Some u; q_items := None |} in
  let qhist := QQuery {| q_user := Some u; q_items := row_items ds u |} in
  rec_pipeline sc ds qid supplied config_n run_n = rec_pipeline sc ds bare supplied config_n run_n /\
  rec_pipeline sc ds qhist supplied config_n run_n = rec_pipeline sc ds bare supplied config_n run_n /\
  pred_pipeline sc fb ds qid supplied = pred_pipeline sc fb ds bare supplied /\
  pred_pipeline sc fb ds qhist supplied = pred_pipeline sc fb ds bare supplied.
Proof.
  intros bare qid qhist. destruct (lookup_forms ds u) as [A B].
  unfold rec_pipeline, pred_pipeline, qid, qhist, bare. rewrite A, B. repeat split; reflexivity.
Qed.

(* ---- one scorer output, two consumers: the ranker and the rating merger read the same value, and the
   result for each requested node does not depend on which other nodes the same run evaluated ---- *)
Inductive node := NRecommender | NPredictor.
Inductive node_value := VRec (r : result (scored * bool)) | VPred (p : ilist).
Definition eval_node (sc : scorer) (fb : option scorer) ds i supplied config_n run_n (nd : node) : node_value :=
  match nd with
  | NRecommender => VRec (rec_pipeline sc ds i supplied config_n run_n)
  | NPredictor => VPred (pred_pipeline sc fb ds i supplied)
  end.
(* a run that is asked for several nodes, in the order given (memoised: a node already evaluated is reused) *)
Fixpoint run_request (sc : scorer) (fb : option scorer) ds i supplied config_n run_n
    (req : list node) (memo : list (node * node_value)) : list (node * node_value) :=
  match req with
  | [] => memo
  | nd :: rest =>
      let isn := fun p : node * node_value =>
        match fst p, nd with NRecommender, NRecommender | NPredictor, NPredictor => true | _, _ => false end in
      if existsb isn memo then run_request sc fb ds i supplied config_n run_n rest memo
      else run_request sc fb ds i supplied config_n run_n rest
             (memo ++ [(nd, eval_node sc fb ds i supplied config_n run_n nd)])
  end.

Lemma run_request_sound sc fb ds i supplied config_n run_n req memo :
  (forall nd v, In (nd, v) memo -> v = eval_node sc fb ds i supplied config_n run_n nd) ->
  forall nd v, In (nd, v) (run_request sc fb ds i supplied config_n run_n req memo) ->
    v = eval_node sc fb ds i supplied config_n run_n nd.
Proof.
  revert memo. induction req as [|r req IH]; intros memo Hm nd v H; simpl in H; [auto|].
  match type of H with context [if ?b then _ else _] => destruct b end.
  - eapply IH; eauto.
  - eapply IH; [|exact H]. intros nd' v' Hi. apply in_app_or in Hi. destruct Hi as [Hi|[Hi|[]]]; [auto|].
    inversion Hi; subst. reflexivity.
Qed.

Lemma shared_scorer_output_l (sc f : scorer) ds i supplied config_n run_n :
  let q := lookup_history ds i in
  let cand := candidates ds q supplied in
  let scores := score_items sc q cand in
  rec_pipeline sc ds i supplied config_n run_n = topn_ranker (Some scores) run_n config_n /\
  pred_pipeline sc (Some f) ds i supplied = fallback_scorer (of_rows scores) (of_rows (score_items f q cand)) /\
  pred_pipeline sc None ds i supplied = of_rows scores /\
  (* whatever else one run is asked for, and in whatever order, each node's result is the stand-alone one *)
  forall fb req nd v, In (nd, v) (run_request sc fb ds i supplied config_n run_n req []) ->
    v = eval_node sc fb ds i supplied config_n run_n nd.
Proof.
  intros q cand scores. repeat split.
  intros fb req nd v H. eapply run_request_sound; [|exact H]. intros ? ? [].
Qed.
