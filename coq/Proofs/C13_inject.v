(* C13 -- the JSON form of a configuration determines the configuration (type sets up to order);
   with the injective printer and a collision-free digest, any change of a name, version, input,
   type, component, setting, connection, alias, default or literal changes the hash. *)
From Coq Require Import String Ascii List Bool Arith Lia Permutation.
From LK Require Import Lib.StrDict Lib.StrDictFacts Model.C13_json Gen.C13_shape Model.C13_config
  Proofs.C13_wf Proofs.C13_print.
Import ListNotations.
Open Scope string_scope.
Open Scope list_scope.

Lemma map_inj {X Y} (f : X -> Y) : (forall a b, f a = f b -> a = b) -> forall l m, map f l = map f m -> l = m.
Proof.
  intro Hf. induction l as [|x l IH]; intros [|y m] E; cbn in E; try discriminate; [reflexivity|].
  injection E as E1 E2. rewrite (Hf _ _ E1), (IH _ E2). reflexivity.
Qed.
Lemma map_inj_rel {X Y} (f : X -> Y) (R : X -> X -> Prop) : (forall a b, f a = f b -> R a b) ->
  forall l m, map f l = map f m -> Forall2 R l m.
Proof.
  intro Hf. induction l as [|x l IH]; intros [|y m] E; cbn in E; try discriminate; constructor.
  - injection E as E1 _. apply Hf. exact E1.
  - injection E as _ E2. apply IH. exact E2.
Qed.

Lemma str_obj_inj a b : str_obj a = str_obj b -> a = b.
Proof.
  unfold str_obj. intros [= E]. revert E. apply map_inj. intros [k v] [k' v'] [= -> ->]. reflexivity.
Qed.

Lemma str_map_inj (a b : dict string) :
  map (fun kv : string * string => (fst kv, JStr (snd kv))) a = map (fun kv : string * string => (fst kv, JStr (snd kv))) b -> a = b.
Proof. apply map_inj. intros [k v] [k' v'] [= -> ->]. reflexivity. Qed.

Lemma fld_some_inj ex a b : fld ex (Some a) = fld ex (Some b) -> a = b.
Proof. cbn. congruence. Qed.

Lemma meta_json_inj ex m m' : meta_json ex m = meta_json ex m' -> m = m'.
Proof.
  destruct m as [n v h], m' as [n' v' h']. unfold meta_json, assemble.
  change meta_fields with ["name"; "version"; "hash"]. cbn [flat_map dget String.eqb Ascii.eqb Bool.eqb m_name m_version m_hash app].
  destruct ex, n, v, h, n', v', h'; cbn; intro E; try discriminate; try reflexivity; injection E; intros; subst; reflexivity.
Qed.

Lemma types_json_perm a b : types_json a = types_json b -> Permutation a b.
Proof.
  unfold types_json. change types_serialized_sorted with true. cbv iota. intros [= E].
  apply sort_s_inj_perm. revert E. apply map_inj. intros x y [= ->]. reflexivity.
Qed.

Lemma types_list_perm a b : map JStr (sort_s a) = map JStr (sort_s b) -> Permutation a b.
Proof. intro E. apply sort_s_inj_perm. revert E. apply map_inj. intros x y [= ->]. reflexivity. Qed.

Lemma input_json_inj ex i j : input_json ex i = input_json ex j -> input_equiv i j.
Proof.
  destruct i as [n t], j as [n' t']. unfold input_json, assemble, input_equiv.
  change input_fields with ["name"; "types"]. cbn [flat_map dget String.eqb Ascii.eqb Bool.eqb i_name i_types app].
  destruct ex, t as [a|], t' as [b|]; cbn; intro E; try discriminate; injection E; intros; subst; split; try reflexivity; try exact I;
    first [apply types_list_perm; assumption|apply types_json_perm; assumption].
Qed.

Lemma comp_json_inj ex p q : comp_json ex p = comp_json ex q -> p = q.
Proof.
  destruct p as [c s w], q as [c' s' w']. unfold comp_json, assemble.
  change component_fields with ["code"; "config"; "inputs"].
  cbn [flat_map dget String.eqb Ascii.eqb Bool.eqb c_code c_config c_inputs app].
  destruct ex, s as [a|], s' as [b|]; cbn; intro E; try discriminate; injection E; intros; subst;
    repeat match goal with
           | Hs : str_obj _ = str_obj _ |- _ => apply str_obj_inj in Hs; subst
           | Hs : map _ _ = map _ _ |- _ => apply str_map_inj in Hs; subst
           end; reflexivity.
Qed.

Lemma is_null_eq v : is_null v = true -> v = jnull.
Proof. destruct v; cbn; try discriminate. intro E. apply String.eqb_eq in E. subst. reflexivity. Qed.

Lemma lit_json_inj ex l l' : lit_json ex l = lit_json ex l' -> l = l'.
Proof.
  destruct l as [e v], l' as [e' v']. unfold lit_json, assemble.
  change literal_fields with ["encoding"; "value"].
  cbn [flat_map dget String.eqb Ascii.eqb Bool.eqb l_enc l_value app].
  destruct (is_null v) eqn:Nv, (is_null v') eqn:Nv'; destruct ex; cbn; intro E; try discriminate; injection E; intros; subst;
    try (apply is_null_eq in Nv); try (apply is_null_eq in Nv'); subst; try reflexivity; try (cbn in Nv; discriminate); try (cbn in Nv'; discriminate).
Qed.

Lemma named_map_inj {X} (f : X -> json) : (forall a b, f a = f b -> a = b) ->
  forall l m : dict X, map (fun kv => (fst kv, f (snd kv))) l = map (fun kv => (fst kv, f (snd kv))) m -> l = m.
Proof.
  intro Hf. apply map_inj. intros [k a] [k' b] [= -> E]. rewrite (Hf _ _ E). reflexivity.
Qed.

Theorem config_json_inj ex c d : config_json ex c = config_json ex d -> cequiv c d.
Proof.
  destruct c as [m i cs al df ls], d as [m' i' cs' al' df' ls']. unfold config_json, assemble.
  change config_fields with ["meta"; "inputs"; "components"; "aliases"; "default"; "literals"].
  cbn [flat_map dget String.eqb Ascii.eqb Bool.eqb cf_meta cf_inputs cf_components cf_aliases cf_default cf_literals app].
  intro E.
  assert (Hcore : meta_json ex m = meta_json ex m' /\ map (input_json ex) i = map (input_json ex) i' /\
                  map (fun kv => (fst kv, comp_json ex (snd kv))) cs = map (fun kv => (fst kv, comp_json ex (snd kv))) cs' /\
                  str_obj al = str_obj al' /\ df = df' /\
                  map (fun kv => (fst kv, lit_json ex (snd kv))) ls = map (fun kv => (fst kv, lit_json ex (snd kv))) ls').
  { remember (meta_json ex m) as M1. remember (meta_json ex m') as M2.
    remember (str_obj al) as S1. remember (str_obj al') as S2.
    destruct ex, df as [x|], df' as [y|]; cbn in E; try discriminate; injection E; intros; subst; repeat split; assumption. }
  destruct Hcore as [E1 [E2 [E3 [E4 [E5 E6]]]]].
  constructor; cbn.
  - apply (meta_json_inj ex). exact E1.
  - revert E2. apply map_inj_rel. apply input_json_inj.
  - revert E3. apply named_map_inj. apply comp_json_inj.
  - apply str_obj_inj. exact E4.
  - exact E5.
  - revert E6. apply named_map_inj. apply lit_json_inj.
Qed.

(* the lexical domain: every string of the document is free of double quotes and every scalar token is plain *)
Definition in_domain (ex : bool) (c : config) : Prop := jwf (config_json ex c) = true.

Theorem serialize_inj ex c d : in_domain ex c -> in_domain ex d -> serialize ex c = serialize ex d -> cequiv c d.
Proof.
  intros Dc Dd E. apply (config_json_inj ex). apply print_json_inj; assumption.
Qed.

Section Hash.
  Variable H : string -> string.
  Hypothesis H_collision_free : forall s t, H s = H t -> s = t.

  (* equal hashes <-> equal content *)
  Theorem hash_inj c d : in_domain hash_excludes_none (clear_hash c) -> in_domain hash_excludes_none (clear_hash d) ->
    H (preimage c) = H (preimage d) -> cequiv (clear_hash c) (clear_hash d).
  Proof.
    intros Dc Dd E. apply H_collision_free in E. unfold preimage in E. apply (serialize_inj _ _ _ Dc Dd E).
  Qed.

  Theorem hash_changes_l c d : in_domain hash_excludes_none (clear_hash c) -> in_domain hash_excludes_none (clear_hash d) ->
    ~ cequiv (clear_hash c) (clear_hash d) -> H (preimage c) <> H (preimage d).
  Proof. intros Dc Dd N E. apply N. apply hash_inj; assumption. Qed.
End Hash.
