(* C13 -- from_config on a well-formed document succeeds pass by pass and yields `rebuilt c`. *)
From Coq Require Import String Ascii List Bool Arith Lia Permutation Sorted.
From LK Require Import Lib.StrDict Lib.StrDictFacts Model.C13_json Gen.C13_shape Model.C13_config
  Proofs.C13_acyclic Proofs.C13_wf.
Import ListNotations.
Open Scope string_scope.
Open Scope list_scope.

Notation mkb := Build_builder.

Lemma keys_app {A} (a b : dict A) : keys (a ++ b) = (keys a ++ keys b)%list.
Proof. unfold keys. apply map_app. Qed.
Lemma dmem_false_intro {A} k (d : dict A) : ~ In k (keys d) -> dmem k d = false.
Proof. apply dmem_false. Qed.
Lemma dmem_true_intro {A} k (d : dict A) : In k (keys d) -> dmem k d = true.
Proof. apply dmem_in. Qed.

Lemma dget_app_l {A} k (a b : dict A) v : dget k a = Some v -> dget k (a ++ b) = Some v.
Proof.
  induction a as [|[k' v'] r IH]; cbn; [discriminate|].
  destruct (String.eqb k k'); [auto|exact IH].
Qed.
Lemma dget_app_r {A} k (a b : dict A) : ~ In k (keys a) -> dget k (a ++ b) = dget k b.
Proof.
  induction a as [|[k' v'] r IH]; cbn; intro H; [reflexivity|].
  destruct (String.eqb k k') eqn:E; [apply String.eqb_eq in E; subst; tauto|apply IH; tauto].
Qed.
Lemma dset_app_mid {A} k (v w : A) (a b : dict A) :
  ~ In k (keys a) -> dset k w (a ++ (k, v) :: b) = (a ++ (k, w) :: b)%list.
Proof.
  induction a as [|[k' v'] r IH]; cbn; intro H.
  - rewrite String.eqb_refl. reflexivity.
  - destruct (String.eqb k k') eqn:E; [apply String.eqb_eq in E; subst; tauto|]. f_equal. apply IH. tauto.
Qed.

Section FromConfig.
  Notation tys i := (match i_types i with Some ts => ts | None => [] end).

  (* ---- single steps ---- *)
  Lemma create_input_step (set_of : list string -> list string) n v N E A D d name ts :
    ~ In name (keys N) -> ~ In name (keys A) ->
    create_input set_of (mkb n v N E A D d) name ts = (mkb n v (N ++ [(name, KInput (set_of ts))]) E A D d, None).
  Proof.
    intros HN HA. unfold create_input, avail. cbn [b_nodes b_aliases].
    rewrite (dmem_false_intro _ _ HN), (dmem_false_intro _ _ HA). cbn [negb andb].
    unfold set_nodes. cbn [b_name b_version b_nodes b_edges b_aliases b_defaults b_default].
    rewrite (dset_fresh _ _ _ HN). reflexivity.
  Qed.

  Lemma literal_step n v N E A D d name e x :
    ~ In name (keys N) -> literal (mkb n v N E A D d) name e x = mkb n v (N ++ [(name, KLit e x)]) E A D d.
  Proof.
    intro HN. unfold literal, set_nodes. cbn [b_name b_version b_nodes b_edges b_aliases b_defaults b_default].
    rewrite (dset_fresh _ _ _ HN). reflexivity.
  Qed.

  Lemma add_component_step (norm : string -> option obj -> option (option obj)) n v N E D d k code cfg :
    ~ In k (keys N) -> ~ In k (keys E) -> norm code cfg = Some cfg ->
    add_component norm (mkb n v N E [] D d) k code cfg []
    = (mkb n v (N ++ [(k, KComp code cfg)]) (E ++ [(k, [])]) [] D d, None).
  Proof.
    intros HN HE Hnorm. unfold add_component. cbn [resolve_targets]. unfold avail. cbn [b_nodes b_aliases].
    rewrite (dmem_false_intro _ _ HN). cbn [dmem dget negb andb]. rewrite Hnorm.
    unfold connect, resolve, set_nodes. cbn [b_name b_version b_nodes b_edges b_aliases b_defaults b_default dget].
    rewrite (dset_fresh _ _ _ HN).
    assert (Hk : In k (keys (N ++ [(k, KComp code cfg)]))) by (rewrite keys_app, in_app_iff; right; left; reflexivity).
    rewrite (dmem_true_intro _ _ Hk).
    rewrite (dget_app_r k N _ HN). cbn [dget]. rewrite String.eqb_refl.
    replace (dget k E) with (@None (dict string)) by (symmetry; apply dget_none; exact HE).
    cbn [fold_left]. unfold set_edges. cbn [b_name b_version b_nodes b_edges b_aliases b_defaults b_default].
    rewrite (dset_fresh _ _ _ HE). reflexivity.
  Qed.

  Lemma resolve_targets_nodes b : forall (ins : dict string),
    b_aliases b = [] -> incl (vals ins) (keys (b_nodes b)) ->
    resolve_targets b (map (fun kv => (fst kv, TNode (snd kv))) ins) = Some (map (fun kv => (fst kv, TNode (snd kv))) ins).
  Proof.
    induction ins as [|[k t] r IH]; intros HA Hi; cbn [map resolve_targets fst snd]; [reflexivity|].
    unfold resolve at 1. rewrite HA. cbn [dget].
    assert (Ht : In t (keys (b_nodes b))) by (apply Hi; left; reflexivity).
    rewrite (dmem_true_intro _ _ Ht). rewrite IH; [reflexivity|exact HA|]. intros x Hx. apply Hi. right. exact Hx.
  Qed.

  Lemma fold_wire_nodes b : forall (ins acc : dict string),
    NoDup (keys ins) -> (forall x, In x (keys ins) -> ~ In x (keys acc)) ->
    fold_left wire_one (map (fun kv => (fst kv, TNode (snd kv))) ins) (b, acc) = (b, (acc ++ ins)%list).
  Proof.
    induction ins as [|[k t] r IH]; intros acc ND Hf; cbn [map fold_left].
    - rewrite app_nil_r. reflexivity.
    - cbn in ND. inversion ND as [|? ? Hk NDr]; subst.
      change (wire_one (b, acc) (fst (k, t), TNode (snd (k, t)))) with (b, dset k t acc).
      rewrite (dset_fresh _ _ _ (Hf k (or_introl eq_refl))). rewrite IH.
      + rewrite <- app_assoc. reflexivity.
      + exact NDr.
      + intros y Hy. rewrite keys_app, in_app_iff. cbn. intros [H3|[H3|[]]]; [apply (Hf y (or_intror Hy)); exact H3|]. subst. tauto.
  Qed.

  Lemma connect_step n v N D d k code cfg (ins : dict string) pre post :
    NoDup (keys N) -> In (k, KComp code cfg) N -> ~ In k (keys pre) ->
    NoDup (keys ins) -> incl (vals ins) (keys N) ->
    op_connect (mkb n v N (pre ++ (k, []) :: post) [] D d) k (map (fun kv => (fst kv, TNode (snd kv))) ins)
    = (mkb n v N (pre ++ (k, ins) :: post) [] D d, None).
  Proof.
    intros NDN HinN Hkd NDi Hti.
    unfold op_connect. rewrite resolve_targets_nodes; [|reflexivity|exact Hti].
    unfold connect, resolve. cbn [b_aliases b_nodes b_edges dget].
    assert (HkN : In k (keys N)) by (change k with (fst (k, KComp code cfg)); apply in_map; exact HinN).
    rewrite (dmem_true_intro _ _ HkN). rewrite (in_dget _ _ _ NDN HinN).
    rewrite (dget_app_r k _ _ Hkd). cbn [dget]. rewrite String.eqb_refl.
    rewrite fold_wire_nodes; [|exact NDi|intros x _ []]. cbn [app].
    unfold set_edges. cbn [b_name b_version b_nodes b_edges b_aliases b_defaults b_default].
    rewrite (dset_app_mid k _ _ _ _ Hkd). reflexivity.
  Qed.

  Lemma alias_step n v N E A D d a t :
    In t (keys N) -> ~ In t (keys A) -> ~ In a (keys N) -> ~ In a (keys A) ->
    alias (mkb n v N E A D d) a t = (mkb n v N E (A ++ [(a, t)]) D d, None).
  Proof.
    intros Ht Hta HaN Haa. unfold alias, resolve, avail. cbn [b_aliases b_nodes].
    replace (dget t A) with (@None string) by (symmetry; apply dget_none; exact Hta).
    rewrite (dmem_true_intro _ _ Ht), (dmem_false_intro _ _ HaN), (dmem_false_intro _ _ Haa). cbn [negb andb].
    unfold set_aliases. cbn [b_name b_version b_nodes b_edges b_aliases b_defaults b_default].
    rewrite (dset_fresh _ _ _ Haa). reflexivity.
  Qed.

  (* ---- the passes ---- *)
  Lemma fold_inputs (set_of : list string -> list string) n v E A D d : forall l N,
    NoDup (map i_name l) ->
    (forall x, In x (map i_name l) -> ~ In x (keys N) /\ ~ In x (keys A)) ->
    fold_res (fun b i => lift (create_input set_of b (i_name i) (tys i))) l (mkb n v N E A D d)
    = OK (mkb n v (N ++ map (in_node set_of) l) E A D d).
  Proof.
    induction l as [|i l IH]; intros N ND Hf; cbn [fold_res map].
    - rewrite app_nil_r. reflexivity.
    - inversion ND as [|? ? Hi NDl]; subst.
      destruct (Hf (i_name i) (or_introl eq_refl)) as [HN HA].
      rewrite (create_input_step set_of _ _ _ _ _ _ _ _ _ HN HA). cbn [lift snd fst]. rewrite IH.
      + rewrite <- app_assoc. reflexivity.
      + exact NDl.
      + intros x Hx. destruct (Hf x (or_intror Hx)) as [H1 H2]. split; [|exact H2].
        rewrite keys_app, in_app_iff. cbn. intros [H3|[H3|[]]]; [tauto|]. subst. tauto.
  Qed.

  Lemma fold_literals n v E A D d : forall l N,
    NoDup (keys l) -> (forall x, In x (keys l) -> ~ In x (keys N)) ->
    fold_res (fun b nl => OK (literal b (fst nl) (l_enc (snd nl)) (l_value (snd nl)))) l (mkb n v N E A D d)
    = OK (mkb n v (N ++ map lit_node l) E A D d).
  Proof.
    induction l as [|[k x] l IH]; intros N ND Hf; cbn [fold_res map].
    - rewrite app_nil_r. reflexivity.
    - cbn in ND. inversion ND as [|? ? Hi NDl]; subst.
      pose proof (Hf k (or_introl eq_refl)) as HN. cbn [fst snd].
      rewrite (literal_step _ _ _ _ _ _ _ _ _ _ HN). rewrite IH.
      + rewrite <- app_assoc. reflexivity.
      + exact NDl.
      + intros y Hy. rewrite keys_app, in_app_iff. cbn. intros [H3|[H3|[]]]; [apply (Hf y (or_intror Hy)); exact H3|]. subst. tauto.
  Qed.

  Definition empty_edge (nc : string * pcomp) : string * dict string := (fst nc, []).
  Definition full_edge (nc : string * pcomp) : string * dict string := (fst nc, c_inputs (snd nc)).

  Lemma fold_components (norm : string -> option obj -> option (option obj)) n v D d : forall l N E,
    NoDup (keys l) ->
    (forall x, In x (keys l) -> ~ In x (keys N) /\ ~ In x (keys E)) ->
    Forall (fun nc => at_prefixed (c_code (snd nc)) = false /\ norm (c_code (snd nc)) (c_config (snd nc)) = Some (c_config (snd nc))) l ->
    fold_res (fun b nc => if at_prefixed (c_code (snd nc)) then OK b
                          else lift (add_component norm b (fst nc) (c_code (snd nc)) (c_config (snd nc)) [])) l (mkb n v N E [] D d)
    = OK (mkb n v (N ++ map comp_node l) (E ++ map empty_edge l) [] D d).
  Proof.
    induction l as [|[k c] l IH]; intros N E ND Hf Hok; cbn [fold_res map].
    - rewrite !app_nil_r. reflexivity.
    - cbn in ND. inversion ND as [|? ? Hi NDl]; subst. inversion Hok as [|? ? [Hat Hnorm] Hok']; subst.
      destruct (Hf k (or_introl eq_refl)) as [HN HE]. cbn [fst snd] in *.
      rewrite Hat. rewrite (add_component_step norm _ _ _ _ _ _ _ _ _ HN HE Hnorm). cbn [lift snd fst]. rewrite IH.
      + rewrite <- !app_assoc. reflexivity.
      + exact NDl.
      + intros y Hy. destruct (Hf y (or_intror Hy)) as [H1 H2].
        rewrite !keys_app, !in_app_iff. cbn. split; intros [H3|[H3|[]]]; try tauto; subst; tauto.
      + exact Hok'.
  Qed.

  Lemma fold_wiring n v N D d : NoDup (keys N) -> forall todo done,
    NoDup (keys done ++ keys todo) ->
    (forall nc, In nc todo -> In (comp_node nc) N /\ NoDup (keys (c_inputs (snd nc))) /\ incl (vals (c_inputs (snd nc))) (keys N)) ->
    fold_res (fun b nc => lift (op_connect b (fst nc) (map (fun kv => (fst kv, TNode (snd kv))) (c_inputs (snd nc))))) todo
             (mkb n v N (map full_edge done ++ map empty_edge todo) [] D d)
    = OK (mkb n v N (map full_edge done ++ map full_edge todo) [] D d).
  Proof.
    intros NDN. induction todo as [|[k c] todo IH]; intros done ND Hok; cbn [fold_res map]; [reflexivity|].
    destruct (Hok (k, c) (or_introl eq_refl)) as [HinN [NDi Hti]]. cbn [fst snd] in *.
    assert (Hkd : ~ In k (keys (map full_edge done))).
    { unfold keys. rewrite map_map. cbn. intro Hx. apply NoDup_remove_2 in ND. apply ND. rewrite in_app_iff. left. exact Hx. }
    unfold empty_edge at 1. cbn [fst].
    rewrite (connect_step _ _ _ _ _ _ _ _ _ _ _ NDN HinN Hkd NDi Hti). cbn [lift snd fst].
    specialize (IH (done ++ [(k, c)])%list).
    rewrite !map_app in IH. cbn [map] in IH. rewrite <- !app_assoc in IH. cbn [app] in IH.
    apply IH.
    - rewrite keys_app. cbn. rewrite <- app_assoc. cbn. exact ND.
    - intros nc Hnc. apply Hok. right. exact Hnc.
  Qed.

  Lemma fold_aliases n v N E D d : forall l acc,
    NoDup (keys acc ++ keys l) ->
    (forall a, In a (keys l) -> ~ In a (keys N)) ->
    (forall t, In t (vals l) -> In t (keys N)) ->
    (forall t, In t (vals l) -> ~ In t (keys acc ++ keys l)) ->
    fold_res (fun b at_ => lift (alias b (fst at_) (snd at_))) l (mkb n v N E acc D d)
    = OK (mkb n v N E (acc ++ l) D d).
  Proof.
    induction l as [|[a t] l IH]; intros acc ND Hfresh Htg Hnt; cbn [fold_res].
    - rewrite app_nil_r. reflexivity.
    - cbn [fst snd].
      assert (Ht : In t (keys N)) by (apply Htg; left; reflexivity).
      assert (Hta : ~ In t (keys acc)) by (intro X; apply (Hnt t (or_introl eq_refl)); rewrite in_app_iff; left; exact X).
      assert (HaN : ~ In a (keys N)) by (apply Hfresh; left; reflexivity).
      assert (Haa : ~ In a (keys acc)).
      { intro X. cbn in ND. apply NoDup_remove_2 in ND. apply ND. rewrite in_app_iff. left. exact X. }
      rewrite (alias_step _ _ _ _ _ _ _ _ _ Ht Hta HaN Haa). cbn [lift snd fst]. rewrite IH.
      + rewrite <- app_assoc. reflexivity.
      + rewrite keys_app. cbn. rewrite <- app_assoc. exact ND.
      + intros x Hx. apply Hfresh. right. exact Hx.
      + intros x Hx. apply Htg. right. exact Hx.
      + intros x Hx. rewrite keys_app. cbn. rewrite <- app_assoc. cbn. apply Hnt. right. exact Hx.
  Qed.
End FromConfig.
