(* C05 -- the four GENERATED hold-out bodies (Gen/C05_holdout.v) select exactly the specified number
   of distinct rows, the most recent ones for the time-ordered rules.  The library calls are
   parameters; what is assumed about them is stated as a contract at the actual call. *)
From Coq Require Import ZArith List Bool Lia Permutation Arith PeanoNat.
From LK Require Import Lib.SplitLib Gen.C05_holdout.
Import ListNotations.
Open Scope Z_scope.

(* rng.choice(a, n, replace=False): n distinct values below a, or ValueError when n < 0 or n > a *)
Definition choice_ok_at (choice : Z -> Z -> option (list nat)) (a n : Z) : Prop :=
  match choice a n with
  | Some r => 0 <= n <= a /\ valid_idx (Z.to_nat a) r /\ Z.of_nat (length r) = n
  | None => n < 0 \/ a < n
  end.
(* np.argsort(col): a permutation of the positions that lists the values in non-decreasing order *)
Definition argsort_ok (argsort : list Z -> list nat) (col : list Z) : Prop :=
  Permutation (argsort col) (seq 0 (length col)) /\
  forall i j, (i < j < length col)%nat -> nth (nth i (argsort col) 0%nat) col 0 <= nth (nth j (argsort col) 0%nat) col 0.

(* what "exactly n rows, the most recent ones" means for a set of selected positions *)
Definition exact_count (len n : Z) (idx : list nat) : Prop :=
  valid_idx (Z.to_nat len) idx /\ Z.of_nat (length idx) = Z.min n len.
Definition most_recent (col : list Z) (idx : list nat) : Prop :=
  forall h k, In h idx -> (k < length col)%nat -> ~ In k idx -> nth k col 0 <= nth h col 0.

Lemma all_idx_valid len : 0 <= len -> valid_idx (Z.to_nat len) (all_idx len) /\ Z.of_nat (length (all_idx len)) = len.
Proof.
  intro H. unfold all_idx. split; [split|].
  - apply seq_NoDup.
  - intros p Hp. apply in_seq in Hp. lia.
  - rewrite seq_length. lia.
Qed.

Section Bodies.
Context {F : Type} (round_mul : Z -> F -> option Z) (choice : Z -> Z -> option (list nat)) (argsort : list Z -> list nat).

Lemma SampleN_exact n len col : 0 <= n -> 0 <= len -> choice_ok_at choice len n ->
  exists idx, SampleN_call round_mul choice argsort n len col = HOk idx /\ exact_count len n idx.
Proof.
  intros Hn Hl C. unfold SampleN_call. destruct (len <=? n) eqn:G.
  - apply Z.leb_le in G. exists (all_idx len). split; [reflexivity|]. destruct (all_idx_valid len Hl) as [V L].
    split; [exact V|]. rewrite L. lia.
  - apply Z.leb_gt in G. unfold choice_ok_at in C. destruct (choice len n) as [r|].
    + destruct C as [_ [V L]]. exists r. split; [reflexivity|]. split; [exact V|]. lia.
    + lia.
Qed.

Lemma SampleFrac_exact (fr : F) len col n : 0 <= len -> round_mul len fr = Some n -> 0 <= n <= len ->
  choice_ok_at choice len n ->
  exists idx, SampleFrac_call round_mul choice argsort fr len col = HOk idx /\ exact_count len n idx.
Proof.
  intros Hl R Hn C. unfold SampleFrac_call. rewrite R. unfold choice_ok_at in C. destruct (choice len n) as [r|].
  - destruct C as [_ [V L]]. exists r. split; [reflexivity|]. split; [exact V|]. lia.
  - lia.
Qed.
(* a fraction whose rounded count does not fit is rejected, never silently clipped *)
Lemma SampleFrac_rejects (fr : F) len col n : round_mul len fr = Some n -> (n < 0 \/ len < n) ->
  choice_ok_at choice len n -> SampleFrac_call round_mul choice argsort fr len col = HErr EValue.
Proof.
  intros R Hn C. unfold SampleFrac_call. rewrite R. unfold choice_ok_at in C. destruct (choice len n) as [r|]; [lia|reflexivity].
Qed.

(* tail of a sorting permutation *)
Lemma In_skipn_nth (l : list nat) m x : In x (skipn m l) -> exists j, (m <= j < length l)%nat /\ nth j l 0%nat = x.
Proof.
  revert m. induction l as [|y l IH]; intros m H.
  - rewrite skipn_nil in H. destruct H.
  - destruct m as [|m]; cbn [skipn] in H.
    + apply In_nth with (d := 0%nat) in H. destruct H as [j [Hj E]]. exists j. split; [lia|exact E].
    + apply IH in H. destruct H as [j [Hj E]]. exists (S j). cbn [length nth]. split; [lia|exact E].
Qed.
Lemma In_firstn_nth (l : list nat) m x : In x (firstn m l) -> exists i, (i < m /\ i < length l)%nat /\ nth i l 0%nat = x.
Proof.
  revert m. induction l as [|y l IH]; intros m H.
  - rewrite firstn_nil in H. destruct H.
  - destruct m as [|m]; cbn [firstn] in H; [destruct H|]. destruct H as [E|H].
    + exists 0%nat. cbn [length nth]. split; [lia|exact E].
    + apply IH in H. destruct H as [i [Hi E]]. exists (S i). cbn [length nth]. split; [lia|exact E].
Qed.

Lemma tail_of_argsort (c : list Z) n : argsort_ok argsort c -> 0 <= n <= Z.of_nat (length c) ->
  let idx := skipn (Z.to_nat (Z.of_nat (length c) - n)) (argsort c) in
  valid_idx (length c) idx /\ Z.of_nat (length idx) = n /\ most_recent c idx.
Proof.
  intros [P S] Hn idx. set (o := argsort c) in *. set (m := Z.to_nat (Z.of_nat (length c) - n)) in *.
  assert (length o = length c) as LO by (rewrite (Permutation_length P), seq_length; reflexivity).
  assert (NoDup o) as ND by (apply (Permutation_NoDup (Permutation_sym P)); apply seq_NoDup).
  split; [|split].
  - split; [apply NoDup_skipn; exact ND|]. intros p Hp. apply In_skipn in Hp. apply (Permutation_in _ P) in Hp. apply in_seq in Hp. lia.
  - unfold idx. rewrite skipn_length, LO. unfold m. lia.
  - intros h k Hh Hk Hnk. unfold idx in Hh. apply In_skipn_nth in Hh. destruct Hh as [j [Hj Ej]].
    assert (In k o) as Ik by (apply (Permutation_in _ (Permutation_sym P)); apply in_seq; lia).
    rewrite <- (firstn_skipn m o) in Ik. apply in_app_or in Ik. destruct Ik as [Ik|Ik]; [|contradiction].
    apply In_firstn_nth in Ik. destruct Ik as [i [Hi Ei]]. rewrite <- Ei, <- Ej. apply S. lia.
Qed.

Lemma LastN_exact n len c : 0 <= n -> Z.of_nat (length c) = len -> argsort_ok argsort c ->
  exists idx, LastN_call round_mul choice argsort n len (Some c) = HOk idx /\ exact_count len n idx /\ most_recent c idx.
Proof.
  intros Hn Hl A. unfold LastN_call. destruct (len <=? n) eqn:G.
  - apply Z.leb_le in G. exists (all_idx len). split; [reflexivity|]. assert (0 <= len) as H0 by lia.
    destruct (all_idx_valid len H0) as [V L]. split; [split; [exact V|rewrite L; lia]|].
    intros h k _ Hk Hnk. exfalso. apply Hnk. unfold all_idx. apply in_seq. lia.
  - apply Z.leb_gt in G. cbv zeta.
    assert (length (argsort c) = length c) as LO by (destruct A as [P _]; rewrite (Permutation_length P), seq_length; reflexivity).
    rewrite LO, py_slice_tail by (rewrite LO; lia).
    destruct (tail_of_argsort c n A ltac:(lia)) as [V [L M]].
    eexists. split; [reflexivity|]. split; [split|exact M].
    + rewrite <- Hl, Nat2Z.id. exact V.
    + rewrite L. lia.
Qed.
Lemma LastN_missing_field n len : n < len ->
  LastN_call round_mul choice argsort n len None = HErr EType.
Proof. intro H. unfold LastN_call. assert ((len <=? n) = false) as T by (apply Z.leb_gt; exact H). rewrite T. reflexivity. Qed.

Lemma LastFrac_exact (fr : F) len c n : round_mul len fr = Some n -> 0 <= n -> Z.of_nat (length c) = len ->
  argsort_ok argsort c ->
  exists idx, LastFrac_call round_mul choice argsort fr len (Some c) = HOk idx /\ exact_count len n idx /\ most_recent c idx.
Proof.
  intros R Hn Hl A. unfold LastFrac_call. rewrite R. destruct (len <=? n) eqn:G.
  - apply Z.leb_le in G. exists (all_idx len). split; [reflexivity|]. assert (0 <= len) as H0 by lia.
    destruct (all_idx_valid len H0) as [V L]. split; [split; [exact V|rewrite L; lia]|].
    intros h k _ Hk Hnk. exfalso. apply Hnk. unfold all_idx. apply in_seq. lia.
  - apply Z.leb_gt in G. cbv zeta.
    assert (length (argsort c) = length c) as LO by (destruct A as [P _]; rewrite (Permutation_length P), seq_length; reflexivity).
    rewrite LO. rewrite Z.max_l by lia. rewrite py_slice_tail by (rewrite LO; lia).
    destruct (tail_of_argsort c n A ltac:(lia)) as [V [L M]].
    eexists. split; [reflexivity|]. split; [split|exact M].
    + rewrite <- Hl, Nat2Z.id. exact V.
    + rewrite L. lia.
Qed.
(* users whose rows are all held out (in particular users without rows) never reach the field lookup *)
Lemma LastFrac_small_user (fr : F) len col n : round_mul len fr = Some n -> len <= n ->
  LastFrac_call round_mul choice argsort fr len col = HOk (all_idx len).
Proof. intros R H. unfold LastFrac_call. rewrite R. assert ((len <=? n) = true) as T by (apply Z.leb_le; exact H). rewrite T. reflexivity. Qed.
End Bodies.
