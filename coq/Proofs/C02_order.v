(* C02 -- results do not depend on the order of declarations or of the request; the fallback
   component consults its alternative only when the primary gave no value; a run does not
   depend on earlier runs (with the shape facts extracted from the source). *)
From Coq Require Import ZArith List Bool Arith Lia Permutation.
From LK Require Import Model.C02_runner Gen.C02_shape Proofs.C02_basic Proofs.C02_den Proofs.C02_correct Proofs.C02_cycle.
Import ListNotations.
Open Scope list_scope.

Lemma lookup_none_iff {A} n (l : list (nat * A)) : lookup n l = None <-> ~ In n (map fst l).
Proof.
  induction l as [|[m y] l IH]; simpl; [tauto|].
  destruct (Nat.eqb n m) eqn:E.
  - apply Nat.eqb_eq in E. subst. split; [discriminate|]. intros H. exfalso. apply H. auto.
  - apply Nat.eqb_neq in E. rewrite IH. split; intros H; [intros [H1|H1]; [congruence|auto]|auto].
Qed.

Lemma lookup_perm {A} (l l' : list (nat * A)) : NoDup (map fst l) -> Permutation l l' ->
  forall n, lookup n l = lookup n l'.
Proof.
  intros Hnd Hp n.
  assert (Hnd' : NoDup (map fst l')) by (eapply Permutation_NoDup; [apply Permutation_map, Hp|exact Hnd]).
  destruct (lookup n l) as [x|] eqn:E.
  - apply lookup_in in E. symmetry. apply lookup_of_in; [exact Hnd'|]. eapply Permutation_in; eauto.
  - symmetry. apply lookup_none_iff. apply lookup_none_iff in E. intros H. apply E.
    eapply Permutation_in; [apply Permutation_map, Permutation_sym, Hp|exact H].
Qed.

Section Order.
Variables g g' : graph.
Variable inputs : list (name * val).
Hypothesis Hlk : forall n, lookup n g = lookup n g'.

Lemma den_lookup_ext : forall f n r, den g inputs f n r = den g' inputs f n r.
Proof.
  induction f as [|f IH]; intros n r; [reflexivity|]. simpl.
  rewrite (den_step_ext (den g inputs f) (den g' inputs f) g inputs n r) by (intros; apply IH).
  unfold den_step. rewrite Hlk. reflexivity.
Qed.

Lemma ranked_lookup_ext rank : ranked g rank -> ranked g' rank.
Proof. intros H n ps body src Hl. rewrite <- Hlk in Hl. eapply H; eauto. Qed.
End Order.

Lemma catch_free_perm g g' : Permutation g g' -> catch_free g -> catch_free g'.
Proof. intros Hp H n ps body Hin. eapply H. eapply Permutation_in; [apply Permutation_sym, Hp|exact Hin]. Qed.

Lemma order_irrelevant_l : forall g g' inputs rank F ns ns',
  NoDup (map fst g) -> Permutation g g' -> Permutation ns ns' -> ns <> [] ->
  ranked g rank -> (forall n, rank n < F) -> catch_free g ->
  (* the value of a node is a function of the node alone *)
  (forall n, node_value g inputs F n = node_value g' inputs F n) /\
  (forall vs, pipeline_run g inputs F ns = Values vs -> vs = map (node_value g inputs F) ns) /\
  (forall vs, pipeline_run g' inputs F ns' = Values vs -> vs = map (node_value g inputs F) ns') /\
  (* and whether the run fails does not depend on either order *)
  ((exists vs, pipeline_run g inputs F ns = Values vs) <-> (exists vs, pipeline_run g' inputs F ns' = Values vs)).
Proof.
  intros g g' inputs rank F ns ns' Hnd Hp Hpn Hne Hr HF Hcf.
  pose proof (catch_free_perm g g' Hp Hcf) as Hcf'.
  pose proof (lookup_perm g g' Hnd Hp) as Hlk.
  pose proof (ranked_lookup_ext g g' Hlk rank Hr) as Hr'.
  assert (Hnv : forall n, node_value g inputs F n = node_value g' inputs F n).
  { intros n. unfold node_value, D. rewrite (den_lookup_ext g g' inputs Hlk). reflexivity. }
  assert (Hok : forall n, ok_node g inputs F n <-> ok_node g' inputs F n).
  { intros n. unfold ok_node, D. rewrite (den_lookup_ext g g' inputs Hlk). tauto. }
  assert (Hne' : ns' <> []).
  { intros ->. apply Permutation_sym, Permutation_nil in Hpn. contradiction. }
  split; [exact Hnv|]. split; [|split].
  - intros vs H. eapply run_values_l; eauto.
  - intros vs H. rewrite (run_values_l g' inputs rank Hr' F HF Hcf' ns' vs H). apply map_ext. intros; symmetry; apply Hnv.
  - rewrite (run_succeeds_iff g inputs rank Hr F HF Hcf ns), (run_succeeds_iff g' inputs rank Hr' F HF Hcf' ns').
    assert (E1 : requests g ns = ns) by (destruct ns; [congruence|reflexivity]).
    assert (E2 : requests g' ns' = ns') by (destruct ns'; [congruence|reflexivity]).
    rewrite E1, E2. rewrite !Forall_forall. split; intros H n Hn.
    + apply Hok, H. eapply Permutation_in; [apply Permutation_sym, Hpn|exact Hn].
    + apply Hok, H. eapply Permutation_in; [exact Hpn|exact Hn].
Qed.

(* ---- first-available fallback ---- *)
Lemma fallback_den_l : forall g inputs d f a b r,
  lookup f g = Some (Comp (fallback_params a b) fallback_body) ->
  (forall v, fst (d a false) = DVal (Some v) ->
     den_step g inputs d f r = (DVal (Some v), snd (d a false) ++ [f])) /\
  (to_opt (fst (d a false)) = None -> (forall e, fst (d a false) <> DErr e) ->
     snd (den_step g inputs d f r) = (snd (d a false) ++ [f]) ++ snd (d b false) /\
     ((forall e, fst (d b false) <> DErr e) -> fst (den_step g inputs d f r) = DVal (to_opt (fst (d b false))))).
Proof.
  intros g inputs d f a b r Hl. unfold den_step. rewrite Hl. unfold fallback_params, fallback_body.
  cbn [den_args p_src p_lazy p_typed p_nullable p_strict p_compat compat andb negb].
  rewrite !andb_false_r. split.
  - intros v Hv. destruct (d a false) as [da ta]. simpl in Hv. subst da. reflexivity.
  - intros Hn Hne. destruct (d a false) as [da ta]. simpl in Hn, Hne.
    destruct (d b false) as [db tb] eqn:Eb.
    destruct da as [[x|]| |e]; simpl in Hn; try discriminate; try (exfalso; eapply Hne; reflexivity);
      cbn [to_opt is_none andb app rev nth den_exec nth_error p_src p_lazy p_typed p_nullable p_strict p_compat compat negb];
      rewrite ?andb_false_r; rewrite Eb; (split; [destruct db; reflexivity|]);
      intros He; destruct db; simpl in *; try reflexivity; exfalso; eapply He; reflexivity.
Qed.

(* ---- several runs on one pipeline object ---- *)
(* What a later run starts from: by the extracted shape of Pipeline.run_all and
   PipelineRunner.__init__ a fresh, all-pending, empty runner state; were the runner kept or not
   reset, it would be the state the previous run left behind. *)
Definition next_start (left_behind : st) : st :=
  if runner_fresh_per_run && init_all_pending && init_state_empty
     && match pipeline_methods_assigning_self with [] => true | _ => false end
  then init else left_behind.

Fixpoint run_seq (g : graph) (fuel : nat) (start : st) (reqs : list (list (name * val) * list name)) : list outcome :=
  match reqs with
  | [] => []
  | (inputs, ns) :: t =>
      let '(s, e) := run_list g inputs fuel start (requests g ns) in
      (match e with Some x => Raised x | None => Values (map (value_in s) ns) end)
        :: run_seq g fuel (next_start s) t
  end.

Lemma rerun_l : forall g fuel reqs,
  run_seq g fuel init reqs = map (fun r => pipeline_run g (fst r) fuel (snd r)) reqs.
Proof.
  intros g fuel reqs.
  assert (G : forall start, start = init -> run_seq g fuel start reqs = map (fun r => pipeline_run g (fst r) fuel (snd r)) reqs).
  { induction reqs as [|[inputs ns] t IH]; intros start ->; [reflexivity|].
    simpl. unfold pipeline_run, run_all.
    destruct (run_list g inputs fuel init (requests g ns)) as [s e]. f_equal. apply IH. reflexivity. }
  apply G. reflexivity.
Qed.

(* ---- the recursion bound of the model is immaterial once it exceeds the depth ---- *)
Lemma run_fuel_irrelevant_l : forall g inputs rank F1 F2 ns,
  ranked g rank -> (forall n, rank n < F1) -> (forall n, rank n < F2) -> catch_free g ->
  pipeline_run g inputs F1 ns = pipeline_run g inputs F2 ns.
Proof.
  intros g inputs rank F1 F2 ns Hr H1 H2 Hcf.
  rewrite (run_correct_l g inputs rank Hr F1 H1 Hcf), (run_correct_l g inputs rank Hr F2 H2 Hcf).
  pose proof (den_fuel_irrelevant g inputs rank F1 F2 Hr H1 H2) as E.
  unfold den_outcome.
  assert (El : forall l, den_list g inputs F1 l = den_list g inputs F2 l).
  { induction l as [|n l IH]; simpl; [reflexivity|]. rewrite E, IH. reflexivity. }
  rewrite El. destruct (den_list g inputs F2 (requests g ns)); [|reflexivity].
  f_equal. apply map_ext. intros n. rewrite E. reflexivity.
Qed.
