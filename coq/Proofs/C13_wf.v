(* C13 -- well-formedness of builder states and of configuration documents, configuration
   equivalence (equality up to the iteration order of the input type sets), and the builder that
   from_config reconstructs. *)
From Coq Require Import String Ascii List Bool Arith Lia Permutation Sorted.
From LK Require Import Lib.StrDict Lib.StrDictFacts Model.C13_json Gen.C13_shape Model.C13_config Proofs.C13_acyclic.
Import ListNotations.
Open Scope string_scope.

Definition skle {A} : (string * A) -> (string * A) -> Prop := kle (@fst string A).

Definition config_names (c : config) : list string :=
  (map i_name (cf_inputs c) ++ keys (cf_literals c) ++ keys (cf_components c))%list.
Definition comp_graph (c : config) : graph := map (fun nc => (fst nc, c_inputs (snd nc))) (cf_components c).

Section WF.
  Variable norm : string -> option obj -> option (option obj).

  Definition comp_ok (names : list string) (nc : string * pcomp) : Prop :=
    at_prefixed (c_code (snd nc)) = false /\
    norm (c_code (snd nc)) (c_config (snd nc)) = Some (c_config (snd nc)) /\
    StronglySorted skle (c_inputs (snd nc)) /\ NoDup (keys (c_inputs (snd nc))) /\
    incl (vals (c_inputs (snd nc))) names.

  (* a configuration document as build_config produces them *)
  Record cwf (c : config) : Prop := {
    cw_names : NoDup (config_names c);
    cw_types : Forall (fun i => exists ts, i_types i = Some ts /\ NoDup ts) (cf_inputs c);
    cw_comps : Forall (comp_ok (config_names c)) (cf_components c);
    cw_al_sorted : StronglySorted skle (cf_aliases c);
    cw_al_nodup : NoDup (keys (cf_aliases c));
    cw_al_fresh : forall a, In a (keys (cf_aliases c)) -> ~ In a (config_names c);
    cw_al_targets : incl (vals (cf_aliases c)) (config_names c);
    cw_default : cf_default c <> Some "";
    cw_acyclic : acyclic_b (comp_graph c) = true;
    cw_lit_sorted : StronglySorted skle (cf_literals c) }.

  (* a builder state as the documented operations produce them *)
  Definition node_ok (nk : string * kind) : Prop :=
    match snd nk with
    | KComp code s => at_prefixed code = false /\ norm code s = Some s
    | KInput ts => NoDup ts
    | KLit _ _ => True
    end.
  Record bwf (b : builder) : Prop := {
    bw_nodes : NoDup (keys (b_nodes b));
    bw_node_ok : Forall node_ok (b_nodes b);
    bw_al_nodup : NoDup (keys (b_aliases b));
    bw_al_fresh : forall a, In a (keys (b_aliases b)) -> ~ In a (keys (b_nodes b));
    bw_al_targets : incl (vals (b_aliases b)) (keys (b_nodes b));
    bw_edges_nodup : NoDup (keys (b_edges b));
    bw_edges_ok : Forall (fun ne => NoDup (keys (snd ne)) /\ incl (vals (snd ne)) (keys (b_nodes b))) (b_edges b);
    bw_def_nodup : NoDup (keys (b_defaults b));
    bw_def_targets : incl (vals (b_defaults b)) (keys (b_nodes b)) }.
End WF.

(* equality of configurations up to the order in which the type sets are held *)
Definition input_equiv (i j : pinput) : Prop :=
  i_name i = i_name j /\
  match i_types i, i_types j with
  | Some a, Some b => Permutation a b
  | None, None => True
  | _, _ => False
  end.
Record cequiv (c d : config) : Prop := {
  ce_meta : cf_meta c = cf_meta d;
  ce_inputs : Forall2 input_equiv (cf_inputs c) (cf_inputs d);
  ce_comps : cf_components c = cf_components d;
  ce_aliases : cf_aliases c = cf_aliases d;
  ce_default : cf_default c = cf_default d;
  ce_literals : cf_literals c = cf_literals d }.

Lemma input_equiv_refl i : input_equiv i i.
Proof. split; [reflexivity|]. destruct (i_types i); auto. Qed.
Lemma cequiv_refl c : cequiv c c.
Proof.
  constructor; try reflexivity.
  induction (cf_inputs c); constructor; [apply input_equiv_refl|assumption].
Qed.

(* ---- the builder reconstructed by from_config ---- *)
Section Rebuilt.
  Variable set_of : list string -> list string.
  Definition in_node (i : pinput) : string * kind :=
    (i_name i, KInput (set_of (match i_types i with Some ts => ts | None => [] end))).
  Definition lit_node (nl : string * plit) : string * kind := (fst nl, KLit (l_enc (snd nl)) (l_value (snd nl))).
  Definition comp_node (nc : string * pcomp) : string * kind := (fst nc, KComp (c_code (snd nc)) (c_config (snd nc))).
  Definition rebuilt_nodes (c : config) : dict kind :=
    (map in_node (cf_inputs c) ++ map lit_node (cf_literals c) ++ map comp_node (cf_components c))%list.
  Definition rebuilt (c : config) : builder :=
    {| b_name := m_name (cf_meta c); b_version := m_version (cf_meta c);
       b_nodes := rebuilt_nodes c; b_edges := comp_graph c; b_aliases := cf_aliases c;
       b_defaults := []; b_default := cf_default c |}.

  Lemma keys_rebuilt_nodes c : keys (rebuilt_nodes c) = config_names c.
  Proof.
    unfold rebuilt_nodes, config_names, keys. rewrite !map_app, !map_map. reflexivity.
  Qed.
End Rebuilt.
