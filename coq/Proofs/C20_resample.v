(* C20 -- invariants of the recursive resampling: range (any predicate on drawn columns), lengths,
   exact accounting of observed cells by the warning counts, untouched cells. *)
From Coq Require Import ZArith List Bool Lia.
From LK Require Import Gen.C20_shape Model.C20_sampling Proofs.C20_key.
Import ListNotations.
Open Scope Z_scope.

(* ---- take / choice / draw_columns ---- *)
Lemma take_spec k : forall ds a b, take k ds = Some (a, b) -> ds = a ++ b /\ length a = k.
Proof.
  induction k as [|k IH]; intros ds a b H; cbn in H.
  - inversion H; subst. split; reflexivity.
  - destruct ds as [|d r]; [discriminate|]. destruct (take k r) as [[a' b']|] eqn:E; [|discriminate].
    inversion H; subst. destruct (IH _ _ _ E) as [-> L]. split; [reflexivity|cbn; lia].
Qed.

Lemma take_enough k : forall ds, (k <= length ds)%nat -> exists a b, take k ds = Some (a, b).
Proof.
  induction k as [|k IH]; intros ds L; cbn.
  - eauto.
  - destruct ds as [|d r]; [cbn in L; lia|]. cbn in L. destruct (IH r ltac:(lia)) as [a [b E]]. rewrite E. eauto.
Qed.

Lemma draw_columns_spec m w k ds cols rest :
  draw_columns m w k ds = Ok (cols, rest) ->
  exists d, ds = d ++ rest /\ length d = k /\ cols = map (col_of m w) d.
Proof.
  unfold draw_columns, choice. destruct ((pop_n m w <=? 0) && negb (Nat.eqb k 0)); [discriminate|].
  destruct (take k ds) as [[a b]|] eqn:E; [|discriminate]. intro H; inversion H; subst.
  destruct (take_spec _ _ _ _ E) as [-> L]. exists a. auto.
Qed.

Lemma draw_columns_enough m w k ds :
  0 < pop_n m w -> (k <= length ds)%nat ->
  exists d rest, ds = d ++ rest /\ length d = k /\ draw_columns m w k ds = Ok (map (col_of m w) d, rest).
Proof.
  intros Hp L. unfold draw_columns, choice.
  replace (pop_n m w <=? 0) with false by (symmetry; apply Z.leb_gt; lia). cbn [andb].
  destruct (take_enough k ds L) as [a [b E]]. rewrite E. destruct (take_spec _ _ _ _ E) as [-> La].
  exists a, b. auto.
Qed.

(* ---- select / scatter ---- *)
Lemma scatter_length {A} (mask : list bool) : forall (xs new : list A), length (scatter mask xs new) = length xs.
Proof.
  induction mask as [|b mk IH]; intros xs new; [destruct xs; reflexivity|].
  destruct xs as [|x r]; [destruct b; reflexivity|].
  destruct b; cbn; [destruct new; cbn; rewrite IH; reflexivity|rewrite IH; reflexivity].
Qed.

Lemma select_length_le {A} (mask : list bool) : forall (xs : list A), (length (select mask xs) <= length xs)%nat.
Proof.
  induction mask as [|b mk IH]; intros xs; [cbn; lia|]. destruct xs as [|x r]; [cbn; lia|].
  cbn. destruct b; cbn; specialize (IH r); lia.
Qed.

Lemma scatter_Forall {A} (P : A -> Prop) (mask : list bool) : forall xs new,
  Forall P xs -> Forall P new -> Forall P (scatter mask xs new).
Proof.
  induction mask as [|b mk IH]; intros xs new Hx Hn; [destruct xs; exact Hx|].
  destruct xs as [|x r]; [destruct b; exact Hx|]. inversion Hx; subst.
  destruct b; cbn.
  - destruct new as [|y ns]; [constructor; auto|]. inversion Hn; subst. constructor; auto.
  - constructor; auto.
Qed.

Lemma scatter_nth_false {A} (mask : list bool) : forall (xs new : list A) i,
  nth_error mask i = Some false -> nth_error (scatter mask xs new) i = nth_error xs i.
Proof.
  induction mask as [|b mk IH]; intros xs new i H; [destruct i; discriminate|].
  destruct xs as [|x r]; [destruct b; reflexivity|].
  destruct i as [|i]; cbn in H.
  - inversion H; subst. reflexivity.
  - destruct b; cbn; [destruct new; cbn; apply IH; exact H|apply IH; exact H].
Qed.

(* ---- the check as a map over positions ---- *)
Definition hit (m : mat) (r c : Z) : bool := mem_z (key r c) (rc_index m).

Lemma check_cons m r rows c cols :
  check_negatives m (r :: rows) (c :: cols) = hit m r c :: check_negatives m rows cols.
Proof. reflexivity. Qed.

Lemma check_length m : forall rows cols, length cols = length rows -> length (check_negatives m rows cols) = length rows.
Proof.
  intros rows cols L. unfold check_negatives. rewrite map_length, combine_length. lia.
Qed.

Lemma check_nth m : forall rows cols i r c,
  nth_error rows i = Some r -> nth_error cols i = Some c ->
  nth_error (check_negatives m rows cols) i = Some (hit m r c).
Proof.
  induction rows as [|r0 rows IH]; intros cols i r c Hr Hc; [destruct i; discriminate|].
  destruct cols as [|c0 cols]; [destruct i; discriminate|]. rewrite check_cons.
  destruct i; cbn in *; [inversion Hr; inversion Hc; subst; reflexivity|eauto].
Qed.

Lemma select_check_length m : forall rows cols, length cols = length rows ->
  Z.of_nat (length (select (check_negatives m rows cols) rows)) = count_true (check_negatives m rows cols).
Proof.
  unfold count_true. induction rows as [|r rows IH]; intros cols L; destruct cols as [|c cols]; try discriminate; [reflexivity|].
  rewrite check_cons. cbn [select filter]. injection L as L. specialize (IH _ L).
  destruct (hit m r c); cbn [length]; lia.
Qed.

Lemma count_true_nonneg l : 0 <= count_true l.
Proof. unfold count_true. lia. Qed.

Lemma existsb_count l : existsb (fun b : bool => b) l = true <-> 0 < count_true l.
Proof.
  unfold count_true. induction l as [|b l IH]; cbn; [split; [discriminate|lia]|].
  destruct b; cbn; [split; [lia|reflexivity]|exact IH].
Qed.
Lemma existsb_count_false l : existsb (fun b : bool => b) l = false -> count_true l = 0.
Proof.
  intro H. pose proof (count_true_nonneg l). destruct (Z.eq_dec (count_true l) 0) as [E|E]; [exact E|].
  assert (0 < count_true l) as P by lia. apply existsb_count in P. congruence.
Qed.

(* replacing the hit cells: what the check sees afterwards is the check of the replacements *)
Lemma check_scatter_count m : forall rows cols new,
  length cols = length rows ->
  length new = length (select (check_negatives m rows cols) rows) ->
  count_true (check_negatives m rows (scatter (check_negatives m rows cols) cols new))
  = count_true (check_negatives m (select (check_negatives m rows cols) rows) new).
Proof.
  unfold count_true.
  induction rows as [|r rows IH]; intros cols new L Ln; destruct cols as [|c cols]; try discriminate.
  - cbn in Ln. destruct new; [reflexivity|discriminate].
  - injection L as L. rewrite check_cons in *. cbn [select] in *. destruct (hit m r c) eqn:Hh; cbn [scatter].
    + destruct new as [|y ns]; [discriminate|]. injection Ln as Ln. rewrite !check_cons. cbn [filter].
      specialize (IH cols ns L Ln). destruct (hit m r y); cbn [length]; lia.
    + rewrite check_cons, Hh. cbn [filter]. apply IH; assumption.
Qed.

Fixpoint zsum (l : list Z) : Z := match l with [] => 0 | x :: r => x + zsum r end.
Lemma zsum_app a b : zsum (a ++ b) = zsum a + zsum b.
Proof. induction a; cbn; lia. Qed.

(* ---- invariants of resample ---- *)
Section Resample.
  Variable m : mat.
  Variable w : weighting.

  (* I1: any predicate that holds on the current columns and on every column a draw can stand for
     holds on the result; the stream is consumed from the front *)
  Lemma resample_Forall (P : Z -> Prop) : forall fuel budget rows cols ds out warns rest,
    resample m w fuel budget rows cols ds = Ok (out, warns, rest) ->
    Forall P cols -> Forall (fun d => P (col_of m w d)) ds ->
    Forall P out /\ Forall (fun d => P (col_of m w d)) rest /\ exists used, ds = used ++ rest.
  Proof.
    induction fuel as [|fuel IH]; intros budget rows cols ds out warns rest H Hc Hd; cbn [resample] in H;
      destruct (existsb (fun b => b) (check_negatives m rows cols)).
    - destruct (budget_positive budget); [discriminate|].
      destruct warn_on_exhaustion; inversion H; subst; (split; [assumption|split; [assumption|exists []; reflexivity]]).
    - inversion H; subst. split; [assumption|split; [assumption|exists []; reflexivity]].
    - destruct (budget_positive budget).
      + destruct (draw_columns m w _ ds) as [[cols' ds1]| |] eqn:Ed; try discriminate.
        destruct (resample m w fuel _ _ cols' ds1) as [[[new wn] ds2]| |] eqn:Er; try discriminate.
        inversion H; subst. destruct (draw_columns_spec _ _ _ _ _ _ Ed) as [d [-> [Ld ->]]].
        apply Forall_app in Hd. destruct Hd as [Hd1 Hd2].
        assert (Forall P (map (col_of m w) d)) as Hnew by (rewrite Forall_map; exact Hd1).
        destruct (IH _ _ _ _ _ _ _ Er Hnew Hd2) as [Ho [Hr [used ->]]].
        split; [apply scatter_Forall; assumption|]. split; [exact Hr|]. exists (d ++ used). rewrite app_assoc. reflexivity.
      + destruct warn_on_exhaustion; inversion H; subst; (split; [assumption|split; [assumption|exists []; reflexivity]]).
    - inversion H; subst. split; [assumption|split; [assumption|exists []; reflexivity]].
  Qed.

  (* I2: lengths, and the observed cells that remain are exactly those reported by the warning *)
  Lemma resample_account : forall fuel budget rows cols ds out warns rest,
    resample m w fuel budget rows cols ds = Ok (out, warns, rest) ->
    length cols = length rows ->
    length out = length rows /\
    count_true (check_negatives m rows out) = zsum warns /\
    Forall (fun x => 0 < x) warns /\ (length warns <= 1)%nat.
  Proof.
    induction fuel as [|fuel IH]; intros budget rows cols ds out warns rest H L; cbn [resample] in H;
      destruct (existsb (fun b => b) (check_negatives m rows cols)) eqn:Ex.
    - destruct (budget_positive budget); [discriminate|]. unfold warn_on_exhaustion in H. inversion H; subst.
      apply existsb_count in Ex. cbn. repeat split; try lia. constructor; [exact Ex|constructor].
    - inversion H; subst. apply existsb_count_false in Ex. cbn. repeat split; try lia. constructor.
    - destruct (budget_positive budget).
      + destruct (draw_columns m w _ ds) as [[cols' ds1]| |] eqn:Ed; try discriminate.
        destruct (resample m w fuel _ _ cols' ds1) as [[[new wn] ds2]| |] eqn:Er; try discriminate.
        inversion H; subst. destruct (draw_columns_spec _ _ _ _ _ _ Ed) as [d [_ [Ld ->]]].
        assert (length (map (col_of m w) d) = length (select (check_negatives m rows cols) rows)) as L' by (rewrite map_length; exact Ld).
        destruct (IH _ _ _ _ _ _ _ Er L') as [Lo [Hc [Hp Hl]]].
        split; [rewrite scatter_length; exact L|]. split; [|split; assumption].
        rewrite check_scatter_count by assumption. exact Hc.
      + unfold warn_on_exhaustion in H. inversion H; subst.
        apply existsb_count in Ex. cbn. repeat split; try lia. constructor; [exact Ex|constructor].
    - inversion H; subst. apply existsb_count_false in Ex. cbn. repeat split; try lia. constructor.
  Qed.

  (* cells that pass the check are never touched *)
  Lemma resample_keeps : forall fuel budget rows cols ds out warns rest i r c,
    resample m w fuel budget rows cols ds = Ok (out, warns, rest) ->
    nth_error rows i = Some r -> nth_error cols i = Some c -> hit m r c = false ->
    nth_error out i = Some c.
  Proof.
    intros fuel budget rows cols ds out warns rest i r c H Hr Hc Hh.
    destruct fuel as [|fuel]; cbn [resample] in H;
      destruct (existsb (fun b => b) (check_negatives m rows cols)).
    - destruct (budget_positive budget); [discriminate|]. destruct warn_on_exhaustion; inversion H; subst; exact Hc.
    - inversion H; subst; exact Hc.
    - destruct (budget_positive budget).
      + destruct (draw_columns m w _ ds) as [[cols' ds1]| |]; try discriminate.
        destruct (resample m w fuel _ _ cols' ds1) as [[[new wn] ds2]| |]; try discriminate.
        inversion H; subst. rewrite scatter_nth_false; [exact Hc|].
        rewrite (check_nth m rows cols i r c Hr Hc), Hh. reflexivity.
      + destruct warn_on_exhaustion; inversion H; subst; exact Hc.
    - inversion H; subst; exact Hc.
  Qed.

  (* ---- the per-column loop ---- *)
  Lemma resample_cols_Forall (P : Z -> Prop) : forall budget rows cols ds out warns rest,
    resample_cols m w budget rows cols ds = Ok (out, warns, rest) ->
    Forall (Forall P) cols -> Forall (fun d => P (col_of m w d)) ds ->
    Forall (Forall P) out /\ Forall (fun d => P (col_of m w d)) rest.
  Proof.
    intros budget rows cols. induction cols as [|c cs IH]; intros ds out warns rest H Hc Hd; cbn [resample_cols] in H.
    - inversion H; subst. split; [constructor|exact Hd].
    - destruct (resample m w _ budget rows c ds) as [[[c' w1] ds1]| |] eqn:E1; try discriminate.
      destruct (resample_cols m w budget rows cs ds1) as [[[cs' w2] ds2]| |] eqn:E2; try discriminate.
      inversion H; subst. inversion Hc; subst.
      destruct (resample_Forall P _ _ _ _ _ _ _ _ E1 H2 Hd) as [Ho [Hr _]].
      destruct (IH _ _ _ _ E2 H3 Hr) as [Ho2 Hr2]. split; [constructor; assumption|exact Hr2].
  Qed.

  Definition observed_cells (rows : list Z) (out : list (list Z)) : Z :=
    zsum (map (fun col => count_true (check_negatives m rows col)) out).

  Lemma resample_cols_account : forall budget rows cols ds out warns rest,
    resample_cols m w budget rows cols ds = Ok (out, warns, rest) ->
    Forall (fun c => length c = length rows) cols ->
    length out = length cols /\ Forall (fun c => length c = length rows) out /\
    observed_cells rows out = zsum warns /\ Forall (fun x => 0 < x) warns /\ (length warns <= length cols)%nat.
  Proof.
    intros budget rows cols. induction cols as [|c cs IH]; intros ds out warns rest H Hc; cbn [resample_cols] in H.
    - inversion H; subst. cbn. repeat split; try constructor.
    - destruct (resample m w _ budget rows c ds) as [[[c' w1] ds1]| |] eqn:E1; try discriminate.
      destruct (resample_cols m w budget rows cs ds1) as [[[cs' w2] ds2]| |] eqn:E2; try discriminate.
      inversion H; subst. inversion Hc; subst.
      destruct (resample_account _ _ _ _ _ _ _ _ E1 H2) as [L1 [A1 [P1 N1]]].
      destruct (IH _ _ _ _ E2 H3) as [L2 [F2 [A2 [P2 N2]]]].
      unfold observed_cells in *. cbn [length map zsum]. rewrite zsum_app, app_length.
      repeat split; try lia.
      + constructor; assumption.
      + apply Forall_app. split; assumption.
  Qed.
End Resample.
